(* C27 — placeholder while the correspondence is being established *)
From AG Require Import SubEvents.

(* C27 — each subscription response holds exactly its own event's data and errors. *)
From AG Require Import SubEvents SubEventsProofs.
Open Scope N_scope.

(* For ALL stream configurations (per-event plans) and ALL schedules of
   push / close / open-gate / poll: if no event execution ran while another
   root field's execution was in progress, every response carries exactly
   the errors raised by its own event (what `take` returned = what its own
   execution raised), i.e. today's responses equal the per-event ones. *)
Theorem C27_atomic : forall cfg acts,
  overlapped cfg acts = false ->
  Forall (Forall good) (snd (run (init cfg) acts)) /\ responses_today cfg acts = responses_own cfg acts.
Proof. intros cfg acts H. split; [apply atomic_run; exact H|apply atomic_responses; exact H]. Qed.

(* the two sufficient conditions of the property text *)
Theorem C27_atomic_single_root_field : forall cfg acts,
  (length cfg <= 1)%nat -> responses_today cfg acts = responses_own cfg acts.
Proof. exact atomic_single. Qed.

Theorem C27_atomic_ready_resolvers : forall q S w d c n cfg acts,
  g_gated c = [] -> sub_cfg q S w d c n = Some cfg -> responses_today cfg acts = responses_own cfg acts.
Proof. exact atomic_ready. Qed.

(* known finding: two root fields, a failing nullable resolver, a suspended sibling:
   the error of fa's event is delivered with fb's event and missing from its own *)
Theorem C27_interleaved_refuted :
  with_cfg w_gates (fun cfg => (length cfg, overlapped cfg w_sched, responses_today cfg w_sched, responses_own cfg w_sched)) =
  Some (2%nat, true,
        [[]; [ORes resp_fb [err_fa]]; [ORes resp_fa []]],
        [[]; [ORes resp_fb []]; [ORes resp_fa [err_fa]]]).
Proof. exact witness_interleaved. Qed.

(* non-vacuity: the same request with ready resolvers *)
Theorem C27_nonvacuous :
  with_cfg w_nogates (fun cfg => (overlapped cfg w_sched, responses_today cfg w_sched)) =
  Some (false, [[ORes resp_fa [err_fa]]; [ORes resp_fb []]; []]).
Proof. exact witness_atomic. Qed.

(* a query or mutation through execute_stream: exactly execute's response, then the end *)
Theorem C27_query_via_stream : forall q S w d opname vars n r,
  impl_exec q S w d opname vars n = Ok r ->
  stream_of_query q S w d opname vars n = Ok [ORes (rs_data r) (rs_errors r); OEnd].
Proof. exact query_via_stream. Qed.

Check C27_atomic : forall cfg acts, overlapped cfg acts = false ->
  Forall (Forall good) (snd (run (init cfg) acts)) /\ responses_today cfg acts = responses_own cfg acts.
Check C27_atomic_single_root_field : forall cfg acts, (length cfg <= 1)%nat -> responses_today cfg acts = responses_own cfg acts.

Print Assumptions C27_atomic.
Print Assumptions C27_atomic_single_root_field.
Print Assumptions C27_atomic_ready_resolvers.
Print Assumptions C27_interleaved_refuted.
Print Assumptions C27_nonvacuous.
Print Assumptions C27_query_via_stream.

(* C30 — extensions are transparent and run their hooks in lifecycle order.
   Model: theories/Ext.v; proofs: theories/ExtProofs.v. *)
From AG Require Import Ext ExtProofs.
Open Scope N_scope.

(* 1. every hook kind: a chain of pass-through hooks (each calls next once with
   its own arguments and returns next's result) computes exactly the base *)
Theorem C30_passthrough : forall (A R : Type) (chain : list (@hook A R)) base a,
    Forall passthrough chain -> fst (run chain base a) = fst (base a).
Proof. exact @run_passthrough_value. Qed.
Check C30_passthrough : forall (A R : Type) (chain : list (@hook A R)) base a,
    Forall passthrough chain -> fst (run chain base a) = fst (base a).
Print Assumptions C30_passthrough.

(* 2. nesting: enter_1 .. enter_n, base, exit_n .. exit_1, for every chain of
   recording extensions and every hook kind *)
Theorem C30_nesting : forall (A R : Type) l kind okf (base : A -> M R) a,
    run (rec_chain l kind okf) base a =
    (fst (base a),
     map (fun e => Enter e (kind a)) l ++ snd (base a) ++
     map (fun e => Exit e (kind a) (okf (fst (base a)))) (rev l)).
Proof. exact @run_rec_chain. Qed.
Check C30_nesting : forall (A R : Type) l kind okf (base : A -> M R) a,
    run (rec_chain l kind okf) base a =
    (fst (base a),
     map (fun e => Enter e (kind a)) l ++ snd (base a) ++
     map (fun e => Exit e (kind a) (okf (fst (base a)))) (rev l)).
Print Assumptions C30_nesting.

(* 3. the execute runner: pass-through extensions hand no data to the factory;
   in general the factory receives the extensions' data merged outer to inner *)
Theorem C30_execute_passthrough : forall (D R : Type) (merge : D -> D -> D) (l : list N) okf (factory : option D -> M R) op,
    next_execute merge (map (fun e => rec_xhook e okf) l) factory op =
    (fst (factory None), wrap l (HExecute op) (okf (fst (factory None))) (snd (factory None))).
Proof. exact @next_execute_rec. Qed.
Check C30_execute_passthrough : forall (D R : Type) (merge : D -> D -> D) (l : list N) okf (factory : option D -> M R) op,
    next_execute merge (map (fun e => rec_xhook e okf) l) factory op =
    (fst (factory None), wrap l (HExecute op) (okf (fst (factory None))) (snd (factory None))).
Print Assumptions C30_execute_passthrough.

Theorem C30_execute_data_order : forall (D R : Type) (merge : D -> D -> D) (ds : list (option D)) (factory : option D -> M R) acc op d0,
    run_execute merge (map data_hook ds) factory acc op d0 = factory (fold_left (merge_opt merge) (d0 :: ds) acc).
Proof. exact @run_execute_data. Qed.
Check C30_execute_data_order : forall (D R : Type) (merge : D -> D -> D) (ds : list (option D)) (factory : option D -> M R) acc op d0,
    run_execute merge (map data_hook ds) factory acc op d0 = factory (fold_left (merge_opt merge) (d0 :: ds) acc).
Print Assumptions C30_execute_data_order.

(* 4. lifecycle: the hook trace of ANY request (any schema, world, document or
   parse failure, validation outcome, operation name, mode, number of
   extensions, fuel) is request( prepare, parse, validation, execute( nested
   resolve hooks ) ) cut at the first failing phase; each phase at most once,
   in that order, every hook nested in registration order *)
Theorem C30_lifecycle : forall q S w od opname vars cf n resp evs lf,
    x_request q S w od opname vars cf n = Ok (resp, evs, lf) -> lifecycle (ids (c_k cf)) evs.
Proof. exact request_lifecycle. Qed.
Check C30_lifecycle : forall q S w od opname vars cf n resp evs lf,
    x_request q S w od opname vars cf n = Ok (resp, evs, lf) -> lifecycle (ids (c_k cf)) evs.
Print Assumptions C30_lifecycle.

(* 5. resolve hooks: during execution every extension sees exactly one field
   hook per resolver invocation and one item hook per list item, well nested *)
Theorem C30_resolve_hooks_exec : forall q S w frags vars vdefs ch n st rt nid sels p r,
    x_set q S w frags vars vdefs ch n st rt nid sels p = Ok r ->
    nested ch (x_ev r) /\
    (forall e, cnt e is_field (x_ev r) = (count_occ N.eq_dec ch e * length (x_tr r))%nat) /\
    (forall e, cnt e is_item (x_ev r) = (count_occ N.eq_dec ch e * x_ni r)%nat).
Proof. intros q S w frags vars vdefs ch n. exact (proj1 (events_all q S w frags vars vdefs ch n)). Qed.
Check C30_resolve_hooks_exec : forall q S w frags vars vdefs ch n st rt nid sels p r,
    x_set q S w frags vars vdefs ch n st rt nid sels p = Ok r ->
    nested ch (x_ev r) /\
    (forall e, cnt e is_field (x_ev r) = (count_occ N.eq_dec ch e * length (x_tr r))%nat) /\
    (forall e, cnt e is_item (x_ev r) = (count_occ N.eq_dec ch e * x_ni r)%nat).
Print Assumptions C30_resolve_hooks_exec.

Theorem C30_resolve_count : forall q S w od opname vars cf n resp evs lf e,
    c_intro cf = false ->
    x_request q S w od opname vars cf n = Ok (Some resp, evs, lf) ->
    cnt e is_field evs = ((if (e <? c_k cf)%N then 1 else 0) * length (rs_trace resp))%nat.
Proof. intros. rewrite <- ids_count. eapply request_resolve_count; eauto. Qed.
Check C30_resolve_count : forall q S w od opname vars cf n resp evs lf e,
    c_intro cf = false ->
    x_request q S w od opname vars cf n = Ok (Some resp, evs, lf) ->
    cnt e is_field evs = ((if (e <? c_k cf)%N then 1 else 0) * length (rs_trace resp))%nat.
Print Assumptions C30_resolve_count.

(* 6. transparency of execution: with any chain of recording extensions, unless
   a registry lookup by static type name fails (x_lf), value, errors and
   resolver invocations are those of the run without extensions *)
Theorem C30_transparent_exec : forall q S w frags vars vdefs ch n st rt nid sels p r,
    x_set q S w frags vars vdefs ch n st rt nid sels p = Ok r -> x_lf r = false ->
    exists r0, x_set q S w frags vars vdefs [] n st rt nid sels p = Ok r0 /\
               x_v r0 = x_v r /\ x_es r0 = x_es r /\ x_tr r0 = x_tr r /\ x_lf r0 = false.
Proof. intros q S w frags vars vdefs ch n. exact (proj1 (transparent_all q S w frags vars vdefs ch n)). Qed.
Check C30_transparent_exec : forall q S w frags vars vdefs ch n st rt nid sels p r,
    x_set q S w frags vars vdefs ch n st rt nid sels p = Ok r -> x_lf r = false ->
    exists r0, x_set q S w frags vars vdefs [] n st rt nid sels p = Ok r0 /\
               x_v r0 = x_v r /\ x_es r0 = x_es r /\ x_tr r0 = x_tr r /\ x_lf r0 = false.
Print Assumptions C30_transparent_exec.

Theorem C30_transparent_request : forall q S w od opname vars cf n resp evs,
    x_request q S w od opname vars cf n = Ok (resp, evs, false) ->
    exists evs0, x_request q S w od opname vars (with_k cf 0) n = Ok (resp, evs0, false).
Proof. exact request_transparent. Qed.
Check C30_transparent_request : forall q S w od opname vars cf n resp evs,
    x_request q S w od opname vars cf n = Ok (resp, evs, false) ->
    exists evs0, x_request q S w od opname vars (with_k cf 0) n = Ok (resp, evs0, false).
Print Assumptions C30_transparent_request.

(* the known classes are narrow: a field that the runtime object type defines,
   collected under that type's own name, never fails the lookup (a failure needs
   a foreign static type name or a field name unknown to the registry) *)
Theorem C30_known_class_needs_foreign_static_type : forall S rt nm t,
    obj_field_ty S rt nm = Some t -> lookup_ret S rt nm = Some t.
Proof. exact lookup_concrete. Qed.
Check C30_known_class_needs_foreign_static_type : forall S rt nm t,
    obj_field_ty S rt nm = Some t -> lookup_ret S rt nm = Some t.
Print Assumptions C30_known_class_needs_foreign_static_type.

(* 7. the full statement is refuted: `mutation { id }` as an introspection-only
   request runs on EmptyMutation, whose static name is not registered *)
Theorem C30_transparent_refuted :
  exists q S w d cf n r1 e1 r0 e0,
    x_request q S w (Some d) None [] cf n = Ok (r1, e1, true) /\
    x_request q S w (Some d) None [] (with_k cf 0) n = Ok (r0, e0, false) /\
    oresp_same r1 r0 = false /\
    r1 = Some {| rs_data := VNull; rs_errors := [[]]; rs_trace := [] |} /\
    r0 = Some {| rs_data := VObj [(6, VNull)]; rs_errors := []; rs_trace := [] |}.
Proof. exact transparent_refuted. Qed.
Check C30_transparent_refuted :
  exists q S w d cf n r1 e1 r0 e0,
    x_request q S w (Some d) None [] cf n = Ok (r1, e1, true) /\
    x_request q S w (Some d) None [] (with_k cf 0) n = Ok (r0, e0, false) /\
    oresp_same r1 r0 = false /\
    r1 = Some {| rs_data := VNull; rs_errors := [[]]; rs_trace := [] |} /\
    r0 = Some {| rs_data := VObj [(6, VNull)]; rs_errors := []; rs_trace := [] |}.
Print Assumptions C30_transparent_refuted.

Theorem C30_transparent_refuted_fast :
  exists q S w d cf n r1 e1 r0 e0,
    c_fast cf = true /\
    x_request q S w (Some d) None [] cf n = Ok (r1, e1, true) /\
    x_request q S w (Some d) None [] (with_k cf 0) n = Ok (r0, e0, false) /\
    oresp_same r1 r0 = false /\
    r1 = Some {| rs_data := VNull; rs_errors := [[]]; rs_trace := [] |} /\
    r0 = Some {| rs_data := VObj [(9, VNull); (6, VInt 0)]; rs_errors := []; rs_trace := [(0, 6)] |}.
Proof. exact transparent_refuted_fast. Qed.
Check C30_transparent_refuted_fast :
  exists q S w d cf n r1 e1 r0 e0,
    c_fast cf = true /\
    x_request q S w (Some d) None [] cf n = Ok (r1, e1, true) /\
    x_request q S w (Some d) None [] (with_k cf 0) n = Ok (r0, e0, false) /\
    oresp_same r1 r0 = false /\
    r1 = Some {| rs_data := VNull; rs_errors := [[]]; rs_trace := [] |} /\
    r0 = Some {| rs_data := VObj [(9, VNull); (6, VInt 0)]; rs_errors := []; rs_trace := [(0, 6)] |}.
Print Assumptions C30_transparent_refuted_fast.

(* non-vacuity: a query with a list under two extensions: executed, no failing
   lookup, 36 events accepted by the lifecycle checker *)
Theorem C30_nonvacuous :
  match x_request quirks_today S0 w0 (Some d_query) None [] (cf_norm 2) 10 with
  | Ok (Some r, evs, false) =>
      value_eqb (rs_data r) (VObj [(6, VInt 0); (8, VList [VInt 4; VInt 5])]) &&
      Nat.eqb (length evs) 36 && lifecycle_ok 2 evs (Some (length (rs_trace r)))
  | _ => false
  end = true.
Proof. exact transparent_nonvacuous. Qed.
Check C30_nonvacuous :
  match x_request quirks_today S0 w0 (Some d_query) None [] (cf_norm 2) 10 with
  | Ok (Some r, evs, false) =>
      value_eqb (rs_data r) (VObj [(6, VInt 0); (8, VList [VInt 4; VInt 5])]) &&
      Nat.eqb (length evs) 36 && lifecycle_ok 2 evs (Some (length (rs_trace r)))
  | _ => false
  end = true.
Print Assumptions C30_nonvacuous.

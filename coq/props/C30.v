(* C30 — extensions are transparent and run their hooks in lifecycle order. *)
From AG Require Import Ext ExtProofs.
Open Scope N_scope.

(* every hook kind: a chain of pass-through hooks computes exactly the base function *)
Theorem C30_passthrough : forall (A R : Type) (chain : list (@hook A R)) base a,
    Forall passthrough chain -> fst (run chain base a) = fst (base a).
Proof. exact @run_passthrough_value. Qed.
Check C30_passthrough : forall (A R : Type) (chain : list (@hook A R)) base a,
    Forall passthrough chain -> fst (run chain base a) = fst (base a).
Print Assumptions C30_passthrough.

(* C08 — stub, theorems follow *)
From AG Require Import Validators.

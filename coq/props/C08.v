(* C08 — built-in input validators accept exactly the values satisfying their
   predicate.  Only property theorems here: each is closed by [exact], the
   central statements are pinned by [Check], assumptions are printed.
   Everything in this file is plain Z / N / list reasoning (no axioms); the
   link between the integer->double rounding of the model and IEEE-754 as
   formalised by Flocq is in C08_flocq theorems at the end (Flocq's axioms). *)
From AG Require Import Validators ValidatorsProofs ValidatorsFlocq.
Open Scope Z_scope.

(* --- integer value, integer bound: exact on the whole i64 range ---------- *)
Theorem C08_int_int_maximum_exact : forall x n, in_i64 x ->
  (run_num OMax (BI n) (NI x) = Accept <-> x <= n).
Proof. exact int_int_max_iff. Qed.
Theorem C08_int_int_minimum_exact : forall x n, in_i64 x ->
  (run_num OMin (BI n) (NI x) = Accept <-> n <= x).
Proof. exact int_int_min_iff. Qed.
Theorem C08_int_int_multiple_of_exact : forall x n,
  in_i64 x -> x <> 0 -> n <> 0 -> ~ (x = I64_MIN /\ n = -1) ->
  (run_num OMul (BI n) (NI x) = Accept <-> exists k, x = k * n).
Proof. exact int_int_mul_iff. Qed.

(* --- every numeric validator on every numeric value outside the classes --- *)
Theorem C08_numeric_exact : forall strict op b x,
  pair_class2 strict (KNum op b) (ANum x) = 0%N ->
  run_num op b x = of_bool (spec_num op b x).
Proof. exact num_exact. Qed.

(* --- strings, items -------------------------------------------------------- *)
Theorem C08_len_exact : forall op n s,
  run_len op n s = Accept <->
  match op with
  | LMaxLength => byte_len s <= n
  | LMinLength => n <= byte_len s
  | LCharsMax => Z.of_nat (length s) <= n
  | LCharsMin => n <= Z.of_nat (length s)
  end.
Proof. exact len_iff. Qed.
Theorem C08_byte_char_len : forall s, char_len s <= byte_len s <= 4 * char_len s.
Proof. exact byte_char_len. Qed.
Theorem C08_byte_len_app : forall s t, byte_len (s ++ t) = byte_len s + byte_len t.
Proof. exact byte_len_app. Qed.
Theorem C08_items_exact : forall mx n l,
  run_items mx n l = Accept <-> if mx then Z.of_nat (length l) <= n else n <= Z.of_nat (length l).
Proof. exact items_iff. Qed.

(* --- one argument / input field, a whole field, list mode ------------------ *)
Theorem C08_slot_exact : forall matches strict s,
  wt_slot s = true -> slot_class strict s = 0%N ->
  run_slot matches s = of_bool (spec_slot matches s).
Proof. exact slot_exact. Qed.
Theorem C08_request_exact : forall matches strict ss,
  forallb wt_slot ss = true -> req_class strict ss = 0%N ->
  run_req matches strict ss = of_bool (spec_req matches ss).
Proof. exact req_exact. Qed.
Theorem C08_list_mode : forall m strict cfg l,
  wt_slot (cfg, true, AList l) = true -> slot_class strict (cfg, true, AList l) = 0%N ->
  (forall k, In k cfg -> is_list_kind k = false) ->
  (run_slot m (cfg, true, AList l) = Accept <->
   forall k it, In k cfg -> In it l -> it = ANone \/ spec_kind m k it = true).
Proof. exact list_mode_iff. Qed.
Theorem C08_check_sound : forall tbl strict ss code,
  forallb wt_slot ss = true -> req_class strict ss = 0%N ->
  check_case (tbl, strict, ss, code) <> 2%N /\
  (res_of_code code = run_req (lookup tbl) strict ss -> check_case (tbl, strict, ss, code) = 0%N).
Proof. exact check_sound. Qed.

(* --- known findings: the full statement is false of the faithful model ----- *)
Theorem C08_u64_wrap_refuted :
  exists x n, 0 <= x < 2 ^ 64 /\ 0 <= n /\
    run_num OMax (BI n) (NI x) = Accept /\ spec_num OMax (BI n) (NI x) = false /\
    run_req no_match false [([KNum OMax (BI n)], false, ANum (NI x))] = Accept /\
    spec_req no_match [([KNum OMax (BI n)], false, ANum (NI x))] = false /\
    run_req no_match true [([KNum OMin (BI n)], false, ANum (NI x))] = Reject /\
    spec_req no_match [([KNum OMin (BI n)], false, ANum (NI x))] = true.
Proof. exact u64_wrap_refuted. Qed.
(* ... and it is wrong for every such value and every bound the macro can express *)
Theorem C08_u64_wrap_always : forall x n,
  2 ^ 63 <= x < 2 ^ 64 -> 0 <= n < 2 ^ 63 ->
  run_num OMax (BI n) (NI x) = Accept /\ ~ x <= n /\
  run_num OMin (BI n) (NI x) = Reject /\ n <= x.
Proof. exact u64_wrap_always. Qed.
Theorem C08_float_value_int_bound_refuted :
  run_num OMax (BI 10) (NF 4622100592565682176) = Accept /\ spec_num OMax (BI 10) (NF 4622100592565682176) = false /\
  run_num OMin (BI 0) (NF 13826050856027422720) = Accept /\ spec_num OMin (BI 0) (NF 13826050856027422720) = false /\
  run_num OMul (BI 3) (NF 4619004367821864960) = Accept /\ spec_num OMul (BI 3) (NF 4619004367821864960) = false.
Proof. exact float_value_int_bound_refuted. Qed.
Theorem C08_int_value_float_bound_refuted :
  run_num OMax (BF 4845873199050653696) (NI (2 ^ 53 + 1)) = Accept /\
  spec_num OMax (BF 4845873199050653696) (NI (2 ^ 53 + 1)) = false /\
  run_num OMul (BF 4613937818241073152) (NI (2 ^ 53 + 1)) = Reject /\
  spec_num OMul (BF 4613937818241073152) (NI (2 ^ 53 + 1)) = true.
Proof. exact int_value_float_bound_refuted. Qed.
Theorem C08_multiple_of_zero_refuted : forall n,
  run_num OMul (BI n) (NI 0) = Reject /\ spec_num OMul (BI n) (NI 0) = true.
Proof. exact multiple_of_zero_refuted. Qed.
Theorem C08_multiple_of_panic_refuted :
  run_req no_match false [([KNum OMul (BI 0)], false, ANum (NI 5))] = Panicked /\
  run_num OMul (BI (-1)) (NI I64_MIN) = Panicked.
Proof. exact multiple_of_panic_refuted. Qed.
Theorem C08_multiple_of_bound_zero_panics : forall x, in_i64 x -> x <> 0 ->
  run_num OMul (BI 0) (NI x) = Panicked.
Proof. exact multiple_of_bound_zero_panics. Qed.
Theorem C08_length_measures_differ :
  run_len LMaxLength 5 [20320; 22909]%N = Reject /\ run_len LCharsMax 5 [20320; 22909]%N = Accept.
Proof. exact length_measures_differ. Qed.

(* --- non-vacuity ------------------------------------------------------------ *)
Theorem C08_nonvacuous :
  forallb wt_slot demo_req = true /\ req_class true demo_req = 0%N /\
  run_req (fun _ _ => true) true demo_req = Accept /\ spec_req (fun _ _ => true) demo_req = true /\
  run_req no_match true demo_req = Reject.
Proof. exact demo_req_ok. Qed.

(* --- the integer -> double conversion of the model is IEEE-754 round-to-nearest-even (Flocq) *)
Theorem C08_flocq_rne_small : forall z, Z.abs z < 2 ^ 53 -> fl_real (rne z) = flocq_of_Z z.
Proof. exact flocq_rne_small. Qed.
Theorem C08_flocq_rne_witnesses : Forall (fun z => fl_same (rne z) (flocq_int_to_f64 z) = true) rne_witnesses.
Proof. exact flocq_rne_witnesses. Qed.

Check C08_int_int_maximum_exact : forall x n, in_i64 x -> (run_num OMax (BI n) (NI x) = Accept <-> x <= n).
Check C08_int_int_multiple_of_exact : forall x n,
  in_i64 x -> x <> 0 -> n <> 0 -> ~ (x = I64_MIN /\ n = -1) ->
  (run_num OMul (BI n) (NI x) = Accept <-> exists k, x = k * n).
Check C08_request_exact : forall matches strict ss,
  forallb wt_slot ss = true -> req_class strict ss = 0%N ->
  run_req matches strict ss = of_bool (spec_req matches ss).
Check C08_u64_wrap_always : forall x n,
  2 ^ 63 <= x < 2 ^ 64 -> 0 <= n < 2 ^ 63 ->
  run_num OMax (BI n) (NI x) = Accept /\ ~ x <= n /\ run_num OMin (BI n) (NI x) = Reject /\ n <= x.

Print Assumptions C08_int_int_maximum_exact.
Print Assumptions C08_int_int_minimum_exact.
Print Assumptions C08_int_int_multiple_of_exact.
Print Assumptions C08_numeric_exact.
Print Assumptions C08_len_exact.
Print Assumptions C08_byte_char_len.
Print Assumptions C08_byte_len_app.
Print Assumptions C08_items_exact.
Print Assumptions C08_slot_exact.
Print Assumptions C08_request_exact.
Print Assumptions C08_list_mode.
Print Assumptions C08_check_sound.
Print Assumptions C08_u64_wrap_refuted.
Print Assumptions C08_u64_wrap_always.
Print Assumptions C08_float_value_int_bound_refuted.
Print Assumptions C08_int_value_float_bound_refuted.
Print Assumptions C08_multiple_of_zero_refuted.
Print Assumptions C08_multiple_of_panic_refuted.
Print Assumptions C08_multiple_of_bound_zero_panics.
Print Assumptions C08_length_measures_differ.
Print Assumptions C08_nonvacuous.
Print Assumptions C08_flocq_rne_small.
Print Assumptions C08_flocq_rne_witnesses.

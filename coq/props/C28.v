(* C28 — DataLoader delivers correct batched results under every interleaving.
   Only property theorems here: each is closed by [exact], its statement is
   pinned by [Check] and its assumptions are printed.

   run cf steps : the state of the DataLoader machine (Loader.v) after ANY
   sequence of steps (requests, timer firings, loader answers, cancellations,
   feeds, in any order, valid or not).  st_calls = the Loader::load call log,
   st_done = the completed loads with their results, st_reqs = what each
   request computed under the lock (keys_set, use_cache_values),
   st_answers = what the loader answered to which task. *)
From AG Require Import DLCache Loader LoaderProofs LoaderTraceProofs.
Open Scope N_scope.

(* no batch contains a key twice *)
Theorem C28_no_dup_in_batch : forall cf steps t ks,
    (1 <= c_max cf)%nat -> In (t, ks) (st_calls (run cf steps)) -> NoDup ks.
Proof. exact dl_no_dup_in_batch. Qed.

(* a batch exceeds max_batch_size by less than the largest single request *)
Theorem C28_batch_bound : forall cf steps t ks,
    (1 <= c_max cf)%nat -> In (t, ks) (st_calls (run cf steps)) ->
    (length ks < c_max cf + maxreq steps)%nat.
Proof. exact dl_batch_bound. Qed.

(* every requested key is served from the cache, or waits in Requests.keys,
   or is in a batch handed to the loader — at every later moment *)
Theorem C28_every_key_loaded : forall cf steps w ks rest k,
    mem w (st_used (run cf steps)) = false -> In k ks ->
    let st := run cf steps in
    let use := snd (fst (lookup cf (st_cache st) ks)) in
    let st' := run cf (steps ++ SRequest w ks :: rest) in
    assoc k use <> None \/ dispatched st' k.
Proof. exact dl_every_key_loaded. Qed.

(* keys that wait are fewer than max_batch_size and a timer task is armed;
   when it fires it hands all of them to the loader *)
Theorem C28_keys_waiting : forall cf steps,
    (1 <= c_max cf)%nat ->
    let st := run cf steps in
    (length (st_keys st) < c_max cf)%nat /\
    (st_pending st <> [] -> exists t, find_task t (st_tasks st) = Some TTimer).
Proof. exact dl_keys_waiting. Qed.

Theorem C28_fire_dispatches : forall st t,
    NoDup (map fst (st_tasks st)) ->
    find_task t (st_tasks st) = Some TTimer -> st_keys st <> [] ->
    st_calls (mfire st t) = st_calls st ++ [(t, st_keys st)] /\
    st_keys (mfire st t) = [] /\ st_pending (mfire st t) = [] /\
    find_task t (st_tasks (mfire st t)) = Some (TLoad (st_keys st) (st_pending st)).
Proof. exact dl_fire_dispatches. Qed.

Theorem C28_task_ids : forall cf steps, (1 <= c_max cf)%nat -> NoDup (map fst (st_tasks (run cf steps))).
Proof. exact dl_task_ids. Qed.

(* a completed load holds exactly the cache values of its request plus the
   loader's values for its other keys from the batch that contains them, or
   that batch's error *)
Theorem C28_values : forall cf steps w r,
    (1 <= c_max cf)%nat -> In (w, r) (st_done (run cf steps)) ->
    exists need use, In (w, (need, use)) (st_reqs (run cf steps)) /\
      ((need = [] /\ r = WOk (canon_kv use)) \/
       (exists t ans ks, In (t, ans) (st_answers (run cf steps)) /\ In (t, ks) (st_calls (run cf steps)) /\
                         incl need ks /\
                         r = match ans with
                             | LOk vals => WOk (canon_kv (picks need vals ++ use))
                             | LErr e => WErr e
                             end)).
Proof. exact dl_values. Qed.

(* what a request logs is its lookup in the cache of that moment *)
Theorem C28_request_logs : forall cf st w ks,
    mem w (st_used st) = false ->
    st_reqs (mrequest cf st w ks) =
      st_reqs st ++ [(w, (snd (lookup cf (st_cache st) ks), snd (fst (lookup cf (st_cache st) ks))))].
Proof. exact request_logs. Qed.

(* progress: a waiting load is covered by an armed timer or by a task that is
   awaiting the loader with a batch containing its keys; the answer reaches
   every sender that was not cancelled *)
Theorem C28_progress : forall cf steps w,
    (1 <= c_max cf)%nat -> mem w (waiting_ids (run cf steps)) = true ->
    let st := run cf steps in
    (exists p t, In p (st_pending st) /\ p_w p = w /\ find_task t (st_tasks st) = Some TTimer) \/
    (exists t ks senders p, find_task t (st_tasks st) = Some (TLoad ks senders) /\ In p senders /\ p_w p = w /\
                            In (t, ks) (st_calls st) /\ incl (p_keys p) ks).
Proof. exact dl_progress. Qed.

Theorem C28_done_completes : forall cf st t r ks senders p,
    find_task t (st_tasks st) = Some (TLoad ks senders) -> In p senders ->
    mem (p_w p) (st_cancelled st) = false ->
    In (p_w p, result p r) (st_done (mdone cf st t r)).
Proof. exact dl_done_completes. Qed.


(* the trace specification (Loader.v: tstep / trace_ok, written without the
   machine: reference cache fed from the trace, batches handed to the loader,
   per-request cache snapshot) accepts EVERY trace of the machine, for every
   schedule; [complete] may be claimed only when no task is left *)
Theorem C28_machine_meets_spec : forall cf steps complete,
    wf_cfg cf = true ->
    (complete = true -> st_tasks (run cf steps) = []) ->
    trace_ok cf t_init (combine steps (mtrace cf (init cf) steps)) complete = true.
Proof. exact c28_machine_meets_spec. Qed.

(* hence an observed schedule that agrees with the machine passes the checker *)
Theorem C28_check_case_agree : forall cf l complete,
    wf_cfg cf = true ->
    (complete = true -> st_tasks (run cf (map fst l)) = []) ->
    map snd l = mtrace cf (init cf) (map fst l) ->
    trace_ok cf t_init l complete = true.
Proof. exact c28_check_case_agree. Qed.

(* what the specification demands of a load completing on a loader answer:
   requested, not done, not cancelled; the answered batch was handed to the
   loader and contains every key the cache did not serve; no foreign key; for
   every requested key exactly the cached value, else the loader's, else none *)
Theorem C28_spec_done_values : forall ts t vals w l,
    done_ok ts (SDone t (LOk vals)) (w, WOk l) = true ->
    mem w (t_done ts) = false /\ mem w (t_canc ts) = false /\
    exists rq b, assoc w (t_reqs ts) = Some rq /\ assoc t (t_open ts) = Some b /\
      (forall k, In k (r_need rq) -> In k b) /\
      (forall k, In k (map fst l) -> In k (r_ks rq)) /\
      (forall k, In k (r_ks rq) -> assoc k l = value_of (r_snap rq) vals k).
Proof. exact done_ok_meaning. Qed.

Theorem C28_nonvacuous :
  st_calls (run demo_cfg demo_steps) = [(1, [1; 2]); (0, [2]); (3, [0; 3])] /\
  st_done (run demo_cfg demo_steps) =
    [(0, WOk [(0, 900); (1, 201)]); (1, WOk [(1, 201); (2, 202)]); (3, WOk [(1, 201); (3, 403)])] /\
  waiting_ids (run demo_cfg demo_steps) = [] /\ st_tasks (run demo_cfg demo_steps) = [].
Proof. exact dl_nonvacuous. Qed.

Check C28_no_dup_in_batch : forall cf steps t ks,
    (1 <= c_max cf)%nat -> In (t, ks) (st_calls (run cf steps)) -> NoDup ks.
Check C28_batch_bound : forall cf steps t ks,
    (1 <= c_max cf)%nat -> In (t, ks) (st_calls (run cf steps)) ->
    (length ks < c_max cf + maxreq steps)%nat.

Check C28_machine_meets_spec : forall cf steps complete,
    wf_cfg cf = true ->
    (complete = true -> st_tasks (run cf steps) = []) ->
    trace_ok cf t_init (combine steps (mtrace cf (init cf) steps)) complete = true.

Print Assumptions C28_no_dup_in_batch.
Print Assumptions C28_batch_bound.
Print Assumptions C28_every_key_loaded.
Print Assumptions C28_keys_waiting.
Print Assumptions C28_fire_dispatches.
Print Assumptions C28_task_ids.
Print Assumptions C28_values.
Print Assumptions C28_request_logs.
Print Assumptions C28_progress.
Print Assumptions C28_done_completes.
Print Assumptions C28_machine_meets_spec.
Print Assumptions C28_check_case_agree.
Print Assumptions C28_spec_done_values.
Print Assumptions C28_nonvacuous.

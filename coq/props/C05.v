(* C05 — responses do not depend on the order in which concurrent resolvers complete. *)
From AG Require Import Sched.

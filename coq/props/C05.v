(* C05 — responses do not depend on the order in which concurrent resolvers
   complete; and the serial half of C04 (mutation root fields run one at a time,
   in document order).  Model: theories/Sched.v (future tree of the static
   executor: try_join_all as futures-util's small TryJoinAll polls it, the serial
   loop of resolve_container_serial, Option catch, gated resolvers); a schedule is
   the order in which the gates are opened; [run s t = Some r] means the schedule
   lets the request complete (it is fair for t) and r is the response. *)
From AG Require Import Sched SchedProofs SchedCheck SchedCheckProofs.
From Coq Require Import Permutation.
Open Scope N_scope.

(* (a) for ALL trees and ALL fair schedules the response data is the same *)
Theorem C05_data : forall t s1 s2 r1 r2,
  run s1 t = Some r1 -> run s2 t = Some r2 -> sr_data r1 = sr_data r2.
Proof. exact data_schedule_independent. Qed.
Check C05_data : forall t s1 s2 r1 r2, run s1 t = Some r1 -> run s2 t = Some r2 -> sr_data r1 = sr_data r2.
Print Assumptions C05_data.

(* (b) the multiset of error paths is the same when no try_join_all has a failing
   child next to another child that raises any error (race_free) *)
Theorem C05_errors : forall t s1 s2 r1 r2,
  race_free t = true -> run s1 t = Some r1 -> run s2 t = Some r2 ->
  Permutation (sr_errors r1) (sr_errors r2).
Proof. exact errors_schedule_independent. Qed.
Check C05_errors : forall t s1 s2 r1 r2, race_free t = true -> run s1 t = Some r1 -> run s2 t = Some r2 ->
  Permutation (sr_errors r1) (sr_errors r2).
Print Assumptions C05_errors.

(* both are what can be read off the tree without any schedule *)
Theorem C05_denotation : forall s t r, run s t = Some r ->
  sr_data r = ref_data t /\ (race_free t = true -> Permutation (sr_errors r) (ref_errors t)).
Proof. intros s t r H. split; [exact (run_data s t r H)|intros R; exact (run_errors s t r R H)]. Qed.
Print Assumptions C05_denotation.

(* and what the run with every resolver ready answers (which always completes) *)
Theorem C05_same_as_ready_run : forall t s r, fresh t = true -> run s t = Some r ->
  exists r0, run [] (ungate t) = Some r0 /\ sr_data r = sr_data r0 /\
             (race_free t = true -> Permutation (sr_errors r) (sr_errors r0)).
Proof. exact same_as_ready_run. Qed.
Print Assumptions C05_same_as_ready_run.

(* the quantifier "all fair schedules" is never empty: every tree has a schedule that lets it complete *)
Theorem C05_fair_schedule_exists : forall t, exists s r, run s t = Some r.
Proof. exact fair_schedule_exists. Qed.
Print Assumptions C05_fair_schedule_exists.

(* the per-case verdict never reports "model violates the property outside the known classes" *)
Theorem C05_verdict_sound : forall t s m ready,
  fresh t = true -> known_class t = 0 -> run s t = Some m -> run [] (ungate t) = Some ready ->
  meets t ready m = true.
Proof. exact verdict_sound. Qed.
Print Assumptions C05_verdict_sound.

(* refuted today, class 1 (uncaught-race): { id score } with both resolvers failing at
   non-null positions; opening the gate of id first reports only id's error, opening score's
   first only score's *)
Theorem C05_uncaught_race_refuted :
  errors_under [0%nat] x_race = Some [[PF 23]] /\ errors_under [1%nat] x_race = Some [[PF 25]] /\
  class_of x_race = Some 1.
Proof. exact w_uncaught_race. Qed.
Print Assumptions C05_uncaught_race_refuted.

(* refuted today, class 2 (uncaught-error-drops-sibling-errors): { a { id } score } with a.id
   (caught at a) and score (uncaught) failing: the error at a.id is reported only if a.id
   completes before score *)
Theorem C05_sibling_drop_refuted :
  errors_under [0%nat; 1%nat] x_drop = Some [[PF 25]; [PF 20; PF 23]] /\
  errors_under [1%nat] x_drop = Some [[PF 25]] /\
  class_of x_drop = Some 2.
Proof. exact w_sibling_drop. Qed.
Print Assumptions C05_sibling_drop_refuted.

(* non-vacuity: a race-free tree with five gates and two failing resolvers; two fair
   schedules give the same data and the same errors in a different order; an unfair one gives None *)
Theorem C05_nonvacuous :
  class_of x_caught = Some 0 /\
  errors_under [0; 1; 3; 2; 4]%nat x_caught = Some [[PF 20; PF 23]; [PF 30; PF 23]] /\
  errors_under [1; 0; 3; 2; 4]%nat x_caught = Some [[PF 30; PF 23]; [PF 20; PF 23]] /\
  data_under [0; 1; 3; 2; 4]%nat x_caught = Some (VObj [(20, VNull); (30, VNull); (24, VStr [110])]) /\
  data_under [1; 0; 3; 2; 4]%nat x_caught = Some (VObj [(20, VNull); (30, VNull); (24, VStr [110])]) /\
  errors_under [0; 1]%nat x_caught = None.
Proof. exact w_caught_reordered. Qed.
Print Assumptions C05_nonvacuous.

(* ---- C04, second half: mutation root fields are executed one at a time, in order ---- *)
(* after ANY schedule prefix the event log splits into consecutive segments, the i-th
   holding only events of root field i and of resolvers beneath it *)
Theorem C04_serial : forall kd done cs s f n l,
  run_log s (FSeq kd done cs) = (f, n, l) -> seg_ok (map all_events cs) (evs_of l).
Proof. exact serial_log. Qed.
Check C04_serial : forall kd done cs s f n l,
  run_log s (FSeq kd done cs) = (f, n, l) -> seg_ok (map all_events cs) (evs_of l).
Print Assumptions C04_serial.

(* positional form: when the root fields have different events (distinct response keys),
   no event (Start or End) of root field j or of anything beneath it precedes an event of
   root field i < j or of anything beneath it *)
Theorem C04_serial_order : forall kd done cs s f n l,
  run_log s (FSeq kd done cs) = (f, n, l) -> disjoint_sets (map all_events cs) ->
  forall i j x y, (i < j)%nat ->
    In x (all_events (nth i cs (FDone (IVal VNull)))) -> In y (all_events (nth j cs (FDone (IVal VNull)))) ->
    ~ before y x (evs_of l).
Proof. exact serial_order. Qed.
Print Assumptions C04_serial_order.

(* non-vacuity: mutation { a { id name } k: a { id } name }: the two gated resolvers below
   the first root field complete in either order, the second root field starts after both *)
Theorem C04_serial_nonvacuous :
  events_under [0; 2; 1; 3]%nat x_mut =
    Some [IStart [PF 20]; IEnd [PF 20]; IStart [PF 20; PF 23]; IStart [PF 20; PF 24];
          IEnd [PF 20; PF 24]; IEnd [PF 20; PF 23];
          IStart [PF 30]; IEnd [PF 30]; IStart [PF 30; PF 23]; IEnd [PF 30; PF 23];
          IStart [PF 24]; IEnd [PF 24]] /\
  events_under [0; 1; 2; 3]%nat x_mut =
    Some [IStart [PF 20]; IEnd [PF 20]; IStart [PF 20; PF 23]; IStart [PF 20; PF 24];
          IEnd [PF 20; PF 23]; IEnd [PF 20; PF 24];
          IStart [PF 30]; IEnd [PF 30]; IStart [PF 30; PF 23]; IEnd [PF 30; PF 23];
          IStart [PF 24]; IEnd [PF 24]].
Proof. exact w_serial. Qed.
Print Assumptions C04_serial_nonvacuous.

(* the test applied to the event logs of the real executors (SchedCheck.check_dsched, stream
   DSCHED: dynamic executor and derive schema) accepts every log of the model's serial loop *)
Theorem C04_serial_check_complete : forall kd done cs keys s f n l,
  Forall2 keyed keys (map all_events cs) ->
  run_log s (FSeq kd done cs) = (f, n, l) -> serial_keys keys (evs_of l) = true.
Proof. exact serial_model_passes_check. Qed.
Print Assumptions C04_serial_check_complete.

(* C35 — HTTP GET requests never execute mutations.
   Only property theorems here.  [get_guard i] and the wire keys of the shared
   GET decoder are re-extracted from the source text on every run
   (tools/factsgen/getguard.py): whether an operation-type test lies between
   integration i's GET handler and the executor, and under which keys the
   decoder reads its fields.  The guard theorems are stated for any value of the
   guard facts, so that adding a guard to an integration turns its refutation
   into the guarded theorem without touching the proofs.

   A request is the RAW query string (bytes); [doc] is what the parser made of
   the decoded query (None = syntax error), [tab] the spelling of the document's
   operation names. *)
From Coq Require Import String.
From AG Require Import GetGuard GetGuardProofs.
Open Scope N_scope.

(* the property, for every integration whose GET path tests the operation type *)
Theorem C35_guarded : forall i raw doc tab,
    get_guard i = true -> mutation_runs (snd (handle_get i raw doc tab)) = 0.
Proof. exact guarded_no_mutation. Qed.

Theorem C35_guarded_spec : forall i raw doc tab,
    get_guard i = true -> spec_ok i raw doc tab (snd (handle_get i raw doc tab)) = true.
Proof. exact guarded_spec. Qed.

Theorem C35_guard_keeps_queries : forall g g' o,
    op_ty o = OpQuery -> guarded_execute g o = guarded_execute g' o.
Proof. exact guard_keeps_queries. Qed.

(* without one, every selected mutation runs: all requests, all five integrations *)
Theorem C35_unguarded_runs : forall i raw d tab q on o,
    get_guard i = false -> decode i raw = DReq q on -> select_op d tab on = Some o -> op_ty o = OpMutation ->
    handle_get i raw (Some d) tab = (DReq q on, GRan 0 (root_fields (op_sels o))).
Proof. exact unguarded_runs. Qed.

(* known finding: refutation for each unguarded integration *)
Theorem C35_refuted : forall i,
    get_guard i = false ->
    mutation_runs (snd (handle_get i raw_mut (Some mut_doc) [])) = 1 /\
    mutation_runs (snd (handle_get i (raw_mixed i "B") (Some mixed_doc) mixed_tab)) = 2 /\
    spec_ok i raw_mut (Some mut_doc) [] (snd (handle_get i raw_mut (Some mut_doc) [])) = false /\
    known_class i raw_mut (Some mut_doc) [] = 1.
Proof. exact unguarded_refuted. Qed.

(* the GET decoders carry the operation name verbatim: the decoded name is the
   value of the first (for parse_query_string: the only) operation-name
   parameter of the query string, byte for byte, and None only if there is none *)
Theorem C35_decode_verbatim : forall i raw q on,
    decode i raw = DReq q on -> on = first_value (opname_keys i) (parse_pairs raw).
Proof. exact decode_verbatim. Qed.

Theorem C35_decode_keeps_name : forall i ps q on k v,
    decode_pairs i ps = DReq q on -> In (k, v) ps -> is_key (opname_keys i) k = true -> on <> None.
Proof. exact decode_keeps_name. Qed.

(* `operationName=`: Some "" stays Some "" *)
Theorem C35_decode_empty_name : forall i ps q on k,
    decode_pairs i ps = DReq q on -> In (k, []) ps -> is_key (opname_keys i) k = true ->
    (forall k' v', In (k', v') ps -> is_key (opname_keys i) k' = true -> v' = []) ->
    on = Some [].
Proof. exact decode_empty_name. Qed.

(* the executor's selection: a name selects only a named operation spelled
   exactly like it; the single-operation shortcut needs the name to be absent *)
Theorem C35_select_named : forall d tab s o,
    select_op d tab (Some s) = Some o -> In o (doc_ops d) /\ exists id, op_name o = Some id /\ assoc id tab = Some s.
Proof. exact select_named. Qed.

Theorem C35_select_absent : forall d tab o, select_op d tab None = Some o <-> doc_ops d = [o].
Proof. exact select_absent. Qed.

Theorem C35_select_unspelled : forall d tab s,
    (forall id s', assoc id tab = Some s' -> s' <> s) -> select_op d tab (Some s) = None.
Proof. exact select_unspelled. Qed.

(* Some "" never selects an operation, named or anonymous, single or not *)
Theorem C35_select_empty_name : forall d tab,
    (forall id s', assoc id tab = Some s' -> s' <> []) -> select_op d tab (Some []) = None.
Proof. exact select_empty_name. Qed.

Theorem C35_select_anonymous : forall d tab s o,
    doc_ops d = [o] -> op_name o = None -> select_op d tab (Some s) = None.
Proof. exact select_anonymous. Qed.

(* the selection of the model is GetOperation of the GraphQL spec *)
Theorem C35_selection_is_spec : forall d tab on, spec_get_operation d tab on = select_op d tab on.
Proof. exact spec_get_operation_eq. Qed.

(* an empty operation name is answered with an error on every integration *)
Theorem C35_empty_name_is_error : forall i raw doc tab q,
    decode i raw = DReq q (Some []) ->
    (forall id s', assoc id tab = Some s' -> s' <> []) ->
    handle_get i raw doc tab = (DReq q (Some []), GError).
Proof. exact empty_name_is_error. Qed.

(* the verdict computed by the correspondence files is the theorems': outside
   the known class the model satisfies the specification ... *)
Theorem C35_check_complete : forall i raw doc tab,
    known_class i raw doc tab = 0 -> spec_ok i raw doc tab (snd (handle_get i raw doc tab)) = true.
Proof. exact check_complete. Qed.

(* ... the class holds only inputs on which the model itself executes the
   mutation operation ... *)
Theorem C35_known_sound : forall i raw doc tab,
    known_class i raw doc tab <> 0 ->
    (exists k, snd (handle_get i raw doc tab) = GRan 0 k) /\
    spec_ok i raw doc tab (snd (handle_get i raw doc tab)) = false.
Proof. exact known_sound. Qed.

(* ... so impl <> model where model = spec is never excused by it ... *)
Theorem C35_no_excuse : forall i raw doc tab impl_d impl_r,
    spec_ok i raw doc tab (snd (handle_get i raw doc tab)) = true ->
    check_case i raw doc tab impl_d impl_r = 0 \/
    check_case i raw doc tab impl_d impl_r = 3 \/
    check_case i raw doc tab impl_d impl_r = 4.
Proof. exact no_excuse. Qed.

(* ... and a mutation resolver running where the model answers with an error is verdict 4 *)
Theorem C35_violation_verdict : forall i raw doc tab impl_d impl_r,
    get_guard_local_gen i = false ->
    snd (handle_get i raw doc tab) = GError -> mutation_runs impl_r <> 0 ->
    check_case i raw doc tab impl_d impl_r = 4.
Proof. exact violation_verdict. Qed.

(* the sub-case that holds today: `mutation M { m }` with an empty, blank or
   non-matching operation name *)
Theorem C35_named_mutation_wrong_name : forall i,
    handle_get i (raw_named_mut i "") (Some named_mut_doc) named_mut_tab = (DReq (b "mutation M { m }") (Some []), GError) /\
    handle_get i (raw_named_mut i "+") (Some named_mut_doc) named_mut_tab = (DReq (b "mutation M { m }") (Some [c_sp]), GError) /\
    handle_get i (raw_named_mut i "%4D%20") (Some named_mut_doc) named_mut_tab = (DReq (b "mutation M { m }") (Some (b "M ")), GError) /\
    handle_get i (raw_named_mut i "m") (Some named_mut_doc) named_mut_tab = (DReq (b "mutation M { m }") (Some (b "m")), GError) /\
    known_class i (raw_named_mut i "") (Some named_mut_doc) named_mut_tab = 0 /\
    (get_guard i = false ->
     handle_get i (raw_named_mut i "%4D") (Some named_mut_doc) named_mut_tab = (DReq (b "mutation M { m }") (Some (b "M")), GRan 0 1)).
Proof. exact named_mutation_wrong_name. Qed.

Theorem C35_empty_name_run_is_violation : forall i impl_d q m,
    get_guard_local_gen i = false -> m <> 0 ->
    check_case i (raw_named_mut i "") (Some named_mut_doc) named_mut_tab impl_d (GRan q m) = 4.
Proof. exact empty_name_run_is_violation. Qed.

Theorem C35_anonymous_mutation_empty_name : forall i,
    handle_get i (raw_mut ++ [c_amp] ++ hd [] (opname_keys i) ++ [c_eq]) (Some mut_doc) [] =
    (DReq (b "mutation { m }") (Some []), GError).
Proof. exact anonymous_mutation_empty_name. Qed.

Theorem C35_nonvacuous : forall i,
    snd (handle_get i (raw_mixed i "A") (Some mixed_doc) mixed_tab) = GRan 1 0 /\
    (get_guard i = true -> snd (handle_get i (raw_mixed i "B") (Some mixed_doc) mixed_tab) = GError) /\
    snd (handle_get i raw_mixed_q (Some mixed_doc) mixed_tab) = GError /\
    known_class i (raw_mixed i "A") (Some mixed_doc) mixed_tab = 0.
Proof. exact nonvacuous. Qed.

Check C35_guarded : forall i raw doc tab,
    get_guard i = true -> mutation_runs (snd (handle_get i raw doc tab)) = 0.
Check C35_refuted : forall i,
    get_guard i = false ->
    mutation_runs (snd (handle_get i raw_mut (Some mut_doc) [])) = 1 /\
    mutation_runs (snd (handle_get i (raw_mixed i "B") (Some mixed_doc) mixed_tab)) = 2 /\
    spec_ok i raw_mut (Some mut_doc) [] (snd (handle_get i raw_mut (Some mut_doc) [])) = false /\
    known_class i raw_mut (Some mut_doc) [] = 1.
Check C35_decode_verbatim : forall i raw q on,
    decode i raw = DReq q on -> on = first_value (opname_keys i) (parse_pairs raw).
Check C35_select_empty_name : forall d tab,
    (forall id s', assoc id tab = Some s' -> s' <> []) -> select_op d tab (Some []) = None.
Check C35_violation_verdict : forall i raw doc tab impl_d impl_r,
    get_guard_local_gen i = false ->
    snd (handle_get i raw doc tab) = GError -> mutation_runs impl_r <> 0 ->
    check_case i raw doc tab impl_d impl_r = 4.

Print Assumptions C35_guarded.
Print Assumptions C35_guarded_spec.
Print Assumptions C35_guard_keeps_queries.
Print Assumptions C35_unguarded_runs.
Print Assumptions C35_refuted.
Print Assumptions C35_decode_verbatim.
Print Assumptions C35_decode_keeps_name.
Print Assumptions C35_decode_empty_name.
Print Assumptions C35_select_named.
Print Assumptions C35_select_absent.
Print Assumptions C35_select_unspelled.
Print Assumptions C35_select_empty_name.
Print Assumptions C35_select_anonymous.
Print Assumptions C35_selection_is_spec.
Print Assumptions C35_empty_name_is_error.
Print Assumptions C35_check_complete.
Print Assumptions C35_known_sound.
Print Assumptions C35_no_excuse.
Print Assumptions C35_violation_verdict.
Print Assumptions C35_named_mutation_wrong_name.
Print Assumptions C35_empty_name_run_is_violation.
Print Assumptions C35_anonymous_mutation_empty_name.
Print Assumptions C35_nonvacuous.

(* C35 — HTTP GET requests never execute mutations.
   Only property theorems here.  [get_guard i] is re-extracted from the source
   text of integration i on every run (tools/factsgen/getguard.py): whether an
   operation-type test lies between its GET handler and the executor.  All
   theorems are stated for any value of these facts, so that adding a guard to
   an integration turns its refutation into the guarded theorem without
   touching the proofs. *)
From AG Require Import GetGuard GetGuardProofs.
Open Scope N_scope.

(* the property, for every integration whose GET path tests the operation type *)
Theorem C35_guarded : forall i d opname,
    get_guard i = true -> mutation_runs (handle_get i d opname) = 0.
Proof. exact guarded_no_mutation. Qed.

Theorem C35_guarded_spec : forall i d opname,
    get_guard i = true -> spec_ok d opname (handle_get i d opname) = true.
Proof. exact guarded_spec. Qed.

Theorem C35_guard_keeps_queries : forall g g' o,
    op_ty o = OpQuery -> guarded_execute g o = guarded_execute g' o.
Proof. exact guard_keeps_queries. Qed.

(* without one, every selected mutation runs: all requests, all five integrations *)
Theorem C35_unguarded_runs : forall i d opname o,
    get_guard i = false -> select_op d opname = Some o -> op_ty o = OpMutation ->
    handle_get i d opname = GRan 0 (root_fields (op_sels o)).
Proof. exact unguarded_runs. Qed.

(* known finding: refutation for each unguarded integration *)
Theorem C35_refuted : forall i,
    get_guard i = false ->
    mutation_runs (handle_get i mut_doc None) = 1 /\
    mutation_runs (handle_get i mixed_doc (Some 21)) = 2 /\
    spec_ok mut_doc None (handle_get i mut_doc None) = false /\
    known_class i mut_doc None = 1.
Proof. exact unguarded_refuted. Qed.

(* the verdict computed by the correspondence files is the theorems' *)
Theorem C35_check_complete : forall i d opname,
    known_class i d opname = 0 -> spec_ok d opname (handle_get i d opname) = true.
Proof. exact check_complete. Qed.

Theorem C35_nonvacuous : forall i,
    handle_get i mixed_doc (Some 20) = GRan 1 0 /\
    (get_guard i = true -> handle_get i mixed_doc (Some 21) = GError) /\
    handle_get i mixed_doc None = GError.
Proof. exact nonvacuous. Qed.

Check C35_guarded : forall i d opname,
    get_guard i = true -> mutation_runs (handle_get i d opname) = 0.
Check C35_refuted : forall i,
    get_guard i = false ->
    mutation_runs (handle_get i mut_doc None) = 1 /\
    mutation_runs (handle_get i mixed_doc (Some 21)) = 2 /\
    spec_ok mut_doc None (handle_get i mut_doc None) = false /\
    known_class i mut_doc None = 1.

Print Assumptions C35_guarded.
Print Assumptions C35_guarded_spec.
Print Assumptions C35_guard_keeps_queries.
Print Assumptions C35_unguarded_runs.
Print Assumptions C35_refuted.
Print Assumptions C35_check_complete.
Print Assumptions C35_nonvacuous.

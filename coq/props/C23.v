(* C23 — all HTTP request encodings decode to the same request; batches keep
   order; malformed encodings are rejected.  Only property theorems here. *)
From AG Require Import Http HttpProofs.
Open Scope N_scope.

(* the key tables regenerated from the serde attributes are known ones *)
Theorem C23_tables_known :
  tab_ok req_tab = true /\ tab_std req_tab /\ tab_ok3 get_tab = true /\
  (get_tab = get_tab_today \/ tab_ok get_tab = true).
Proof. exact (conj req_tab_ok (conj req_tab_std (conj get_tab_ok3 get_tab_known))). Qed.

Section Codecs.
  (* serde_json on bodies, serde_json on query-string members: a client's text parses back to its tree *)
  Variable bytes : Type.
  Variable jprint_b : jv -> bytes.
  Variable jparse_b : bytes -> option jv.
  Hypothesis body_codec : forall v, jparse_b (jprint_b v) = Some v.
  Variable jprint : jv -> str.
  Variable jparse : str -> option jv.
  Hypothesis member_codec : forall v, jparse (jprint v) = Some v.

  (* JSON body (receive_batch_json / receive_json / content-type dispatch) and
     multipart operations part: every well-formed request decodes to itself *)
  Theorem C23_json_and_multipart_same_request : forall kt r,
    tab_ok kt = true -> wf_request r ->
    decode_body kt (jparse_b (jprint_b (enc_json r))) = Ok (BSingle r) /\
    into_single (decode_body kt (jparse_b (jprint_b (enc_json r)))) = Ok r /\
    decode_mp_operations kt CtOther (jparse_b (jprint_b (enc_json r))) = Ok (BSingle r) /\
    dispatch kt CtOther (jparse_b (jprint_b (enc_json r))) (Err E_INVALID_MULTIPART) = Ok (BSingle r).
  Proof. exact (json_body_roundtrip bytes jprint_b jparse_b body_codec). Qed.

  (* a JSON batch decodes to its requests, in the original order *)
  Theorem C23_batch_same_requests_in_order : forall kt rs,
    tab_ok kt = true -> Forall wf_request rs -> rs <> [] ->
    decode_body kt (jparse_b (jprint_b (JArr (map enc_json rs)))) = Ok (BBatch rs).
  Proof. exact (json_batch_body_roundtrip bytes jprint_b jparse_b body_codec). Qed.

  (* GET: same request, for every table that routes operationName ... *)
  Theorem C23_get_same_request : forall kt r,
    tab_ok kt = true -> wf_request r -> decode_get kt jparse (enc_get jprint r) = Ok r.
  Proof. exact (get_roundtrip jprint jparse member_codec). Qed.

  (* ... and for today's table whenever no operation name is sent (outside the known class) *)
  Theorem C23_get_same_request_without_opname : forall kt r,
    tab_ok3 kt = true -> r_op r = None -> wf_request r -> decode_get kt jparse (enc_get jprint r) = Ok r.
  Proof. exact (get_roundtrip_no_opname jprint jparse member_codec). Qed.

  (* known finding: today's table reads operation_name; the protocol's operationName is dropped *)
  Theorem C23_get_opname_refuted :
    exists r, wf_request r /\ decode_get get_tab_today jparse (enc_get jprint r) <> Ok r.
  Proof. exact (get_refuted_today jprint jparse member_codec). Qed.

  Theorem C23_get_same_request_iff_opname_routed : forall kt,
    tab_ok3 kt = true -> (routes kt K_OPNAME = 1 \/ routes kt K_OPNAME = 4) ->
    ((forall r, wf_request r -> decode_get kt jparse (enc_get jprint r) = Ok r) <-> routes kt K_OPNAME = 1).
  Proof. exact (get_iff jprint jparse member_codec). Qed.

  (* text that is not JSON is a request error *)
  Theorem C23_not_json_rejected : forall kt b,
    jparse_b b = None -> decode_body kt (jparse_b b) = Err E_INVALID_REQUEST.
  Proof. exact (json_body_not_json bytes jparse_b). Qed.
End Codecs.

(* malformed encodings: outside the positional-array class the decoder accepts
   exactly what the protocol calls a request / a non-empty batch, decodes it to
   exactly those requests in order, and answers a request error otherwise *)
Theorem C23_json_accepts_exactly_wellformed : forall kt v,
  tab_std kt -> json_known kt v = 0 ->
  decode_batch kt v = match spec_batch v with Some b => Ok b | None => Err E_INVALID_REQUEST end.
Proof. exact json_decode_is_spec. Qed.

(* known finding: an array where a request object is expected is accepted positionally *)
Theorem C23_positional_array_refuted :
  spec_batch (JArr []) = None /\
  decode_batch req_tab (JArr []) = Ok (BSingle {| r_query := []; r_op := None; r_vars := []; r_exts := [] |}) /\
  json_known req_tab (JArr []) = 2.
Proof. exact positional_refuted. Qed.

(* known finding: an operations part typed multipart/* is neither decoded nor rejected *)
Theorem C23_operations_part_panic_refuted : forall kt t,
  decode_mp_operations kt (CtMultipart true) t = Panic.
Proof. exact mp_panic_refuted. Qed.

(* batch responses: for every completion schedule, once all executions have
   completed the responses are the executions of the requests in request order;
   and every schedule that names every request completes *)
Theorem C23_batch_order : forall (A B : Type) (exec : A -> B) rs sched out,
  batch_response exec rs sched = Some out -> out = map exec rs.
Proof. exact batch_order_all_schedules. Qed.

Theorem C23_batch_completes : forall (A B : Type) (exec : A -> B) rs sched,
  (forall i, (i < length rs)%nat -> In i sched) -> batch_response exec rs sched = Some (map exec rs).
Proof. exact batch_completes. Qed.

Theorem C23_nonvacuous : wf_request sample_request /\ r_op sample_request = Some [81].
Proof. exact (conj sample_wf eq_refl). Qed.

Check C23_get_same_request : forall jprint jparse, (forall v, jparse (jprint v) = Some v) ->
  forall kt r, tab_ok kt = true -> wf_request r -> decode_get kt jparse (enc_get jprint r) = Ok r.
Check C23_batch_order : forall (A B : Type) (exec : A -> B) rs sched out,
  batch_response exec rs sched = Some out -> out = map exec rs.
Check C23_json_accepts_exactly_wellformed : forall kt v,
  tab_std kt -> json_known kt v = 0 ->
  decode_batch kt v = match spec_batch v with Some b => Ok b | None => Err E_INVALID_REQUEST end.

Print Assumptions C23_tables_known.
Print Assumptions C23_json_and_multipart_same_request.
Print Assumptions C23_batch_same_requests_in_order.
Print Assumptions C23_get_same_request.
Print Assumptions C23_get_same_request_without_opname.
Print Assumptions C23_get_opname_refuted.
Print Assumptions C23_get_same_request_iff_opname_routed.
Print Assumptions C23_not_json_rejected.
Print Assumptions C23_json_accepts_exactly_wellformed.
Print Assumptions C23_positional_array_refuted.
Print Assumptions C23_operations_part_panic_refuted.
Print Assumptions C23_batch_order.
Print Assumptions C23_batch_completes.
Print Assumptions C23_nonvacuous.

(* C23 — placeholder while the model is brought into correspondence. *)
From AG Require Import Http.

(* C07 — placeholder while the correspondence is brought up. *)
From AG Require Import Scalars.

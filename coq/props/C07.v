(* C07 — built-in scalar types accept exactly their domain and round-trip.
   Only property theorems here: each is closed by [exact], its statement is
   pinned by [Check] and its assumptions are printed.  The integer table
   [int_impls_gen] is regenerated from src/types/external/integers.rs and
   non_zero_integers.rs on every run. *)
From AG Require Import Scalars ScalarsProofs ScalarsFloatProofs.
Open Scope Z_scope.

(* --- integers (all widths, NonZero forms) --------------------------------- *)
(* the table has exactly one row per integer scalar type *)
Theorem C07_int_table_complete :
  table_shape =
  [(0, I8, false); (1, I16, false); (2, I32, false); (3, I64, false); (4, Isize, false);
   (5, U8, false); (6, U16, false); (7, U32, false); (8, U64, false); (9, Usize, false);
   (10, I8, true); (11, I16, true); (12, I32, true); (13, I64, true); (14, Isize, true);
   (15, U8, true); (16, U16, true); (17, U32, true); (18, U64, true); (19, Usize, true)]%N.
Proof. exact table_complete. Qed.

(* accepted exactly: v is the integer x, x in the Rust type's range, x <> 0 for NonZero *)
Theorem C07_int_exact : forall id im v x,
    assoc id int_impls_gen = Some im -> wf_gv v = true ->
    (parse_int im v = Ok x <-> denotes_int (ii_prim im) (ii_nonzero im) v x).
Proof. exact int_exact. Qed.

(* every other value is rejected with an error (no panic, e.g. from NonZero::new(..).unwrap()) *)
Theorem C07_int_rejects : forall id im v,
    assoc id int_impls_gen = Some im -> wf_gv v = true ->
    (forall x, ~ denotes_int (ii_prim im) (ii_nonzero im) v x) ->
    exists c, parse_int im v = Err c.
Proof. exact int_rejects. Qed.

(* integral floats do not denote integers *)
Theorem C07_int_rejects_float : forall id im b,
    assoc id int_impls_gen = Some im -> exists c, parse_int im (GFloat b) = Err c.
Proof. exact int_rejects_float. Qed.

Theorem C07_int_roundtrip : forall id im x,
    assoc id int_impls_gen = Some im -> in_ty (ii_prim im) (ii_nonzero im) x = true ->
    parse_int im (to_value_int im x) = Ok x.
Proof. exact int_roundtrip. Qed.

(* --- bool, String (and Box<str>, Arc<str>), char --------------------------- *)
Theorem C07_bool_exact : forall v b, parse_bool v = Ok b <-> v = GBool b.
Proof. exact bool_exact. Qed.
Theorem C07_bool_rejects : forall v, (forall b, v <> GBool b) -> exists c, parse_bool v = Err c.
Proof. exact bool_rejects. Qed.
Theorem C07_string_exact : forall v s, parse_string v = Ok s <-> v = GStr s.
Proof. exact string_exact. Qed.
Theorem C07_string_rejects : forall v, (forall s, v <> GStr s) -> exists c, parse_string v = Err c.
Proof. exact string_rejects. Qed.
Theorem C07_char_exact : forall v c, parse_char v = Ok c <-> v = GStr [c].
Proof. exact char_exact. Qed.
Theorem C07_char_rejects : forall v, (forall c, v <> GStr [c]) -> exists e, parse_char v = Err e.
Proof. exact char_rejects. Qed.

(* --- ID -------------------------------------------------------------------- *)
Theorem C07_id_exact : forall v s, parse_id v = Ok s <-> denotes_id v s.
Proof. exact id_exact. Qed.
Theorem C07_id_rejects : forall v, (forall s, ~ denotes_id v s) -> exists c, parse_id v = Err c.
Proof. exact id_rejects. Qed.
(* repaired finding: every integer (also above i64::MAX) is accepted as its decimal text;
   no input lies in the former known class 2 *)
Theorem C07_id_accepts_all_integers :
  (forall z, parse_id (GInt z) = Ok (dec_Z z)) /\
  (forall sc v, known_parse sc v <> 2%N) /\
  parse_id (GInt 9223372036854775808) = Ok (dec_Z 9223372036854775808).
Proof. exact id_accepts_all_integers. Qed.

(* --- derived enums (any item table with distinct names) ---------------------- *)
Theorem C07_enum_exact : forall items v x,
    NoDup (map fst items) -> (parse_enum items v = Ok x <-> denotes_enum items v x).
Proof. exact enum_exact. Qed.
Theorem C07_enum_rejects : forall items v,
    (forall x, ~ denotes_enum items v x) -> exists c, parse_enum items v = Err c.
Proof. exact enum_rejects. Qed.

(* --- floats ------------------------------------------------------------------ *)
Theorem C07_f64_accepts : forall v, (exists b, parse_f64 v = Ok b) <-> is_number v.
Proof. exact f64_accepts. Qed.
Theorem C07_f32_accepts_partial : forall v, (exists b, parse_f32 v = Ok b) <-> is_number v.
Proof. exact f32_accepts. Qed.
Theorem C07_float_rejects : forall v,
    ~ is_number v -> parse_f64 v = Err E_TYPE /\ parse_f32 v = Err E_TYPE.
Proof. exact float_rejects. Qed.
(* widening any finite f32 to f64 and narrowing it again is the identity (all 2^32 - 2^24 patterns) *)
Theorem C07_f32_bits_roundtrip : forall b,
    (b < 4294967296)%N -> finite b32 (Z.of_N b) = true -> f64_to_f32 (f32_to_f64 b) = b.
Proof. exact f32_bits_roundtrip. Qed.
(* known findings *)
Theorem C07_f32_overflow_refuted :
  exists v, wf_gv v = true /\ known_parse SF32 v = 1%N /\
            parse_f32 v = Ok 2139095040%N /\
            spec_float_ok b32 v (parse_f32 v) = false /\
            finite b32 2139095040 = false.
Proof. exact f32_overflow_refuted. Qed.
Theorem C07_float_nonfinite_refuted :
  exists b, (b < 2 ^ 64)%N /\ known_tv SF64 (RF b) = 3%N /\ parse_f64 (to_value_f64 b) <> Ok b.
Proof. exact float_nonfinite_refuted. Qed.
Theorem C07_float_nonfinite_lost :
  (forall b, finite b64 (Z.of_N b) = false ->
     to_value_f64 b = GNull /\ parse_f64 (to_value_f64 b) = Err E_TYPE) /\
  (forall b, finite b32 (Z.of_N b) = false ->
     to_value_f32 b = GNull /\ parse_f32 (to_value_f32 b) = Err E_TYPE).
Proof. exact float_nonfinite_lost. Qed.

(* --- every scalar in one statement (what the correspondence files evaluate) --- *)
(* input coercion of every non-float scalar answers what the specification
   demands, for every value (no known class is left among the non-float scalars) *)
Theorem C07_parse_meets_spec : forall sc v,
    is_float_scalar sc = false -> wf_gv v = true -> known_parse sc v = 0%N ->
    match sc with SInt id => row_ty id <> None | _ => True end ->
    spec_parse_ok sc v (parse_scalar sc v) = true.
Proof. exact scalar_parse_meets_spec. Qed.

(* every scalar incl. f32/f64: serialising any value of the Rust type and coercing
   the result yields that value, outside the known class (non-finite floats) *)
Theorem C07_roundtrip : forall sc x,
    wf_rv sc x = true -> known_tv sc x = 0%N -> enum_names_distinct sc ->
    exists v, to_value_scalar sc x = Ok v /\ parse_scalar sc v = Ok x.
Proof. exact scalar_roundtrip. Qed.

(* --- end to end: the validator registered for the type name vs. parse -------- *)
(* whatever parse accepts passes the registered is_valid, outside the known class
   (unsigned 64-bit scalar, integer above i64::MAX) *)
Theorem C07_valid_registered_of_parse : forall sc v x,
    wf_gv v = true -> parse_scalar sc v = Ok x -> known_e2e sc v <> 4%N ->
    valid_registered sc v = true.
Proof. exact valid_registered_of_parse. Qed.
(* known finding: u64 <- 9223372036854775808 is in the domain, parse accepts it,
   the validator registered for "Int" (i32's) rejects it *)
Theorem C07_valid_registered_refuted :
  exists sc v x, wf_gv v = true /\ parse_scalar sc v = Ok x /\ valid_registered sc v = false /\
                 known_e2e sc v = 4%N /\ is_err (e2e_model sc (Some v)) = true /\
                 spec_parse_ok sc v (Ok x) = true.
Proof. exact valid_registered_refuted. Qed.

(* non-vacuity: the hypotheses are met by non-trivial inputs *)
Theorem C07_nonvacuous :
  (exists im, assoc 10%N int_impls_gen = Some im /\ ii_prim im = I8 /\ ii_nonzero im = true /\
              parse_int im (GInt (-128)) = Ok (-128) /\ parse_int im (GInt 0) = Err E_RANGE /\
              parse_int im (GInt 128) = Err E_RANGE) /\
  wf_rv SF32 (RF 1%N) = true /\ known_tv SF32 (RF 1%N) = 0%N /\
  wf_rv (SEnum [([82; 69; 68]%N, 0%N); ([65]%N, 1%N)]) (RE 1%N) = true /\
  enum_names_distinct (SEnum [([82; 69; 68]%N, 0%N); ([65]%N, 1%N)]).
Proof. exact nonvacuous. Qed.

Check C07_int_exact : forall id im v x,
    assoc id int_impls_gen = Some im -> wf_gv v = true ->
    (parse_int im v = Ok x <-> denotes_int (ii_prim im) (ii_nonzero im) v x).
Check C07_int_roundtrip : forall id im x,
    assoc id int_impls_gen = Some im -> in_ty (ii_prim im) (ii_nonzero im) x = true ->
    parse_int im (to_value_int im x) = Ok x.
Check C07_roundtrip : forall sc x,
    wf_rv sc x = true -> known_tv sc x = 0%N -> enum_names_distinct sc ->
    exists v, to_value_scalar sc x = Ok v /\ parse_scalar sc v = Ok x.
Check C07_parse_meets_spec : forall sc v,
    is_float_scalar sc = false -> wf_gv v = true -> known_parse sc v = 0%N ->
    match sc with SInt id => row_ty id <> None | _ => True end ->
    spec_parse_ok sc v (parse_scalar sc v) = true.

Print Assumptions C07_int_table_complete.
Print Assumptions C07_int_exact.
Print Assumptions C07_int_rejects.
Print Assumptions C07_int_rejects_float.
Print Assumptions C07_int_roundtrip.
Print Assumptions C07_bool_exact.
Print Assumptions C07_bool_rejects.
Print Assumptions C07_string_exact.
Print Assumptions C07_string_rejects.
Print Assumptions C07_char_exact.
Print Assumptions C07_char_rejects.
Print Assumptions C07_id_exact.
Print Assumptions C07_id_rejects.
Print Assumptions C07_id_accepts_all_integers.
Print Assumptions C07_enum_exact.
Print Assumptions C07_enum_rejects.
Print Assumptions C07_f64_accepts.
Print Assumptions C07_f32_accepts_partial.
Print Assumptions C07_float_rejects.
Print Assumptions C07_f32_bits_roundtrip.
Print Assumptions C07_f32_overflow_refuted.
Print Assumptions C07_float_nonfinite_refuted.
Print Assumptions C07_float_nonfinite_lost.
Print Assumptions C07_parse_meets_spec.
Print Assumptions C07_roundtrip.
Print Assumptions C07_valid_registered_of_parse.
Print Assumptions C07_valid_registered_refuted.
Print Assumptions C07_nonvacuous.

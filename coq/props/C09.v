(* C09 — strict validation rejects exactly the documents the GraphQL spec calls invalid.
   Only property theorems: each closed by [exact], statement pinned by [Check],
   assumptions printed.  PARTIAL by design: the specification of validity
   ([spec_valid]) is the oracle of the differential run; the theorems below are
   about the rule composition (translated method lists), the three modelled
   rules, and the decomposition of the per-case verdict. *)
From AG Require Import Validation ValidationProofs.
Open Scope N_scope.

(* (1) composition: VisitorCons forwards every callback of trait Visitor except,
   at most, the callbacks visit_input_value invokes; the model's flag is exactly
   "all callbacks are forwarded"; when it is off the full statement is refuted *)
Theorem C09_visitor_cons_forwards_all_partial :
  forall m, In m visitor_trait_methods_gen ->
            In m visitor_cons_methods_gen \/ In m input_value_callbacks_gen.
Proof. exact forwards_all_but_input_value. Qed.
Theorem C09_forwarding_flag :
  forwards_input_value_gen = true <-> incl visitor_trait_methods_gen visitor_cons_methods_gen.
Proof. exact forwards_flag_iff. Qed.
Theorem C09_visitor_cons_forwards_all_refuted :
  forwards_input_value_gen = false -> ~ incl visitor_trait_methods_gen visitor_cons_methods_gen.
Proof. exact forwards_all_refuted_today. Qed.
Theorem C09_strict_chain :
  strict_has StrLits.viap = true /\ strict_has StrLits.overlap = true /\
  strict_has StrLits.args_correct = true /\ fast_rules_gen <> strict_rules_gen.
Proof. exact strict_chain_has_modelled_rules. Qed.

(* (2) VariableInAllowedPosition behind the composite visitor *)
(* without forwarding the rule never reports anything: any schema, document, fuel *)
Theorem C09_var_position_silent_without_forwarding : forall Sch d fuel b,
    impl_varpos Sch d fuel false = Ok b -> b = true.
Proof. exact varpos_no_forward_silent. Qed.
(* one recorded usage: the rule decides as the specification's
   IsVariableUsageAllowed, outside three narrow classes *)
Theorem C09_var_usage_exact_partial : forall Sch vd vt lt,
    var_ty Sch vd = Some vt ->
    vd_default vd <> Some VNull ->
    nn_at_list lt (viap_expected vt (vd_default vd)) = false ->
    impl_usage_ok Sch vd lt = usage_allowed vt (vd_default vd) lt false.
Proof. exact usage_exact. Qed.
(* and it never allows a usage the specification forbids (default not the literal null) *)
Theorem C09_var_usage_sound : forall Sch vd vt lt ldf,
    var_ty Sch vd = Some vt ->
    vd_default vd <> Some VNull ->
    impl_usage_ok Sch vd lt = true -> usage_allowed vt (vd_default vd) lt ldf = true.
Proof. exact usage_sound. Qed.
Theorem C09_is_subtype_sound : forall lt vt, is_subtype lt vt = true -> types_compatible vt lt = true.
Proof. exact is_subtype_sound. Qed.
Theorem C09_is_subtype_complete_partial : forall lt vt,
    nn_at_list lt vt = false -> is_subtype lt vt = types_compatible vt lt.
Proof. exact is_subtype_complete. Qed.
Theorem C09_is_subtype_refuted :
  exists lt vt, types_compatible vt lt = true /\ is_subtype lt vt = false.
Proof. exact is_subtype_refuted. Qed.
Theorem C09_var_position_refuted :
  spec_valid w_schema w_varpos 50 = false /\
  impl_strict w_schema w_varpos [] None 50 false = Ok true /\
  known_class w_schema w_varpos [] None 50 false = 1 /\
  impl_strict w_schema w_varpos [] None 50 true = Ok false /\
  impl_strict w_schema w_varpos_good [] None 50 true = Ok true /\
  spec_valid w_schema w_varpos_good 50 = true.
Proof. exact var_position_refuted. Qed.

(* (3) OverlappingFieldsCanBeMerged: what a silent run guarantees, and what it misses *)
Theorem C09_overlap_scan_sound_partial : forall es,
    fc_scan [] es = true ->
    forall k f1 f2, In (k, f1) es -> In (k, f2) es ->
      of_name f1 = of_name f2 /\ length (of_args f1) = length (of_args f2).
Proof. exact fc_scan_pairwise. Qed.
Theorem C09_overlap_sound_partial : forall Sch d fuel,
    impl_overlap Sch d fuel = Ok true ->
    forall o r set es vis,
      In o (doc_ops d) -> root_of Sch (op_ty o) = Some r ->
      In set (sets_of_list (op_sels o)) ->
      fc_collect (doc_frags d) fuel None set [] = Ok (es, vis) ->
      forall k f1 f2, In (k, f1) es -> In (k, f2) es ->
        of_name f1 = of_name f2 /\ length (of_args f1) = length (of_args f2).
Proof. exact overlap_sound_partial. Qed.
Theorem C09_overlap_refuted :
  spec_valid w_schema w_overlap 50 = false /\
  impl_strict w_schema w_overlap [] None 50 false = Ok true /\
  known_class w_schema w_overlap [] None 50 false = 2 /\
  impl_strict w_schema w_overlap_seen [] None 50 false = Ok false /\
  spec_valid w_schema w_overlap_seen 50 = false.
Proof. exact overlap_refuted. Qed.

(* the rule also rejects a valid document *)
Theorem C09_overlap_overrejects_refuted :
  spec_valid w_schema w_overreject 50 = true /\
  impl_strict w_schema w_overreject [] None 50 false = Ok false /\
  known_class w_schema w_overreject [] None 50 false = 2.
Proof. exact overlap_overrejects. Qed.

(* further deviations found by the differential run, reproduced by the model *)
Theorem C09_values_refuted :
  spec_valid w_schema w_enum_string 50 = false /\
  impl_strict w_schema w_enum_string [] None 50 false = Ok true /\
  known_class w_schema w_enum_string [] None 50 false = 3.
Proof. exact values_refuted. Qed.
Theorem C09_subscription_refuted :
  spec_valid w_schema w_subscription 50 = false /\
  impl_strict w_schema w_subscription [] None 50 false = Ok true /\
  known_class w_schema w_subscription [] None 50 false = 4.
Proof. exact subscription_refuted. Qed.
Theorem C09_typename_refuted :
  spec_valid w_schema w_typename 50 = false /\
  impl_strict w_schema w_typename [] None 50 false = Ok true /\
  known_class w_schema w_typename [] None 50 false = 5.
Proof. exact typename_refuted. Qed.

(* (5) the per-case verdict: outside the five classes the modelled validator IS the specification *)
Theorem C09_strict_decomposition : forall Sch d vars opname fuel fwd m,
    impl_strict Sch d vars opname fuel fwd = Ok m ->
    known_class Sch d vars opname fuel fwd = 0 ->
    m = spec_valid Sch d fuel.
Proof. exact strict_decomposition. Qed.

(* (4) non-vacuity of the specification and of the hypotheses above *)
Theorem C09_spec_nonvacuous :
  spec_valid w_schema w_valid 50 = true /\
  impl_strict w_schema w_valid [] None 50 false = Ok true /\
  forallb (fun d => negb (spec_valid w_schema d 50))
          [mut_unknown_field; mut_missing_arg; mut_wrong_arg; mut_unknown_arg; mut_dup_arg;
           mut_unknown_fragment; mut_unused_fragment; mut_cycle; mut_spread_impossible; mut_scalar_sub;
           mut_object_nosub; mut_dup_var; mut_undef_var; mut_unused_var; mut_unknown_directive;
           mut_conflict; mut_var_non_input; w_varpos; w_overlap; w_enum_string; w_subscription; w_typename] = true /\
  forallb (fun d => match impl_strict w_schema d [] None 50 false with Ok false => true | _ => false end)
          [mut_unknown_field; mut_missing_arg; mut_wrong_arg; mut_unknown_arg; mut_dup_arg;
           mut_unknown_fragment; mut_unused_fragment; mut_cycle; mut_spread_impossible; mut_scalar_sub;
           mut_object_nosub; mut_dup_var; mut_undef_var; mut_unused_var; mut_unknown_directive;
           mut_conflict; mut_var_non_input] = true.
Proof. exact spec_nonvacuous. Qed.
(* per-operation variable rules through shared fragments: an accepting validator is verdict 4 *)
Theorem C09_shared_fragment_verdicts :
  spec_valid w_schema w_shared_defined 50 = true /\
  check_c09 w_schema w_shared_defined [] (Some 31) 50 0 = 0 /\
  forallb (fun d => negb (spec_valid w_schema d 50) &&
                    (known_class w_schema d [] (Some 31) 50 forwards_input_value_gen =? 0) &&
                    (check_c09 w_schema d [] (Some 31) 50 0 =? 4) &&
                    (check_c09 w_schema d [] (Some 32) 50 0 =? 4) &&
                    (check_c09 w_schema d [] (Some 31) 50 1 =? 0))
          [w_shared_undefined; w_shared_transitive; w_shared_unused] = true.
Proof. exact shared_fragment_verdicts. Qed.
Theorem C09_usage_nonvacuous :
  exists vd vt lt,
    var_ty w_schema vd = Some vt /\ vd_default vd <> Some VNull /\
    nn_at_list lt (viap_expected vt (vd_default vd)) = false /\
    impl_usage_ok w_schema vd lt = false /\ usage_allowed vt (vd_default vd) lt false = false.
Proof. exact usage_nonvacuous. Qed.

Check C09_visitor_cons_forwards_all_partial :
  forall m, In m visitor_trait_methods_gen -> In m visitor_cons_methods_gen \/ In m input_value_callbacks_gen.
Check C09_var_position_silent_without_forwarding :
  forall Sch d fuel b, impl_varpos Sch d fuel false = Ok b -> b = true.
Check C09_is_subtype_sound : forall lt vt, is_subtype lt vt = true -> types_compatible vt lt = true.
Check C09_overlap_scan_sound_partial : forall es,
    fc_scan [] es = true ->
    forall k f1 f2, In (k, f1) es -> In (k, f2) es ->
      of_name f1 = of_name f2 /\ length (of_args f1) = length (of_args f2).
Check C09_strict_decomposition : forall Sch d vars opname fuel fwd m,
    impl_strict Sch d vars opname fuel fwd = Ok m ->
    known_class Sch d vars opname fuel fwd = 0 -> m = spec_valid Sch d fuel.

Print Assumptions C09_visitor_cons_forwards_all_partial.
Print Assumptions C09_forwarding_flag.
Print Assumptions C09_visitor_cons_forwards_all_refuted.
Print Assumptions C09_strict_chain.
Print Assumptions C09_var_position_silent_without_forwarding.
Print Assumptions C09_var_usage_exact_partial.
Print Assumptions C09_var_usage_sound.
Print Assumptions C09_is_subtype_sound.
Print Assumptions C09_is_subtype_complete_partial.
Print Assumptions C09_is_subtype_refuted.
Print Assumptions C09_var_position_refuted.
Print Assumptions C09_overlap_scan_sound_partial.
Print Assumptions C09_overlap_sound_partial.
Print Assumptions C09_overlap_refuted.
Print Assumptions C09_overlap_overrejects_refuted.
Print Assumptions C09_values_refuted.
Print Assumptions C09_subscription_refuted.
Print Assumptions C09_typename_refuted.
Print Assumptions C09_strict_decomposition.
Print Assumptions C09_spec_nonvacuous.
Print Assumptions C09_shared_fragment_verdicts.
Print Assumptions C09_usage_nonvacuous.

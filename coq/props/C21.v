(* C21 — secret arguments never appear in logged or traced query text.
   Only property theorems here: each is closed by [exact], its statement is
   pinned by [Check] and its assumptions are printed.

   impl_doc nm fl S vars d  = the text Registry::stringify_exec_doc produces
                              (model, tied to the real code by correspondence);
   sim_doc S d1 v1 d2 v2    = the two requests are the same except for what is
                              supplied at secret positions (spec typing: literals,
                              variable values, list items, nested input objects,
                              default values of variables used there);
   known_class S d vars     = 0 outside the three confirmed defect classes. *)
From AG Require Import Secret SecretProofs.

(* non-interference, every schema, every pair of requests, every name/float text *)
Theorem C21_noninterference : forall nm fl S d1 v1 d2 v2,
    sim_doc S d1 v1 d2 v2 = true -> known_class S d1 v1 = 0%N ->
    impl_doc nm fl S v1 d1 = impl_doc nm fl S v2 d2.
Proof. exact c21_noninterference_strong. Qed.

(* membership in a known class does not depend on the secrets either *)
Theorem C21_known_class_invariant : forall S d1 v1 d2 v2,
    sim_doc S d1 v1 d2 v2 = true -> known_class S d1 v1 = known_class S d2 v2.
Proof. exact sim_known_class. Qed.

(* the two halves: outside the known classes the implementation prints what the
   spec-typed reference printer prints; the reference printer is non-interferent
   for ALL inputs (the full property once the three defects are repaired) *)
Theorem C21_impl_is_reference : forall nm fl S d vars,
    known_class S d vars = 0%N -> impl_doc nm fl S vars d = ideal_doc nm fl S vars d.
Proof. exact impl_ideal_doc. Qed.

Theorem C21_reference_noninterference : forall nm fl S d1 v1 d2 v2,
    sim_doc S d1 v1 d2 v2 = true -> ideal_doc nm fl S v1 d1 = ideal_doc nm fl S v2 d2.
Proof. exact sim_ideal_doc. Qed.

(* argument level: a value with no secret position inside a list is masked
   exactly at its secret positions, and masking forgets the secrets *)
Theorem C21_value_masked : forall nm fl S m v,
    leaky S m v = false -> siv nm fl S m v = mask nm fl S m v.
Proof. exact (fun nm fl S m v => siv_mask nm fl S v m). Qed.

Theorem C21_mask_forgets_secrets : forall nm fl S m a b,
    simc S m a b = true -> mask nm fl S m a = mask nm fl S m b.
Proof. exact (fun nm fl S m a b => simc_mask nm fl S a m b). Qed.

(* the verdict computed by the correspondence files is the theorem's *)
Theorem C21_check_complete : forall nm fl S d1 v1 d2 v2,
    sim_doc S d1 v1 d2 v2 = true ->
    known_class S d1 v1 = 0%N -> known_class S d2 v2 = 0%N ->
    str_eqb (impl_doc nm fl S v1 d1) (impl_doc nm fl S v2 d2) = true.
Proof. exact c21_check_complete. Qed.

(* known findings: the full statement is false of the faithful model *)
Theorem C21_list_refuted :
  exists nm fl S d1 v1 d2 v2,
    sim_doc S d1 v1 d2 v2 = true /\ known_class S d1 v1 = 1%N /\
    impl_doc nm fl S v1 d1 <> impl_doc nm fl S v2 d2.
Proof. exact c21_list_refuted. Qed.

Theorem C21_untyped_inline_refuted :
  exists nm fl S d1 v1 d2 v2,
    sim_doc S d1 v1 d2 v2 = true /\ known_class S d1 v1 = 2%N /\
    impl_doc nm fl S v1 d1 <> impl_doc nm fl S v2 d2.
Proof. exact c21_untyped_inline_refuted. Qed.

Theorem C21_var_default_refuted :
  exists nm fl S d1 v1 d2 v2,
    sim_doc S d1 v1 d2 v2 = true /\ known_class S d1 v1 = 3%N /\
    impl_doc nm fl S v1 d1 <> impl_doc nm fl S v2 d2.
Proof. exact c21_var_default_refuted. Qed.

(* the hypotheses are satisfiable by a pair whose secrets differ as a literal,
   a variable value, inside nested input objects, under a typed inline fragment
   and in a named fragment *)
Theorem C21_nonvacuous :
  sim_doc w_schema (w_ok sA) (w_ok_vars sA) (w_ok sB) (w_ok_vars sB) = true /\
  known_class w_schema (w_ok sA) (w_ok_vars sA) = 0%N /\
  known_class w_schema (w_ok sB) (w_ok_vars sB) = 0%N /\
  w_ok sA <> w_ok sB /\ w_ok_vars sA <> w_ok_vars sB /\
  impl_doc w_nm w_fl w_schema (w_ok_vars sA) (w_ok sA) = impl_doc w_nm w_fl w_schema (w_ok_vars sB) (w_ok sB).
Proof. exact c21_nonvacuous. Qed.

Check C21_noninterference : forall nm fl S d1 v1 d2 v2,
    sim_doc S d1 v1 d2 v2 = true -> known_class S d1 v1 = 0%N ->
    impl_doc nm fl S v1 d1 = impl_doc nm fl S v2 d2.
Check C21_reference_noninterference : forall nm fl S d1 v1 d2 v2,
    sim_doc S d1 v1 d2 v2 = true -> ideal_doc nm fl S v1 d1 = ideal_doc nm fl S v2 d2.
Check C21_list_refuted :
  exists nm fl S d1 v1 d2 v2,
    sim_doc S d1 v1 d2 v2 = true /\ known_class S d1 v1 = 1%N /\
    impl_doc nm fl S v1 d1 <> impl_doc nm fl S v2 d2.

Print Assumptions C21_noninterference.
Print Assumptions C21_known_class_invariant.
Print Assumptions C21_impl_is_reference.
Print Assumptions C21_reference_noninterference.
Print Assumptions C21_value_masked.
Print Assumptions C21_mask_forgets_secrets.
Print Assumptions C21_check_complete.
Print Assumptions C21_list_refuted.
Print Assumptions C21_untyped_inline_refuted.
Print Assumptions C21_var_default_refuted.
Print Assumptions C21_nonvacuous.

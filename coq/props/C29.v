(* C29 — DataLoader cache operations behave like the documented cache.
   Only property theorems here: each is closed by [exact], its statement is
   pinned by [Check] and its assumptions are printed.

   run_impl q kd ops : what a caller observes of every operation of the history
     [ops] on the model of DataLoader + NoCache / HashMapCache / LruCache cap
     (q = true: today's enable_cache, q = false: enable_cache creating its entry);
   run_spec kd ops   : the same history on the reference cache (one
     recency-ordered map with optional capacity, flags default to enabled);
   known_class ops   : some enable_cache::<K> comes before any load / feed /
     clear / clear_one at K. *)
From AG Require Import DLCache DLCacheProofs.
Open Scope N_scope.

(* every history, every cache kind: outside the known class the loader is
   observationally the reference cache (results, keys handed to the loader,
   cached values, no panic) *)
Theorem C29_refines : forall q kd ops,
    wf_kind kd = true -> (q = true -> known_class ops = false) ->
    run_impl q kd ops = run_spec kd ops.
Proof. exact c29_refines. Qed.

(* with enable_cache creating its entry the property holds without exception *)
Theorem C29_refines_fixed : forall kd ops,
    wf_kind kd = true -> run_impl false kd ops = run_spec kd ops.
Proof. exact c29_refines_fixed. Qed.

Theorem C29_no_panic : forall q kd ops,
    wf_kind kd = true -> (q = true -> known_class ops = false) ->
    ~ In BPanic (run_impl q kd ops).
Proof. exact c29_no_panic. Qed.

(* at most cap entries per key type after any history *)
Theorem C29_lru_cap : forall q kd ops t e cap,
    wf_kind kd = true -> (q = true -> known_class ops = false) ->
    i_ent (ifinal q kd i_init ops) t = Some e -> cap_of kd = Some cap ->
    (length (ic_iter (e_cache e)) <= cap)%nat.
Proof. exact c29_capacity. Qed.

(* what the reference says about a load: cached value exactly when caching is
   enabled (globally and for the key type) and the cache holds the key, the
   loader's value otherwise; the loader gets exactly the other keys *)
Theorem C29_spec_load : forall kd sp t keys vals,
    let en := s_all sp && s_en sp t in
    let hit k := en && holds (s_cache sp t) k in
    match snd (sstep kd sp (OLoad t keys (LOk vals))) with
    | BLoad called (ROk res) =>
        res = map (fun k => (k, if hit k then assoc k (s_cache sp t) else assoc k vals)) (canon keys) /\
        called = match filter (fun k => negb (hit k)) keys with
                 | [] => None
                 | need => Some (canon need)
                 end
    | _ => False
    end.
Proof. exact c29_spec_load. Qed.

(* enable_cache on the reference: sets the flag of that key type only, never
   touches the cache, and a disabled key type sends every key to the loader *)
Theorem C29_spec_enable : forall kd sp t b keys r,
    let sp' := fst (sstep kd sp (OEnable t b)) in
    s_en sp' t = b /\ (forall t', t' <> t -> s_en sp' t' = s_en sp t') /\
    s_cache sp' = s_cache sp /\ s_all sp' = s_all sp /\
    (b = false -> match snd (sstep kd sp' (OLoad t keys r)) with
                  | BLoad called _ => called = match keys with [] => None | _ => Some (canon keys) end
                  | _ => False
                  end).
Proof. exact c29_spec_enable. Qed.

(* the reference cache is an LRU: a put keeps the new key and then the
   previous keys in recency order up to the capacity; what was just put is
   found; a hit moves the key to the front *)
Theorem C29_spec_put_keys : forall c k v l,
    map fst (s_put (Some c) k v l) = firstn c (k :: map fst (remove_key k l)).
Proof. exact s_put_keys. Qed.
Theorem C29_spec_put_find : forall c k v l, (1 <= c)%nat -> assoc k (s_put (Some c) k v l) = Some v.
Proof. exact s_put_find. Qed.
Theorem C29_spec_touch : forall k l v k',
    assoc k l = Some v ->
    map fst (s_touch k l) = k :: map fst (remove_key k l) /\ assoc k' (s_touch k l) = assoc k' l.
Proof. exact (fun k l v k' H => conj (s_touch_keys k l v H) (assoc_touch k k' l)). Qed.

(* the storages against the reference, operation by operation *)
Theorem C29_lru_put_refines : forall cap k v l,
    (1 <= cap)%nat -> (length l <= cap)%nat -> lru_put cap k v l = s_put (Some cap) k v l.
Proof. exact lru_put_trim. Qed.

(* known finding: today's enable_cache before the key type's first use *)
Theorem C29_enable_before_use_refuted :
  exists kd ops, wf_kind kd = true /\ In BPanic (run_impl true kd ops) /\
                 run_impl true kd ops <> run_spec kd ops /\ known_class ops = true.
Proof. exact c29_enable_before_use_refuted. Qed.

(* and the class is tight: every history in it panics today *)
Theorem C29_known_class_panics : forall kd ops,
    wf_kind kd = true -> known_class ops = true -> In BPanic (run_impl true kd ops).
Proof. exact c29_known_class_panics. Qed.

Theorem C29_nonvacuous :
  known_class demo_ops = false /\
  run_impl true (KLru 2) demo_ops =
    [BUnit; BLoad None (ROk [(1, Some 501)]); BUnit; BCached [(1, 501); (3, 503)];
     BUnit; BLoad (Some [1; 2]) (ROk [(1, Some 11); (2, Some 12)]); BUnit;
     BLoad (Some [2]) (ROk [(1, Some 501); (2, Some 22)]); BCached [(1, 501); (2, 22)]].
Proof. exact c29_nonvacuous. Qed.

Check C29_refines : forall q kd ops,
    wf_kind kd = true -> (q = true -> known_class ops = false) ->
    run_impl q kd ops = run_spec kd ops.
Check C29_no_panic : forall q kd ops,
    wf_kind kd = true -> (q = true -> known_class ops = false) ->
    ~ In BPanic (run_impl q kd ops).
Check C29_known_class_panics : forall kd ops,
    wf_kind kd = true -> known_class ops = true -> In BPanic (run_impl true kd ops).

Print Assumptions C29_refines.
Print Assumptions C29_refines_fixed.
Print Assumptions C29_no_panic.
Print Assumptions C29_lru_cap.
Print Assumptions C29_spec_load.
Print Assumptions C29_spec_enable.
Print Assumptions C29_spec_put_keys.
Print Assumptions C29_spec_put_find.
Print Assumptions C29_spec_touch.
Print Assumptions C29_lru_put_refines.
Print Assumptions C29_enable_before_use_refuted.
Print Assumptions C29_known_class_panics.
Print Assumptions C29_nonvacuous.

(* C11 — request checking work is polynomial in the document size.
   Cost model = number of selection visits (tied to the code by the cfg hook
   counters, compared for equality on every correspondence case). *)
From AG Require Import LimitsCheck LimitsProofs RuleCost RuleCostProofs.
Open Scope N_scope.

(* the Inline-mode validation pass visits exactly the selections of the
   INLINED document (so the cost is linear in the size after inlining) *)
Theorem C11_visits_are_inlined_size : forall frags n l l' v,
    inline_list frags n l = Ok l' -> visits_list frags n l = Ok v ->
    v = pvisits_list l' /\ v <= psize_list l'.
Proof. exact c11_visits_inlined. Qed.

(* REFUTED as stated: for every L there is a document of 2L+2 selections,
   nesting L+1, on which the Inline-mode pass alone performs 3*2^L - 1 visits:
   work doubles for every two selections added, so no polynomial in the size
   bounds it, and with the default recursion limit (32) the family stays
   within the configured limits up to L = 31. *)
Theorem C11_fanout_refuted : forall L,
    doc_size (fan_doc L) = 2 * N.of_nat L + 2 /\
    inline_pass w_schema (fan_doc L) (3 * L + 4) = Ok (3 * 2 ^ N.of_nat L - 1) /\
    i_nest (fan_doc L) (3 * L + 4) = Ok (N.of_nat L + 1).
Proof. exact c11_fanout. Qed.

Theorem C11_default_config :
  doc_size (fan_doc 22) = 46 /\ 3 * 2 ^ 22 - 1 = 12582911 /\ 22 + 1 <= 32 /\
  work_bound 46 < 12582911.
Proof. exact c11_default_config. Qed.

Check C11_fanout_refuted : forall L,
    doc_size (fan_doc L) = 2 * N.of_nat L + 2 /\
    inline_pass w_schema (fan_doc L) (3 * L + 4) = Ok (3 * 2 ^ N.of_nat L - 1) /\
    i_nest (fan_doc L) (3 * L + 4) = Ok (N.of_nat L + 1).

Print Assumptions C11_visits_are_inlined_size.
Print Assumptions C11_fanout_refuted.
Print Assumptions C11_default_config.

(* ---- the validation rules' own fragment-graph walks (RuleCost.v) -------------
   Model of the five cfg-hook counters RULE_STEPS[0..4] (compared for equality
   with the code on every correspondence case of stream RULE).  Size =
   doc_size d = selections written in the document, fragment definitions
   included; doc_spreads d = fragment spreads among them; doc_nops d =
   operations.  Every statement is for EVERY document, schema and fuel (fuel
   exhaustion is not a number, so it is not a counter value). *)

(* [0] OverlappingFieldsCanBeMerged: one `find` per entered selection set, each
   at most (the set + every fragment body once) *)
Theorem C11_overlap_steps_poly : forall Sch d n c,
    overlap_steps Sch d n = Ok c ->
    c <= doc_nsets Sch d * (2 * doc_size d) /\ doc_nsets Sch d <= doc_size d /\
    c <= 2 * doc_size d * doc_size d.
Proof. exact c11_overlap_steps. Qed.

(* [1] NoFragmentCycles: every fragment is entered once *)
Theorem C11_cycle_steps_linear : forall Sch d n c,
    cycle_steps Sch d n = Ok c -> c <= doc_spreads d.
Proof. exact c11_cycle_steps. Qed.

(* [2] [3] NoUndefinedVariables / NoUnusedVariables: one memoised walk per operation *)
Theorem C11_vars_steps_poly : forall Sch d n c,
    vars_steps Sch d n = Ok c -> c <= doc_nops d * (1 + doc_spreads d).
Proof. exact c11_vars_steps. Qed.

(* [4] NoUnusedFragments *)
Theorem C11_unused_steps_poly : forall Sch d n c,
    unused_steps Sch d n = Ok c -> c <= doc_nops d + (doc_nops d + 1) * doc_spreads d.
Proof. exact c11_unused_steps. Qed.

Theorem C11_unused_steps_linear : forall Sch d n c,
    NoDup (map op_name (doc_ops d)) ->
    unused_steps Sch d n = Ok c -> c <= doc_nops d + doc_spreads d.
Proof. exact c11_unused_steps_linear. Qed.

Theorem C11_spreads_le_size : forall d, doc_spreads d <= doc_size d.
Proof. exact doc_spreads_le_size. Qed.

(* all five counters are within the polynomials the check compares against
   (rule_bounds d = [2s^2; s; o(1+s); o(1+s); o+(o+1)s], s = size, o = operations) *)
Theorem C11_rule_steps_within_bounds : forall Sch d n m,
    rule_steps Sch d n = Ok m -> within m (rule_bounds d) = true.
Proof. exact c11_rule_steps_within. Qed.

(* a case judged 0 by the verdict function has its OBSERVED counters within the bounds *)
Theorem C11_rule_check_sound : forall Sch d nl nr lim fast steps,
    check_c11r Sch d nl nr lim fast steps = 0 -> within steps (rule_bounds d) = true.
Proof. exact c11_check_sound. Qed.

(* non-vacuity: the UNUSED fan-out chain F_k { ...F_{k-1} ...F_{k-1} } of length
   3 and 14 evaluates (fuel suffices) to small counters; 2^14 would exceed the bound *)
Theorem C11_rule_steps_nonvacuous :
    doc_size (chain_doc 3) = 8 /\
    rule_steps chain_schema (chain_doc 3) (rule_fuel (chain_doc 3)) = Ok [17; 6; 1; 1; 1] /\
    doc_size (chain_doc 14) = 30 /\
    rule_steps chain_schema (chain_doc 14) (rule_fuel (chain_doc 14)) = Ok [226; 28; 1; 1; 1] /\
    rule_bounds (chain_doc 14) = [1800; 30; 31; 31; 61] /\
    2 ^ 14 > 1800.
Proof. exact c11_chain_nonvacuous. Qed.

Check C11_rule_steps_within_bounds : forall Sch d n m,
    rule_steps Sch d n = Ok m -> within m (rule_bounds d) = true.

Print Assumptions C11_overlap_steps_poly.
Print Assumptions C11_cycle_steps_linear.
Print Assumptions C11_vars_steps_poly.
Print Assumptions C11_unused_steps_poly.
Print Assumptions C11_unused_steps_linear.
Print Assumptions C11_spreads_le_size.
Print Assumptions C11_rule_steps_within_bounds.
Print Assumptions C11_rule_check_sound.
Print Assumptions C11_rule_steps_nonvacuous.

(* C11 — request checking work is polynomial in the document size.
   Cost model = number of selection visits (tied to the code by the cfg hook
   counters, compared for equality on every correspondence case). *)
From AG Require Import LimitsCheck LimitsProofs.
Open Scope N_scope.

(* the Inline-mode validation pass visits exactly the selections of the
   INLINED document (so the cost is linear in the size after inlining) *)
Theorem C11_visits_are_inlined_size : forall frags n l l' v,
    inline_list frags n l = Ok l' -> visits_list frags n l = Ok v ->
    v = pvisits_list l' /\ v <= psize_list l'.
Proof. exact c11_visits_inlined. Qed.

(* REFUTED as stated: for every L there is a document of 2L+2 selections,
   nesting L+1, on which the Inline-mode pass alone performs 3*2^L - 1 visits:
   work doubles for every two selections added, so no polynomial in the size
   bounds it, and with the default recursion limit (32) the family stays
   within the configured limits up to L = 31. *)
Theorem C11_fanout_refuted : forall L,
    doc_size (fan_doc L) = 2 * N.of_nat L + 2 /\
    inline_pass w_schema (fan_doc L) (3 * L + 4) = Ok (3 * 2 ^ N.of_nat L - 1) /\
    i_nest (fan_doc L) (3 * L + 4) = Ok (N.of_nat L + 1).
Proof. exact c11_fanout. Qed.

Theorem C11_default_config :
  doc_size (fan_doc 22) = 46 /\ 3 * 2 ^ 22 - 1 = 12582911 /\ 22 + 1 <= 32 /\
  work_bound 46 < 12582911.
Proof. exact c11_default_config. Qed.

Check C11_fanout_refuted : forall L,
    doc_size (fan_doc L) = 2 * N.of_nat L + 2 /\
    inline_pass w_schema (fan_doc L) (3 * L + 4) = Ok (3 * 2 ^ N.of_nat L - 1) /\
    i_nest (fan_doc L) (3 * L + 4) = Ok (N.of_nat L + 1).

Print Assumptions C11_visits_are_inlined_size.
Print Assumptions C11_fanout_refuted.
Print Assumptions C11_default_config.

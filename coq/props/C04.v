(* C04 — merged fields resolve once; mutation root fields run one at a time in order. *)
From AG Require Import ExecCheck ExecWitness.
Open Scope N_scope.

Theorem C04_once_refuted :
  trace_of (impl_exec quirks_today m_schema w0 dm None [] 50) = Some [(1, 20); (2, 23); (1, 20); (2, 23)] /\
  trace_of (spec_exec m_schema w0 dm None [] 50) = Some [(1, 20); (2, 23)] /\
  trace_of (impl_exec quirks_none m_schema w0 dm None [] 50) = Some [(1, 20); (2, 23)].
Proof. exact w_mutation_twice. Qed.
Theorem C04_per_occurrence_refuted :
  data_of (impl_exec quirks_today m_schema w7 d7 None [] 50) = Some (VObj [(20, VObj [(23, VInt 2)])]) /\
  data_of (spec_exec m_schema w7 d7 None [] 50) = Some (VObj [(20, VNull)]) /\
  trace_of (impl_exec quirks_today m_schema w7 d7 None [] 50) = Some [(0, 20); (2, 23); (0, 20); (2, 21); (3, 25)] /\
  trace_of (spec_exec m_schema w7 d7 None [] 50) = Some [(0, 20); (2, 23); (2, 21); (3, 25)].
Proof. exact w_per_occurrence. Qed.

Print Assumptions C04_once_refuted.
Print Assumptions C04_per_occurrence_refuted.

(* C04 — merged fields resolve once; mutation root fields run one at a time in order. *)
From AG Require Import ExecCheck ExecWitness Sched SchedProofs.
Open Scope N_scope.

Theorem C04_once_refuted :
  trace_of (impl_exec quirks_today m_schema w0 dm None [] 50) = Some [(1, 20); (2, 23); (1, 20); (2, 23)] /\
  trace_of (spec_exec m_schema w0 dm None [] 50) = Some [(1, 20); (2, 23)] /\
  trace_of (impl_exec quirks_none m_schema w0 dm None [] 50) = Some [(1, 20); (2, 23)].
Proof. exact w_mutation_twice. Qed.
Theorem C04_per_occurrence_refuted :
  data_of (impl_exec quirks_today m_schema w7 d7 None [] 50) = Some (VObj [(20, VObj [(23, VInt 2)])]) /\
  data_of (spec_exec m_schema w7 d7 None [] 50) = Some (VObj [(20, VNull)]) /\
  trace_of (impl_exec quirks_today m_schema w7 d7 None [] 50) = Some [(0, 20); (2, 23); (0, 20); (2, 21); (3, 25)] /\
  trace_of (spec_exec m_schema w7 d7 None [] 50) = Some [(0, 20); (2, 23); (2, 21); (3, 25)].
Proof. exact w_per_occurrence. Qed.

(* second half: mutation root fields run one at a time, in document order, under EVERY
   completion schedule of the resolvers (scheduler model Sched.v, tied to the code by the gated
   runs of check C05): the event log splits into consecutive per-root-field segments *)
Theorem C04_serial : forall kd done cs s f n l,
  run_log s (FSeq kd done cs) = (f, n, l) -> seg_ok (map all_events cs) (evs_of l).
Proof. exact serial_log. Qed.
Theorem C04_serial_order : forall kd done cs s f n l,
  run_log s (FSeq kd done cs) = (f, n, l) -> disjoint_sets (map all_events cs) ->
  forall i j x y, (i < j)%nat ->
    In x (all_events (nth i cs (FDone (IVal VNull)))) -> In y (all_events (nth j cs (FDone (IVal VNull)))) ->
    ~ before y x (evs_of l).
Proof. exact serial_order. Qed.

Print Assumptions C04_serial.
Print Assumptions C04_serial_order.
Print Assumptions C04_once_refuted.
Print Assumptions C04_per_occurrence_refuted.

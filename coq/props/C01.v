(* C01 — query results follow spec field collection and completion (static schemas). *)
From AG Require Import ExecCheck ExecWitness.
Open Scope N_scope.

(* known findings: the statement is false of the faithful model (witnesses replayed on the real code) *)
Theorem C01_skip_default_refuted :
  data_of (impl_exec quirks_today m_schema w0 d1 None [] 50) = Some (VObj [(20, VObj [(23, VInt 2)])]) /\
  data_of (spec_exec m_schema w0 d1 None [] 50) = Some (VObj [(21, VObj [(23, VInt 3)])]).
Proof. exact w_skip_default. Qed.
Theorem C01_union_cond_refuted :
  data_of (impl_exec quirks_today m_schema w0 d2 None [] 50) = Some (VObj [(26, VObj []); (20, VObj [])]) /\
  data_of (spec_exec m_schema w0 d2 None [] 50) = Some (VObj [(26, VObj [(23, VInt 2)]); (20, VObj [(N_typename, VStr [65])])]).
Proof. exact w_union_cond. Qed.
Theorem C01_nan_refuted :
  data_of (impl_exec quirks_today m_schema w3 d3 None [] 50) = Some (VObj [(21, VObj [(25, VNull)])]) /\
  errs_of (impl_exec quirks_today m_schema w3 d3 None [] 50) = Some [].
Proof. exact w_nan. Qed.
Theorem C01_field_error_refuted :
  data_of (impl_exec quirks_today m_schema w4 d4 None [] 50) = Some (VObj [(20, VNull)]) /\
  data_of (spec_exec m_schema w4 d4 None [] 50) = Some (VObj [(20, VObj [(23, VInt 2); (24, VNull)])]) /\
  data_of (impl_exec quirks_none m_schema w4 d4 None [] 50) = data_of (spec_exec m_schema w4 d4 None [] 50).
Proof. exact w_field_error. Qed.
Theorem C01_per_occurrence_refuted :
  data_of (impl_exec quirks_today m_schema w7 d7 None [] 50) = Some (VObj [(20, VObj [(23, VInt 2)])]) /\
  data_of (spec_exec m_schema w7 d7 None [] 50) = Some (VObj [(20, VNull)]) /\
  trace_of (impl_exec quirks_today m_schema w7 d7 None [] 50) = Some [(0, 20); (2, 23); (0, 20); (2, 21); (3, 25)] /\
  trace_of (spec_exec m_schema w7 d7 None [] 50) = Some [(0, 20); (2, 23); (2, 21); (3, 25)].
Proof. exact w_per_occurrence. Qed.
Theorem C01_nonvacuous :
  data_of (impl_exec quirks_today m_schema wn dn None [] 50) = data_of (spec_exec m_schema wn dn None [] 50) /\
  data_of (spec_exec m_schema wn dn None [] 50) =
    Some (VObj [(20, VObj [(23, VInt 2); (24, VStr [104; 105]); (21, VObj [(23, VInt 3)])]);
                (22, VList [VObj [(23, VInt 3)]; VObj [(23, VInt 3)]]); (N_typename, VStr [81])]) /\
  errs_of (impl_exec quirks_today m_schema wn dn None [] 50) = Some [].
Proof. exact w_nonvacuous. Qed.

Print Assumptions C01_skip_default_refuted.
Print Assumptions C01_union_cond_refuted.
Print Assumptions C01_nan_refuted.
Print Assumptions C01_field_error_refuted.
Print Assumptions C01_per_occurrence_refuted.
Print Assumptions C01_nonvacuous.

(* C01 — query results follow spec field collection and completion (static schemas). *)
From AG Require Import ExecCheck ExecWitness ExecProofs.
Open Scope N_scope.

(* With every recorded deviation switched off, the executor model returns
   exactly the data of the specification's execution algorithm: for all
   schemas (registry-consistent), worlds, documents, operations, variables and
   fuel.  So each way today's code departs from the specification is one of
   the seven flags, and the per-case verdict attributes a mismatch to the
   first flag whose removal changes the result. *)
Theorem C01_corrected_refines_spec : forall S w d opname vars n r1 r2,
    wf_implements S -> wf_types S ->
    impl_exec quirks_none S w d opname vars n = Ok r1 ->
    spec_exec S w d opname vars n = Ok r2 ->
    rs_data r1 = rs_data r2.
Proof. exact corrected_refines_spec. Qed.

(* a non-null position never holds null in the specification's result *)
Theorem C01_spec_nonnull_never_null : forall S w frags vars vdefs n t' o sub p v es tr,
    s_complete S w frags vars vdefs n (TNonNull t') o sub p = Ok (RVal v, es, tr) -> v <> VNull.
Proof. exact spec_nonnull_never_null. Qed.

(* known findings: the statement is false of the faithful model (witnesses replayed on the real code) *)
Theorem C01_skip_default_refuted :
  data_of (impl_exec quirks_today m_schema w0 d1 None [] 50) = Some (VObj [(20, VObj [(23, VInt 2)])]) /\
  data_of (spec_exec m_schema w0 d1 None [] 50) = Some (VObj [(21, VObj [(23, VInt 3)])]).
Proof. exact w_skip_default. Qed.
Theorem C01_union_cond_refuted :
  data_of (impl_exec quirks_today m_schema w0 d2 None [] 50) = Some (VObj [(26, VObj []); (20, VObj [])]) /\
  data_of (spec_exec m_schema w0 d2 None [] 50) = Some (VObj [(26, VObj [(23, VInt 2)]); (20, VObj [(N_typename, VStr [65])])]).
Proof. exact w_union_cond. Qed.
Theorem C01_nan_refuted :
  data_of (impl_exec quirks_today m_schema w3 d3 None [] 50) = Some (VObj [(21, VObj [(25, VNull)])]) /\
  errs_of (impl_exec quirks_today m_schema w3 d3 None [] 50) = Some [].
Proof. exact w_nan. Qed.
Theorem C01_field_error_refuted :
  data_of (impl_exec quirks_today m_schema w4 d4 None [] 50) = Some (VObj [(20, VNull)]) /\
  data_of (spec_exec m_schema w4 d4 None [] 50) = Some (VObj [(20, VObj [(23, VInt 2); (24, VNull)])]) /\
  data_of (impl_exec quirks_none m_schema w4 d4 None [] 50) = data_of (spec_exec m_schema w4 d4 None [] 50).
Proof. exact w_field_error. Qed.
Theorem C01_per_occurrence_refuted :
  data_of (impl_exec quirks_today m_schema w7 d7 None [] 50) = Some (VObj [(20, VObj [(23, VInt 2)])]) /\
  data_of (spec_exec m_schema w7 d7 None [] 50) = Some (VObj [(20, VNull)]) /\
  trace_of (impl_exec quirks_today m_schema w7 d7 None [] 50) = Some [(0, 20); (2, 23); (0, 20); (2, 21); (3, 25)] /\
  trace_of (spec_exec m_schema w7 d7 None [] 50) = Some [(0, 20); (2, 23); (2, 21); (3, 25)].
Proof. exact w_per_occurrence. Qed.
Theorem C01_nonvacuous :
  data_of (impl_exec quirks_today m_schema wn dn None [] 50) = data_of (spec_exec m_schema wn dn None [] 50) /\
  data_of (spec_exec m_schema wn dn None [] 50) =
    Some (VObj [(20, VObj [(23, VInt 2); (24, VStr [104; 105]); (21, VObj [(23, VInt 3)])]);
                (22, VList [VObj [(23, VInt 3)]; VObj [(23, VInt 3)]]); (N_typename, VStr [81])]) /\
  errs_of (impl_exec quirks_today m_schema wn dn None [] 50) = Some [].
Proof. exact w_nonvacuous. Qed.

Check C01_corrected_refines_spec : forall S w d opname vars n r1 r2,
    wf_implements S -> wf_types S ->
    impl_exec quirks_none S w d opname vars n = Ok r1 ->
    spec_exec S w d opname vars n = Ok r2 ->
    rs_data r1 = rs_data r2.

Print Assumptions C01_corrected_refines_spec.
Print Assumptions C01_spec_nonnull_never_null.
Print Assumptions C01_skip_default_refuted.
Print Assumptions C01_union_cond_refuted.
Print Assumptions C01_nan_refuted.
Print Assumptions C01_field_error_refuted.
Print Assumptions C01_per_occurrence_refuted.
Print Assumptions C01_nonvacuous.

(* C24 — multipart uploads bind files exactly as mapped and respect limits.
   Only property theorems here. *)
From AG Require Import Http Upload UploadProofs.
Open Scope N_scope.

(* Request::set_upload: a path that denotes a position inside the variables is
   bound to the marker of exactly the upload pushed for it; query, operation
   name, extensions and every other top-level variable are unchanged; a path
   that denotes nothing changes nothing (request and uploads). *)
Theorem C24_bind_partial : forall r ups path f,
  match get_var_path r path with
  | Some _ =>
      exists r', set_upload (r, ups) path f = (r', ups ++ [f]) /\
                 get_var_path r' path = Some (marker (N.of_nat (length ups))) /\
                 r_query r' = r_query r /\ r_op r' = r_op r /\ r_exts r' = r_exts r /\
                 (forall rest, strip_prefix VARIABLES_DOT path = Some rest ->
                  forall k, str_eqb k (hd [] (split_dot rest)) = false ->
                            assoc_get k (r_vars r') = assoc_get k (r_vars r))
  | None => set_upload (r, ups) path f = (r, ups)
  end.
Proof. exact set_upload_bound. Qed.

(* the assignment inside a value happens exactly when the path resolves, and
   then reading the same path gives the marker (any depth, lists and objects) *)
Theorem C24_path_write_read : forall mk parts v,
  match get_path parts v with
  | Some _ => exists v', upd_path parts mk v = Some v' /\ get_path parts v' = Some mk
  | None => upd_path parts mk v = None
  end.
Proof. exact upd_path_resolvable. Qed.

(* after the binding loop exactly the entries without a file part are left *)
Theorem C24_entries_left : forall b files m reqs k,
  In k (map fst (fst (bind_files b files m reqs))) <-> In k (map fst m) /\ ~ In k (map fst files).
Proof. exact bind_files_left. Qed.

(* a map entry without a matching file part is never accepted *)
Theorem C24_missing_file : forall o len ps res,
  receive_multipart o len ps = Ok res ->
  forall st m, read_parts o ps {| st_req := None; st_map := None; st_files := [] |} = Ok st -> st_map st = Some m ->
  forall k, In k (map fst m) -> In k (map fst (st_files st)).
Proof. exact missing_file_rejected. Qed.

(* a file larger than max_file_size is never accepted *)
Theorem C24_size : forall o len ps,
  file_too_big o ps = true -> is_ok (receive_multipart o len ps) = false.
Proof. exact file_size_enforced. Qed.

(* known finding: max_num_files is not a count.  Alone it has no effect at all ... *)
Theorem C24_count_alone_ignored : forall n len ps,
  receive_multipart {| max_size := None; max_files := Some n |} len ps =
  receive_multipart {| max_size := None; max_files := None |} len ps.
Proof. exact count_limit_alone_ignored. Qed.

(* ... and with max_file_size it is only a byte budget: three files, limit one, accepted *)
Theorem C24_count_refuted :
  too_many_files {| max_size := Some 600; max_files := Some 1 |} count_witness = true /\
  too_many_files {| max_size := None; max_files := Some 1 |} count_witness = true /\
  is_ok (receive_multipart {| max_size := Some 600; max_files := Some 1 |} 580 count_witness) = true /\
  is_ok (receive_multipart {| max_size := None; max_files := Some 1 |} 580 count_witness) = true.
Proof. exact count_limit_refuted. Qed.

Theorem C24_nonvacuous :
  receive_multipart {| max_size := None; max_files := None |} 580 count_witness =
  Ok (false, [({| r_query := [113]; r_op := None;
                  r_vars := [([97], marker 0); ([98], marker 1); ([99], marker 2)]; r_exts := [] |}, [0; 1; 2])]).
Proof. exact bind_example. Qed.

Check C24_size : forall o len ps, file_too_big o ps = true -> is_ok (receive_multipart o len ps) = false.
Check C24_entries_left : forall b files m reqs k,
  In k (map fst (fst (bind_files b files m reqs))) <-> In k (map fst m) /\ ~ In k (map fst files).

Print Assumptions C24_bind_partial.
Print Assumptions C24_path_write_read.
Print Assumptions C24_entries_left.
Print Assumptions C24_missing_file.
Print Assumptions C24_size.
Print Assumptions C24_count_alone_ignored.
Print Assumptions C24_count_refuted.
Print Assumptions C24_nonvacuous.

(* C02 — query results follow spec field collection and completion (dynamic schemas). *)
From AG Require Import DynExecCheck DynExecProofs DynExecCheckProofs DynExecWitness ExecWitness.
Open Scope N_scope.

(* central: the model of the dynamic executor with every recorded deviation
   switched off answers the specification's data, for all schemas, worlds,
   documents, operation names, variables, null styles and fuels *)
Theorem C02_corrected_data : forall S w d opname vars nullv n r,
  spec_exec S w d opname vars n = Ok r ->
  exists r', dyn_exec dquirks_none nullv S w d opname vars n = Ok r' /\ rs_data r' = rs_data r.
Proof. exact dyn_corrected_data. Qed.
Check C02_corrected_data : forall S w d opname vars nullv n r,
  spec_exec S w d opname vars n = Ok r ->
  exists r', dyn_exec dquirks_none nullv S w d opname vars n = Ok r' /\ rs_data r' = rs_data r.

(* non-null positions, for every combination of the other deviations: once null
   values are checked at non-null types (flag 5 off) neither a completed value
   nor a field of non-null type is ever null *)
Theorem C02_nonnull_value : forall q S w frags vars vdefs nullv, dq_null_at_nonnull q = false ->
  forall n t ov sub p v es tr,
  d_comp q S w frags vars vdefs nullv n (TNonNull t) ov sub p = Ok (IVal v, es, tr) -> v <> VNull.
Proof. exact d_comp_nonnull. Qed.
Theorem C02_nonnull_field : forall q S w frags vars vdefs nullv, dq_null_at_nonnull q = false ->
  forall n rt nid o p t v es tr,
  obj_field_ty S rt (o_name o) = Some (TNonNull t) ->
  d_field q S w frags vars vdefs nullv n rt (Some nid) o p = Ok (IVal v, es, tr) -> v <> VNull.
Proof. exact d_field_nonnull. Qed.

(* the per-case verdict: code 0 means the real response carries exactly the
   specification's data; the "gap" code 2 cannot occur *)
Theorem C02_verdict_sound : forall S w d opname vars nullv n impl,
  check_c02 S w d opname vars nullv n impl = 0 ->
  exists s, spec_exec S w d opname vars n = Ok s /\ rs_data impl = rs_data s.
Proof. exact check_c02_sound. Qed.
Theorem C02_verdict_no_gap : forall S w d opname vars nullv n impl,
  check_c02 S w d opname vars nullv n impl <> 2.
Proof. exact check_c02_no_gap. Qed.

(* known findings: the statement is false of the faithful model (each witness
   replayed on the real library, harness/src/bin/c02.rs fixed corpus) *)
Theorem C02_skip_default_refuted :
  data_of (today false yw0 d1) = Some (VObj [(20, VObj [(23, VInt 2)])]) /\
  data_of (spec yw0 d1) = Some (VObj [(21, VObj [(23, VInt 3)])]) /\
  data_of (corrected false yw0 d1) = data_of (spec yw0 d1).
Proof. exact y_skip_default. Qed.
Theorem C02_type_condition_refuted :
  data_of (today false yw0 yd2) = Some (VObj [(20, VObj []); (28, VObj [])]) /\
  data_of (spec yw0 yd2) = Some (VObj [(20, VObj [(N_typename, VStr [65])]); (28, VObj [(N_typename, VStr [65])])]) /\
  data_of (corrected false yw0 yd2) = data_of (spec yw0 yd2).
Proof. exact y_union_cond. Qed.
Theorem C02_no_catch_refuted :
  data_of (today false yw3 d4) = Some VNull /\
  errs_of (today false yw3 d4) = Some [[]] /\
  data_of (spec yw3 d4) = Some (VObj [(20, VObj [(23, VInt 2); (24, VNull)])]) /\
  errs_of (spec yw3 d4) = Some [[PF 20; PF 24]] /\
  data_of (corrected false yw3 d4) = data_of (spec yw3 d4).
Proof. exact y_no_catch. Qed.
Theorem C02_null_at_nonnull_refuted :
  data_of (today true yw5 yd5) = Some (VObj [(20, VObj [(23, VNull)])]) /\
  errs_of (today true yw5 yd5) = Some [] /\
  data_of (spec yw5 yd5) = Some (VObj [(20, VNull)]) /\
  data_of (corrected true yw5 yd5) = data_of (spec yw5 yd5) /\
  data_of (today false yw5 yd5) = Some VNull /\ errs_of (today false yw5 yd5) = Some [[PF 20; PF 23]].
Proof. exact y_null_at_nonnull. Qed.
Theorem C02_scalar_unchecked_refuted :
  data_of (today false yw6 yd6) = Some (VObj [(24, VInt 7); (20, VObj [(23, VInt 2)])]) /\
  data_of (spec yw6 yd6) = Some (VObj [(24, VNull); (20, VObj [(23, VInt 2)])]) /\
  data_of (corrected false yw6 yd6) = data_of (spec yw6 yd6).
Proof. exact y_scalar_unchecked. Qed.
Theorem C02_null_value_refuted :
  data_of (today false yw0 yd7) = Some (VObj [(27, VList [VObj [(N_typename, VStr [65])]; VObj [(N_typename, VStr [65])]])]) /\
  data_of (spec yw0 yd7) = Some (VObj [(27, VList [VObj [(N_typename, VStr [65])]; VNull])]) /\
  data_of (corrected false yw0 yd7) = data_of (spec yw0 yd7) /\
  data_of (today true yw7 yd7a) = Some (VObj [(20, VObj [(N_typename, VStr [65])])]) /\
  data_of (spec yw7 yd7a) = Some (VObj [(20, VNull)]) /\
  data_of (today true yw7 yd7b) = Some VNull /\
  errs_of (today true yw7 yd7b) = Some [[PF 28]] /\
  data_of (spec yw7 yd7b) = Some (VObj [(28, VNull)]).
Proof. exact y_null_value. Qed.
(* deviation 4 alone does not change data today; it is visible in the resolver trace (C04's subject) *)
Theorem C02_per_occurrence_trace :
  trace_of (today false yw0 dm) = Some [(1, 20); (2, 23); (1, 20); (2, 23)] /\
  trace_of (spec yw0 dm) = Some [(1, 20); (2, 23)] /\
  trace_of (corrected false yw0 dm) = Some [(1, 20); (2, 23)] /\
  data_of (today false yw0 dm) = data_of (spec yw0 dm).
Proof. exact y_per_occurrence. Qed.
Theorem C02_nonvacuous :
  data_of (today false ywn ydn) = data_of (spec ywn ydn) /\
  data_of (corrected false ywn ydn) = data_of (spec ywn ydn) /\
  data_of (spec ywn ydn) =
    Some (VObj [(20, VObj [(23, VInt 2); (24, VStr [104; 105]); (21, VObj [(23, VInt 3)])]);
                (22, VList [VObj [(23, VInt 3)]; VObj [(23, VInt 3)]]);
                (26, VObj [(23, VInt 2); (N_typename, VStr [65])]); (N_typename, VStr [81])]) /\
  errs_of (today false ywn ydn) = Some [].
Proof. exact y_nonvacuous. Qed.

Print Assumptions C02_corrected_data.
Print Assumptions C02_nonnull_value.
Print Assumptions C02_nonnull_field.
Print Assumptions C02_verdict_sound.
Print Assumptions C02_verdict_no_gap.
Print Assumptions C02_skip_default_refuted.
Print Assumptions C02_type_condition_refuted.
Print Assumptions C02_no_catch_refuted.
Print Assumptions C02_null_at_nonnull_refuted.
Print Assumptions C02_scalar_unchecked_refuted.
Print Assumptions C02_null_value_refuted.
Print Assumptions C02_per_occurrence_trace.
Print Assumptions C02_nonvacuous.

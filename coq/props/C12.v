(* C12 — no client input can crash, overflow or hang the server.
   PARTIAL by design: the theorems cover the decoders modelled in Crash.v
   (every unwrap / expect / index / arithmetic site on client-controlled data in
   upload.rs, request.rs::set_upload, multipart.rs limits, parse/utils.rs,
   types/mod.rs::Type::new).  pest's recursion, serde_json, multer, the
   executor and the websocket layer are explored by the harness only.
   Only property theorems here: each is closed by [exact], its statement is
   pinned by [Check] and its assumptions are printed. *)
From AG Require Import CrashRec CrashRecProofs.
From AG Require Import Crash CrashProofs CursorProofs.
From AGgen Require Import CrashConstGen.
Open Scope Z_scope.

(* ---- upload markers: the exact panic set, for every quirk vector q -------- *)
(* a resolver reading an Upload argument panics exactly when (unwrap still in
   the code and) the string carries the marker prefix and the rest is not a
   usize, or (index still unchecked and) the index names no uploaded file *)
Theorem C12_upload_panic_iff : forall q nup v,
    upload_field q nup v = Panic <->
    (q_parse_unwrap q = true /\ upload_known_class nup v = 1%N) \/
    (q_value_index q = true /\ upload_known_class nup v = 2%N).
Proof. exact upload_field_panic_iff. Qed.

(* the property outside the narrow, computable known class *)
Theorem C12_no_panic_upload : forall q nup v,
    upload_known_class nup v = 0%N -> upload_field q nup v <> Panic.
Proof. exact upload_no_panic. Qed.

Theorem C12_no_panic_upload_parse : forall q v,
    upload_parse_known_class v = 0%N -> upload_parse q v <> Panic.
Proof. exact upload_parse_no_panic. Qed.

(* the known class is narrow: a string with the marker prefix whose rest is
   not [+]digits in usize range, or is an index >= the number of uploads *)
Theorem C12_known_class_narrow : forall nup v,
    upload_known_class nup v <> 0%N ->
    exists rest, v = Some (UStr (upload_prefix_gen ++ rest)) /\
                 (spec_parse_int U64 rest = None \/ exists i, spec_parse_int U64 rest = Some i /\ nup <= i).
Proof. exact upload_known_class_narrow. Qed.

(* once both sites return errors (flags off) the property holds everywhere *)
Theorem C12_no_panic_upload_fixed : forall nup v, upload_field quirks_none nup v <> Panic.
Proof. exact upload_fixed_no_panic. Qed.

(* known findings: the full statement is false of the faithful model *)
Theorem C12_upload_marker_refuted :
  upload_field quirks_all 3 (Some (UStr S_MARK_X)) = Panic /\
  upload_known_class 3 (Some (UStr S_MARK_X)) = 1%N.
Proof. exact c12_upload_marker_refuted. Qed.
Theorem C12_upload_index_refuted :
  upload_field quirks_all 0 (Some (UStr S_MARK_0)) = Panic /\
  upload_known_class 0 (Some (UStr S_MARK_0)) = 2%N /\
  upload_parse quirks_all (Some (UStr S_MARK_0)) = Ok 0.
Proof. exact c12_upload_index_refuted. Qed.
Theorem C12_upload_panic_exact : forall nup v,
    upload_field quirks_all nup v = Panic <-> upload_known_class nup v <> 0%N.
Proof. exact upload_panic_exact. Qed.

(* Rust's usize syntax, as used above: the accepted language is [+]?[0-9]+
   with the positional value in range (proved in CursorProofs) *)
Theorem C12_usize_syntax : forall s, parse_int U64 s = spec_parse_int U64 s.
Proof. exact (parse_int_spec U64). Qed.

(* ---- set_upload: never panics, and what it writes is safe to read --------- *)
Theorem C12_no_panic_set_upload : forall vars nup path,
    0 <= nup -> set_upload vars nup path <> Panic.
Proof. exact set_upload_no_panic. Qed.
Theorem C12_no_panic_set_uploads : forall paths vars nup,
    0 <= nup -> set_uploads vars nup paths <> Panic.
Proof. exact set_uploads_no_panic. Qed.
Theorem C12_genuine_marker_ok : forall q nup n,
    0 <= n < nup -> nup <= 2 ^ 64 -> upload_field q nup (Some (UStr (marker n))) = Ok n.
Proof. exact genuine_marker_ok. Qed.
Theorem C12_set_upload_marker_safe : forall q vars nup path vars',
    0 <= nup -> nup + 1 <= 2 ^ 64 ->
    set_upload vars nup path = Ok (vars', nup + 1) ->
    exists rest first parts v1,
      strip_prefix S_VARIABLES_DOT path = Some rest /\ split_dot rest = first :: parts /\
      sassoc first vars' = Some v1 /\
      get_at parts v1 = Some (VStr (marker nup)) /\
      upload_field q (nup + 1) (Some (UStr (marker nup))) = Ok nup.
Proof. exact set_upload_marker_safe. Qed.

(* ---- multipart limit product (server configuration, not client input) ---- *)
Theorem C12_limit_product_panic_iff : forall chk a b,
    limit_product chk a b = Panic <-> chk = true /\ usize_max < a * b.
Proof. exact limit_product_panic_iff. Qed.
Theorem C12_no_panic_limit_product : forall chk a b,
    a * b <= usize_max -> limit_product chk a b <> Panic.
Proof. exact limit_product_no_panic. Qed.

(* ---- string_value: unwraps unreachable behind rule string_content -------- *)
Theorem C12_string_value_total : forall s,
    string_content s -> exists v, string_value s = Ok v.
Proof. exact string_value_total. Qed.
Theorem C12_string_content_decidable : forall s, string_content_b s = true <-> string_content s.
Proof. exact string_content_b_iff. Qed.
(* the guard is needed: unguarded, each of the five sites fires *)
Theorem C12_string_value_unguarded_panics :
  string_value [92]%N = Panic /\ string_value [92; 120]%N = Panic /\ string_value [92; 117; 49; 50]%N = Panic /\
  string_value [92; 117; 71; 71; 71; 71]%N = Panic /\ string_value [92; 117; 68; 56; 48; 48]%N = Panic.
Proof. exact string_value_unguarded_panics. Qed.

(* ---- Type::new(..).unwrap() in parse_type -------------------------------- *)
Theorem C12_type_new_total : forall s,
    type_shape s -> exists t, type_new s = Ok t /\ print_ty t = s.
Proof. exact type_new_total. Qed.
Theorem C12_no_panic_parse_type : forall s,
    type_shape s -> exists t, parse_type_unwrap s = Ok t.
Proof. exact parse_type_unwrap_ok. Qed.
Theorem C12_no_panic_type_new : forall s, type_new s <> Panic /\ type_new s <> OutOfFuel.
Proof. exact type_new_regular. Qed.
Theorem C12_type_shape_recogniser_sound : forall s, type_shape_b s = true -> type_shape s.
Proof. exact type_shape_b_sound. Qed.

(* ---- exactly_one ---------------------------------------------------------- *)
Theorem C12_exactly_one_panic_iff : forall (A : Type) dbg (l : list A),
    exactly_one dbg l = Panic <-> l = [] \/ (dbg = true /\ (2 <= length l)%nat).
Proof. exact (@exactly_one_panic_iff). Qed.

(* ---- the correspondence verdicts cannot report a theorem gap -------------- *)
Theorem C12_checks_no_gap :
  (forall c, check_uexec c <> 2%N) /\ (forall c, check_uparse c <> 2%N) /\ (forall c, check_setup c <> 2%N) /\
  (forall c, check_lim c <> 2%N) /\ (forall c, check_str c <> 2%N) /\ (forall c, check_ty c <> 2%N).
Proof.
  exact (conj check_uexec_no_gap (conj check_uparse_no_gap (conj check_setup_no_gap
        (conj check_lim_no_gap (conj check_str_no_gap check_ty_no_gap))))).
Qed.

(* ---- non-vacuity ---------------------------------------------------------- *)
Theorem C12_nonvacuous :
  (type_shape_b [91; 91; 73; 110; 116; 33; 93; 93; 33]%N = true /\
   type_new [91; 91; 73; 110; 116; 33; 93; 93; 33]%N = Ok (TList (TList (TNamed [73; 110; 116]%N false) true) false)) /\
  (string_content_b [97; 92; 110; 92; 117; 50; 97; 49; 65; 92; 34]%N = true /\
   string_value [97; 92; 110; 92; 117; 50; 97; 49; 65; 92; 34]%N = Ok [97; 10; 10778; 34]%N) /\
  upload_marker_gen = upload_prefix_gen.
Proof. exact (conj type_shape_nonvacuous (conj string_content_nonvacuous marker_is_prefix)). Qed.

(* ---- parser recursion depth ------------------------------------------------
   NO THEOREM.  The recursion depth of the generated pest parser on nested
   list / object values, selection sets and list types is not modelled here;
   MAX_RECURSION_DEPTH (= max_recursion_depth_gen) is tested only by the AST
   builder, after pest has recursed.  The finding
   `parser-stack-overflow-deep-nesting` is covered by EXPLORATION only: the
   harness parses deeply nested documents in child processes (stream DEEP,
   verdict function check_deep) and observes the abort signal; Coq cannot show
   stack exhaustion.
   ---------------------------------------------------------------------------- *)

Check C12_upload_panic_iff : forall q nup v,
    upload_field q nup v = Panic <->
    (q_parse_unwrap q = true /\ upload_known_class nup v = 1%N) \/
    (q_value_index q = true /\ upload_known_class nup v = 2%N).
(* ---- the recursion-depth walk that runs on every request before validation ---- *)
(* measure argument: every recursive call raises the depth and the depth is
   capped, so the walk needs at most maxd + 2 - cur stack frames on EVERY
   document, whatever its fragment graph (cycles included) *)
Theorem C12_recursion_walk_total : forall frags maxd fuel cur set,
    (N.to_nat (maxd + 1 - cur) < fuel)%nat ->
    rd_check frags 1%N maxd fuel cur set <> OutOfFuel.
Proof. exact rd_check_total. Qed.

(* check_recursive_depth answers every document: Ok or the depth error *)
Theorem C12_recursion_walk_answers : forall maxd d,
    rd_doc maxd d = Ok tt \/ exists e, rd_doc maxd d = Err e.
Proof. exact rd_doc_answers. Qed.

(* the increment on the spread arm is what bounds the walk: without it a
   reachable fragment cycle recurses for every budget (= stack overflow) *)
Theorem C12_recursion_needs_increment : forall f maxd fuel,
    rd_check (self_cycle f) 0%N maxd fuel 0%N [SSpread f []] = OutOfFuel.
Proof. exact rd_check_diverges_without_increment. Qed.

Theorem C12_frag_check_no_gap : forall c, check_frag c <> 2%N.
Proof. exact check_frag_no_gap. Qed.

Check C12_no_panic_upload : forall q nup v, upload_known_class nup v = 0%N -> upload_field q nup v <> Panic.
Check C12_string_value_total : forall s, string_content s -> exists v, string_value s = Ok v.
Check C12_type_new_total : forall s, type_shape s -> exists t, type_new s = Ok t /\ print_ty t = s.
Check C12_no_panic_set_uploads : forall paths vars nup, 0 <= nup -> set_uploads vars nup paths <> Panic.

Print Assumptions C12_upload_panic_iff.
Print Assumptions C12_no_panic_upload.
Print Assumptions C12_no_panic_upload_parse.
Print Assumptions C12_known_class_narrow.
Print Assumptions C12_no_panic_upload_fixed.
Print Assumptions C12_upload_marker_refuted.
Print Assumptions C12_upload_index_refuted.
Print Assumptions C12_upload_panic_exact.
Print Assumptions C12_usize_syntax.
Print Assumptions C12_no_panic_set_upload.
Print Assumptions C12_no_panic_set_uploads.
Print Assumptions C12_genuine_marker_ok.
Print Assumptions C12_set_upload_marker_safe.
Print Assumptions C12_limit_product_panic_iff.
Print Assumptions C12_no_panic_limit_product.
Print Assumptions C12_string_value_total.
Print Assumptions C12_string_content_decidable.
Print Assumptions C12_string_value_unguarded_panics.
Print Assumptions C12_type_new_total.
Print Assumptions C12_no_panic_parse_type.
Print Assumptions C12_no_panic_type_new.
Print Assumptions C12_type_shape_recogniser_sound.
Print Assumptions C12_exactly_one_panic_iff.
Print Assumptions C12_checks_no_gap.
Print Assumptions C12_nonvacuous.
Print Assumptions C12_recursion_walk_total.
Print Assumptions C12_recursion_walk_answers.
Print Assumptions C12_recursion_needs_increment.
Print Assumptions C12_frag_check_no_gap.

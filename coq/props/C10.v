(* C10 — depth, complexity, recursion and directive limits are enforced exactly.
   Only property theorems: [exact]-closed, pinned by [Check], assumptions printed. *)
From AG Require Import LimitsCheck LimitsProofs.
Open Scope N_scope.

(* fragments counted as if written inline: each walker computes the plain
   measure of the document in which every spread is replaced by the inline
   fragment it denotes — any fragment table, any document, any fuel *)
Theorem C10_depth_inlined : forall frags n l l',
    inline_list frags n l = Ok l' -> depth_list frags n l = Ok (pdepth_list l').
Proof. exact (fun frags n => proj2 (depth_inline frags n)). Qed.

Theorem C10_nesting_inlined : forall frags n l l',
    inline_list frags n l = Ok l' -> nest_list frags n l = Ok (pnest_list l').
Proof. exact (fun frags n => proj2 (nest_inline frags n)). Qed.

Theorem C10_directives_inlined : forall frags n l l',
    inline_list frags n l = Ok l' -> dirs_list frags n l = Ok (pdirs_list l').
Proof. exact (fun frags n => proj2 (dirs_inline frags n)). Qed.

(* the recursion-depth walker stops exactly when the nesting exceeds the limit
   (limit-1 / limit / limit+1 behave as stated) *)
Theorem C10_recursion_exact : forall frags n l l' maxd lvl r,
    lvl <= maxd -> inline_list frags n l = Ok l' ->
    rec_list frags n maxd lvl l = Ok r -> snd r = (maxd <? lvl + pnest_list l').
Proof. exact (fun frags n => proj2 (rec_exceeds frags n)). Qed.

Theorem C10_directive_limit_exact : forall frags n l l' lim r,
    inline_list frags n l = Ok l' ->
    dir_list frags n lim l = Ok r -> snd r = (lim <? pdirs_list l').
Proof. exact (fun frags n => proj2 (dir_exceeds frags n)). Qed.

(* complexity: what the visitor computes equals the reference (fragment type
   conditions pushed like inline fragments) whenever every spread names a
   fragment conditioned on the enclosing type *)
Theorem C10_complexity_spread_match : forall frags Sch vars vdefs n cur l,
    sm_list frags Sch n cur l = true ->
    cx_list frags Sch vars vdefs false n cur l = cx_list frags Sch vars vdefs true n cur l.
Proof. exact (fun frags Sch vars vdefs n => proj2 (cx_sm frags Sch vars vdefs n)). Qed.

(* the request is rejected by a limit exactly when a reference measure of the
   inlined document exceeds the configured value *)
Theorem C10_decision_exact : forall Sch d vars n lim dec sr,
    spreads_match Sch d n = true ->
    impl_decision Sch d vars n lim = Ok dec ->
    spec_limit_reject Sch d vars n lim = Ok sr ->
    is_limit_reject dec = sr.
Proof. exact decision_exact. Qed.

(* known finding: outside that class the full statement is false of the faithful model *)
Theorem C10_spread_refuted :
  impl_decision w_schema w_doc_inline [] 50 w_limits = Ok D_ACCEPT /\
  impl_decision w_schema w_doc_spread [] 50 w_limits = Ok D_CX /\
  spec_limit_reject w_schema w_doc_spread [] 50 w_limits = Ok false /\
  inlined w_doc_spread 50 = inlined w_doc_inline 50.
Proof. exact c10_spread_refuted. Qed.

Theorem C10_nonvacuous :
  spreads_match w_schema w_doc_inline 50 = true /\
  impl_decision w_schema w_doc_inline [] 50 {| l_rec := 32; l_dirs := None; l_cx := Some 1; l_depth := None |} = Ok D_CX /\
  spec_limit_reject w_schema w_doc_inline [] 50 {| l_rec := 32; l_dirs := None; l_cx := Some 1; l_depth := None |} = Ok true.
Proof. exact c10_nonvacuous. Qed.

Check C10_decision_exact : forall Sch d vars n lim dec sr,
    spreads_match Sch d n = true ->
    impl_decision Sch d vars n lim = Ok dec ->
    spec_limit_reject Sch d vars n lim = Ok sr ->
    is_limit_reject dec = sr.
Check C10_recursion_exact : forall frags n l l' maxd lvl r,
    lvl <= maxd -> inline_list frags n l = Ok l' ->
    rec_list frags n maxd lvl l = Ok r -> snd r = (maxd <? lvl + pnest_list l').

Print Assumptions C10_depth_inlined.
Print Assumptions C10_nesting_inlined.
Print Assumptions C10_directives_inlined.
Print Assumptions C10_recursion_exact.
Print Assumptions C10_directive_limit_exact.
Print Assumptions C10_complexity_spread_match.
Print Assumptions C10_decision_exact.
Print Assumptions C10_spread_refuted.
Print Assumptions C10_nonvacuous.

(* C18 — introspection is consistent and matches the schema actually served.
   Only property theorems: [exact]-closed, pinned by [Check], assumptions printed. *)
From AG Require Import Introspect IntrospectProofs IntrospectClosure.
Open Scope N_scope.

(* Elements hidden by visibility rules never appear: for every registry, visibility context,
   includeDeprecated choice, fuel and set of __type queries, in the answer of the model
   - no listed type is hidden, every field / argument / enum value / input field shown is visible,
     every type named by interfaces / possibleTypes is not hidden,
   - mutationType / subscriptionType are not hidden. *)
Theorem C18_hidden_never_appears : forall R ctx fe ai fuel qs s tq,
  wf_registry R = true -> introspect R ctx fe ai fuel qs = Ok (s, tq) ->
  (forall it, In it (is_types s) ->
      type_hidden R ctx (it_name it) = false /\
      members_visible R ctx it /\
      forall r, In r (link_refs it) -> leaf_not_hidden R ctx r) /\
  (forall n, is_mutation s = Some n \/ is_subscription s = Some n -> type_hidden R ctx n = false).
Proof. exact hidden_never_appears. Qed.
Check C18_hidden_never_appears.
Print Assumptions C18_hidden_never_appears.

(* ... and outside known class 1 (a visible member, or the query root, names a hidden type) the
   type of every member shown and the query root are not hidden either *)
Theorem C18_hidden_member_types : forall R ctx fe ai fuel qs s tq,
  wf_registry R = true -> introspect R ctx fe ai fuel qs = Ok (s, tq) -> kc1 R ctx = false ->
  (forall it r, In it (is_types s) -> In r (member_refs it) -> leaf_not_hidden R ctx r) /\
  type_hidden R ctx (is_query s) = false.
Proof. exact member_types_not_hidden. Qed.
Print Assumptions C18_hidden_member_types.

Theorem C18_hidden_type_refuted :
  wf_registry w1 = true /\ kc1 w1 0 = true /\
  exists r, w_run w1 0 = Ok r /\ s_hidden_types w1 0 (fst r) = false /\ s_closed_members (fst r) = false.
Proof. exact c18_hidden_type_refuted. Qed.
Print Assumptions C18_hidden_type_refuted.

Theorem C18_hidden_directive_refuted :
  wf_registry w2 = true /\ kc2 w2 0 = true /\
  exists r, w_run w2 0 = Ok r /\ s_hidden_dirs w2 0 (fst r) = false.
Proof. exact c18_hidden_directive_refuted. Qed.
Print Assumptions C18_hidden_directive_refuted.

(* Every referenced type is listed: interfaces, possibleTypes, mutationType, subscriptionType *)
Theorem C18_closed_links : forall R ctx fe ai fuel qs s tq,
  wf_registry R = true -> introspect R ctx fe ai fuel qs = Ok (s, tq) ->
  (forall it r, In it (is_types s) -> In r (link_refs it) ->
      exists n, ref_leaf r = Some n /\ In n (map it_name (is_types s))) /\
  (forall n, is_mutation s = Some n \/ is_subscription s = Some n -> In n (map it_name (is_types s))).
Proof. exact closed_links. Qed.
Print Assumptions C18_closed_links.

(* ... and, by the closure of the depth-first traversal of find_visible_types under "a visible member of a
   visited type names a registered visible type" (any registry, any context, any fuel for which the
   traversal answers), outside known class 1 every type named by a field / argument / input field shown, and
   the query root, is listed *)
Theorem C18_closed : forall R ctx fe ai fuel qs s tq,
  wf_registry R = true -> wf_system R = true ->
  introspect R ctx fe ai fuel qs = Ok (s, tq) -> kc1 R ctx = false ->
  (forall it r, In it (is_types s) -> In r (member_refs it) ->
      exists n, ref_leaf r = Some n /\ In n (map it_name (is_types s))) /\
  In (is_query s) (map it_name (is_types s)).
Proof. exact closed_members. Qed.
Print Assumptions C18_closed.

Theorem C18_closed_nonvacuous :
  wf_registry w_ok = true /\ wf_system w_ok = true /\ kc1 w_ok 0 = false /\ kc1 w_ok 1 = false /\
  exists r, introspect w_ok 1 true true (default_fuel w_ok) [] = Ok r /\ (8 <=? N.of_nat (length (is_types (fst r)))) = true.
Proof. exact c18_nonvacuous_closed. Qed.
Print Assumptions C18_closed_nonvacuous.

(* Wrapper chains: the resolvers' ofType chain of a type string is the chain the declared type denotes,
   for every type (any nesting depth), and so for every member of the tree *)
Theorem C18_wrappers : forall R t, wf_keys R = true -> mk_ref R (print_ty t) = spec_ref R t.
Proof. exact mk_ref_print. Qed.
Print Assumptions C18_wrappers.

Theorem C18_wrappers_spec_parser : forall t, parse_ty (print_ty t) = Some t.
Proof. exact parse_ty_print. Qed.
Print Assumptions C18_wrappers_spec_parser.

Theorem C18_wrappers_tree : forall R ctx fe ai fuel qs s tq,
  wf_registry R = true -> introspect R ctx fe ai fuel qs = Ok (s, tq) ->
  forall it, In it (is_types s) ->
    exists ty, assoc (it_name it) (r_types R) = Some ty /\ it_kind it = kind_of (mt_kind ty) /\
      (forall f, In f (olist (it_fields it)) ->
         exists m, In m (reg_fields (mt_kind ty)) /\ if_name f = mf_name m /\ if_dep f = mf_dep m /\
                   decl_ok R (mf_ty m) (if_type f) /\
                   forall a, In a (if_args f) -> input_decl_ok R (mf_args m) a) /\
      (forall i, In i (olist (it_inputs it)) -> exists fs, mt_kind ty = MInput fs /\ input_decl_ok R fs i).
Proof. exact wrappers_tree. Qed.
Print Assumptions C18_wrappers_tree.

(* possibleTypes of a union / interface are exactly its registered members that are listed (in
   registration order); interfaces of an object exactly the listed interfaces it implements *)
Theorem C18_possible_exact : forall R ctx fe ai fuel qs s tq,
  wf_registry R = true -> introspect R ctx fe ai fuel qs = Ok (s, tq) ->
  forall it, In it (is_types s) ->
    exists ty, assoc (it_name it) (r_types R) = Some ty /\
      let shown l := filter (fun n => existsb (fun t => name_eqb (it_name t) n) (is_types s)) l in
      match mt_kind ty with
      | MUnion ps | MInterface _ ps =>
          exists l, it_possible it = Some l /\ ref_names l = shown ps /\ it_interfaces it = None
      | MObject _ =>
          exists l, it_interfaces it = Some l /\ ref_names l = shown (lookup_impl R (it_name it)) /\ it_possible it = None
      | _ => it_possible it = None /\ it_interfaces it = None
      end.
Proof. exact possible_exact. Qed.
Print Assumptions C18_possible_exact.

(* ... which is not symmetric for an interface that implements an interface (known class 3) *)
Theorem C18_interface_interfaces_refuted :
  wf_registry w3 = true /\ kc3 w3 [] = true /\
  exists r, w_run w3 0 = Ok r /\ s_symmetric w3 [] (fst r) = false /\ s_possible_iface w3 [] (fst r) = false.
Proof. exact c18_interface_interfaces_refuted. Qed.
Print Assumptions C18_interface_interfaces_refuted.

(* the single interface pass of find_visible_types drops a visible interface of a listed object (class 4) *)
Theorem C18_interface_pass_refuted :
  wf_registry w4 = true /\
  exists vt r, find_visible w4 0 (default_fuel w4) = Ok vt /\ kc4 w4 [] 0 vt = true /\
               w_run w4 0 = Ok r /\ s_iface_listed w4 [] 0 (fst r) = false /\
               In 22 vt /\ ~ In 20 vt.
Proof. exact c18_interface_pass_refuted. Qed.
Print Assumptions C18_interface_pass_refuted.

Theorem C18_nonvacuous :
  wf_registry w_ok = true /\
  forallb (fun ctx => negb (kc1 w_ok ctx) && negb (kc2 w_ok ctx) && negb (kc3 w_ok [])) [0; 1] = true /\
  forallb (fun ctx => match introspect w_ok ctx true false (default_fuel w_ok) [13; 18] with
                      | Ok r => spec_ok w_ok [] ctx true false r && (7 <=? N.of_nat (length (is_types (fst r))))
                      | _ => false end) [0; 1] = true.
Proof. exact c18_nonvacuous. Qed.
Print Assumptions C18_nonvacuous.

(* C15 — values print as GraphQL literals and convert to JSON without loss.
   Only property theorems here: each is closed by [exact], its statement is
   pinned by [Check] and its assumptions are printed.

   display / write_quoted = Display for ConstValue (escape table and \u format
                            regenerated from value/src/lib.rs);
   pval false id          = the reader written from the GraphQL grammar;
   pval kw rf             = the same reader with the switches that make it
                            behave like the real parser on printed text. *)
From AG Require Import ValueText ValueTextProofs.
Open Scope N_scope.

(* strings with arbitrary characters: every string that holds no control
   character >= U+000A outside the escape table reads back from its literal,
   whatever follows the literal (except another quote) — any reader switches *)
Theorem C15_string_roundtrip : forall kw rf n s rest,
    existsb bad_ctrl s = false -> starts_with [34] rest = None ->
    pval kw rf (S n) (write_quoted s ++ rest) = Some (CStr s, rest).
Proof. exact pval_string. Qed.

(* known finding: U+001B is printed \u0027 and reads back as an apostrophe *)
Theorem C15_string_refuted :
  exists s, read_spec (display (CStr s)) = Some (CStr [39]) /\ s = [27] /\ existsb bad_ctrl s = true.
Proof. exact string_refuted. Qed.

(* the class is exact on control characters: all 65 of them were run through
   printer and reader inside Coq; each is in the class or reads back *)
Theorem C15_controls_outside_class :
  forallb (fun k => let c := N.of_nat k in
                    negb (is_control c) || bad_ctrl c ||
                    match read_spec (display (CStr [c])) with Some (CStr [c']) => c' =? c | _ => false end)
          (seq 0 160) = true.
Proof. exact controls_outside_class. Qed.

(* integers of any size read back from their decimal text *)
Theorem C15_int_roundtrip : forall kw rf n z rest,
    follow_bad rest = false -> pval kw rf (S n) (print_Z z ++ rest) = Some (CInt z, rest).
Proof. exact pval_int. Qed.

(* known finding: an enum name that begins with a keyword.  The grammar-derived
   reader reads the printed text back; the reader with the real parser's
   keyword switch cuts the keyword off *)
Theorem C15_enum_prefix_refuted :
  let v := CList [CEnum [110; 117; 108; 108; 97; 98; 108; 101]] in
  wf v = true /\ read_spec (display v) = Some v /\
  read_impl [] (display v) = Some (CList [CNull; CEnum [97; 98; 108; 101]]) /\
  read_impl [] (display (CEnum [110; 117; 108; 108; 97; 98; 108; 101])) = None.
Proof. exact enum_prefix_refuted. Qed.

(* JSON: Serialize into the serde_json data model and Deserialize back gives,
   for every well-formed value, the value with enums turned into strings —
   which ConstValue's equality identifies with the original *)
Theorem C15_json_tree : forall v,
    wf v = true -> from_json (fun t => t) (to_json v) = enum_to_str v.
Proof. exact json_tree_roundtrip. Qed.
Theorem C15_json_equal : forall v,
    wf v = true -> veq false v (from_json (fun t => t) (to_json v)) = true.
Proof. exact json_roundtrip. Qed.

(* whole values (lists, objects, floats, enums): the statement
     forall v, wf v -> no class -> read_spec (display v) = Some v
   is NOT proved; it is evaluated inside Coq on every generated case
   (check_pp).  This example is one such evaluation, outside every class. *)
Theorem C15_value_roundtrip_partial :
  let v := CObj [([97], CList [CInt (-42); CFloat [49; 46; 53]; CStr [34; 92; 9; 8; 233; 128512]; CEnum [82; 69; 68]]);
                 ([98], CObj [([99], CBool true); ([100], CNull)])] in
  wf v = true /\ has_bad_ctrl v = false /\ has_kw_enum v = false /\
  read_spec (display v) = Some v /\ read_impl [] (display v) = Some v /\
  veq false v (from_json (fun t => t) (to_json v)) = true.
Proof. exact value_nonvacuous. Qed.

Check C15_string_roundtrip : forall kw rf n s rest,
    existsb bad_ctrl s = false -> starts_with [34] rest = None ->
    pval kw rf (S n) (write_quoted s ++ rest) = Some (CStr s, rest).
Check C15_int_roundtrip : forall kw rf n z rest,
    follow_bad rest = false -> pval kw rf (S n) (print_Z z ++ rest) = Some (CInt z, rest).
Check C15_json_equal : forall v,
    wf v = true -> veq false v (from_json (fun t => t) (to_json v)) = true.

Print Assumptions C15_string_roundtrip.
Print Assumptions C15_string_refuted.
Print Assumptions C15_controls_outside_class.
Print Assumptions C15_int_roundtrip.
Print Assumptions C15_enum_prefix_refuted.
Print Assumptions C15_json_tree.
Print Assumptions C15_json_equal.
Print Assumptions C15_value_roundtrip_partial.

(* C26 — multipart/mixed subscription bodies are well framed.
   Only property theorems here: each is closed by [exact], its statement is
   pinned by [Check] and its assumptions are printed.
   [emit] is the sequence of chunks create_multipart_mixed_stream yields for a
   sequence of select! outcomes (response / unserialisable response /
   heartbeat tick / end of input), over the byte strings and the yield order
   translated from the source on every run; [run] is the same generator driven
   by an arbitrary schedule of arrivals, timer firings, polls (with the
   select! choice when both branches are ready) and the end of the input;
   [read_multipart] is an RFC 2046 reader for boundary "graphql". *)
From AG Require Import Multipart MultipartProofs.

(* ALL event sequences: re-reading the concatenated output yields exactly the
   responses in order, heartbeats as {} parts, every part application/json,
   and after the closing delimiter only CRLF: the closing delimiter is last.
   Assumption: no raw CR inside a serialised response (serde_json escapes
   control characters). *)
Theorem C26_framed : forall evs,
    finished evs = true -> payloads_ok evs = true ->
    read_multipart (concat (emit evs)) = Some (expected evs, crlf).
Proof. exact framed. Qed.

(* the closing-delimiter chunk is yielded exactly once, as the last chunk ... *)
Theorem C26_eof_once_last : forall evs,
    finished evs = true -> payloads_ok evs = true ->
    exists pre, emit evs = pre ++ [eof_gen] /\ ~ In eof_gen pre.
Proof. exact eof_once_last. Qed.

(* ... and never while the input has not ended *)
Theorem C26_no_eof_before_end : forall evs,
    finished evs = false -> payloads_ok evs = true -> ~ In eof_gen (emit evs).
Proof. exact unfinished_no_eof. Qed.

(* nothing is yielded after the end of the input *)
Theorem C26_nothing_after_end : forall pre post,
    emit (pre ++ EEnd :: post) = emit (pre ++ [EEnd]).
Proof. exact emit_stops_at_end. Qed.

(* ALL schedules (arrivals, timer firings, polls, select! choices, close):
   what has been handed to the consumer plus what is still buffered is the
   chunk sequence of the selections made so far *)
Theorem C26_schedule_chunks : forall acts s s' os evs,
    run s acts = (s', os, evs) -> chunks_of os ++ st_buf s' = st_buf s ++ emit_all evs.
Proof. exact run_chunks. Qed.

(* FIFO: the responses selected so far followed by those still queued are the
   arrivals (before the close) in order: none lost, none duplicated *)
Theorem C26_schedule_fifo : forall acts s s' os evs,
    run s acts = (s', os, evs) ->
    event_resps evs ++ queue_resps (st_q s') = queue_resps (st_q s) ++ arrivals (st_closed s) acts.
Proof. exact run_fifo. Qed.

(* at most one heartbeat per elapsed interval *)
Theorem C26_schedule_ticks : forall acts s s' os evs,
    run s acts = (s', os, evs) ->
    (ticks evs + b2n (st_due s') <= b2n (st_due s) + fires acts)%nat.
Proof. exact run_ticks. Qed.

(* the whole property for every schedule that is drained to the end *)
Theorem C26_schedule_framed : forall acts s' os evs,
    run st_init acts = (s', os, evs) ->
    st_fin s' = true -> st_buf s' = [] ->
    forallb no_cr (arrivals false acts) = true ->
    read_multipart (concat (chunks_of os)) = Some (expected evs, crlf) /\
    event_resps evs = arrivals false acts /\
    (ticks evs <= fires acts)%nat /\
    (exists pre, evs = pre ++ [EEnd] /\ no_end pre = true) /\
    emit evs = chunks_of os.
Proof. exact sched_framed. Qed.

(* after the stream has ended every further poll answers None: no chunk, no
   selection, whatever arrives or fires *)
Theorem C26_schedule_nothing_after_end : forall acts s s' os evs,
    st_fin s = true -> st_buf s = [] -> run s acts = (s', os, evs) ->
    Forall (fun o => o = ONone \/ o = OUnit) os /\ evs = [] /\ st_buf s' = [] /\ st_fin s' = true.
Proof. exact run_after_end. Qed.

(* non-vacuity: two responses around a heartbeat, then the end *)
Theorem C26_nonvacuous :
  let evs := [EResp [123; 125; 49]%N; ETick; EBad; EResp [34; 45; 45; 34]%N; EEnd; ETick] in
  finished evs = true /\ payloads_ok evs = true /\
  expected evs = [json_part [123; 125; 49]%N; json_part hb_body; json_part [34; 45; 45; 34]%N] /\
  length (emit evs) = 9%nat /\
  fst (fst (run st_init [AArrive [49]%N; AFire; APoll false; APoll true; AClose; APoll true;
                         APoll true; APoll true; APoll true; APoll true])) =
  {| st_q := []; st_closed := true; st_due := false; st_buf := []; st_fin := true |}.
Proof. vm_compute. repeat split. Qed.

Check C26_framed : forall evs,
    finished evs = true -> payloads_ok evs = true ->
    read_multipart (concat (emit evs)) = Some (expected evs, crlf).
Check C26_schedule_framed : forall acts s' os evs,
    run st_init acts = (s', os, evs) ->
    st_fin s' = true -> st_buf s' = [] ->
    forallb no_cr (arrivals false acts) = true ->
    read_multipart (concat (chunks_of os)) = Some (expected evs, crlf) /\
    event_resps evs = arrivals false acts /\
    (ticks evs <= fires acts)%nat /\
    (exists pre, evs = pre ++ [EEnd] /\ no_end pre = true) /\
    emit evs = chunks_of os.

Print Assumptions C26_framed.
Print Assumptions C26_eof_once_last.
Print Assumptions C26_no_eof_before_end.
Print Assumptions C26_nothing_after_end.
Print Assumptions C26_schedule_chunks.
Print Assumptions C26_schedule_fifo.
Print Assumptions C26_schedule_ticks.
Print Assumptions C26_schedule_framed.
Print Assumptions C26_schedule_nothing_after_end.
Print Assumptions C26_nonvacuous.

(* C14 — reported source positions are exact line and column numbers.
   Only property theorems here: each is closed by [exact], its statement is
   pinned by [Check] and its assumptions are printed.

   pos_model  = PositionCalculator::step (arms regenerated from parser/src/pos.rs)
   pest_model = pest::Position::line_col (positions of syntax errors)
   linecol    = the specification: LF, CR LF and lone CR end a line; every
                scalar value is one column; 1-based. *)
From AG Require Import SrcPos SrcPosProofs.
Open Scope N_scope.

(* the translated source is the three-way case split the proofs are about *)
Theorem C14_step_arms : forall ch l c,
    step_char_gen ch (l, c) =
    if ch =? CR then (l, 1) else if ch =? LF then (l + 1, 1) else (l, c + 1).
Proof. exact step_char_eq. Qed.

(* every text, every index that is not a line feed: exact outside the known class *)
Theorem C14_pos : forall s i,
    lone_cr_before s i = false -> at_lf s i = false -> pos_model s i = linecol s i.
Proof. exact pos_exact. Qed.

(* ... and the known class is exactly the set where the position is wrong *)
Theorem C14_pos_iff : forall s i,
    at_lf s i = false -> (pos_model s i = linecol s i <-> lone_cr_before s i = false).
Proof. exact pos_exact_iff. Qed.

(* inside the class too: the column is always exact, the line lags by the
   number of lone carriage returns before the index *)
Theorem C14_column_exact : forall s i,
    at_lf s i = false -> snd (pos_model s i) = snd (linecol s i).
Proof. exact pos_column_exact. Qed.
Theorem C14_line_lag : forall s i,
    at_lf s i = false -> fst (pos_model s i) + count_lone_cr s i = fst (linecol s i).
Proof. exact pos_line_lag. Qed.

(* known finding: "{\ra}" — the field is on line 2, reported on line 1 *)
Theorem C14_refuted :
  exists s i, at_lf s i = false /\ pos_model s i = (1, 1) /\ linecol s i = (2, 1).
Proof. exact pos_refuted. Qed.

(* syntax errors (pest): exact outside the same class; refuted inside *)
Theorem C14_syntax_pos : forall s i,
    lone_cr_before s i = false -> pest_model s i = linecol s i.
Proof. exact pest_exact. Qed.
Theorem C14_syntax_refuted :
  exists s i, pest_model s i = (1, 3) /\ linecol s i = (2, 1).
Proof. exact pest_refuted. Qed.

(* the incremental, stateful calculator returns, for every sequence of
   non-decreasing offsets, the fold over the prefix of each offset; an offset
   smaller than the previous one panics *)
Theorem C14_incremental : forall s ps,
    nondecr 0 ps -> pc_run (pc_new s) ps = Ok (map (pos_model s) ps).
Proof. exact pc_run_new. Qed.
Theorem C14_backwards_panics : forall st p, (p < pc_pos st)%nat -> pc_step st p = Panic.
Proof. exact pc_step_panic. Qed.

(* the verdict computed by the correspondence files is the theorem's: when
   the library answers what the model answers, the only codes are 0 and 101 *)
Theorem C14_check_sound : forall s i,
    at_lf s i = false ->
    check_one pos_model s (N.of_nat i, pos_model s i) = if lone_cr_before s i then 101 else 0.
Proof. exact check_one_sound. Qed.
Theorem C14_check_syntax_sound : forall s i,
    lone_cr_before s i = false -> check_one pest_model s (N.of_nat i, pest_model s i) = 0.
Proof. exact check_one_syntax_sound. Qed.

Theorem C14_nonvacuous :
  let s := [35; 233; 13; 10; 9; 123; 65279; 97; 125] in
  lone_cr_before s 7 = false /\ at_lf s 7 = false /\ pos_model s 7 = (2, 4) /\
  nondecr 0 [0; 5; 7; 7]%nat.
Proof. exact pos_nonvacuous. Qed.

Check C14_pos : forall s i,
    lone_cr_before s i = false -> at_lf s i = false -> pos_model s i = linecol s i.
Check C14_pos_iff : forall s i,
    at_lf s i = false -> (pos_model s i = linecol s i <-> lone_cr_before s i = false).
Check C14_syntax_pos : forall s i, lone_cr_before s i = false -> pest_model s i = linecol s i.
Check C14_incremental : forall s ps,
    nondecr 0 ps -> pc_run (pc_new s) ps = Ok (map (pos_model s) ps).

Print Assumptions C14_step_arms.
Print Assumptions C14_pos.
Print Assumptions C14_pos_iff.
Print Assumptions C14_column_exact.
Print Assumptions C14_line_lag.
Print Assumptions C14_refuted.
Print Assumptions C14_syntax_pos.
Print Assumptions C14_syntax_refuted.
Print Assumptions C14_incremental.
Print Assumptions C14_backwards_panics.
Print Assumptions C14_check_sound.
Print Assumptions C14_check_syntax_sound.
Print Assumptions C14_nonvacuous.

(* C06 — resolvers receive exactly the spec-coerced argument values.
   Only property theorems here: each is closed by [exact], its statement is
   pinned by [Check] and its assumptions are printed. *)
From AG Require Import Base ArgCoerce ArgCoerceProofs ArgCoerceDyn ArgCoerceDynProofs.
Open Scope N_scope.

(* The heart: for EVERY input type descriptor (scalars, enums, lists, Option,
   MaybeUndefined, input objects with field defaults, oneOf objects, nested at
   will) and EVERY supplied value (after variable lookup: literals, JSON values,
   omitted variables, nulls), resolve_input_value followed by InputType::parse
   yields exactly the specified input coercion, or both fail — outside the
   computable deviation classes [dev]. *)
Theorem C06_parse_is_coercion : forall t x,
    wf_rty t = true -> wf_xv x = true -> dev t x = 0 ->
    parse t (Some (erase1 x)) = coerce t x.
Proof. exact (fun t x H1 H2 H3 => central t H1 x H2 H3). Qed.

(* one argument definition: get_param_value = CoerceArgumentValues *)
Theorem C06_argument : forall vds env t d lit,
    (forall x, wf_xv (env x) = true) ->
    wf_rty t = true ->
    match d with Some (dc, dt) => out_tv_eqb (coerce t dc) dt | None => true end = true ->
    match lit with Some l => wf_ival l | None => true end = true ->
    dev_arg vds env t d lit = 0 ->
    impl_arg vds env t d lit = spec_arg vds env t d lit.
Proof. exact arg_agree. Qed.

(* whole request, any signature / literals / variable definitions / variables:
   outside the known classes the executor passes exactly the specified argument
   values, or both fail *)
Theorem C06_static : forall sig args vds vars,
    wf_case sig args vds vars = true ->
    static_ok sig args vds = true ->
    known_class sig args vds vars = 0 ->
    impl_exec sig args vds vars = spec_request sig args vds vars.
Proof. exact exec_exact. Qed.

(* strict or fast mode: whatever reaches the resolver is the specified value *)
Theorem C06_sound : forall sig args vds vars strict a,
    wf_case sig args vds vars = true ->
    static_ok sig args vds = true ->
    known_class sig args vds vars = 0 ->
    impl_request sig args vds vars strict = Ok a ->
    spec_request sig args vds vars = Ok a.
Proof. exact request_sound. Qed.

(* fast mode: and every request whose coercion succeeds reaches the resolver *)
Theorem C06_fast_exact : forall sig args vds vars,
    wf_case sig args vds vars = true ->
    static_ok sig args vds = true ->
    known_class sig args vds vars = 0 ->
    res_eqb (impl_request sig args vds vars false) (spec_request sig args vds vars) = true /\
    forall a, spec_request sig args vds vars = Ok a -> impl_request sig args vds vars false = Ok a.
Proof. exact fast_complete. Qed.

(* "a value that does not match the declared input type is never passed to a
   resolver": no exclusion, both modes, any request *)
Theorem C06_no_invalid : forall sig args vds vars strict a,
    wf_sig sig = true ->
    impl_request sig args vds vars strict = Ok a -> args_typed sig a = true.
Proof. exact never_mistyped. Qed.

(* strict mode, partial: every constant value (no omitted variable inside) that
   the specification coerces successfully passes is_valid_input_value, so strict
   validation of an argument never rejects a coercible value.  Not lifted to the
   whole request (variable substitution with request values only, the other
   strict rules). *)
Theorem C06_strict_accepts_coercible_partial : forall t x a,
    wf_rty t = true -> has_absent x = false -> coerce t x = Ok a -> valid t x = true.
Proof. exact strict_accepts_coercible. Qed.

(* the verdict of the correspondence files is the theorems' *)
Theorem C06_check_quiet : forall sig args vds vars strict,
    wf_case sig args vds vars = true ->
    static_ok sig args vds = true ->
    known_class sig args vds vars = 0 ->
    strict = false ->
    check_c06 sig args vds vars strict (impl_request sig args vds vars strict) = 0.
Proof. exact check_quiet. Qed.

(* the former finding "omitted variable bound to an argument with a default"
   (fixed in /repo d9e053e): the witness now receives the default, in both modes *)
Theorem C06_omitted_var_default_fixed :
  wf_case w1_sig w1_args w1_vds [] = true /\ static_ok w1_sig w1_args w1_vds = true /\
  known_class w1_sig w1_args w1_vds [] = 0 /\
  spec_request w1_sig w1_args w1_vds [] = Ok [(10, TInt 5%Z)] /\
  impl_request w1_sig w1_args w1_vds [] true = Ok [(10, TInt 5%Z)] /\
  impl_request w1_sig w1_args w1_vds [] false = Ok [(10, TInt 5%Z)].
Proof. exact arg_default_fixed. Qed.

(* known findings: the full statement is false of the faithful model *)
Theorem C06_refuted_enum_string :
  wf_case w2_sig w2_args [] [] = true /\ static_ok w2_sig w2_args [] = true /\
  known_class w2_sig w2_args [] [] = K_ENUM_STRING /\
  impl_request w2_sig w2_args [] [] true = Ok [(10, TEnum 21)] /\
  spec_request w2_sig w2_args [] [] = Err 0.
Proof. exact refuted_enum_string. Qed.

Theorem C06_refuted_list_null :
  wf_case w3_sig w3_args w3_vds [] = true /\ static_ok w3_sig w3_args w3_vds = true /\
  known_class w3_sig w3_args w3_vds [] = K_LIST_NULL /\
  impl_request w3_sig w3_args w3_vds [] true = Ok [(10, TObj [(31, TList [TNull]); (32, TNull)])] /\
  spec_request w3_sig w3_args w3_vds [] = Err 0.
Proof. exact refuted_list_null. Qed.

Theorem C06_refuted_unknown_field :
  wf_case w4_sig w4_args w3_vds [] = true /\ static_ok w4_sig w4_args w3_vds = true /\
  known_class w4_sig w4_args w3_vds [] = K_UNKNOWN_FIELD /\
  impl_request w4_sig w4_args w3_vds [] true = Ok [(10, TObj [(31, TInt 1%Z); (32, TInt 7%Z)])] /\
  spec_request w4_sig w4_args w3_vds [] = Err 0.
Proof. exact refuted_unknown_field. Qed.

Theorem C06_refuted_oneof_extra :
  wf_case w5_sig w5_args w5_vds [] = true /\ static_ok w5_sig w5_args w5_vds = true /\
  known_class w5_sig w5_args w5_vds [] = K_ONEOF_EXTRA /\
  impl_request w5_sig w5_args w5_vds [] true = Ok [(10, TObj [(41, TInt 1%Z)])] /\
  spec_request w5_sig w5_args w5_vds [] = Err 0.
Proof. exact refuted_oneof_extra. Qed.

Theorem C06_refuted_var_decl :
  (wf_case w6_sig w6_args w6_vds [] = true /\ static_ok w6_sig w6_args w6_vds = true /\
   known_class w6_sig w6_args w6_vds [] = K_VAR_DECL /\
   impl_request w6_sig w6_args w6_vds [] true = Ok [(10, TNull)] /\
   spec_request w6_sig w6_args w6_vds [] = Err 0) /\
  (wf_case w6b_sig w6_args w6b_vds w6b_vars = true /\ static_ok w6b_sig w6_args w6b_vds = true /\
   known_class w6b_sig w6_args w6b_vds w6b_vars = K_VAR_DECL /\
   impl_request w6b_sig w6_args w6b_vds w6b_vars true = Ok [(10, TList [TInt 1%Z; TNull])] /\
   spec_request w6b_sig w6_args w6b_vds w6b_vars = Err 0).
Proof. exact refuted_var_decl. Qed.

Theorem C06_nonvacuous :
  wf_case nv_sig nv_args nv_vds nv_vars = true /\ static_ok nv_sig nv_args nv_vds = true /\
  known_class nv_sig nv_args nv_vds nv_vars = 0 /\
  impl_request nv_sig nv_args nv_vds nv_vars true =
  Ok [(10, TObj [(31, TInt 1%Z); (32, TInt 7%Z); (33, TList [TInt 2%Z; TInt 4%Z; TNull]); (34, TNull);
                 (35, TObj [(51, TInt 3%Z); (52, TInt 9%Z)]); (36, TEnum 22)]);
      (12, TInt 5%Z)].
Proof. exact nonvacuous. Qed.

(* ---- dynamic schemas: ctx.args of a dynamic resolver (collect_field) against
   CoerceArgumentValues.  Outside the two dynamic classes (a supplied value that
   coercion would change / a request the specification rejects) every declared
   argument is present or absent exactly as specified and holds the specified
   value: literal, variable, omitted variable -> argument default, variable
   default, explicit null, whatever other arguments are written. *)
Theorem C06_dynamic_exact : forall sig args vds vars,
    nodup_args args = true ->
    static_ok sig args vds = true ->
    dyn_known sig args vds vars = 0 ->
    dres_eqv (dyn_request sig args vds vars false) (spec_raw sig args vds vars) = true.
Proof. exact dyn_exact. Qed.

Theorem C06_dynamic_sound : forall sig args vds vars strict r,
    nodup_args args = true ->
    static_ok sig args vds = true ->
    dyn_known sig args vds vars = 0 ->
    dyn_request sig args vds vars strict = Ok r ->
    exists l, spec_request sig args vds vars = Ok l /\
              rawlist_eqv r (map (fun kv => (fst kv, raw_of (snd kv))) l) = true.
Proof. exact dyn_sound. Qed.

Theorem C06_dynamic_refuted_raw_value :
  (wf_case dw_li [(10, IInt 1%Z)] [] [] = true /\ static_ok dw_li [(10, IInt 1%Z)] [] = true /\
   dyn_known dw_li [(10, IInt 1%Z)] [] [] = DK_SHAPE /\
   dyn_request dw_li [(10, IInt 1%Z)] [] [] true = Ok [(10, Some (XInt 1%Z))] /\
   spec_raw dw_li [(10, IInt 1%Z)] [] [] = Ok [(10, Some (XList [XInt 1%Z]))]) /\
  (wf_case dw_obj [(10, IObj [(31, IInt 1%Z)])] [] [] = true /\ static_ok dw_obj [(10, IObj [(31, IInt 1%Z)])] [] = true /\
   dyn_known dw_obj [(10, IObj [(31, IInt 1%Z)])] [] [] = DK_SHAPE /\
   dyn_request dw_obj [(10, IObj [(31, IInt 1%Z)])] [] [] true = Ok [(10, Some (XObj [(31, XInt 1%Z)]))] /\
   spec_raw dw_obj [(10, IObj [(31, IInt 1%Z)])] [] [] = Ok [(10, Some (XObj [(31, XInt 1%Z); (32, XInt 7%Z)]))]).
Proof. exact dyn_refuted_shape. Qed.

Theorem C06_dynamic_refuted_invalid_executed :
  (wf_case dw_i [(10, IInt 2147483648%Z)] [] [] = true /\ static_ok dw_i [(10, IInt 2147483648%Z)] [] = true /\
   dyn_known dw_i [(10, IInt 2147483648%Z)] [] [] = DK_INVALID /\
   dyn_request dw_i [(10, IInt 2147483648%Z)] [] [] true = Ok [(10, Some (XInt 2147483648%Z))] /\
   spec_raw dw_i [(10, IInt 2147483648%Z)] [] [] = Err 0) /\
  (wf_case dw_obj dw_bad_args dw_vds [] = true /\ static_ok dw_obj dw_bad_args dw_vds = true /\
   dyn_known dw_obj dw_bad_args dw_vds [] = DK_INVALID /\
   dyn_request dw_obj dw_bad_args dw_vds [] true = Ok [(10, Some (XObj [(31, XStr false 77)]))] /\
   spec_raw dw_obj dw_bad_args dw_vds [] = Err 0).
Proof. exact dyn_refuted_invalid. Qed.

Theorem C06_dynamic_nonvacuous :
  wf_case dw_add dw_add_args dw_vds [] = true /\ nodup_args dw_add_args = true /\
  static_ok dw_add dw_add_args dw_vds = true /\ dyn_known dw_add dw_add_args dw_vds [] = 0 /\
  dyn_request dw_add dw_add_args dw_vds [] true = Ok [(10, Some (XInt 7%Z)); (12, Some (XInt 1%Z))].
Proof. exact dyn_nonvacuous. Qed.

Check C06_parse_is_coercion : forall t x,
    wf_rty t = true -> wf_xv x = true -> dev t x = 0 -> parse t (Some (erase1 x)) = coerce t x.
Check C06_static : forall sig args vds vars,
    wf_case sig args vds vars = true -> static_ok sig args vds = true ->
    known_class sig args vds vars = 0 ->
    impl_exec sig args vds vars = spec_request sig args vds vars.
Check C06_sound : forall sig args vds vars strict a,
    wf_case sig args vds vars = true -> static_ok sig args vds = true ->
    known_class sig args vds vars = 0 ->
    impl_request sig args vds vars strict = Ok a -> spec_request sig args vds vars = Ok a.
Check C06_no_invalid : forall sig args vds vars strict a,
    wf_sig sig = true -> impl_request sig args vds vars strict = Ok a -> args_typed sig a = true.

Print Assumptions C06_parse_is_coercion.
Print Assumptions C06_argument.
Print Assumptions C06_static.
Print Assumptions C06_sound.
Print Assumptions C06_fast_exact.
Print Assumptions C06_no_invalid.
Print Assumptions C06_strict_accepts_coercible_partial.
Print Assumptions C06_check_quiet.
Print Assumptions C06_omitted_var_default_fixed.
Print Assumptions C06_refuted_enum_string.
Print Assumptions C06_refuted_list_null.
Print Assumptions C06_refuted_unknown_field.
Print Assumptions C06_refuted_oneof_extra.
Print Assumptions C06_refuted_var_decl.
Print Assumptions C06_nonvacuous.
Print Assumptions C06_dynamic_exact.
Print Assumptions C06_dynamic_sound.
Print Assumptions C06_dynamic_refuted_raw_value.
Print Assumptions C06_dynamic_refuted_invalid_executed.
Print Assumptions C06_dynamic_nonvacuous.

(* C03 — a field error nulls only the nearest nullable position and is reported once. *)
From AG Require Import ExecCheck ExecWitness.
Open Scope N_scope.

Theorem C03_field_error_refuted :
  data_of (impl_exec quirks_today m_schema w4 d4 None [] 50) = Some (VObj [(20, VNull)]) /\
  data_of (spec_exec m_schema w4 d4 None [] 50) = Some (VObj [(20, VObj [(23, VInt 2); (24, VNull)])]) /\
  data_of (impl_exec quirks_none m_schema w4 d4 None [] 50) = data_of (spec_exec m_schema w4 d4 None [] 50).
Proof. exact w_field_error. Qed.
Theorem C03_list_path_refuted :
  errs_of (impl_exec quirks_today m_schema w5 d5 None [] 50) = Some [[PF 22; PI 0]] /\
  errs_of (spec_exec m_schema w5 d5 None [] 50) = Some [[PF 22; PI 0; PF 25]; [PF 22; PI 1; PF 25]] /\
  errs_of (impl_exec quirks_none m_schema w5 d5 None [] 50) = Some [[PF 22; PI 0; PF 25]] /\
  data_of (impl_exec quirks_today m_schema w5 d5 None [] 50) = Some VNull /\
  data_of (spec_exec m_schema w5 d5 None [] 50) = Some VNull.
Proof. exact w_list_path. Qed.
Theorem C03_iface_path_refuted :
  errs_of (impl_exec quirks_today m_schema w4 d6 None [] 50) = Some [[]] /\
  errs_of (spec_exec m_schema w4 d6 None [] 50) = Some [[PF 26; PF 24]].
Proof. exact w_iface_path. Qed.
Theorem C03_per_occurrence_refuted :
  data_of (impl_exec quirks_today m_schema w7 d7 None [] 50) = Some (VObj [(20, VObj [(23, VInt 2)])]) /\
  data_of (spec_exec m_schema w7 d7 None [] 50) = Some (VObj [(20, VNull)]) /\
  trace_of (impl_exec quirks_today m_schema w7 d7 None [] 50) = Some [(0, 20); (2, 23); (0, 20); (2, 21); (3, 25)] /\
  trace_of (spec_exec m_schema w7 d7 None [] 50) = Some [(0, 20); (2, 23); (2, 21); (3, 25)].
Proof. exact w_per_occurrence. Qed.

Print Assumptions C03_field_error_refuted.
Print Assumptions C03_list_path_refuted.
Print Assumptions C03_iface_path_refuted.
Print Assumptions C03_per_occurrence_refuted.

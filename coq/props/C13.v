(* C13 — the parser accepts exactly GraphQL documents and builds the tree they
   denote.  Only property theorems here: each is closed by [exact], its
   statement is pinned by [Check] and its assumptions are printed.
   Level: PARTIAL.  Proved for all inputs: string escapes and Type::new /
   type printing.  Refuted with witnesses (run through the PEG interpreter on
   the grammar regenerated from graphql.pest): the recorded deviations.
   Not proved: that every document / value / block string round-trips (tied to
   the code by the correspondence run only). *)
From AG Require Import ParserCheck ParserProofs.
Open Scope N_scope.

(* every escaped spelling of every string (short escapes, \uXXXX in either
   letter case for every BMP scalar value, the escaped solidus, raw characters) decodes
   to the string: string_value never panics and never alters it *)
Theorem C13_string_value : forall mode i s, string_value (escape_spec mode i s) = Ok s.
Proof. exact (fun mode i s => string_value_escape_spec mode s i). Qed.

Theorem C13_string_value_u : forall up c r, c < 65536 -> is_surrogate c = false ->
    string_value (u_escape up c ++ r) = consr c (string_value r).
Proof. exact string_value_u. Qed.

(* Type::new inverts the printer of types, for every type whose names do not
   begin with '[' or end with '!' (every Name does not) *)
Theorem C13_type_roundtrip : forall t, type_ok t = true ->
    type_new (S (length (print_type t))) (print_type t) = Some t.
Proof. exact type_roundtrip. Qed.

(* block strings: the builder's blank-line test and indentation measure are the
   specification's (only TAB and SPACE are WhiteSpace; a no-break space, an
   ideographic space, VT, FF ... are content) *)
Theorem C13_block_blank_line : forall l,
    has_content l = negb (only_ws l) /\
    (has_content l = false <-> forall c, In c l -> c = 9 \/ c = 32).
Proof. exact (fun l => conj (has_content_only_ws l) (has_content_false_iff l)). Qed.

Theorem C13_block_indent : forall l,
    indent_of l = if (leading_ws l <? length l)%nat then Some (leading_ws l) else None.
Proof. exact indent_of_leading_ws. Qed.

(* the rules of the regenerated grammar on which the lexical layer rests *)
Theorem C13_grammar_lexical_rules :
  nth_error grammar (N.to_nat R_string_content) = Some (MAtomic, PStar (PRef R_string_character)) /\
  nth_error grammar (N.to_nat R_type_) =
  Some (MAtomic, PSeq (PChoice (PRef R_name) (PSeq (PStr [91]) (PSeq (PRef R_type_) (PStr [93])))) (POpt (PStr [33]))).
Proof. exact (conj (proj1 (proj2 grammar_string_rules)) (proj1 (proj2 (proj2 (proj2 (proj2 grammar_string_rules)))))). Qed.

(* selection sets nest at most 64 levels (documented deviation), exactly *)
Theorem C13_nesting_boundary :
  (exists items, parse_query 4000 (nest_doc 64 [123; 97; 125]) = Ok items) /\
  parse_query 4000 (nest_doc 65 [123; 97; 125]) = Err E_RECURSION_LIMIT.
Proof. exact nesting_boundary. Qed.

(* known findings: the full statement is false of the faithful model *)
Theorem C13_block_escape_refuted :
  block_string_value s_block_escape = s_block_escape /\
  spec_block s_block_escape = [120; 34; 34; 34; 121] /\
  parse_query 400 (doc_text 2 s_block_escape) = Ok (field_f_a (PVStr s_block_escape)) /\
  known_class 2 s_block_escape = 1.
Proof. exact block_escape_refuted. Qed.

Theorem C13_block_blank_refuted :
  block_string_value s_block_blank = [97; 10; 32; 32; 10; 98] /\
  spec_block s_block_blank = [97; 10; 10; 98] /\
  parse_query 400 (doc_text 2 s_block_blank) = Ok (field_f_a (PVStr [97; 10; 32; 32; 10; 98])) /\
  known_class 2 s_block_blank = 2.
Proof. exact block_blank_refuted. Qed.

Theorem C13_type_ws_refuted :
  spec_type s_type_ws = Some (TList (TNamed s_int true) true) /\
  parse_query 400 (doc_text 3 s_type_ws) = Err E_SYNTAX /\
  parse_query 400 (doc_text 3 [91; 73; 110; 116; 93]) = Ok (query_v (TList (TNamed s_int true) true)) /\
  known_class 3 s_type_ws = 3.
Proof. exact type_ws_refuted. Qed.

Theorem C13_token_boundary_refuted :
  spec_value s_list_trueish = Some (PVList [PVEnum s_trueish]) /\
  parse_query 400 (doc_text 4 s_list_trueish) = Ok (field_f_a (PVList [PVBool true; PVEnum [105; 115; 104]])) /\
  spec_value s_trueish = Some (PVEnum s_trueish) /\
  parse_query 400 (doc_text 4 s_trueish) = Err E_SYNTAX /\
  spec_value s_list_00 = None /\
  parse_query 400 (doc_text 4 s_list_00) = Ok (field_f_a (PVList [PVInt 0; PVInt 0])) /\
  known_class 4 s_list_trueish = 4 /\ known_class 4 s_list_00 = 4.
Proof. exact token_boundary_refuted. Qed.

Theorem C13_float_range_refuted :
  spec_value s_1e309 = Some (PVFloat s_1e309) /\
  parse_query 400 (doc_text 4 s_1e309) = Err E_SYNTAX /\ known_class 4 s_1e309 = 5.
Proof. exact float_range_refuted. Qed.

(* repaired finding directive-always-repeatable: the flag is the keyword's presence,
   model = specification on both forms *)
Theorem C13_repeatable_flag :
  parse_schema 400 s_dir_plain = Ok [SDirective None [100] [] false [[70;73;69;76;68]]] /\
  parse_schema 400 s_dir_rep = Ok [SDirective None [100] [] true [[70;73;69;76;68]]] /\
  spec_schema 400 s_dir_plain = parse_schema 400 s_dir_plain /\
  spec_schema 400 s_dir_rep = parse_schema 400 s_dir_rep /\
  known_class_sdl s_dir_plain = 0.
Proof. exact repeatable_flag. Qed.

Theorem C13_vardef_order_refuted :
  (exists d, spec_expect 6 s_tail_spec = Some (Ok d)) /\
  parse_query 400 (doc_text 6 s_tail_spec) = Err E_SYNTAX /\
  spec_expect 6 s_tail_rev = Some (Err E_SYNTAX) /\
  (exists d, parse_query 400 (doc_text 6 s_tail_rev) = Ok d) /\
  known_class 6 s_tail_spec = 7 /\ known_class 6 s_tail_rev = 7.
Proof. exact vardef_order_refuted. Qed.

Theorem C13_enum_value_prefix_refuted :
  spec_lex 20 s_enum_truex =
    Some [TName [101;110;117;109]; TName [69]; TPunct 123; TName [116;114;117;101;120]; TPunct 125] /\
  parse_schema 400 s_enum_truex = Err E_SYNTAX /\
  parse_schema 400 s_enum_xtrue =
    Ok [SType false None [69] [] (KEnum [{| ev_desc := None; ev_name := [120;116;114;117;101]; ev_dirs := [] |}])].
Proof. exact enum_value_prefix_refuted. Qed.

(* service documents, non-vacuity: every optional slot of an input value filled;
   builder model = by-rule-name specification = the full tree *)
Theorem C13_sdl_kitchen_sink : parse_schema 400 s_kitchen = spec_schema 400 s_kitchen.
Proof. exact (proj1 sdl_kitchen_sink). Qed.

Theorem C13_keyword_glue_refuted :
  spec_lex 20 s_queryX = Some [TName [113; 117; 101; 114; 121; 88]; TPunct 123; TName [97]; TPunct 125] /\
  parse_query 400 s_queryX =
  Ok [DOp {| po_name := Some [88]; po_ty := POQuery; po_vars := []; po_dirs := [];
             po_sels := [PField None [97] [] [] []] |}].
Proof. exact keyword_glue_refuted. Qed.

Check C13_string_value : forall mode i s, string_value (escape_spec mode i s) = Ok s.
Check C13_type_roundtrip : forall t, type_ok t = true ->
    type_new (S (length (print_type t))) (print_type t) = Some t.

Print Assumptions C13_string_value.
Print Assumptions C13_string_value_u.
Print Assumptions C13_type_roundtrip.
Print Assumptions C13_block_blank_line.
Print Assumptions C13_block_indent.
Print Assumptions C13_grammar_lexical_rules.
Print Assumptions C13_nesting_boundary.
Print Assumptions C13_block_escape_refuted.
Print Assumptions C13_block_blank_refuted.
Print Assumptions C13_type_ws_refuted.
Print Assumptions C13_token_boundary_refuted.
Print Assumptions C13_float_range_refuted.
Print Assumptions C13_repeatable_flag.
Print Assumptions C13_vardef_order_refuted.
Print Assumptions C13_enum_value_prefix_refuted.
Print Assumptions C13_sdl_kitchen_sink.
Print Assumptions C13_keyword_glue_refuted.

(* C33 — placeholder while the proofs are being written *)
From AG Require Import DynCheck.

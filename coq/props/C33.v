(* C33 — dynamic schemas build exactly when the type system is valid.
   Only property theorems here: each is closed by [exact], the main statements
   are pinned by [Check] and the assumptions of every theorem are printed.

   finish          : model of SchemaBuilder::finish (register, then SchemaInner::check in source order)
   spec_named      : the type-validation rules the property text names
   spec_extra      : the other specification rules check.rs enforces (unique names vs built-in
                     scalars, objects have fields, no "__" names, OneOf input rules)
   known_class_all : 0, or the number (1..10) of the first known deviation class the type system is in
   NoDup names     : the invariant of the builder's IndexMap *)
From AG Require Import DynCheck DynCheckProofs.
Open Scope N_scope.

(* builds exactly when valid, for every type system outside the ten classes *)
Theorem C33_equiv : forall ts,
  NoDup (map fst (ts_types ts)) -> known_class_all ts = 0 ->
  okb (finish ts) = spec_valid ts.
Proof. exact c33_equiv. Qed.

Theorem C33_sound : forall ts,
  NoDup (map fst (ts_types ts)) -> known_class_all ts = 0 ->
  finish ts = Ok tt -> spec_named ts = true.
Proof. exact c33_sound. Qed.

Theorem C33_complete : forall ts,
  NoDup (map fst (ts_types ts)) -> known_class_all ts = 0 ->
  spec_named ts = true -> spec_extra ts = true -> finish ts = Ok tt.
Proof. exact c33_complete. Qed.

Theorem C33_reject_reason : forall ts c,
  NoDup (map fst (ts_types ts)) -> known_class_all ts = 0 ->
  finish ts = Err c -> spec_named ts = false \/ spec_extra ts = false.
Proof. exact c33_reject_reason. Qed.

(* the model neither panics nor runs out of fuel there *)
Theorem C33_model_total : forall ts,
  NoDup (map fst (ts_types ts)) -> known_class_all ts = 0 ->
  finish ts = Ok tt \/ spec_valid ts = false.
Proof. exact c33_model_total. Qed.

(* check_input_object_reference (path DFS with the on-path set, fuel = number
   of input objects + 1) decides "no chain of T! input fields leads back" *)
Theorem C33_input_cycles : forall ts n fs o,
  lookup ts n = Some (DInput fs o) ->
  okb (ref_check ts (ref_fuel ts) n [] fs) = spec_acyclic ts n.
Proof. exact ref_check_acyclic. Qed.

(* no interface declarations and no subscription: unconditional *)
Theorem C33_no_interfaces_exact : forall ts,
  ts_subscription ts = None ->
  (forall n d, In (n, d) (ts_types ts) ->
     match d with
     | DObject _ impls | DInterface _ impls => impls = []
     | DSubscription _ => False
     | _ => True end) ->
  known_class_all ts = 0.
Proof. exact c33_no_interfaces_exact. Qed.

(* the verdict of the correspondence files can never be "theorem gap" *)
Theorem C33_verdict_no_gap : forall ts i,
  NoDup (map fst (ts_types ts)) -> check_case (ts, i) <> V_THEOREM_GAP.
Proof. exact c33_verdict_no_gap. Qed.

(* second half of the property, partial: what builds has every referenced
   type name resolved (no model of introspection / export / execution; the
   absence of panics there is exercised by the harness, not proved) *)
Theorem C33_built_refs_resolve_partial : forall ts,
  finish ts = Ok tt ->
  lookup ts (ts_query ts) <> None /\
  (forall m, ts_mutation ts = Some m -> lookup ts m <> None) /\
  (forall n d r, In (n, d) (ts_types ts) -> In r (referenced_names d) -> lookup ts r <> None).
Proof. exact c33_built_refs_resolve. Qed.

(* known findings: the full statement is false of the faithful model *)
Theorem C33_full_refuted :
  (exists ts, nodup_names ts /\ finish ts = Ok tt /\ spec_named ts = false) /\
  (exists ts c, nodup_names ts /\ finish ts = Err c /\ spec_valid ts = true).
Proof. exact c33_full_refuted. Qed.

(* the covariance test has the wrong direction for every type reference *)
Theorem C33_is_subtype_direction_refuted : forall ts t,
  is_subtype t (TNonNull t) = true /\
  is_subtype (TNonNull t) t = false /\ spec_field_type_ok ts (TNonNull t) t = true.
Proof. exact c33_direction. Qed.

Theorem C33_covariance_direction_refuted :
  accepts_invalid 1 w_cov_accept /\ rejects_valid 1 w_cov_reject 14.
Proof. exact (conj w1a w1b). Qed.
Theorem C33_covariance_named_refuted : rejects_valid 2 w_cov_named 14.
Proof. exact w2. Qed.
Theorem C33_argument_subtype_refuted : accepts_invalid 3 w_arg_subtype.
Proof. exact w3. Qed.
Theorem C33_extra_required_argument_refuted : accepts_invalid 4 w_extra_required.
Proof. exact w4. Qed.
Theorem C33_missing_nullable_argument_refuted : accepts_invalid 5 w_missing_nullable.
Proof. exact w5. Qed.
Theorem C33_fieldless_interface_refuted : accepts_invalid 6 w_fieldless /\ accepts_invalid 6 w_fieldless_self.
Proof. exact (conj w6a w6b). Qed.
Theorem C33_interface_implements_unregistered_refuted : accepts_invalid 7 w_unregistered.
Proof. exact w7. Qed.
Theorem C33_transitive_interface_refuted : accepts_invalid 8 w_transitive.
Proof. exact w8. Qed.
Theorem C33_subscription_root_refuted : accepts_invalid 9 w_sub_root.
Proof. exact w9. Qed.
Theorem C33_subscription_fields_refuted : accepts_invalid 10 w_sub_field /\ accepts_invalid 10 w_sub_arg.
Proof. exact (conj w10a w10b). Qed.

(* the hypotheses are satisfiable by non-trivial type systems *)
Theorem C33_nonvacuous :
  (nodup_names nv_valid /\ known_class_all nv_valid = 0 /\ finish nv_valid = Ok tt /\ spec_valid nv_valid = true) /\
  (nodup_names nv_cycle /\ known_class_all nv_cycle = 0 /\ finish nv_cycle = Err 18 /\ spec_named nv_cycle = false).
Proof. exact c33_nonvacuous. Qed.

Check C33_equiv : forall ts,
  NoDup (map fst (ts_types ts)) -> known_class_all ts = 0 -> okb (finish ts) = spec_valid ts.
Check C33_sound : forall ts,
  NoDup (map fst (ts_types ts)) -> known_class_all ts = 0 -> finish ts = Ok tt -> spec_named ts = true.
Check C33_complete : forall ts,
  NoDup (map fst (ts_types ts)) -> known_class_all ts = 0 ->
  spec_named ts = true -> spec_extra ts = true -> finish ts = Ok tt.
Check C33_input_cycles : forall ts n fs o,
  lookup ts n = Some (DInput fs o) -> okb (ref_check ts (ref_fuel ts) n [] fs) = spec_acyclic ts n.

Print Assumptions C33_equiv.
Print Assumptions C33_sound.
Print Assumptions C33_complete.
Print Assumptions C33_reject_reason.
Print Assumptions C33_model_total.
Print Assumptions C33_input_cycles.
Print Assumptions C33_no_interfaces_exact.
Print Assumptions C33_verdict_no_gap.
Print Assumptions C33_built_refs_resolve_partial.
Print Assumptions C33_full_refuted.
Print Assumptions C33_is_subtype_direction_refuted.
Print Assumptions C33_covariance_direction_refuted.
Print Assumptions C33_covariance_named_refuted.
Print Assumptions C33_argument_subtype_refuted.
Print Assumptions C33_extra_required_argument_refuted.
Print Assumptions C33_missing_nullable_argument_refuted.
Print Assumptions C33_fieldless_interface_refuted.
Print Assumptions C33_interface_implements_unregistered_refuted.
Print Assumptions C33_transitive_interface_refuted.
Print Assumptions C33_subscription_root_refuted.
Print Assumptions C33_subscription_fields_refuted.
Print Assumptions C33_nonvacuous.

(* C17 — exported SDL is valid and describes exactly the schema.
   Only property theorems here: each is closed by [exact], its statement is
   pinned by [Check] and its assumptions are printed.

   export_sdl / write_* = Registry::export_sdl and its printers (escape table and
                          formats regenerated from src/registry/export_sdl.rs);
   parse_sdl, p_*       = the reader written from the type-system grammar;
   abs_sdl, abs_registry, describes = the plain type-system view and "T ≈ abs R";
   known_class          = the classes in which today's exporter fails. *)
From AG Require Import ValueText Sdl SdlProofs.
From Coq Require String.
Import Coq.Strings.String.StringSyntax.
Open Scope N_scope.

(* ---- per-printer, token level, all inputs outside the known classes ---- *)

(* escape_string (repaired: double quotes and all control characters are
   escaped): EVERY reason is read back by the grammar's StringValue reader,
   whatever follows *)
Theorem C17_escape_string_roundtrip : forall r acc rest,
    read_chars (escape_string r ++ 34 :: rest) acc = Some (rev acc ++ r, rest).
Proof. exact escape_string_read. Qed.

(* the former class 1 is empty *)
Theorem C17_reason_class_empty : forall r, existsb bad_reason_char r = false.
Proof. exact bad_reason_never. Qed.

(* write_deprecated with a reason = exactly the directive @deprecated(reason: r),
   followed by whatever directives follow — for every reason *)
Theorem C17_deprecated_reason_roundtrip : forall F k r rest,
    p_dirs (S F) (S k) (write_deprecated (Depr (Some r)) ++ rest) =
    match p_dirs (S F) k rest with
    | Some (l, r') => Some (DInv T_deprecated [(T_reason, CStr r)] :: l, r')
    | None => None
    end.
Proof. exact p_dirs_deprecated_reason. Qed.

(* write_deprecated without a reason = the bare directive @deprecated *)
Theorem C17_deprecated_bare_roundtrip : forall F k rest,
    no_name_char rest -> peek_is 40 rest = false ->
    p_dirs (S F) (S k) (write_deprecated (Depr None) ++ rest) =
    match p_dirs (S F) k rest with
    | Some (l, r') => Some (DInv T_deprecated [] :: l, r')
    | None => None
    end.
Proof. exact p_dirs_deprecated_bare. Qed.

(* write_description, single-line form, any indentation level and style *)
Theorem C17_single_description_roundtrip : forall o level d rest,
    single_line_form o d = true -> single_bad d = false ->
    p_string (write_description o level d ++ rest) = Some (d, 10 :: rest).
Proof. exact p_string_single. Qed.

(* names (type, field, argument, enum value names) *)
Theorem C17_name_roundtrip : forall n rest,
    is_name n = true -> no_name_char rest -> p_name (n ++ rest) = Some (n, rest).
Proof. exact p_name_app. Qed.

(* type references: a type printed in canonical form ([T], T!, names) reads
   back, whatever follows except a name character or "!" *)
Theorem C17_type_roundtrip : forall t n rest,
    wf_ty t = true -> (ty_depth t <= n)%nat -> no_name_char rest -> bang_free rest ->
    p_type (S n) (show_ty t ++ rest) = Some (t, rest).
Proof. exact p_type_roundtrip. Qed.

(* write_implements (type header): the clause " implements A & B" printed for
   a type reads back as the registry's list of interfaces *)
Theorem C17_implements_roundtrip : forall F R n l rest,
    sassoc n (r_impl R) = Some l -> l <> [] -> forallb is_name l = true -> (length l <= F)%nat ->
    no_name_char rest -> peek_is 38 rest = false ->
    p_implements F (write_implements R n ++ rest) = Some (l, rest).
Proof. exact p_implements_roundtrip. Qed.

(* write_description, block form: NOT proved for all descriptions.  Proved by
   evaluation for every description of at most 5 characters over
   {a, space, tab, LF, CR, double quote, backslash} at levels 0-2 with tab and 3-space indentation:
   it reads back verbatim or lies in class 4.  Missing step: the general
   induction over lines for BlockStringValue (split_lines / common_indent). *)
Theorem C17_block_description_partial :
  forallb (fun d => block_ok o_plain 0 d && block_ok o_plain 1 d && block_ok o_plain 2 d &&
                    block_ok o_spaces 1 d && block_ok o_spaces 2 d)
          (words [97; 32; 9; 10; 13; 34; 92] 5) = true.
Proof. exact block_description_bounded. Qed.

(* ---- composition ---- *)
(* parse_sdl (export_sdl o R) = Some D /\ abs_sdl D ≈ abs_registry o R for ALL
   registries outside the classes is NOT proved (missing: default values beyond
   strings/integers (C15's open part), applied custom directives, block
   descriptions in general, the argument / field / type loops, and the
   composition of the lemmas above).  It is evaluated
   inside Coq on every generated case (check_case).  This instance has every
   kind of type, descriptions, deprecations with reasons, defaults of every
   shape, an interface implementing an interface, directive definitions and
   invocations, hidden __ names and a built-in scalar; plain and all-on options. *)
Theorem C17_roundtrip_partial :
  known_class o_plain R_rich = 0 /\ known_class o_all R_rich = 0 /\
  describes o_plain R_rich (parse_sdl (export_sdl o_plain R_rich)) = true /\
  describes o_all R_rich (parse_sdl (export_sdl o_all R_rich)) = true.
Proof. exact rich_registry_roundtrip. Qed.

(* ---- refutations: today's exporter, one witness per class (each replayed on
        the real code by the harness corpus) ---- *)
(* class 1 (deprecation-reason-unescaped) is repaired: the former witness and a
   reason with control characters, a quote and a backslash read back *)
Theorem C17_deprecated_fixed :
  known_class o_plain R_reason = 0 /\
  describes o_plain R_reason (parse_sdl (export_sdl o_plain R_reason)) = true.
Proof. exact deprecated_fixed. Qed.

Theorem C17_default_refuted :
  known_class o_plain R_default = 2 /\
  describes o_plain R_default (parse_sdl (export_sdl o_plain R_default)) = false /\
  match parse_sdl (export_sdl o_plain R_default) with
  | Some [RType _ _ _ (RObject _ [RField _ _ [RInput _ _ _ (Some (CStr s)) _] _ _]); _] => s = [97; 39; 98]
  | _ => False
  end.
Proof. exact default_refuted. Qed.

Theorem C17_interface_header_refuted :
  known_class o_plain (R_iface true) = 3 /\ parse_sdl (export_sdl o_plain (R_iface true)) = None /\
  known_class o_plain (R_iface false) = 0 /\
  describes o_plain (R_iface false) (parse_sdl (export_sdl o_plain (R_iface false))) = true.
Proof. exact interface_header_refuted. Qed.

Theorem C17_block_description_refuted :
  (let R := R_desc (lit "say """"""hi""""""") in
   known_class o_plain R = 4 /\ parse_sdl (export_sdl o_plain R) = None) /\
  (let R := R_desc (lit "  abc") in
   known_class o_plain R = 4 /\ describes o_plain R (parse_sdl (export_sdl o_plain R)) = false) /\
  (let R := R_desc [97; 13; 98] in
   known_class o_plain R = 4 /\ describes o_plain R (parse_sdl (export_sdl o_plain R)) = false).
Proof. exact block_description_refuted. Qed.

Theorem C17_single_description_refuted :
  let R := R_desc (lit "ends with \") in
  known_class o_single R = 5 /\ parse_sdl (export_sdl o_single R) = None /\
  known_class o_plain R = 0 /\ describes o_plain R (parse_sdl (export_sdl o_plain R)) = true.
Proof. exact single_description_refuted. Qed.

Theorem C17_directive_argument_refuted :
  known_class o_plain R_dirarg = 6 /\
  describes o_plain R_dirarg (parse_sdl (export_sdl o_plain R_dirarg)) = false /\
  match parse_sdl (export_sdl o_plain R_dirarg) with Some _ => True | None => False end.
Proof. exact directive_argument_refuted. Qed.

Theorem C17_specified_by_refuted :
  known_class o_single R_url = 7 /\ describes o_single R_url (parse_sdl (export_sdl o_single R_url)) = false /\
  known_class o_plain R_url = 0 /\ describes o_plain R_url (parse_sdl (export_sdl o_plain R_url)) = true.
Proof. exact specified_by_refuted. Qed.

Check C17_escape_string_roundtrip : forall r acc rest,
    read_chars (escape_string r ++ 34 :: rest) acc = Some (rev acc ++ r, rest).
Check C17_single_description_roundtrip : forall o level d rest,
    single_line_form o d = true -> single_bad d = false ->
    p_string (write_description o level d ++ rest) = Some (d, 10 :: rest).
Check C17_name_roundtrip : forall n rest,
    is_name n = true -> no_name_char rest -> p_name (n ++ rest) = Some (n, rest).

Print Assumptions C17_escape_string_roundtrip.
Print Assumptions C17_reason_class_empty.
Print Assumptions C17_deprecated_reason_roundtrip.
Print Assumptions C17_deprecated_bare_roundtrip.
Print Assumptions C17_single_description_roundtrip.
Print Assumptions C17_name_roundtrip.
Print Assumptions C17_type_roundtrip.
Print Assumptions C17_implements_roundtrip.
Print Assumptions C17_block_description_partial.
Print Assumptions C17_roundtrip_partial.
Print Assumptions C17_deprecated_fixed.
Print Assumptions C17_default_refuted.
Print Assumptions C17_interface_header_refuted.
Print Assumptions C17_block_description_refuted.
Print Assumptions C17_single_description_refuted.
Print Assumptions C17_directive_argument_refuted.
Print Assumptions C17_specified_by_refuted.

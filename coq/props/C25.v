(* C25 — WebSocket sessions follow the graphql-ws (subscriptions-transport-ws,
   [Legacy]) and graphql-transport-ws ([Modern]) protocols.
   Only property theorems here: each is closed by [exact], its statement is
   pinned by [Check] and its assumptions are printed.
   [run pr ka sys0 acts] is what the session model (Ws.v, a transcription of
   WebSocket::poll_next) answers to an arbitrary list of actions: client
   frames, callback answers, stream items/ends, timer expiries and polls with
   arbitrary stream choices.  [accepts pr ka q acts obs] runs the protocol
   monitor (the specification) over the conversation. *)
From AG Require Import Ws WsProofs.
Open Scope N_scope.

(* every session is accepted by the monitor that tolerates exactly the three
   recorded deviations (any protocol, any keep-alive setting, any history,
   any schedule of polls and stream choices) *)
Theorem C25_conforms : forall pr ka acts,
    accepts pr ka quirks_today acts (run pr ka sys0 acts) = true.
Proof. exact conforms. Qed.

(* outside the known classes the protocols are followed as written: close
   codes 4429 / 4401 / 4409 / 4400 included *)
Theorem C25_strict_outside_known : forall pr ka acts,
    known_class pr ka acts (run pr ka sys0 acts) = 0 ->
    accepts pr ka quirks_none acts (run pr ka sys0 acts) = true.
Proof. exact strict_outside_known. Qed.

(* subscriptions-transport-ws sessions are always accepted by the strict monitor *)
Theorem C25_legacy_strict : forall ka acts,
    accepts Legacy ka quirks_none acts (run Legacy ka sys0 acts) = true.
Proof. exact legacy_strict. Qed.

(* nothing is sent or read after a close frame / connection_error / end *)
Theorem C25_silent_after_close : forall pr ka acts pre k r post,
    run pr ka sys0 acts = pre ++ ObsPoll k r :: post -> terminal r = true ->
    forallb quiet post = true.
Proof. exact silent_after_close. Qed.

(* data / next / complete only after connection_ack *)
Theorem C25_ops_only_after_ack : forall pr ka acts pre o post,
    run pr ka sys0 acts = pre ++ o :: post -> is_op o = true -> existsb is_ack pre = true.
Proof. exact ops_only_after_ack. Qed.

(* connection_ack at most once *)
Theorem C25_single_ack : forall pr ka acts pre o post,
    run pr ka sys0 acts = pre ++ o :: post -> is_ack o = true ->
    existsb is_ack pre = false /\ existsb is_ack post = false.
Proof. exact single_ack. Qed.

(* a second connection_init closes with 4429 / connection_error *)
Theorem C25_second_init_closes : forall pr ka s e c inb,
    closed s = false -> (ka && timer_fired e) = false -> init_fut s = false -> ping_fut s = false ->
    on_init s = false -> inbox e = CInit :: inb ->
    exists s' e', poll pr ka s e c =
                  (s', e', 1%nat, RMsg match pr with Legacy => OConnErr 2 | Modern => OClose 4429 end) /\
                  closed s' = true.
Proof. exact second_init_closes. Qed.

(* every data/next message is the oldest undelivered item of the source stream
   of the operation running under its id, in the protocol's message type;
   complete frees the id (so nothing more is sent for that operation) *)
Theorem C25_data_only_for_live : forall pr ka s e c s' e' k o,
    poll pr ka s e c = (s', e', k, RMsg o) ->
    match o with
    | OData id i n | ONext id i n =>
        assoc id (streams s') = Some i /\ (exists b en, assoc i (chans e) = Some (n :: b, en)) /\
        o = data_msg pr id i n
    | OComplete id => assoc id (streams s') = None
    | _ => True
    end.
Proof. exact data_only_for_live. Qed.

(* known findings: the full statement is false of the faithful model *)
Theorem C25_dup_id_refuted :
  run Modern false sys0 w_dup =
    [ObsEnv; ObsPoll 1 RPending; ObsEnv; ObsPoll 0 (RMsg OAck); ObsEnv; ObsPoll 1 RPending;
     ObsEnv; ObsPoll 0 (RMsg (ONext 0 0 7)); ObsEnv; ObsPoll 1 RPending; ObsEnv; ObsEnv;
     ObsPoll 0 (RMsg (ONext 0 1 9)); ObsPoll 0 RPending] /\
  accepts Modern false quirks_none w_dup (run Modern false sys0 w_dup) = false /\
  known_class Modern false w_dup (run Modern false sys0 w_dup) = 1.
Proof. exact dup_id_refuted. Qed.

Theorem C25_unauth_refuted :
  run Modern false sys0 w_unauth = [ObsEnv; ObsPoll 1 (RMsg (OClose 1011)); ObsPoll 0 REnd] /\
  accepts Modern false quirks_none w_unauth (run Modern false sys0 w_unauth) = false /\
  known_class Modern false w_unauth (run Modern false sys0 w_unauth) = 2.
Proof. exact unauth_refuted. Qed.

Theorem C25_bad_frame_refuted :
  run Modern false sys0 w_bad = [ObsEnv; ObsPoll 1 (RMsg (OClose 1002)); ObsPoll 0 REnd] /\
  accepts Modern false quirks_none w_bad (run Modern false sys0 w_bad) = false /\
  known_class Modern false w_bad (run Modern false sys0 w_bad) = 3.
Proof. exact bad_frame_refuted. Qed.

Theorem C25_nonvacuous :
  run Modern true sys0 w_life =
    [ObsEnv; ObsPoll 1 RPending; ObsEnv; ObsPoll 0 (RMsg OAck); ObsEnv; ObsEnv; ObsPoll 2 RPending;
     ObsEnv; ObsEnv; ObsPoll 0 (RMsg (ONext 1 1 6)); ObsPoll 0 (RMsg (ONext 0 0 5));
     ObsEnv; ObsPoll 0 (RMsg (OComplete 0)); ObsEnv; ObsPoll 1 (RMsg (OComplete 1));
     ObsEnv; ObsEnv; ObsPoll 1 (RMsg OPong); ObsEnv; ObsPoll 0 REnd; ObsSkip] /\
  known_class Modern true w_life (run Modern true sys0 w_life) = 0 /\
  accepts Modern true quirks_none w_life (run Modern true sys0 w_life) = true.
Proof. exact nonvacuous. Qed.

Check C25_conforms : forall pr ka acts, accepts pr ka quirks_today acts (run pr ka sys0 acts) = true.
Check C25_strict_outside_known : forall pr ka acts,
    known_class pr ka acts (run pr ka sys0 acts) = 0 ->
    accepts pr ka quirks_none acts (run pr ka sys0 acts) = true.
Check C25_silent_after_close : forall pr ka acts pre k r post,
    run pr ka sys0 acts = pre ++ ObsPoll k r :: post -> terminal r = true -> forallb quiet post = true.

Print Assumptions C25_conforms.
Print Assumptions C25_strict_outside_known.
Print Assumptions C25_legacy_strict.
Print Assumptions C25_silent_after_close.
Print Assumptions C25_ops_only_after_ack.
Print Assumptions C25_single_ack.
Print Assumptions C25_second_init_closes.
Print Assumptions C25_data_only_for_live.
Print Assumptions C25_dup_id_refuted.
Print Assumptions C25_unauth_refuted.
Print Assumptions C25_bad_frame_refuted.
Print Assumptions C25_nonvacuous.

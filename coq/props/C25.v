(* C25 — WebSocket sessions follow graphql-ws / graphql-transport-ws. *)
From AG Require Import Ws.

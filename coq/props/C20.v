(* C20 — the response cache policy is never looser than the data it contains.
   Only property theorems here: each is closed by [exact], its statement is
   pinned by [Check] and its assumptions are printed. *)
From AG Require Import Cache CacheProofs.
Require Import Permutation.
Open Scope Z_scope.

(* combining policies does not depend on order or grouping (all integers) *)
Theorem C20_merge_comm : forall a b, merge a b = merge b a.
Proof. exact merge_comm. Qed.
Theorem C20_merge_assoc : forall a b c, merge (merge a b) c = merge a (merge b c).
Proof. exact merge_assoc. Qed.
Theorem C20_merge_idem : forall a, merge a a = a.
Proof. exact merge_idem. Qed.
Theorem C20_merge_unit : forall a, merge cc_default a = a /\ merge a cc_default = a.
Proof. exact (fun a => conj (merge_unit_l a) (merge_unit_r a)). Qed.
Theorem C20_policy_perm : forall l1 l2, Permutation l1 l2 -> policy l1 = policy l2.
Proof. exact policy_perm. Qed.
Theorem C20_policy_app : forall l1 l2, policy (l1 ++ l2) = merge (policy l1) (policy l2).
Proof. exact policy_app. Qed.

(* a combination is at least as restrictive as each of its members *)
Theorem C20_policy_lower : forall l x,
    Forall wfP l -> In x l -> lowerP (policy l) x.
Proof. exact policy_lower. Qed.

(* selections made only on object types: the computed policy is exactly the
   combination over the object types and fields the response can contain, and
   is therefore never looser than any of them; any fuel, any schema. *)
Theorem C20_exact_objects : forall S d n,
    forallb (oo_op S (doc_frags d) n) (doc_ops d) = true ->
    impl_policy S d n =
    bindo (reach_ops S (doc_frags d) n (doc_ops d)) (fun l => Ok (policy l)).
Proof. exact c20_exact. Qed.

Theorem C20_sound_objects : forall S d n l,
    forallb (oo_op S (doc_frags d) n) (doc_ops d) = true ->
    reach_ops S (doc_frags d) n (doc_ops d) = Ok l ->
    forallb wf_cc l = true ->
    exists p, impl_policy S d n = Ok p /\ p = policy l /\ forall x, In x l -> lower p x = true.
Proof. exact c20_sound_objects. Qed.

(* whatever the document: never looser than anything the visitor merged *)
Theorem C20_visited_lower : forall S d n l,
    walk_ops S (doc_frags d) n (doc_ops d) = Ok l ->
    forallb wf_cc l = true ->
    exists p, impl_policy S d n = Ok p /\ forall x, In x l -> lower p x = true.
Proof. exact c20_visited_lower. Qed.

(* the verdict computed by the correspondence files is the theorem's *)
Theorem C20_check_complete : forall S d n p l,
    known_class S d n = false ->
    impl_policy S d n = Ok p ->
    reach_ops S (doc_frags d) n (doc_ops d) = Ok l ->
    forallb wf_cc l = true ->
    spec_ok S d n p = Ok true.
Proof. exact c20_check_complete. Qed.

(* known finding: the full statement is false of the faithful model *)
Theorem C20_abstract_refuted :
  exists S d n p l x,
    impl_policy S d n = Ok p /\ reach_ops S (doc_frags d) n (doc_ops d) = Ok l /\
    forallb wf_cc l = true /\ In x l /\ lower p x = false.
Proof. exact c20_abstract_refuted. Qed.

Theorem C20_nonvacuous :
  forallb (oo_op obj_schema [] 20) (doc_ops pet_doc) = true /\
  impl_policy obj_schema pet_doc 20 = Ok {| cc_pub := false; cc_age := 10 |}.
Proof. exact c20_nonvacuous. Qed.

Check C20_merge_comm : forall a b, merge a b = merge b a.
Check C20_merge_assoc : forall a b c, merge (merge a b) c = merge a (merge b c).
Check C20_policy_lower : forall l x, Forall wfP l -> In x l -> lowerP (policy l) x.
Check C20_sound_objects : forall S d n l,
    forallb (oo_op S (doc_frags d) n) (doc_ops d) = true ->
    reach_ops S (doc_frags d) n (doc_ops d) = Ok l ->
    forallb wf_cc l = true ->
    exists p, impl_policy S d n = Ok p /\ p = policy l /\ forall x, In x l -> lower p x = true.

Print Assumptions C20_merge_comm.
Print Assumptions C20_merge_assoc.
Print Assumptions C20_merge_idem.
Print Assumptions C20_merge_unit.
Print Assumptions C20_policy_perm.
Print Assumptions C20_policy_app.
Print Assumptions C20_policy_lower.
Print Assumptions C20_exact_objects.
Print Assumptions C20_sound_objects.
Print Assumptions C20_visited_lower.
Print Assumptions C20_check_complete.
Print Assumptions C20_abstract_refuted.
Print Assumptions C20_nonvacuous.

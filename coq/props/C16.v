(* C16 — serde values convert to GraphQL values and back without loss.
   Only property theorems here: each is closed by [exact], its statement is
   pinned by [Check] and its assumptions are printed. *)
From AG Require Import SerdeRT SerdeRTProofs.
Open Scope Z_scope.

(* For every well-formed serde type descriptor (any nesting of structs, unit /
   newtype / tuple / struct variants, options, string-keyed maps, sequences,
   tuples, integers by width, floats, bool, string, bytes, unit) and every
   well-typed value outside the four known classes, from_value (to_value v)
   returns v.  [known_class v = 0] says: v contains no Some(x) with x
   serialised as null, no non-finite float, no field-less tuple variant, no
   128-bit integer; [has_char v = false] restricts to the property's domain. *)
Theorem C16_roundtrip : forall t v,
    wf_ty t = true -> has_type t v = true -> known_class v = 0%N -> has_char v = false ->
    roundtrip t v = Ok v.
Proof. exact roundtrip_known_class. Qed.

(* the same, showing both halves: to_value succeeds and from_value inverts it *)
Theorem C16_roundtrip_steps : forall t v,
    wf_ty t = true -> has_type t v = true -> clean v ->
    exists g, ser v = Ok g /\ de t g = Ok v.
Proof. exact roundtrip_all. Qed.

Theorem C16_clean_iff : forall v, clean v <-> (known_class v = 0%N /\ has_char v = false).
Proof. exact clean_iff. Qed.

(* known findings: each excluded class contains a value that does not survive *)
Theorem C16_some_none_refuted :
  let t := TOption (TOption (TInt I32)) in let v := SSome SNone in
  wf_ty t = true /\ has_type t v = true /\ known_class v = 1%N /\ roundtrip t v = Ok SNone.
Proof. exact some_none_refuted. Qed.

Theorem C16_some_unit_refuted :
  let t := TOption TUnit in let v := SSome SUnit in
  wf_ty t = true /\ has_type t v = true /\ known_class v = 1%N /\ roundtrip t v = Ok SNone.
Proof. exact some_unit_refuted. Qed.

Theorem C16_some_nan_refuted :
  let t := TOption TF64 in let v := SSome (SF64 NAN64) in
  wf_ty t = true /\ has_type t v = true /\ known_class v = 1%N /\ roundtrip t v = Ok SNone.
Proof. exact some_nan_refuted. Qed.

Theorem C16_nonfinite_refuted :
  let t := TF64 in let v := SF64 NAN64 in
  wf_ty t = true /\ has_type t v = true /\ known_class v = 2%N /\ roundtrip t v = Err E_DE.
Proof. exact nonfinite_refuted. Qed.

Theorem C16_empty_tuple_variant_refuted :
  let t := TEnum [([90%N], (KTuple, TTuple []))] in let v := SVariant [90%N] KTuple (STuple []) in
  wf_ty t = true /\ has_type t v = true /\ known_class v = 3%N /\
  ser v = Ok (GObj [([90%N], GList [])]) /\ roundtrip t v = Err E_DE.
Proof. exact empty_tuple_variant_refuted. Qed.

Theorem C16_int128_refuted :
  let t := TInt I128 in let v := SInt I128 1 in
  wf_ty t = true /\ has_type t v = true /\ known_class v = 4%N /\ ser v = Err E_SER.
Proof. exact int128_refuted. Qed.

(* the hypotheses of C16_roundtrip are met by a four-level nested value *)
Theorem C16_nonvacuous :
  wf_ty ex_ty = true /\ has_type ex_ty ex_val = true /\ known_class ex_val = 0%N /\ has_char ex_val = false /\
  roundtrip ex_ty ex_val = Ok ex_val.
Proof. exact nonvacuous. Qed.

Check C16_roundtrip : forall t v,
    wf_ty t = true -> has_type t v = true -> known_class v = 0%N -> has_char v = false ->
    roundtrip t v = Ok v.
Check C16_roundtrip_steps : forall t v,
    wf_ty t = true -> has_type t v = true -> clean v -> exists g, ser v = Ok g /\ de t g = Ok v.

Print Assumptions C16_roundtrip.
Print Assumptions C16_roundtrip_steps.
Print Assumptions C16_clean_iff.
Print Assumptions C16_some_none_refuted.
Print Assumptions C16_some_unit_refuted.
Print Assumptions C16_some_nan_refuted.
Print Assumptions C16_nonfinite_refuted.
Print Assumptions C16_empty_tuple_variant_refuted.
Print Assumptions C16_int128_refuted.
Print Assumptions C16_nonvacuous.

(* C16 — serde values convert to GraphQL values and back without loss.
   Only property theorems here: each is closed by [exact], its statement is
   pinned by [Check] and its assumptions are printed.

   [q] is the quirk flag of the one known class that has an obvious repair
   (field-less tuple variants): true = today's code, false = repaired code.
   The check infers it by running the class's witness on the real code. *)
From AG Require Import SerdeRT SerdeRTProofs.
Open Scope Z_scope.

(* For every well-formed serde type descriptor (any nesting of structs, unit /
   newtype / tuple / struct variants, options, string-keyed maps, sequences,
   tuples, integers by width, floats, bool, string, bytes, unit) and every
   well-typed value outside the known classes, from_value (to_value v)
   returns v.  [known_class q v = 0] says: v contains no Some(x) with x
   serialised as null, no non-finite float, no 128-bit integer and (flag on)
   no field-less tuple variant; [has_char v = false] restricts to the
   property's list of shapes. *)
Theorem C16_roundtrip : forall q t v,
    wf_ty t = true -> has_type t v = true -> known_class q v = 0%N -> has_char v = false ->
    roundtrip q t v = Ok v.
Proof. exact roundtrip_known_class. Qed.

(* the same, showing both halves: to_value succeeds and from_value inverts it *)
Theorem C16_roundtrip_steps : forall q t v,
    wf_ty t = true -> has_type t v = true -> clean q v ->
    exists g, ser v = Ok g /\ de q t g = Ok v.
Proof. exact roundtrip_all. Qed.

Theorem C16_clean_iff : forall q v, clean q v <-> (known_class q v = 0%N /\ has_char v = false).
Proof. exact clean_iff. Qed.

Theorem C16_class3_empty_when_repaired : forall v, known_class false v <> 3%N.
Proof. exact known_class_off. Qed.

(* known findings: each excluded class contains a value that does not survive *)
Theorem C16_some_none_refuted : forall q,
  let t := TOption (TOption (TInt I32)) in let v := SSome SNone in
  wf_ty t = true /\ has_type t v = true /\ known_class q v = 1%N /\ roundtrip q t v = Ok SNone.
Proof. exact some_none_refuted. Qed.

Theorem C16_some_unit_refuted : forall q,
  let t := TOption TUnit in let v := SSome SUnit in
  wf_ty t = true /\ has_type t v = true /\ known_class q v = 1%N /\ roundtrip q t v = Ok SNone.
Proof. exact some_unit_refuted. Qed.

Theorem C16_some_nan_refuted : forall q,
  let t := TOption TF64 in let v := SSome (SF64 NAN64) in
  wf_ty t = true /\ has_type t v = true /\ known_class q v = 1%N /\ roundtrip q t v = Ok SNone.
Proof. exact some_nan_refuted. Qed.

Theorem C16_nonfinite_refuted : forall q,
  let t := TF64 in let v := SF64 NAN64 in
  wf_ty t = true /\ has_type t v = true /\ known_class q v = 2%N /\ roundtrip q t v = Err E_DE.
Proof. exact nonfinite_refuted. Qed.

Theorem C16_empty_tuple_variant_refuted :
  let t := TEnum [([90%N], (KTuple, TTuple []))] in let v := SVariant [90%N] KTuple (STuple []) in
  wf_ty t = true /\ has_type t v = true /\ known_class true v = 3%N /\
  ser v = Ok (GObj [([90%N], GList [])]) /\ roundtrip true t v = Err E_DE /\ roundtrip false t v = Ok v.
Proof. exact empty_tuple_variant_refuted. Qed.

Theorem C16_int128_refuted : forall q,
  let t := TInt I128 in let v := SInt I128 1 in
  wf_ty t = true /\ has_type t v = true /\ known_class q v = 4%N /\ ser v = Err E_SER.
Proof. exact int128_refuted. Qed.

(* every root instance of a class fails, not only the witnesses above *)
Theorem C16_class1_all_fail : forall q t v,
    ser_is_null v = true -> roundtrip q (TOption t) (SSome v) = Ok SNone.
Proof. exact class1_all_fail. Qed.

Theorem C16_class2_all_fail : forall q b,
    f64_finite b = false ->
    roundtrip q TF64 (SF64 b) = Err E_DE /\ roundtrip q TF32 (SF32 b) = Err E_DE.
Proof. exact class2_all_fail. Qed.

Theorem C16_class3_all_fail : forall vs n,
    variant_typed has_type n KTuple (STuple []) vs = true ->
    roundtrip true (TEnum vs) (SVariant n KTuple (STuple [])) = Err E_DE.
Proof. exact class3_all_fail. Qed.

Theorem C16_class4_all_fail : forall q t w z, is128 w = true -> roundtrip q t (SInt w z) = Err E_SER.
Proof. exact class4_all_fail. Qed.

(* the hypotheses of C16_roundtrip are met by a four-level nested value *)
Theorem C16_nonvacuous :
  wf_ty ex_ty = true /\ has_type ex_ty ex_val = true /\ known_class true ex_val = 0%N /\ has_char ex_val = false /\
  roundtrip true ex_ty ex_val = Ok ex_val.
Proof. exact nonvacuous. Qed.

Check C16_roundtrip : forall q t v,
    wf_ty t = true -> has_type t v = true -> known_class q v = 0%N -> has_char v = false ->
    roundtrip q t v = Ok v.
Check C16_roundtrip_steps : forall q t v,
    wf_ty t = true -> has_type t v = true -> clean q v -> exists g, ser v = Ok g /\ de q t g = Ok v.

Print Assumptions C16_roundtrip.
Print Assumptions C16_roundtrip_steps.
Print Assumptions C16_clean_iff.
Print Assumptions C16_class3_empty_when_repaired.
Print Assumptions C16_some_none_refuted.
Print Assumptions C16_some_unit_refuted.
Print Assumptions C16_some_nan_refuted.
Print Assumptions C16_nonfinite_refuted.
Print Assumptions C16_empty_tuple_variant_refuted.
Print Assumptions C16_int128_refuted.
Print Assumptions C16_class1_all_fail.
Print Assumptions C16_class2_all_fail.
Print Assumptions C16_class3_all_fail.
Print Assumptions C16_class4_all_fail.
Print Assumptions C16_nonvacuous.

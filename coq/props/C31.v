(* C31 — persisted queries execute only the document registered under the
   hash.  Only property theorems here: each is closed by [exact], its statement
   is pinned by [Check] and its assumptions are printed.
   Every theorem holds for every hash function H (SHA-256 enters only as "a
   function"), every parser, every document type, both behaviours of a repeated
   [set] (keep / replace) and every eviction oracle (the [list name] attached
   to each request of a history). *)
From AG Require Import Apq ApqProofs.

(* invariant over ALL histories: every cached (h, d) is the parse of a text
   whose hash is h, and was stored by a registering request of this history *)
Theorem C31_cache_invariant :
  forall (doc : Type) (H : name -> name) (parse : name -> option doc) (keep_old : bool)
         (hist : list (list name * request)),
    cache_sat doc (hashed doc H parse) (fst (run doc H parse keep_old [] hist)) /\
    cache_sat doc (fun h d => exists ev r, In (ev, r) hist /\ registers doc H parse r = Some (h, d))
              (fst (run doc H parse keep_old [] hist)).
Proof. exact apq_invariant. Qed.

(* every document executed for a request that supplied a hash h is the parse
   of a text whose hash is h (and the version was 1); a request without the
   extension runs the parse of its own text *)
Theorem C31_executed_only_hashed :
  forall (doc : Type) (H : name -> name) (parse : name -> option doc) (keep_old : bool)
         (hist : list (list name * request)),
    Forall (fun t => result_sat doc parse (hashed doc H parse) (snd (fst t)) (snd t))
           (zip_trace doc hist (snd (run doc H parse keep_old [] hist))).
Proof. exact apq_executed_hashed. Qed.

(* a hash-only request after any history: the cache is untouched, and the
   answer is PersistedQueryNotFound or exactly the cached document, which a
   request of the history registered under that hash *)
Theorem C31_hash_only :
  forall (doc : Type) (H : name -> name) (parse : name -> option doc) (keep_old : bool)
         (pre : list (list name * request)) (ev : list name) (r : request) (h : name),
    supplied r = Some (1%Z, h) -> rq_query r = S_EMPTY ->
    let c := fst (run doc H parse keep_old [] pre) in
    fst (step doc H parse keep_old c ev r) = evict doc ev c /\
    (snd (step doc H parse keep_old c ev r) = RErr ENotFound /\ assoc h (evict doc ev c) = None \/
     exists d, snd (step doc H parse keep_old c ev r) = RExec d /\ assoc h c = Some d /\
               mem h ev = false /\ hashed doc H parse h d /\
               exists ev' r', In (ev', r') pre /\ registers doc H parse r' = Some (h, d)).
Proof. exact apq_hash_only. Qed.

(* mismatched hash / unsupported version / malformed payload: an error, the
   cache unchanged (up to the oracle's evictions), nothing executed *)
Theorem C31_refused_step :
  forall (doc : Type) (H : name -> name) (parse : name -> option doc) (keep_old : bool)
         (c : cache doc) (ev : list name) (r : request) (k : ekind),
    refused H r k -> step doc H parse keep_old c ev r = (evict doc ev c, RErr k).
Proof. exact step_refused. Qed.

(* ... and it changes nothing: deleting the refused request from any history
   leaves the final cache and every other answer as they were *)
Theorem C31_refused_changes_nothing :
  forall (doc : Type) (H : name -> name) (parse : name -> option doc) (keep_old : bool)
         (pre : list (list name * request)) (r : request) (k : ekind)
         (post : list (list name * request)),
    refused H r k ->
    run doc H parse keep_old [] (pre ++ ([], r) :: post) =
    (fst (run doc H parse keep_old [] (pre ++ post)),
     snd (run doc H parse keep_old [] pre) ++
     RErr k :: snd (run doc H parse keep_old (fst (run doc H parse keep_old [] pre)) post)) /\
    snd (run doc H parse keep_old [] (pre ++ post)) =
    snd (run doc H parse keep_old [] pre) ++
    snd (run doc H parse keep_old (fst (run doc H parse keep_old [] pre)) post).
Proof. exact apq_refused_noop. Qed.

(* the cache changes only at a registering request, which stores the parse of
   its own text under the hash of that text *)
Theorem C31_register_step :
  forall (doc : Type) (H : name -> name) (parse : name -> option doc) (keep_old : bool)
         (c : cache doc) (ev : list name) (r : request) (h : name) (d : doc),
    registers doc H parse r = Some (h, d) ->
    step doc H parse keep_old c ev r = (cache_put doc keep_old (evict doc ev c) h d, RExec d) /\
    supplied r = Some (1%Z, h) /\ rq_query r <> S_EMPTY /\
    H (rq_query r) = h /\ parse (rq_query r) = Some d.
Proof. exact step_register. Qed.

Theorem C31_only_registration_writes :
  forall (doc : Type) (H : name -> name) (parse : name -> option doc) (keep_old : bool)
         (c : cache doc) (ev : list name) (r : request),
    registers doc H parse r = None -> fst (step doc H parse keep_old c ev r) = evict doc ev c.
Proof. exact step_not_register. Qed.

(* the trace specification written from the property text (used as the
   oracle of the correspondence runs) holds of every history of the model:
   with a lossy storage, and — when losses are only the announced evictions —
   with PersistedQueryNotFound allowed only for hashes with no live registration *)
Theorem C31_trace_spec :
  forall (doc : Type) (doc_eqb : doc -> doc -> bool),
    (forall a b, doc_eqb a b = true <-> a = b) ->
    forall (H : name -> name) (parse : name -> option doc) (keep_old lossy : bool)
           (hist : list (list name * request)),
      spec_trace doc doc_eqb H parse lossy []
        (zip_trace doc hist (snd (run doc H parse keep_old [] hist))) = true.
Proof. exact apq_trace_spec. Qed.

(* without evictions in between, a registered hash is found *)
Theorem C31_registered_found :
  forall (doc : Type) (doc_eqb : doc -> doc -> bool),
    (forall a b, doc_eqb a b = true <-> a = b) ->
    forall (H : name -> name) (parse : name -> option doc) (keep_old : bool)
           (pre : list (list name * request)) (r : request) (h : name) (d : doc)
           (mid : list (list name * request)) (r2 : request),
      registers doc H parse r = Some (h, d) ->
      Forall (fun s => fst s = []) mid ->
      supplied r2 = Some (1%Z, h) -> rq_query r2 = S_EMPTY ->
      exists d',
        nth_error (snd (run doc H parse keep_old [] (pre ++ ([], r) :: mid ++ [([], r2)])))
                  (length pre + 1 + length mid) = Some (RExec d') /\
        hashed doc H parse h d'.
Proof. exact apq_registered_found. Qed.

(* histories decompose: the state reached after a prefix is all that matters *)
Theorem C31_run_app :
  forall (doc : Type) (H : name -> name) (parse : name -> option doc) (keep_old : bool)
         (c : cache doc) (a b : list (list name * request)),
    run doc H parse keep_old c (a ++ b) =
    (fst (run doc H parse keep_old (fst (run doc H parse keep_old c a)) b),
     snd (run doc H parse keep_old c a) ++
     snd (run doc H parse keep_old (fst (run doc H parse keep_old c a)) b)).
Proof. exact run_app. Qed.

(* non-vacuity: a history with a registration, a hit, a mismatch, a bad
   version, a miss, a parse error, a malformed payload and an eviction *)
Theorem C31_nonvacuous :
  snd (run N ex_H ex_parse true [] ex_hist) =
  [RExec 10%N; RExec 10%N; RErr EMismatch; RErr EVersion; RErr ENotFound; RParseErr;
   RErr EMalformed; RErr ENotFound] /\
  registers N ex_H ex_parse {| rq_query := 10%N; rq_ext := ex_pq 1 110%N |} = Some (110%N, 10%N) /\
  refused ex_H {| rq_query := 11%N; rq_ext := ex_pq 1 110%N |} EMismatch.
Proof. exact apq_nonvacuous. Qed.

Check C31_cache_invariant :
  forall (doc : Type) (H : name -> name) (parse : name -> option doc) (keep_old : bool)
         (hist : list (list name * request)),
    cache_sat doc (hashed doc H parse) (fst (run doc H parse keep_old [] hist)) /\
    cache_sat doc (fun h d => exists ev r, In (ev, r) hist /\ registers doc H parse r = Some (h, d))
              (fst (run doc H parse keep_old [] hist)).
Check C31_executed_only_hashed :
  forall (doc : Type) (H : name -> name) (parse : name -> option doc) (keep_old : bool)
         (hist : list (list name * request)),
    Forall (fun t => result_sat doc parse (hashed doc H parse) (snd (fst t)) (snd t))
           (zip_trace doc hist (snd (run doc H parse keep_old [] hist))).
Check C31_refused_step :
  forall (doc : Type) (H : name -> name) (parse : name -> option doc) (keep_old : bool)
         (c : cache doc) (ev : list name) (r : request) (k : ekind),
    refused H r k -> step doc H parse keep_old c ev r = (evict doc ev c, RErr k).

Print Assumptions C31_cache_invariant.
Print Assumptions C31_executed_only_hashed.
Print Assumptions C31_hash_only.
Print Assumptions C31_refused_step.
Print Assumptions C31_refused_changes_nothing.
Print Assumptions C31_register_step.
Print Assumptions C31_only_registration_writes.
Print Assumptions C31_trace_spec.
Print Assumptions C31_registered_found.
Print Assumptions C31_run_app.
Print Assumptions C31_nonvacuous.

(* C34 — the GraphiQL page embeds its configuration verbatim and safely.
   Only property theorems here. *)
From AG Require Import Graphiql GraphiqlProofs.
Open Scope N_scope.

(* title: for ALL strings the browser's text of <title> is the configured
   title and the element ends exactly at the template's </title> *)
Theorem C34_title : forall s rest,
    rcdata (html_escape s ++ S_TITLE_END ++ rest) = ROk s (S_TITLE_END ++ rest).
Proof. exact title_exact. Qed.

(* script strings: for all strings outside the known class the literal
   evaluates to the configured value and ends at the template's quote *)
Theorem C34_js : forall v rest, kc v = false ->
    js_sq (html_escape v ++ 39 :: rest) = JOk v rest.
Proof. exact js_value_exact. Qed.

(* for ALL strings the rendered value contains no less-than, greater-than,
   apostrophe or double quote: by itself it can neither close the quote, nor
   the script element, nor open a tag or comment *)
Theorem C34_no_context_end : forall s c,
    ((c =? 60) || (c =? 62) || (c =? 39) || (c =? 34)) = true -> ~ In c (html_escape s).
Proof. exact (fun s c => html_escape_no c s). Qed.

(* the translated template: every script hole is a whole single-quoted
   literal, every title hole is directly followed by </title> *)
Theorem C34_template_holes : holes_ok None template_gen = true.
Proof. exact template_holes. Qed.

(* known findings *)
Theorem C34_entity_refuted :
  js_sq (html_escape [97; 38; 98] ++ [39]) = JOk [97; 38; 35; 51; 56; 59; 98] [] /\
  page_ok (cfg0 [47; 97; 38; 98]) (render (cfg0 [47; 97; 38; 98])) = false.
Proof. exact refuted_entity. Qed.
Theorem C34_backslash_refuted :
  js_sq (html_escape [92] ++ 39 :: [41; 44; 39; 120]) = JOk [39; 41; 44] [120] /\
  page_ok (cfg0 [47; 97; 92]) (render (cfg0 [47; 97; 92])) = false.
Proof. exact refuted_backslash. Qed.
Theorem C34_newline_refuted :
  js_sq (html_escape [97; 10; 98] ++ [39]) = JErr 2 /\
  page_ok (cfg0 [97; 10; 98]) (render (cfg0 [97; 10; 98])) = false.
Proof. exact refuted_newline. Qed.
Theorem C34_missing_comma_refuted :
  values_ok cfg_both_w (render cfg_both_w) = true /\ options_ok (render cfg_both_w) = false /\
  options_ok (render (cfg0 [47])) = true.
Proof. exact refuted_missing_comma. Qed.

Theorem C34_nonvacuous : known_class cfg_full = 0 /\ page_ok cfg_full (render cfg_full) = true.
Proof. exact c34_nonvacuous. Qed.

Check C34_title : forall s rest, rcdata (html_escape s ++ S_TITLE_END ++ rest) = ROk s (S_TITLE_END ++ rest).
Check C34_js : forall v rest, kc v = false -> js_sq (html_escape v ++ 39 :: rest) = JOk v rest.

Print Assumptions C34_title.
Print Assumptions C34_js.
Print Assumptions C34_no_context_end.
Print Assumptions C34_template_holes.
Print Assumptions C34_entity_refuted.
Print Assumptions C34_backslash_refuted.
Print Assumptions C34_newline_refuted.
Print Assumptions C34_missing_comma_refuted.
Print Assumptions C34_nonvacuous.

(* C34 — the GraphiQL page embeds its configuration verbatim and safely.
   Only property theorems here. *)
From AG Require Import Graphiql GraphiqlProofs.
Open Scope N_scope.

(* title: for ALL strings the browser's text of <title> is the configured
   title and the element ends exactly at the template's </title> *)
Theorem C34_title : forall s rest,
    rcdata (html_escape s ++ S_TITLE_END ++ rest) = ROk s (S_TITLE_END ++ rest).
Proof. exact title_exact. Qed.

(* script strings, verbatim: for all strings outside the known classes 1 and 3
   the literal evaluates to the configured value and ends at the template's quote *)
Theorem C34_js : forall v rest, kc v = false ->
    js_sq (html_escape v ++ 39 :: rest) = JOk v rest.
Proof. exact js_value_exact. Qed.

(* script strings, context: for ALL strings without backslash / LF / CR (that
   is, outside known class 3; quotes, ampersands, angle brackets and </script>
   included) the rendered literal ends exactly at the template's closing quote,
   never earlier (no quote, no </script, no <!-- inside) and never later *)
Theorem C34_js_context : forall v rest, bs_free v = true ->
    js_sq (html_escape v ++ 39 :: rest) = JOk (html_escape v) rest.
Proof. exact js_literal_closed. Qed.

(* ... and this is what the page-only judgement ctx_safe measures: the skeleton
   lexer leaves the hole in code state right after the template's quote, so the
   skeleton is the one of the neutral value x *)
Theorem C34_js_context_skeleton : forall v rest, bs_free v = true ->
    js_skel 1 (html_escape v ++ 39 :: rest) = ocons 39 (js_skel 0 rest) /\
    js_skel 1 (html_escape v ++ 39 :: rest) = js_skel 1 (html_escape NEUTRAL ++ 39 :: rest).
Proof. exact (fun v rest B => conj (js_skel_hole v rest B) (js_skel_hole_neutral v rest B)). Qed.

(* for ALL strings the rendered value contains no less-than, greater-than,
   apostrophe or double quote: by itself it can neither close the quote, nor
   the script element, nor open a tag or comment *)
Theorem C34_no_context_end : forall s c,
    ((c =? 60) || (c =? 62) || (c =? 39) || (c =? 34)) = true -> ~ In c (html_escape s).
Proof. exact (fun s c => html_escape_no c s). Qed.

(* the translated template: every script hole is a whole single-quoted
   literal, every title hole is directly followed by </title> *)
Theorem C34_template_holes : holes_ok None template_gen = true.
Proof. exact template_holes. Qed.

(* the page-only context judgement accepts a raw ampersand and rejects a raw
   quote, a raw '+' between two literals and a raw </script> in a literal *)
Theorem C34_ctx_safe_detects :
  ctx_safe (raw_page [47; 103; 63; 97; 38; 98]) (raw_page NEUTRAL) = true /\
  ctx_safe (raw_page [47; 103; 63; 39; 59; 97; 40; 41; 59; 47; 47]) (raw_page NEUTRAL) = false /\
  ctx_safe (raw_page [47; 103; 63; 39; 43; 39]) (raw_page NEUTRAL) = false /\
  ctx_safe (raw_page [47; 103; 63; 60; 47; 115; 99; 114; 105; 112; 116; 62]) (raw_page NEUTRAL) = false.
Proof. exact ctx_safe_detects. Qed.

(* known findings *)
(* class 1: not verbatim, but context-safe *)
Theorem C34_entity_refuted :
  js_sq (html_escape [97; 38; 98] ++ [39]) = JOk [97; 38; 35; 51; 56; 59; 98] [] /\
  page_ok (cfg0 [47; 97; 38; 98]) (render (cfg0 [47; 97; 38; 98])) = false /\
  model_ctx_safe (cfg0 [47; 97; 38; 98]) = true /\ known_class (cfg0 [47; 97; 38; 98]) = 1.
Proof. exact refuted_entity. Qed.
(* class 3: the value ends its string context *)
Theorem C34_backslash_refuted :
  js_sq (html_escape [92] ++ 39 :: [41; 44; 39; 120]) = JOk [39; 41; 44] [120] /\
  page_ok (cfg0 [47; 97; 92]) (render (cfg0 [47; 97; 92])) = false /\
  model_ctx_safe (cfg0 [47; 97; 92]) = false /\ known_class (cfg0 [47; 97; 92]) = 3.
Proof. exact refuted_backslash. Qed.
Theorem C34_newline_refuted :
  js_sq (html_escape [97; 10; 98] ++ [39]) = JErr 2 /\
  page_ok (cfg0 [97; 10; 98]) (render (cfg0 [97; 10; 98])) = false /\
  model_ctx_safe (cfg0 [97; 10; 98]) = false /\ known_class (cfg0 [97; 10; 98]) = 3.
Proof. exact refuted_newline. Qed.
(* class 2 *)
Theorem C34_missing_comma_refuted :
  values_ok cfg_both_w (render cfg_both_w) = true /\ options_ok (render cfg_both_w) = false /\
  options_ok (render (cfg0 [47])) = true /\ model_ctx_safe cfg_both_w = true /\ known_class cfg_both_w = 2.
Proof. exact refuted_missing_comma. Qed.

Theorem C34_nonvacuous : known_class cfg_full = 0 /\ page_ok cfg_full (render cfg_full) = true /\
  model_ctx_safe cfg_full = true.
Proof. exact c34_nonvacuous. Qed.

Check C34_title : forall s rest, rcdata (html_escape s ++ S_TITLE_END ++ rest) = ROk s (S_TITLE_END ++ rest).
Check C34_js : forall v rest, kc v = false -> js_sq (html_escape v ++ 39 :: rest) = JOk v rest.
Check C34_js_context : forall v rest, bs_free v = true -> js_sq (html_escape v ++ 39 :: rest) = JOk (html_escape v) rest.

Print Assumptions C34_title.
Print Assumptions C34_js.
Print Assumptions C34_js_context.
Print Assumptions C34_js_context_skeleton.
Print Assumptions C34_no_context_end.
Print Assumptions C34_template_holes.
Print Assumptions C34_ctx_safe_detects.
Print Assumptions C34_entity_refuted.
Print Assumptions C34_backslash_refuted.
Print Assumptions C34_newline_refuted.
Print Assumptions C34_missing_comma_refuted.
Print Assumptions C34_nonvacuous.

(* C19 — introspection modes gate schema metadata and user resolvers.
   Only property theorems here: each is closed by [exact], its statement is
   pinned by [Check] and its assumptions are printed.

   Domain of the finite theorems: 108 configurations (flavour 2 x federation
   set-up 3 x schema mode 3 x request mode 3 x transport 2) x 3 operation
   types x 7 field classes = 2268 points, decided by vm_compute and lifted
   with forallb_forall (IntroModesProofs.forall_points_spec).  The document
   theorems hold for every root selection set, fragment table and fuel. *)
From AG Require Import IntroModes IntroModesProofs.
Open Scope N_scope.

(* every field NAME (unbounded) is treated as its class says *)
Theorem C19_field_is_class : forall c o k nm,
    emit_action c o k nm = (k, root_action c o (classify o nm)).
Proof. exact emit_action_class. Qed.

(* --- the table: one root field ------------------------------------------- *)
Theorem C19_disabled_no_metadata : forall c o k,
    disabled c = true -> kc c o k <> 1 -> serves_metadata (root_action c o k) = false.
Proof. exact table_disabled. Qed.

Theorem C19_only_no_user_resolver : forall c o k,
    only c = true -> kc c o k <> 2 -> kc c o k <> 3 -> runs_resolver (root_action c o k) = false.
Proof. exact table_only. Qed.

Theorem C19_typename_always : forall c o,
    is_subscription o = false -> kc c o CTypename <> 4 ->
    root_action c o CTypename = ATypename (root_name o).
Proof. exact table_typename. Qed.

(* the four known classes are exactly the failing points *)
Theorem C19_classes_tight : forall c o k,
    (kc c o k = 1 -> disabled c = true /\ root_action c o k = AServiceSdl) /\
    (kc c o k = 2 -> only c = true /\ root_action c o k = AEntity) /\
    (kc c o k = 3 -> only c = true /\ root_action c o k = AUser) /\
    (kc c o k = 4 -> only c = true /\ k = CTypename /\ root_action c o k = ATypename T_EmptyMutation) /\
    (kc c o k = 0 \/ kc c o k = 1 \/ kc c o k = 2 \/ kc c o k = 3 \/ kc c o k = 4).
Proof. exact table_classes_tight. Qed.

(* --- refinement: the executing root's walk = the table over CollectFields -- *)
Theorem C19_walk_is_table : forall c o frags n sels,
    class4_cfg c o = false ->
    walk c o frags n sels = omap (map (table_of c o)) (flat o frags n sels).
Proof. exact walk_table. Qed.

(* --- lifting: whole requests, any document -------------------------------- *)
Theorem C19_lift_disabled : forall c o frags n sels m fl,
    disabled c = true ->
    exec c o frags n sels = Ok m -> flat o frags n sels = Ok fl ->
    (forall x, In x fl -> kc c o (snd x) <> 1) ->
    forall k v, In (k, v) (o_fields m) -> is_meta_value v = false.
Proof. exact doc_disabled_no_metadata. Qed.

Theorem C19_lift_only : forall c o frags n sels m fl,
    only c = true ->
    exec c o frags n sels = Ok m -> flat o frags n sels = Ok fl ->
    (forall x, In x fl -> kc c o (snd x) <> 2 /\ kc c o (snd x) <> 3) ->
    o_log m = (0, 0, 0, 0).
Proof. exact doc_only_no_resolver. Qed.

Theorem C19_lift_typename : forall c o frags n sels m fl,
    is_subscription o = false ->
    exec c o frags n sels = Ok m -> flat o frags n sels = Ok fl ->
    keys_ok fl = true ->
    (forall x, In x fl -> kc c o (snd x) <> 4) ->
    o_data m = true ->
    forall k, In (k, CTypename) fl -> assocv k (o_fields m) = Some (VcTypename (root_name o)).
Proof. exact doc_typename_always. Qed.

Theorem C19_lift_typename_answered : forall c o frags n sels m,
    is_subscription o = false ->
    exec c o frags n sels = Ok m -> tn_only o frags n sels = Ok true -> o_data m = true.
Proof. exact doc_typename_answered. Qed.

(* the verdict computed by the correspondence files is the theorems' *)
Theorem C19_check_complete : forall c o frags n sels m fl pt,
    exec c o frags n sels = Ok m -> flat o frags n sels = Ok fl -> tn_only o frags n sels = Ok pt ->
    first_kc c o fl = 0 -> spec_ok c o fl pt m = true.
Proof. exact check_complete. Qed.

(* --- known findings: the full statement is false of the faithful model ---- *)
Theorem C19_service_sdl_refuted :
  exists c m, disabled c = true /\ exec c OpQuery [] 5 (doc1 N_service) = Ok m /\
              In (16, VcSdl) (o_fields m).
Proof. exact refuted_service_sdl. Qed.

Theorem C19_dynamic_entities_refuted :
  exists c m, only c = true /\ exec c OpQuery [] 5 (doc1 N_entities) = Ok m /\ o_log m = (0, 0, 0, 1).
Proof. exact refuted_dynamic_entities. Qed.

Theorem C19_dynamic_subscription_refuted :
  exists c m, only c = true /\ exec c OpSubscription [] 5 (doc1 N_s) = Ok m /\ o_log m = (0, 0, 1, 0).
Proof. exact refuted_dynamic_subscription. Qed.

Theorem C19_mutation_typename_refuted :
  exists c m m',
    exec c OpMutation [] 5 (doc1 N_typename) = Ok m /\
    assocv 16 (o_fields m) = Some (VcTypename T_EmptyMutation) /\
    exec c OpMutation [] 5 [SInline (Some T_Mutation) [] (doc1 N_typename)] = Ok m' /\
    o_data m' = true /\ assocv 16 (o_fields m') = None /\
    flat OpMutation [] 5 [SInline (Some T_Mutation) [] (doc1 N_typename)] = Ok [(16, CTypename)].
Proof. exact refuted_mutation_typename. Qed.

(* --- non-vacuity ----------------------------------------------------------- *)
Theorem C19_nonvacuous :
  (let c := mk Static FedEnt MEnabled MEnabled false in
   exists m fl, exec c OpQuery mixed_frags 20 mixed_sels = Ok m /\
                flat OpQuery mixed_frags 20 mixed_sels = Ok fl /\ first_kc c OpQuery fl = 0 /\
                length fl = 6%nat /\ o_log m = (1, 0, 0, 1) /\
                o_fields m = [(20, VcTypename T_Query); (21, VcMeta); (22, VcSdl); (23, VcEntity); (24, VcUser); (25, VcMeta)]) /\
  (let c := mk Static FedEnt MOnly MEnabled false in
   exists m fl, only c = true /\ exec c OpQuery mixed_frags 20 mixed_sels = Ok m /\
                flat OpQuery mixed_frags 20 mixed_sels = Ok fl /\ first_kc c OpQuery fl = 0 /\
                o_log m = (0, 0, 0, 0) /\
                o_fields m = [(20, VcTypename T_Query); (21, VcMeta); (22, VcNull); (23, VcNull); (24, VcNull); (25, VcMeta)]) /\
  (let c := mk Dynamic FedEnt MEnabled MDisabled false in
   exists m fl, disabled c = true /\ exec c OpQuery mixed_frags 20 mixed_sels = Ok m /\
                flat OpQuery mixed_frags 20 mixed_sels = Ok fl /\ first_kc c OpQuery fl = 0 /\
                o_log m = (1, 0, 0, 0) /\
                o_fields m = [(20, VcTypename T_Query); (24, VcUser)]).
Proof. exact (conj nonvacuous_enabled (conj nonvacuous_only nonvacuous_disabled)). Qed.

Check C19_disabled_no_metadata : forall c o k,
    disabled c = true -> kc c o k <> 1 -> serves_metadata (root_action c o k) = false.
Check C19_only_no_user_resolver : forall c o k,
    only c = true -> kc c o k <> 2 -> kc c o k <> 3 -> runs_resolver (root_action c o k) = false.
Check C19_typename_always : forall c o,
    is_subscription o = false -> kc c o CTypename <> 4 ->
    root_action c o CTypename = ATypename (root_name o).
Check C19_lift_only : forall c o frags n sels m fl,
    only c = true ->
    exec c o frags n sels = Ok m -> flat o frags n sels = Ok fl ->
    (forall x, In x fl -> kc c o (snd x) <> 2 /\ kc c o (snd x) <> 3) ->
    o_log m = (0, 0, 0, 0).
Check C19_lift_disabled : forall c o frags n sels m fl,
    disabled c = true ->
    exec c o frags n sels = Ok m -> flat o frags n sels = Ok fl ->
    (forall x, In x fl -> kc c o (snd x) <> 1) ->
    forall k v, In (k, v) (o_fields m) -> is_meta_value v = false.
Check C19_check_complete : forall c o frags n sels m fl pt,
    exec c o frags n sels = Ok m -> flat o frags n sels = Ok fl -> tn_only o frags n sels = Ok pt ->
    first_kc c o fl = 0 -> spec_ok c o fl pt m = true.

Print Assumptions C19_field_is_class.
Print Assumptions C19_disabled_no_metadata.
Print Assumptions C19_only_no_user_resolver.
Print Assumptions C19_typename_always.
Print Assumptions C19_classes_tight.
Print Assumptions C19_walk_is_table.
Print Assumptions C19_lift_disabled.
Print Assumptions C19_lift_only.
Print Assumptions C19_lift_typename.
Print Assumptions C19_lift_typename_answered.
Print Assumptions C19_check_complete.
Print Assumptions C19_service_sdl_refuted.
Print Assumptions C19_dynamic_entities_refuted.
Print Assumptions C19_dynamic_subscription_refuted.
Print Assumptions C19_mutation_typename_refuted.
Print Assumptions C19_nonvacuous.

(* C22 — look-ahead and selection views list every sub-field that will be
   resolved.  Only property theorems here: each is closed by [exact], the
   central statements are pinned by [Check] and assumptions are printed.

   Vocabulary (Lookahead.v):  [prune_list]/[prune_frags] = remove_skipped_selection
   as prepare_request applies it; [flat_list] = SelectionField::selection_set
   (SelectionFieldsIter); [la_field]/[la_chain]/[la_exists] = Lookahead::field /
   chains of it / exists; [view_args] = SelectionField::arguments; [param_raw] =
   what get_param_value resolves for a resolver parameter; [collect_list frags
   cond n st rt sels] = the fields Fields::add_set turns into resolver calls
   for a root of static type st and runtime type rt.  All statements hold for
   every document, fragment table, variables, registry.implements table and
   every fuel at which the functions involved return Ok. *)
From AG Require Import Lookahead LookaheadProofs.

(* completeness, stated on what the executor holds (the pruned fragments):
   everything collected beneath F is, in order, a subsequence of F's selection
   view; look_ahead().field(name) finds it and exists(); the arguments the view
   shows for it are the parameters its resolver is given. *)
Theorem C22_complete : forall vars vdefs frags cond F n st rt c,
  let frags' := prune_frags vars frags in
  collect_list frags' cond n st rt (f_sels F) = Ok c ->
  (forall m v, flat_list frags' m (f_sels F) = Ok v -> sublist c v) /\
  (forall g, In g c ->
     (forall m r, la_field frags' m (f_name g) [F] = Ok r -> In g r /\ la_exists r = true) /\
     (forall l, view_args vars vdefs (f_args g) = Ok l -> NoDup (map fst (f_args g)) ->
        forall nm, param_raw vars vdefs nm (f_args g) = Ok (assoc nm l))).
Proof. exact c22_complete. Qed.

(* the two halves for an arbitrary fragment table *)
Theorem C22_resolved_sublist_of_view : forall frags cond n st rt l c,
  collect_list frags cond n st rt l = Ok c ->
  forall m v, flat_list frags m l = Ok v -> sublist c v.
Proof. exact (fun frags cond n => proj2 (collect_sub_flat frags cond n)). Qed.

Theorem C22_resolved_in_view : forall frags cond n st rt l c g,
  collect_list frags cond n st rt l = Ok c -> In g c ->
  forall m v, flat_list frags m l = Ok v -> In g v.
Proof.
  exact (fun frags cond n st rt l c g Hc Hg m v Hv =>
           sublist_incl _ _ (proj2 (collect_sub_flat frags cond n) st rt l c Hc m v Hv) g Hg).
Qed.

Theorem C22_lookahead_exists : forall frags cond n st rt F c g,
  collect_list frags cond n st rt (f_sels F) = Ok c -> In g c ->
  forall m fs r, In F fs -> la_field frags m (f_name g) fs = Ok r ->
  In g r /\ la_exists r = true.
Proof. exact resolved_found_by_lookahead. Qed.

(* look_ahead().field(n1).field(n2)... follows every resolution path *)
Theorem C22_lookahead_chain : forall frags cond F chain h,
  rpath frags cond F chain h ->
  forall m fs r, In F fs -> la_chain frags m chain fs = Ok r -> In h r /\ la_exists r = true.
Proof. exact chain_follows_resolution. Qed.

(* the look-ahead is the selection view restricted to one name, and needs no
   more fuel than the view *)
Theorem C22_lookahead_is_view_filter : forall frags n nm l r,
  filter_list frags n nm l = Ok r ->
  forall m v, flat_list frags m l = Ok v -> r = filter (named nm) v.
Proof. exact (fun frags n nm => proj2 (filter_is_filter frags n nm)). Qed.

Theorem C22_lookahead_total : forall frags n nm l v,
  flat_list frags n l = Ok v -> filter_list frags n nm l = Ok (filter (named nm) v).
Proof. exact (fun frags n nm => proj2 (filter_total frags n nm)). Qed.

(* the view is a superset only because of type conditions: when every
   condition met applies, the executor resolves exactly the view *)
Theorem C22_exact_when_conditions_apply : forall frags cond n st rt l,
  all_apply_list frags cond n st rt l = true ->
  forall v, flat_list frags n l = Ok v -> collect_list frags cond n st rt l = Ok v.
Proof. exact (fun frags cond n => proj2 (collect_exact frags cond n)). Qed.

(* arguments *)
Theorem C22_args_equal : forall vars vdefs args l,
  view_args vars vdefs args = Ok l -> NoDup (map fst args) ->
  forall nm, param_raw vars vdefs nm args = Ok (assoc nm l).
Proof. exact view_args_are_params. Qed.

Theorem C22_param_listed : forall vars vdefs args l nm v,
  view_args vars vdefs args = Ok l ->
  param_raw vars vdefs nm args = Ok (Some v) -> In (nm, v) l.
Proof. exact param_listed. Qed.

Theorem C22_listed_from_field : forall vars vdefs args l nm v,
  view_args vars vdefs args = Ok l -> In (nm, v) l ->
  exists raw, In (nm, raw) args /\ riv vars vdefs raw = Ok (Some v).
Proof. exact listed_from_field. Qed.

(* @skip/@include, relative to the implementation's own pruning: the views of
   the pruned document are the views of the ORIGINAL document restricted to
   selections that their directives (evaluated against the request variables
   only, as is_skipped does) do not remove — same fuel, same outcome. *)
Theorem C22_view_commutes_with_pruning : forall vars frags n l,
  flat_list (prune_frags vars frags) n (prune_list vars l) =
  omap (map (prune_field vars)) (spec_fields vars frags n l).
Proof. exact view_fields_commute. Qed.

Theorem C22_relative_to_pruning : forall vars vdefs frags cond n f,
  view_of vars vdefs (prune_frags vars frags) n (prune_field vars f) = sview_of vars vdefs frags n f /\
  (forall st rt, collect_list (prune_frags vars frags) cond n st rt (f_sels (prune_field vars f)) =
                 omap (map (prune_field vars)) (scollect_list vars frags cond n st rt (unskipped vars (f_sels f)))).
Proof. exact c22_relative_to_pruning. Qed.

(* a field appears in a view only if it is reachable through selections none
   of which is removed; and every such field does appear *)
Theorem C22_skip_removed : forall vars frags n l v g,
  flat_list (prune_frags vars frags) n (prune_list vars l) = Ok v -> In g v ->
  exists f, g = prune_field vars f /\ kept vars frags l f.
Proof. exact view_only_kept. Qed.

Theorem C22_kept_listed : forall vars frags l f,
  kept vars frags l f -> forall n v, spec_fields vars frags n l = Ok v -> In f v.
Proof. exact kept_is_listed. Qed.

Theorem C22_skipped_selection_unlisted : forall vars frags n s,
  is_skipped vars (sel_dirs s) = true ->
  flat_list (prune_frags vars frags) n (prune_list vars [s]) = Ok [].
Proof. exact skipped_selection_unlisted. Qed.

(* views and collections are functions of the document: the result does not
   depend on the fuel at which it is computed *)
Theorem C22_view_fuel_independent : forall frags n l v,
  flat_list frags n l = Ok v -> forall m v', flat_list frags m l = Ok v' -> v = v'.
Proof. exact (fun frags n => proj2 (flat_fuel_indep frags n)). Qed.

Theorem C22_collect_fuel_independent : forall frags cond n st rt l v,
  collect_list frags cond n st rt l = Ok v ->
  forall m v', collect_list frags cond m st rt l = Ok v' -> v = v'.
Proof. exact (fun frags cond n => proj2 (collect_fuel_indep frags cond n)). Qed.

(* the model's whole invocation tree (the one compared with the recorded tree
   on every case): at every depth, each resolver invoked beneath a resolver is
   listed, with its complete own view, in that resolver's selection view *)
Theorem C22_model_tree_listed : forall S vars vdefs frags cond n root sels orc ts,
  model_roots S vars vdefs frags cond n root sels orc = Ok ts -> Forall tree_listed ts.
Proof. exact model_roots_listed. Qed.

Theorem C22_nonvacuous :
  let F := prune_field ex_vars ex_field in
  let frags' := prune_frags ex_vars ex_frags in
  collect_list frags' (cond_today ex_impls) 10 20%N 21%N (f_sels F) = Ok [mkF None 12%N [] [] []] /\
  flat_list frags' 10 (f_sels F) = Ok [mkF None 12%N [] [] []; mkF None 13%N [] [] []] /\
  la_field frags' 10 12%N [F] = Ok [mkF None 12%N [] [] []] /\
  la_field frags' 10 11%N [F] = Ok [] /\
  view_args ex_vars ex_vdefs (f_args F) = Ok [(40%N, VInt 5)].
Proof. exact c22_nonvacuous. Qed.

Check C22_complete : forall vars vdefs frags cond F n st rt c,
  let frags' := prune_frags vars frags in
  collect_list frags' cond n st rt (f_sels F) = Ok c ->
  (forall m v, flat_list frags' m (f_sels F) = Ok v -> sublist c v) /\
  (forall g, In g c ->
     (forall m r, la_field frags' m (f_name g) [F] = Ok r -> In g r /\ la_exists r = true) /\
     (forall l, view_args vars vdefs (f_args g) = Ok l -> NoDup (map fst (f_args g)) ->
        forall nm, param_raw vars vdefs nm (f_args g) = Ok (assoc nm l))).
Check C22_skip_removed : forall vars frags n l v g,
  flat_list (prune_frags vars frags) n (prune_list vars l) = Ok v -> In g v ->
  exists f, g = prune_field vars f /\ kept vars frags l f.
Check C22_view_commutes_with_pruning : forall vars frags n l,
  flat_list (prune_frags vars frags) n (prune_list vars l) =
  omap (map (prune_field vars)) (spec_fields vars frags n l).

Print Assumptions C22_complete.
Print Assumptions C22_resolved_sublist_of_view.
Print Assumptions C22_resolved_in_view.
Print Assumptions C22_lookahead_exists.
Print Assumptions C22_lookahead_chain.
Print Assumptions C22_lookahead_is_view_filter.
Print Assumptions C22_lookahead_total.
Print Assumptions C22_exact_when_conditions_apply.
Print Assumptions C22_args_equal.
Print Assumptions C22_param_listed.
Print Assumptions C22_listed_from_field.
Print Assumptions C22_view_commutes_with_pruning.
Print Assumptions C22_relative_to_pruning.
Print Assumptions C22_skip_removed.
Print Assumptions C22_kept_listed.
Print Assumptions C22_skipped_selection_unlisted.
Print Assumptions C22_view_fuel_independent.
Print Assumptions C22_collect_fuel_independent.
Print Assumptions C22_model_tree_listed.
Print Assumptions C22_nonvacuous.

(* C32 — connection cursors round-trip and pagination arguments are checked.
   Only property theorems here: each is closed by [exact], its statement is
   pinned by [Check] and its assumptions are printed. *)
From AG Require Import Cursor CursorProofs.
From AGgen Require Import CursorGen.
Open Scope Z_scope.

(* the model follows the tables translated from cursor.rs / mod.rs on this run *)
Theorem C32_tables :
  query_with_order_gen = [1; 2; 3; 4] /\ opaque_engine_gen = 1 /\ opaque_ser_error_gen = 1 /\
  Forall (fun p => 0 < snd p) cursor_int_types_gen.
Proof. exact c32_tables. Qed.

(* integers: every width, signed or unsigned, every value of the type *)
Theorem C32_cursor_int_roundtrip : forall t z,
    in_range t z = true -> parse_int t (print_int z) = Some z.
Proof. exact int_roundtrip. Qed.

(* the integer decoder accepts exactly [+-]?[0-9]+ with the positional value, in range *)
Theorem C32_cursor_int_decode_exact : forall t s, parse_int t s = spec_parse_int t s.
Proof. exact parse_int_spec. Qed.
Theorem C32_cursor_int_decode_range : forall t s z, parse_int t s = Some z -> in_range t z = true.
Proof. exact parse_int_range. Qed.

(* every simple cursor type: integers, bool, char, String, ID *)
Theorem C32_cursor_roundtrip : forall v,
    wf_cval v = true -> decode_cursor (kind_of v) (encode_cursor v) = Some v.
Proof. exact cursor_roundtrip. Qed.
Theorem C32_cursor_decode_exact : forall k s, decode_cursor k s = spec_decode k s.
Proof. exact decode_cursor_spec. Qed.

(* base64url without padding: lossless on all byte strings, accepts only encodings *)
Theorem C32_base64url_roundtrip : forall bs,
    wf_bytes bs = true -> b64_decode (b64_encode bs) = Some bs.
Proof. exact b64_roundtrip. Qed.
Theorem C32_base64url_decode_exact : forall s bs,
    b64_decode s = Some bs <-> (wf_bytes bs = true /\ b64_encode bs = s).
Proof. exact b64_decode_iff. Qed.
Theorem C32_base64url_rejects_symbol : forall s c,
    In c s -> b64_val c = None -> b64_decode s = None.
Proof. exact b64_reject_symbol. Qed.
Theorem C32_base64url_alphabet : forall c, b64_val c <> None <->
    (65 <= c <= 90 \/ 97 <= c <= 122 \/ 48 <= c <= 57 \/ c = 45 \/ c = 95)%N.
Proof. exact b64_alphabet. Qed.
Theorem C32_base64url_rejects_length : forall s,
    (N.of_nat (length s) mod 4 = 1)%N -> b64_decode s = None.
Proof. exact b64_reject_length. Qed.

(* OpaqueCursor<T> round-trips exactly when serde_json round-trips the value
   (any serializer / deserializer; bytes are bytes) *)
Theorem C32_opaque_roundtrip_iff : forall (T : Type) (ser : T -> option (list N)) (de : list N -> option T) v,
    wf_bytes (ser_bytes ser v) = true ->
    (opaque_decode de (opaque_encode ser v) = Some v <-> de (ser_bytes ser v) = Some v).
Proof. exact (@opaque_roundtrip_iff). Qed.
Theorem C32_opaque_rejects : forall (T : Type) (de : list N -> option T) s,
    b64_decode s = None -> opaque_decode de s = None.
Proof. exact (@opaque_reject). Qed.

(* known findings: what serde_json is observed to do makes the round trip fail *)
Theorem C32_opaque_nonfinite_refuted : forall (T : Type) (ser : T -> option (list N)) (de : list N -> option T) v,
    ser v = Some J_NULL -> de J_NULL = None ->
    opaque_encode ser v = [98; 110; 86; 115; 98; 65]%N /\ opaque_decode de (opaque_encode ser v) = None.
Proof. exact (@opaque_nonfinite). Qed.
Theorem C32_opaque_unserializable_refuted : forall (T : Type) (ser : T -> option (list N)) (de : list N -> option T) v,
    ser v = None -> de [] = None ->
    opaque_encode ser v = [] /\ opaque_decode de (opaque_encode ser v) = None.
Proof. exact (@opaque_unserializable). Qed.
Theorem C32_opaque_lossy_refuted : forall (T : Type) (ser : T -> option (list N)) (de : list N -> option T) v v' b,
    ser v = Some b -> wf_bytes b = true -> de b = Some v' -> v' <> v ->
    opaque_decode de (opaque_encode ser v) <> Some v.
Proof. exact (@opaque_lossy). Qed.

(* float cursors, under the law of Rust's float Display / FromStr (a Section hypothesis) *)
Theorem C32_cursor_float_roundtrip_partial : forall (F : Type) (to_string : F -> str) (parse : str -> option F) (is_nan : F -> bool),
    (forall x, is_nan x = false -> parse (to_string x) = Some x) ->
    forall x, is_nan x = false -> parse (to_string x) = Some x.
Proof. exact float_cursor_roundtrip. Qed.

(* query_with: a negative first/last or an undecodable cursor gives an error
   and the closure is not called (the result is the same error for every closure) *)
Theorem C32_query_with_guard : forall (C R : Type) (dec : str -> option C) after before first last,
    ((exists z, first = Some z /\ z < 0) \/ (exists z, last = Some z /\ z < 0) \/
     (exists s, before = Some s /\ dec s = None) \/ (exists s, after = Some s /\ dec s = None)) ->
    exists c, forall f : option C -> option C -> option Z -> option Z -> outcome R,
        query_with dec f after before first last = Err c.
Proof. exact (fun C R dec a b fi la H => query_with_guard_run dec a b fi la (proj2 (args_ok_false dec a b fi la) H)). Qed.

(* otherwise the closure receives exactly the decoded values and its result is returned *)
Theorem C32_query_with_pass : forall (C R : Type) (dec : str -> option C) after before first last,
    args_ok dec after before first last = true ->
    forall f : option C -> option C -> option Z -> option Z -> outcome R,
      query_with dec f after before first last = f (dec_opt dec after) (dec_opt dec before) first last.
Proof. exact (@query_with_pass_run). Qed.
Theorem C32_query_with_args_ok : forall (C : Type) (dec : str -> option C) after before first last,
    args_ok dec after before first last = false <->
    ((exists z, first = Some z /\ z < 0) \/ (exists z, last = Some z /\ z < 0) \/
     (exists s, before = Some s /\ dec s = None) \/ (exists s, after = Some s /\ dec s = None)).
Proof. exact (@args_ok_false). Qed.

(* cursors handed out by the server come back as the original values *)
Theorem C32_query_with_encoded : forall (R : Type) (a b : option cval) k first last
    (f : option cval -> option cval -> option Z -> option Z -> outcome R),
    negative first = false -> negative last = false ->
    (forall v, a = Some v -> kind_of v = k /\ wf_cval v = true) ->
    (forall v, b = Some v -> kind_of v = k /\ wf_cval v = true) ->
    query_with (decode_cursor k) f (option_map encode_cursor a) (option_map encode_cursor b) first last =
    f a b first last.
Proof. exact (@query_with_encoded). Qed.

(* which strings reach decode_cursor, in which order *)
Theorem C32_query_with_trace : forall (C : Type) (dec : str -> option C) after before first last,
    snd (query_with_dec dec after before first last) =
    if negative first || negative last then []
    else match before with
         | Some b => b :: match dec b, after with Some _, Some a => [a] | _, _ => [] end
         | None => match after with Some a => [a] | None => [] end
         end.
Proof. exact (@query_with_trace). Qed.

(* page info: start/end cursors are the first/last edge cursors' encodings and decode to them *)
Theorem C32_page_info_cursors : forall edges,
    pi_start (conn_page_info edges) = hd_error (conn_edge_cursors edges) /\
    pi_end (conn_page_info edges) = last_error (conn_edge_cursors edges).
Proof. exact page_info_cursors. Qed.
Theorem C32_page_info_decodes : forall edges v,
    forallb wf_cval edges = true ->
    (hd_error edges = Some v ->
     exists s, pi_start (conn_page_info edges) = Some s /\ decode_cursor (kind_of v) s = Some v) /\
    (last_error edges = Some v ->
     exists s, pi_end (conn_page_info edges) = Some s /\ decode_cursor (kind_of v) s = Some v).
Proof. exact page_info_decodes. Qed.

(* the verdict computed by the correspondence files is the theorems': a case on
   which the real code equals the model is never reported *)
Theorem C32_check_complete :
    (forall v, check_enc (v, encode_cursor v) = 0%N) /\
    (forall k s, check_dec (k, s, decode_cursor k s) = 0%N) /\
    (forall b, wf_bytes b = true -> check_b64e (b, b64_encode b) = 0%N) /\
    (forall s, check_b64d (s, b64_decode s) = 0%N).
Proof. exact (conj check_enc_ok (conj check_dec_ok (conj check_b64e_ok check_b64d_ok))). Qed.

Theorem C32_nonvacuous :
  in_range T_I128 (- 2 ^ 127) = true /\
  print_int (- 2 ^ 127) = map (fun c => Z.to_N c)
    [45;49;55;48;49;52;49;49;56;51;52;54;48;52;54;57;50;51;49;55;51;49;54;56;55;51;48;51;55;49;53;56;56;52;49;48;53;55;50;56] /\
  parse_int T_U128 (print_int (2 ^ 128 - 1)) = Some (2 ^ 128 - 1) /\
  parse_int T_U128 (print_int (2 ^ 128)) = None /\
  parse_int T_I32 [45; 49]%N = Some (-1) /\
  b64_encode [110; 117; 108; 108]%N = [98; 110; 86; 115; 98; 65]%N /\
  b64_decode [65; 66]%N = None /\
  (forall f : option cval -> option cval -> option Z -> option Z -> outcome N,
      query_with (decode_cursor (KInt T_I32)) f (Some [49; 50]%N) None (Some 3) None =
      f (Some (CInt T_I32 12)) None (Some 3) None) /\
  (forall f : option cval -> option cval -> option Z -> option Z -> outcome N,
      query_with (decode_cursor (KInt T_I32)) f (Some [120]%N) None (Some 3) None = Err E_AFTER).
Proof. exact c32_nonvacuous. Qed.

Check C32_cursor_int_roundtrip : forall t z, in_range t z = true -> parse_int t (print_int z) = Some z.
Check C32_cursor_roundtrip : forall v, wf_cval v = true -> decode_cursor (kind_of v) (encode_cursor v) = Some v.
Check C32_base64url_roundtrip : forall bs, wf_bytes bs = true -> b64_decode (b64_encode bs) = Some bs.
Check C32_base64url_decode_exact : forall s bs, b64_decode s = Some bs <-> (wf_bytes bs = true /\ b64_encode bs = s).

Print Assumptions C32_tables.
Print Assumptions C32_cursor_int_roundtrip.
Print Assumptions C32_cursor_int_decode_exact.
Print Assumptions C32_cursor_int_decode_range.
Print Assumptions C32_cursor_roundtrip.
Print Assumptions C32_cursor_decode_exact.
Print Assumptions C32_base64url_roundtrip.
Print Assumptions C32_base64url_decode_exact.
Print Assumptions C32_base64url_rejects_symbol.
Print Assumptions C32_base64url_alphabet.
Print Assumptions C32_base64url_rejects_length.
Print Assumptions C32_opaque_roundtrip_iff.
Print Assumptions C32_opaque_rejects.
Print Assumptions C32_opaque_nonfinite_refuted.
Print Assumptions C32_opaque_unserializable_refuted.
Print Assumptions C32_opaque_lossy_refuted.
Print Assumptions C32_cursor_float_roundtrip_partial.
Print Assumptions C32_query_with_guard.
Print Assumptions C32_query_with_pass.
Print Assumptions C32_query_with_args_ok.
Print Assumptions C32_query_with_encoded.
Print Assumptions C32_query_with_trace.
Print Assumptions C32_page_info_cursors.
Print Assumptions C32_page_info_decodes.
Print Assumptions C32_check_complete.
Print Assumptions C32_nonvacuous.

(* SdlProofs.v — lemmas and proofs for C17 (no model definitions). *)
From AG Require Import ValueText ValueTextProofs Sdl.
From Coq Require String.
Import Coq.Strings.String.StringSyntax.
Open Scope N_scope.

(* ------------------------------------------------------------- arithmetic -- *)
Ltac nb :=
  repeat match goal with
  | H : _ && _ = true |- _ => apply andb_true_iff in H; destruct H
  | H : _ || _ = true |- _ => apply orb_true_iff in H; destruct H
  | H : _ || _ = false |- _ => apply orb_false_iff in H; destruct H
  | H : negb _ = true |- _ => apply negb_true_iff in H
  | H : negb _ = false |- _ => apply negb_false_iff in H
  | H : (_ <=? _) = true |- _ => apply N.leb_le in H
  | H : (_ <=? _) = false |- _ => apply N.leb_gt in H
  | H : (_ <? _) = true |- _ => apply N.ltb_lt in H
  | H : (_ <? _) = false |- _ => apply N.ltb_ge in H
  | H : (_ =? _) = true |- _ => apply N.eqb_eq in H
  | H : (_ =? _) = false |- _ => apply N.eqb_neq in H
  end.

Lemma name_start_not_ws c : is_name_start c = true -> is_ws c = false /\ (c =? 35) = false.
Proof.
  intro H. split.
  - destruct (is_ws c) eqn:E; [|reflexivity]. exfalso. unfold is_name_start, is_ws in *. nb; lia.
  - apply N.eqb_neq. unfold is_name_start in H. nb; lia.
Qed.

Lemma skip_ign_plain c t : is_ws c = false -> (c =? 35) = false -> skip_ign (c :: t) = c :: t.
Proof. intros W H. cbn [skip_ign]. rewrite W, H. reflexivity. Qed.

Lemma skip_ign_ws c t : is_ws c = true -> skip_ign (c :: t) = skip_ign t.
Proof. intros W. cbn [skip_ign]. rewrite W. reflexivity. Qed.

(* what may follow a name *)
Definition no_name_char (rest : str) : Prop :=
  match rest with c :: _ => is_name_char c = false | [] => True end.

Lemma span_app (p : cp -> bool) a rest :
  forallb p a = true -> match rest with c :: _ => p c = false | [] => True end ->
  span p (a ++ rest) = (a, rest).
Proof.
  induction a as [|x a IH]; intros H R.
  - cbn [app]. destruct rest as [|c r]; [reflexivity|]. cbn [span]. rewrite R. reflexivity.
  - cbn [forallb] in H. apply andb_true_iff in H. destruct H as [Hx Ha].
    cbn [app span]. rewrite Hx, (IH Ha R). reflexivity.
Qed.

(* a name followed by anything that is not a name character reads back *)
Lemma p_name_app n rest :
  is_name n = true -> no_name_char rest -> p_name (n ++ rest) = Some (n, rest).
Proof.
  intros H R. destruct n as [|c t]; [discriminate|].
  cbn [is_name] in H. apply andb_true_iff in H. destruct H as [Hc Ht].
  destruct (name_start_not_ws c Hc) as [W S].
  unfold p_name. cbn [app]. rewrite (skip_ign_plain c _ W S), Hc.
  change (c :: t ++ rest) with ((c :: t) ++ rest).
  rewrite (span_app is_name_char (c :: t) rest); [reflexivity| |exact R].
  cbn [forallb]. unfold is_name_char at 1. rewrite Hc. exact Ht.
Qed.

(* leading blanks are ignored *)
Lemma p_name_sp n rest :
  is_name n = true -> no_name_char rest -> p_name (32 :: n ++ rest) = Some (n, rest).
Proof.
  intros H R. unfold p_name. rewrite skip_ign_ws by reflexivity. apply (p_name_app n rest H R).
Qed.


Lemma peek_is_plain c x t : is_ws x = false -> (x =? 35) = false -> peek_is c (x :: t) = (x =? c).
Proof. intros W H. unfold peek_is, peek. rewrite (skip_ign_plain x t W H). reflexivity. Qed.

Lemma p_char_plain c x t : is_ws x = false -> (x =? 35) = false ->
  p_char c (x :: t) = if x =? c then Some t else None.
Proof. intros W H. unfold p_char. rewrite (skip_ign_plain x t W H). reflexivity. Qed.

Lemma peek_is_ws c x t : is_ws x = true -> peek_is c (x :: t) = peek_is c t.
Proof. intros W. unfold peek_is, peek. rewrite (skip_ign_ws x t W). reflexivity. Qed.

Lemma p_char_ws c x t : is_ws x = true -> p_char c (x :: t) = p_char c t.
Proof. intros W. unfold p_char. rewrite (skip_ign_ws x t W). reflexivity. Qed.

(* ------------------------------------------- escape_string / write_deprecated -- *)
(* One character of a deprecation reason: reading what escape_string prints
   for it gives it back (case analysis on the translated table and on the
   control characters written by the guarded \u arm). *)
Lemma escape_char_read c t acc :
  read_chars (escape_char c ++ t) acc = read_chars t (c :: acc).
Proof.
  unfold escape_char. unfold sdl_escape_table_gen, sdl_escape_ctrl_gen. cbn [nassoc andb].
  destruct (c =? 92) eqn:E1; [apply N.eqb_eq in E1; subst; reflexivity|].
  destruct (c =? 34) eqn:E0; [apply N.eqb_eq in E0; subst; reflexivity|].
  destruct (c =? 8) eqn:E2; [apply N.eqb_eq in E2; subst; reflexivity|].
  destruct (c =? 12) eqn:E3; [apply N.eqb_eq in E3; subst; reflexivity|].
  destruct (c =? 10) eqn:E4; [apply N.eqb_eq in E4; subst; reflexivity|].
  destruct (c =? 13) eqn:E5; [apply N.eqb_eq in E5; subst; reflexivity|].
  destruct (c =? 9) eqn:E6; [apply N.eqb_eq in E6; subst; reflexivity|].
  destruct (is_control c) eqn:EC.
  - assert (D : c = 0 \/ c = 1 \/ c = 2 \/ c = 3 \/ c = 4 \/ c = 5 \/ c = 6 \/ c = 7 \/ c = 11 \/ c = 14 \/ c = 15 \/ c = 16 \/ c = 17 \/ c = 18 \/ c = 19 \/ c = 20 \/ c = 21 \/ c = 22 \/ c = 23 \/ c = 24 \/ c = 25 \/ c = 26 \/ c = 27 \/ c = 28 \/ c = 29 \/ c = 30 \/ c = 31 \/ c = 127 \/ c = 128 \/ c = 129 \/ c = 130 \/ c = 131 \/ c = 132 \/ c = 133 \/ c = 134 \/ c = 135 \/ c = 136 \/ c = 137 \/ c = 138 \/ c = 139 \/ c = 140 \/ c = 141 \/ c = 142 \/ c = 143 \/ c = 144 \/ c = 145 \/ c = 146 \/ c = 147 \/ c = 148 \/ c = 149 \/ c = 150 \/ c = 151 \/ c = 152 \/ c = 153 \/ c = 154 \/ c = 155 \/ c = 156 \/ c = 157 \/ c = 158 \/ c = 159).
    { unfold is_control in EC. nb; lia. }
    repeat (destruct D as [D | D]; [subst c; reflexivity|]). subst c; reflexivity.
  - cbn [app read_chars]. rewrite E0, E1, E4, E5. cbn [orb].
    unfold is_control in EC. apply orb_false_iff in EC. destruct EC as [EC _].
    apply N.leb_gt in EC. assert (L : (32 <=? c) = true) by (apply N.leb_le; lia).
    rewrite L, orb_true_r. reflexivity.
Qed.

(* the class of reasons the exporter cannot carry is empty *)
Lemma bad_reason_char_never c : bad_reason_char c = false.
Proof.
  unfold bad_reason_char. unfold sdl_escape_table_gen, sdl_escape_ctrl_gen. cbn [nassoc andb].
  destruct (c =? 92); [reflexivity|].
  destruct (c =? 34) eqn:E0; [reflexivity|].
  destruct (c =? 8); [reflexivity|]. destruct (c =? 12); [reflexivity|].
  destruct (c =? 10); [reflexivity|]. destruct (c =? 13); [reflexivity|].
  destruct (c =? 9) eqn:E9; [reflexivity|].
  destruct (is_control c) eqn:EC; [reflexivity|].
  cbn [orb]. unfold raw_ctrl. rewrite E9. cbn [negb]. rewrite andb_true_r.
  unfold is_control in EC. apply orb_false_iff in EC. destruct EC as [EC _].
  apply N.leb_gt in EC. apply N.ltb_ge. lia.
Qed.

Lemma bad_reason_never r : existsb bad_reason_char r = false.
Proof. induction r as [|c r IH]; [reflexivity|]. cbn [existsb]. rewrite bad_reason_char_never, IH. reflexivity. Qed.

Lemma escape_string_read : forall r acc rest,
  read_chars (escape_string r ++ 34 :: rest) acc = Some (rev acc ++ r, rest).
Proof.
  induction r as [|c r IH]; intros acc rest.
  - cbn. rewrite app_nil_r. reflexivity.
  - unfold escape_string in *. cbn [flat_map]. rewrite <- app_assoc, (escape_char_read c _ acc), (IH (c :: acc) rest).
    cbn [rev]. rewrite <- app_assoc. reflexivity.
Qed.

Lemma escape_char_head c : exists x r, escape_char c = x :: r /\ (x =? 34) = false.
Proof.
  unfold escape_char. unfold sdl_escape_table_gen, sdl_escape_ctrl_gen. cbn [nassoc andb].
  destruct (c =? 92); [eexists _, _; split; reflexivity|].
  destruct (c =? 34) eqn:E0; [eexists _, _; split; reflexivity|].
  destruct (c =? 8); [eexists _, _; split; reflexivity|].
  destruct (c =? 12); [eexists _, _; split; reflexivity|].
  destruct (c =? 10); [eexists _, _; split; reflexivity|].
  destruct (c =? 13); [eexists _, _; split; reflexivity|].
  destruct (c =? 9); [eexists _, _; split; reflexivity|].
  destruct (is_control c).
  - unfold escape_u, sdl_escape_u_prefix_gen. cbn [app]. eexists _, _; split; reflexivity.
  - eexists _, _; split; [reflexivity|exact E0].
Qed.

(* the quoted reason as a StringValue token, wherever a value is expected *)
Lemma pval_reason F r rest :
  starts_with [34] rest = None ->
  pval false (fun t => t) (S F) (32 :: 34 :: escape_string r ++ 34 :: rest) = Some (CStr r, rest).
Proof.
  intros R. cbn [pval]. rewrite skip_ign_ws by reflexivity. rewrite skip_ign_plain by reflexivity.
  change (34 =? 91) with false. change (34 =? 123) with false. change (34 =? 34) with true. cbn iota.
  unfold pstring.
  assert (B : starts_with [34; 34] (escape_string r ++ 34 :: rest) = None).
  { destruct r as [|c r].
    - cbn [escape_string flat_map app starts_with]. change (34 =? 34) with true. cbn iota.
      cbn [starts_with] in R. destruct rest as [|b q]; [reflexivity|].
      destruct (34 =? b); [discriminate|reflexivity].
    - unfold escape_string. cbn [flat_map]. destruct (escape_char_head c) as [x [q [E X]]]. rewrite E.
      cbn [app starts_with]. rewrite N.eqb_sym, X. reflexivity. }
  rewrite B, (escape_string_read r [] rest). reflexivity.
Qed.

Definition T_deprecated : str := lit "deprecated".
Definition T_reason : str := lit "reason".

(* write_deprecated, token level: for EVERY reason the printed
   text reads back, with the grammar's Directives reader, as exactly the
   directive @deprecated(reason: <the reason>) *)
Lemma p_dirs_deprecated_reason F k r rest :
  p_dirs (S F) (S k) (write_deprecated (Depr (Some r)) ++ rest) =
  match p_dirs (S F) k rest with
  | Some (l, r') => Some (DInv T_deprecated [(T_reason, CStr r)] :: l, r')
  | None => None
  end.
Proof.
  unfold write_deprecated, depr_open_gen, depr_close_gen.
  cbn [app]. cbn [p_dirs].
  unfold peek_is, peek. rewrite skip_ign_ws by reflexivity. rewrite skip_ign_plain by reflexivity.
  change (64 =? 64) with true. cbn iota.
  unfold p_char at 1. rewrite skip_ign_ws by reflexivity. rewrite skip_ign_plain by reflexivity.
  change (64 =? 64) with true. cbn iota.
  change (100 :: 101 :: 112 :: 114 :: 101 :: 99 :: 97 :: 116 :: 101 :: 100 :: 40 :: ?x) with (T_deprecated ++ 40 :: x).
  match goal with |- context [p_name (T_deprecated ++ ?x)] => rewrite (p_name_app T_deprecated x) by (reflexivity) end.
  rewrite skip_ign_plain by reflexivity. change (40 =? 40) with true. cbn iota.
  unfold p_char at 1. rewrite skip_ign_plain by reflexivity. change (40 =? 40) with true. cbn iota.
  cbn [p_cargs].
  match goal with |- context [p_name (114 :: 101 :: 97 :: 115 :: 111 :: 110 :: ?x)] =>
    change (114 :: 101 :: 97 :: 115 :: 111 :: 110 :: x) with (T_reason ++ x);
    rewrite (p_name_app T_reason x) by reflexivity end.
  unfold p_char at 1. rewrite skip_ign_plain by reflexivity. change (58 =? 58) with true. cbn iota.
  unfold p_value. rewrite <- app_assoc. cbn [app].
  match goal with |- context [pval ?a ?b ?c ?d] =>
    replace (pval a b c d) with (Some (CStr r, 41 :: rest))
      by (symmetry; apply (pval_reason F r (41 :: rest)); reflexivity) end.
  rewrite peek_is_plain by reflexivity. change (41 =? 41) with true. cbn iota.
  rewrite p_char_plain by reflexivity. change (41 =? 41) with true. cbn iota.
  reflexivity.
Qed.

Lemma p_dirs_deprecated_bare F k rest :
  no_name_char rest -> peek_is 40 rest = false ->
  p_dirs (S F) (S k) (write_deprecated (Depr None) ++ rest) =
  match p_dirs (S F) k rest with
  | Some (l, r') => Some (DInv T_deprecated [] :: l, r')
  | None => None
  end.
Proof.
  intros R P. unfold write_deprecated, depr_bare_gen. cbn [app]. cbn [p_dirs].
  unfold peek_is at 1, peek. rewrite skip_ign_ws by reflexivity. rewrite skip_ign_plain by reflexivity.
  change (64 =? 64) with true. cbn iota.
  unfold p_char at 1. rewrite skip_ign_ws by reflexivity. rewrite skip_ign_plain by reflexivity.
  change (64 =? 64) with true. cbn iota.
  change (100 :: 101 :: 112 :: 114 :: 101 :: 99 :: 97 :: 116 :: 101 :: 100 :: rest) with (T_deprecated ++ rest).
  rewrite (p_name_app T_deprecated rest) by (reflexivity || exact R).
  rewrite P. reflexivity.
Qed.

(* ------------------------------------------------ single-line descriptions -- *)
Lemma single_char_read c t acc :
  ((c =? 92) || raw_ctrl c) = false -> (c =? 10) = false ->
  read_chars ((if c =? 34 then [92; 34] else [c]) ++ t) acc = read_chars t (c :: acc).
Proof.
  intros H NL. apply orb_false_iff in H. destruct H as [B C].
  destruct (c =? 34) eqn:Q.
  - apply N.eqb_eq in Q. subst. reflexivity.
  - cbn [app read_chars]. rewrite Q, B, NL. cbn [orb].
    unfold raw_ctrl in C.
    destruct (c =? 13) eqn:E13.
    { apply N.eqb_eq in E13. subst. discriminate. }
    destruct (c =? 9) eqn:E9; [reflexivity|].
    cbn [negb] in C. rewrite andb_true_r in C. apply N.ltb_ge in C.
    assert (L : (32 <=? c) = true) by (apply N.leb_le; lia). rewrite L. reflexivity.
Qed.

Lemma single_read : forall d acc rest,
  single_bad d = false -> contains 10 d = false ->
  read_chars (replace_char 34 [92; 34] d ++ 34 :: rest) acc = Some (rev acc ++ d, rest).
Proof.
  unfold replace_char.
  induction d as [|c d IH]; intros acc rest H N.
  - cbn. rewrite app_nil_r. reflexivity.
  - unfold single_bad in H. cbn [existsb] in H. apply orb_false_iff in H. destruct H as [Hc Hs].
    unfold contains in N. cbn [existsb] in N. apply orb_false_iff in N. destruct N as [Nc Ns].
    cbn [flat_map]. rewrite <- app_assoc.
    rewrite N.eqb_sym in Nc.
    rewrite (single_char_read c _ acc Hc Nc).
    etransitivity; [exact (IH (c :: acc) rest Hs Ns)|].
    cbn [rev]. rewrite <- app_assoc. reflexivity.
Qed.

Lemma tabs_blank o level : forallb is_blank_ws (tabs o level) = true.
Proof.
  induction level as [|l IH]; [reflexivity|]. cbn [tabs]. rewrite forallb_app, IH, andb_true_r.
  unfold tab. destruct (o_space o); [|reflexivity].
  induction (N.to_nat (o_width o)) as [|n IHn]; [reflexivity|]. cbn [repeat forallb]. rewrite IHn. reflexivity.
Qed.

Lemma skip_ign_blank : forall t rest, forallb is_blank_ws t = true -> skip_ign (t ++ rest) = skip_ign rest.
Proof.
  induction t as [|c t IH]; intros rest H; [reflexivity|].
  cbn [forallb] in H. apply andb_true_iff in H. destruct H as [Hc Ht].
  cbn [app]. rewrite skip_ign_ws; [apply IH; exact Ht|].
  unfold is_blank_ws in Hc. unfold is_ws. nb; subst; reflexivity.
Qed.

(* write_description, single-line form, token level: for every description
   outside class 5 the printed text is one StringValue token that reads back as
   the description *)
Lemma p_string_single o level d rest :
  single_line_form o d = true -> single_bad d = false ->
  p_string (write_description o level d ++ rest) = Some (d, 10 :: rest).
Proof.
  intros S B. unfold write_description. rewrite S.
  unfold desc_single_delim_gen, desc_single_from_gen, desc_single_to_gen.
  unfold single_line_form, desc_single_excl_gen in S. apply andb_true_iff in S. destruct S as [_ S].
  apply negb_true_iff in S.
  unfold p_string. rewrite <- !app_assoc. rewrite (skip_ign_blank _ _ (tabs_blank o level)).
  cbn [app]. rewrite skip_ign_plain by reflexivity. change (34 =? 34) with true. cbn iota.
  assert (Q : starts_with [34; 34] (replace_char 34 [92; 34] d ++ 34 :: 10 :: rest) = None).
  { destruct d as [|c d].
    - reflexivity.
    - unfold replace_char. cbn [flat_map]. destruct (c =? 34) eqn:E.
      + reflexivity.
      + cbn [app starts_with]. rewrite N.eqb_sym, E. reflexivity. }
  rewrite Q. rewrite (single_read d [] (10 :: rest) B S). reflexivity.
Qed.

(* ---------------------------------------------------------- type references -- *)
Fixpoint show_ty (t : gty) : str :=
  match t with
  | GNamed n => n
  | GList u => 91 :: show_ty u ++ [93]
  | GNonNull u => show_ty u ++ [33]
  end.

Fixpoint wf_ty (t : gty) : bool :=
  match t with
  | GNamed n => is_name n
  | GList u => wf_ty u
  | GNonNull u => match u with GNonNull _ => false | _ => wf_ty u end
  end.

Fixpoint ty_depth (t : gty) : nat :=
  match t with GNamed _ => 1 | GList u => S (ty_depth u) | GNonNull u => ty_depth u end.

Definition bang_free (rest : str) : Prop :=
  match skip_ign rest with c :: _ => (c =? 33) = false | [] => True end.

Definition not_nonnull (t : gty) : bool := match t with GNonNull _ => false | _ => true end.

Lemma p_bang_free t rest : bang_free rest -> p_bang t rest = (t, rest).
Proof.
  unfold bang_free, p_bang. destruct (skip_ign rest) as [|c q]; [reflexivity|]. intros ->. reflexivity.
Qed.

Lemma p_type_show : forall t n rest,
  wf_ty t = true -> (ty_depth t <= n)%nat -> no_name_char rest ->
  (not_nonnull t = true -> p_type (S n) (show_ty t ++ rest) = Some (p_bang t rest)) /\
  (bang_free rest -> p_type (S n) (show_ty t ++ rest) = Some (t, rest)).
Proof.
  induction t as [nm | u IH | u IH]; intros n rest W D R.
  - (* named *)
    assert (A : p_type (S n) (show_ty (GNamed nm) ++ rest) = Some (p_bang (GNamed nm) rest)).
    { cbn [show_ty wf_ty] in *. destruct nm as [|c q]; [discriminate|].
      pose proof W as W'. cbn [is_name] in W'. apply andb_true_iff in W'. destruct W' as [Hc _].
      destruct (name_start_not_ws c Hc) as [Ws Hs].
      cbn [p_type app]. rewrite (skip_ign_plain c _ Ws Hs).
      assert (E : (c =? 91) = false). { apply N.eqb_neq. unfold is_name_start in Hc. nb; lia. }
      rewrite E. change (c :: q ++ rest) with ((c :: q) ++ rest).
      rewrite (p_name_app (c :: q) rest W R). reflexivity. }
    split; [intros _; exact A|]. intro B. rewrite A, (p_bang_free _ _ B). reflexivity.
  - (* list *)
    assert (A : p_type (S n) (show_ty (GList u) ++ rest) = Some (p_bang (GList u) rest)).
    { cbn [show_ty wf_ty ty_depth] in *. destruct n as [|n]; [lia|].
      destruct (IH n (93 :: rest) W ltac:(lia) ltac:(reflexivity)) as [_ B].
      set (m := S n) in *.
      cbn [p_type app]. rewrite skip_ign_plain by reflexivity. change (91 =? 91) with true. cbn iota.
      rewrite <- app_assoc. cbn [app].
      match goal with |- context [p_type ?a ?b] =>
        replace (p_type a b) with (Some (u, 93 :: rest))
          by (symmetry; apply B; unfold bang_free; rewrite skip_ign_plain by reflexivity; reflexivity) end.
      rewrite p_char_plain by reflexivity. change (93 =? 93) with true. cbn iota. reflexivity. }
    split; [intros _; exact A|]. intro B. rewrite A, (p_bang_free _ _ B). reflexivity.
  - (* non-null *)
    split; [discriminate|]. intros _.
    cbn [show_ty wf_ty ty_depth] in *.
    assert (NN : not_nonnull u = true) by (destruct u; [reflexivity|reflexivity|discriminate]).
    assert (Wu : wf_ty u = true) by (destruct u; [exact W|exact W|discriminate]).
    rewrite <- app_assoc. cbn [app].
    destruct (IH n (33 :: rest) Wu D ltac:(reflexivity)) as [A _].
    etransitivity; [exact (A NN)|]. unfold p_bang. rewrite skip_ign_plain by reflexivity.
    change (33 =? 33) with true. cbn iota. reflexivity.
Qed.

(* a type reference printed in canonical form reads back, whatever follows
   (except a name character or "!") *)
Lemma p_type_roundtrip t n rest :
  wf_ty t = true -> (ty_depth t <= n)%nat -> no_name_char rest -> bang_free rest ->
  p_type (S n) (show_ty t ++ rest) = Some (t, rest).
Proof. intros W D R B. exact (proj2 (p_type_show t n rest W D R) B). Qed.

(* ------------------------------------------------ implements / member lists -- *)
Definition T_amp : str := [32; 38; 32].

Lemma join_cons2 sep x y r : join sep (x :: y :: r) = x ++ sep ++ join sep (y :: r).
Proof. reflexivity. Qed.

(* " A & B & C" reads back as [A; B; C] *)
Lemma p_names_amp : forall l k rest,
  l <> [] -> forallb is_name l = true -> (length l <= k)%nat ->
  no_name_char rest -> peek_is 38 rest = false ->
  p_names_sep 38 k (32 :: join T_amp l ++ rest) = Some (l, rest).
Proof.
  induction l as [|x l IH]; intros k rest NE W L R P; [congruence|].
  cbn [forallb] in W. apply andb_true_iff in W. destruct W as [Wx Wl].
  destruct k as [|k]; [cbn [length] in L; lia|]. cbn [length] in L.
  destruct l as [|y l].
  - cbn [join p_names_sep]. rewrite (p_name_sp x rest Wx R), P. reflexivity.
  - rewrite join_cons2. rewrite <- !app_assoc. unfold T_amp at 1. cbn [app].
    cbn [p_names_sep].
    rewrite (p_name_sp x _ Wx) by reflexivity.
    rewrite peek_is_ws by reflexivity. rewrite peek_is_plain by reflexivity.
    change (38 =? 38) with true. cbn iota.
    rewrite p_char_ws by reflexivity. rewrite p_char_plain by reflexivity.
    change (38 =? 38) with true. cbn iota.
    match goal with |- context [p_names_sep ?a ?b ?c] =>
      replace (p_names_sep a b c) with (Some (y :: l, rest))
        by (symmetry; apply (IH k rest); [discriminate|exact Wl|cbn [length] in *; lia|exact R|exact P]) end.
    reflexivity.
Qed.

Definition T_implements : str := lit "implements".

(* write_implements, token level: the printed clause reads back as the list
   of interface names; an absent clause as the empty list *)
Lemma p_implements_roundtrip F R n l rest :
  sassoc n (r_impl R) = Some l -> l <> [] -> forallb is_name l = true -> (length l <= F)%nat ->
  no_name_char rest -> peek_is 38 rest = false ->
  p_implements F (write_implements R n ++ rest) = Some (l, rest).
Proof.
  intros E NE W L NR P. unfold write_implements. rewrite E.
  destruct l as [|x l]; [congruence|].
  change (lit " implements ") with (32 :: T_implements ++ [32]).
  rewrite <- !app_assoc. cbn [app]. rewrite <- app_assoc. cbn [app].
  unfold p_implements, p_kw.
  rewrite (p_name_sp T_implements _ eq_refl) by reflexivity.
  change (str_eqb T_implements (lit "implements")) with true. cbn iota.
  unfold p_names_lead.
  assert (Hx : exists c q, x = c :: q /\ is_name_start c = true).
  { cbn [forallb] in W. apply andb_true_iff in W. destruct W as [Wx _].
    destruct x as [|c q]; [discriminate|]. cbn [is_name] in Wx. apply andb_true_iff in Wx.
    destruct Wx as [Hc _]. eauto. }
  destruct Hx as [c [q [-> Hc]]].
  destruct (name_start_not_ws c Hc) as [Ws Hs].
  assert (PK : peek_is 38 (32 :: join (lit " & ") ((c :: q) :: l) ++ rest) = false).
  { rewrite peek_is_ws by reflexivity.
    destruct l as [|y l]; cbn [join app]; rewrite (peek_is_plain 38 c _ Ws Hs);
      apply N.eqb_neq; unfold is_name_start in Hc; nb; lia. }
  match goal with |- (if ?b then _ else _) = _ => replace b with false by (symmetry; exact PK) end.
  exact (p_names_amp ((c :: q) :: l) F rest NE W L NR P).
Qed.

(* ------------------------------------------------- block descriptions ------ *)
(* all strings over an alphabet up to a length *)
Fixpoint words (alpha : list cp) (n : nat) : list str :=
  match n with
  | O => [[]]
  | S n' => [] :: flat_map (fun w => map (fun a => a :: w) alpha) (words alpha n')
  end.

Definition o_plain : opts :=
  {| o_sorted_fields := false; o_sorted_args := false; o_sorted_enum := false; o_single_line := false;
     o_specified_by := false; o_space := false; o_width := 2 |}.
Definition o_spaces : opts :=
  {| o_sorted_fields := false; o_sorted_args := false; o_sorted_enum := false; o_single_line := false;
     o_specified_by := false; o_space := true; o_width := 3 |}.

(* the description, printed as a block string at [level], reads back or lies in class 4 *)
Definition block_ok (o : opts) (level : nat) (d : str) : bool :=
  block_bad d ||
  match p_string (write_description o level d ++ lit "x: Int") with
  | Some (d', rest) => str_eqb d d' && str_eqb rest (10 :: lit "x: Int")
  | None => false
  end.

(* bounded: every description of at most 5 characters over
   { a, space, tab, LF, CR, double quote, backslash }, at levels 0-2, with tab
   and with 3-space indentation *)
Lemma block_description_bounded :
  forallb (fun d => block_ok o_plain 0 d && block_ok o_plain 1 d && block_ok o_plain 2 d &&
                    block_ok o_spaces 1 d && block_ok o_spaces 2 d)
          (words [97; 32; 9; 10; 13; 34; 92] 5) = true.
Proof. vm_compute. reflexivity. Qed.

(* the class is not vacuous in either direction on that domain *)
Lemma block_description_class_sharp :
  existsb block_bad (words [97; 32; 10; 34] 4) = true /\
  existsb (fun d => negb (block_bad d) && contains 10 d && contains 32 d && contains 34 d) (words [97; 32; 10; 34] 4) = true.
Proof. vm_compute. split; reflexivity. Qed.

(* ------------------------------------------------------------ refutations -- *)
Definition fld (n ty : str) : mfield := MField n None [] ty NoDepr [].
Definition reg_of (types : list mtype) (dirs : list mdirective) (impl : list (str * list str)) : registry :=
  {| r_types := types; r_dirs := dirs; r_impl := impl; r_query := lit "Query"; r_mutation := None; r_subscription := None |}.
Definition T_Int := lit "Int".
Definition query_with (fs : list mfield) : mtype := MObject (lit "Query") None fs [].

(* 1 (repaired): reasons  use "y"  and  a<U+0001>b<DEL>  are escaped and read back *)
Definition R_reason : registry :=
  reg_of [query_with [MField (lit "old") None [] T_Int (Depr (Some (lit "use ""y"""))) [];
                      MField (lit "older") None [] T_Int (Depr (Some [97; 1; 98; 127; 27; 34; 92])) []]] [] [].
Lemma deprecated_fixed :
  known_class o_plain R_reason = 0 /\
  describes o_plain R_reason (parse_sdl (export_sdl o_plain R_reason)) = true.
Proof. vm_compute. split; reflexivity. Qed.

(* 2: default "a<ESC>b" is printed "a'b" and reads back as a'b *)
Definition R_default : registry :=
  reg_of [query_with [MField (lit "g") None [MInputV (lit "s") None (lit "String") (Some (CStr [97; 27; 98])) NoDepr []] T_Int NoDepr []]] [] [].
Lemma default_refuted :
  known_class o_plain R_default = 2 /\
  describes o_plain R_default (parse_sdl (export_sdl o_plain R_default)) = false /\
  match parse_sdl (export_sdl o_plain R_default) with
  | Some [RType _ _ _ (RObject _ [RField _ _ [RInput _ _ _ (Some (CStr s)) _] _ _]); _] => s = [97; 39; 98]
  | _ => False
  end.
Proof. vm_compute. repeat split. Qed.

(* 3: interface Parent @tag(n: "x") implements Grand *)
Definition tag_dir : mdirective :=
  MDirective (lit "tag") None [lit "OBJECT"; lit "INTERFACE"] [MInputV (lit "n") None (lit "String") None NoDepr []] false.
Definition tag_x : dinv := DInv (lit "tag") [(lit "n", CStr (lit "x"))].
Definition R_iface (on_iface : bool) : registry :=
  reg_of [MInterface (lit "Grand") None [fld (lit "id") T_Int] [];
          MObject (lit "Obj") None [fld (lit "id") T_Int] (if on_iface then [] else [tag_x]);
          MInterface (lit "Parent") None [fld (lit "id") T_Int] (if on_iface then [tag_x] else []);
          query_with [fld (lit "p") (lit "Parent")]]
         [tag_dir]
         [(lit "Obj", [lit "Parent"; lit "Grand"]); (lit "Parent", [lit "Grand"])].
Lemma interface_header_refuted :
  known_class o_plain (R_iface true) = 3 /\ parse_sdl (export_sdl o_plain (R_iface true)) = None /\
  (* the same directive on the object type, where it follows `implements`, is fine *)
  known_class o_plain (R_iface false) = 0 /\
  describes o_plain (R_iface false) (parse_sdl (export_sdl o_plain (R_iface false))) = true.
Proof. vm_compute. repeat split. Qed.

(* 4 / 5: descriptions *)
Definition R_desc (d : str) : registry := reg_of [query_with [MField (lit "a") (Some d) [] T_Int NoDepr []]] [] [].
Definition o_single : opts :=
  {| o_sorted_fields := false; o_sorted_args := false; o_sorted_enum := false; o_single_line := true;
     o_specified_by := true; o_space := false; o_width := 2 |}.
Lemma block_description_refuted :
  (let R := R_desc (lit "say """"""hi""""""") in
   known_class o_plain R = 4 /\ parse_sdl (export_sdl o_plain R) = None) /\
  (let R := R_desc (lit "  abc") in
   known_class o_plain R = 4 /\ describes o_plain R (parse_sdl (export_sdl o_plain R)) = false) /\
  (let R := R_desc [97; 13; 98] in
   known_class o_plain R = 4 /\ describes o_plain R (parse_sdl (export_sdl o_plain R)) = false).
Proof. vm_compute. repeat split. Qed.
Lemma single_description_refuted :
  let R := R_desc (lit "ends with \") in
  known_class o_single R = 5 /\ parse_sdl (export_sdl o_single R) = None /\
  (* the same description as a block string is fine *)
  known_class o_plain R = 0 /\ describes o_plain R (parse_sdl (export_sdl o_plain R)) = true.
Proof. vm_compute. repeat split. Qed.

(* 6: the description of a directive argument is not printed *)
Definition R_dirarg : registry :=
  reg_of [query_with [fld (lit "a") T_Int]]
         [MDirective (lit "tag") (Some (lit "marks things")) [lit "OBJECT"]
                     [MInputV (lit "n") (Some (lit "the tag")) (lit "String") (Some (CStr (lit "d"))) NoDepr []] true] [].
Lemma directive_argument_refuted :
  known_class o_plain R_dirarg = 6 /\
  describes o_plain R_dirarg (parse_sdl (export_sdl o_plain R_dirarg)) = false /\
  match parse_sdl (export_sdl o_plain R_dirarg) with Some _ => True | None => False end.
Proof. vm_compute. repeat split. Qed.

(* 7: specifiedBy url  a\b *)
Definition R_url : registry :=
  reg_of [query_with [fld (lit "a") (lit "S")]; MScalar (lit "S") None (Some (lit "https://e.com/a\b")) []] [] [].
Lemma specified_by_refuted :
  known_class o_single R_url = 7 /\ describes o_single R_url (parse_sdl (export_sdl o_single R_url)) = false /\
  known_class o_plain R_url = 0 /\ describes o_plain R_url (parse_sdl (export_sdl o_plain R_url)) = true.
Proof. vm_compute. repeat split. Qed.

(* ------------------------------------------------------------ non-vacuity -- *)
(* a registry with every kind of type, descriptions, deprecations with
   reasons, defaults, directives: outside every class, and its export reads
   back as exactly its description under plain and all-on options *)
Definition o_all : opts :=
  {| o_sorted_fields := true; o_sorted_args := true; o_sorted_enum := true; o_single_line := true;
     o_specified_by := true; o_space := true; o_width := 4 |}.
Definition R_rich : registry :=
  reg_of
    [MEnum (lit "Color") (Some (lit "Colours")) [MEnumV (lit "RED") (Some (lit "like blood")) NoDepr [];
                                                  MEnumV (lit "GREEN") None (Depr (Some [116; 9; 92; 10; 120])) [];
                                                  MEnumV (lit "BLUE") None (Depr None) []] [];
     MObject (lit "Dog") (Some (lit "A ""dog""." ++ [10; 10] ++ lit "  barks \ often")) 
             [fld (lit "id") (lit "Int!");
              MField (lit "bark") (Some (lit "how")) [] (lit "[String!]!") (Depr (Some (lit "use sound"))) [tag_x]] [tag_x];
     MInputObj (lit "Filter") None
               [MInputV (lit "text") (Some (lit "free text")) (lit "String!") (Some (CStr (lit "a ""b"" \ c" ++ [10; 233]))) NoDepr [];
                MInputV (lit "ids") None (lit "[Int!]") (Some (CList [CInt 1; CInt (-2)])) (Depr None) [];
                MInputV (lit "o") None (lit "Filter") (Some (CObj [(lit "k", CEnum (lit "RED")); (lit "f", CFloat (lit "2.5"))])) NoDepr []]
               false [];
     MInterface (lit "Node") None [fld (lit "id") (lit "Int!")] [];
     MInterface (lit "Pet") (Some (lit "pets")) [fld (lit "id") (lit "Int!")] [];
     MInputObj (lit "Pick") None [MInputV (lit "a") None T_Int None NoDepr []] true [];
     query_with [fld (lit "__schema") (lit "__Schema!");
                 MField (lit "find") (Some (lit "Finds")) 
                        [MInputV (lit "limit") (Some (lit "how many")) (lit "Int!") (Some (CInt 10)) NoDepr [];
                         MInputV (lit "f") None (lit "Filter") None NoDepr [];
                         MInputV (lit "c") None (lit "Color") (Some (CEnum (lit "RED"))) (Depr (Some (lit "no"))) []]
                        (lit "[Pet!]!") NoDepr [];
                 fld (lit "u") (lit "U"); fld (lit "s") (lit "S")];
     MScalar (lit "S") (Some (lit "a scalar")) (Some (lit "https://e.com/""s""")) [];
     MScalar (lit "String") None None [];
     MUnion (lit "U") None [lit "Dog"] [];
     MObject (lit "__Schema") None [fld (lit "x") T_Int] []]
    [MDirective (lit "deprecated") (Some (lit "Marks")) [lit "FIELD_DEFINITION"; lit "ENUM_VALUE"]
                [MInputV (lit "reason") None (lit "String") (Some (CStr (lit "No longer supported"))) NoDepr []] false;
     MDirective (lit "skip") (Some (lit "Skips")) [lit "FIELD"]
                [MInputV (lit "if") (Some (lit "Skipped when true.")) (lit "Boolean!") None NoDepr []] false;
     tag_dir]
    [(lit "Dog", [lit "Pet"; lit "Node"]); (lit "Pet", [lit "Node"])].

Lemma rich_registry_roundtrip :
  known_class o_plain R_rich = 0 /\ known_class o_all R_rich = 0 /\
  describes o_plain R_rich (parse_sdl (export_sdl o_plain R_rich)) = true /\
  describes o_all R_rich (parse_sdl (export_sdl o_all R_rich)) = true.
Proof. vm_compute. repeat split. Qed.

(* DynExecWitness.v — a small concrete dynamic schema/world and the witnesses
   of the recorded deviations of the dynamic executor (all by vm_compute).
   Every witness was replayed on the real library through harness/src/bin/c02.rs
   (fixed corpus). *)
From AG Require Import DynExec ExecWitness.
Open Scope N_scope.

(* names: types 10 Query, 11 A, 12 B, 13 Node, 14 Pair, 15 Int, 16 Float, 17 String;
   fields 20 a, 21 b, 22 bs, 23 id, 24 name, 25 score, 26 node, 27 as, 28 ab *)
Definition y_fields : list (name * ty) :=
  m_fields ++ [ (27, TList (TNamed 11)); (28, TNamed 14) ].
Definition y_schema : schema :=
  {| s_types := [ (10, DObject y_fields []); (11, DObject y_fields [13]); (12, DObject y_fields [13]);
                  (13, DInterface [(23, TNonNull (TNamed 15)); (24, TNamed 17)] [11; 12]);
                  (14, DUnion [11; 12]); (15, DScalar 0); (16, DScalar 1); (17, DScalar 2) ];
     s_query := 10; s_mutation := Some 10;
     s_tname := [(10, [81]); (11, [65]); (12, [66])] |}.

Definition y_world (q_fields a_fields b_fields : list (name * outv)) : world :=
  {| w_nodes := [ (0, {| n_ty := 10; n_fields := q_fields |});
                  (1, {| n_ty := 10; n_fields := [(20, ORef 2)] |});
                  (2, {| n_ty := 11; n_fields := a_fields |});
                  (3, {| n_ty := 12; n_fields := b_fields |}) ];
     w_defaults := [(25, OFloat 4609434218613702656); (22, OList [])];
     w_idname := 23 |}.
Definition y_q0 : list (name * outv) :=
  [(20, ORef 2); (21, ORef 3); (22, OList [ORef 3; ORef 3]); (26, ORef 2); (27, OList [ORef 2; ONull]); (28, ORef 2)].

Definition today (nullv : bool) w d := dyn_exec dquirks_today nullv y_schema w d None [] 50.
Definition corrected (nullv : bool) w d := dyn_exec dquirks_none nullv y_schema w d None [] 50.
Definition spec w d := spec_exec y_schema w d None [] 50.

(* 1: query($s: Boolean = true) { a @skip(if: $s) { id } b @include(if: $s) { id } } *)
Definition yw0 := y_world y_q0 [] [].
Lemma y_skip_default :
  data_of (today false yw0 d1) = Some (VObj [(20, VObj [(23, VInt 2)])]) /\
  data_of (spec yw0 d1) = Some (VObj [(21, VObj [(23, VInt 3)])]) /\
  data_of (corrected false yw0 d1) = data_of (spec yw0 d1).
Proof. repeat split; vm_compute; reflexivity. Qed.

(* 2: { a { ... on Pair { __typename } } ab { ... on Pair { __typename } } } *)
Definition yd2 := qdoc OpQuery []
  [fld 20 [SInline (Some 14) [] [fld N_typename []]]; fld 28 [SInline (Some 14) [] [fld N_typename []]]] [].
Lemma y_union_cond :
  data_of (today false yw0 yd2) = Some (VObj [(20, VObj []); (28, VObj [])]) /\
  data_of (spec yw0 yd2) = Some (VObj [(20, VObj [(N_typename, VStr [65])]); (28, VObj [(N_typename, VStr [65])])]) /\
  data_of (corrected false yw0 yd2) = data_of (spec yw0 yd2).
Proof. repeat split; vm_compute; reflexivity. Qed.

(* 3 (and 8): { a { id name } } with a.name failing: the whole data is null, the error has no path *)
Definition yw3 := y_world y_q0 [(24, OErr)] [].
Lemma y_no_catch :
  data_of (today false yw3 d4) = Some VNull /\
  errs_of (today false yw3 d4) = Some [[]] /\
  data_of (spec yw3 d4) = Some (VObj [(20, VObj [(23, VInt 2); (24, VNull)])]) /\
  errs_of (spec yw3 d4) = Some [[PF 20; PF 24]] /\
  data_of (corrected false yw3 d4) = data_of (spec yw3 d4).
Proof. repeat split; vm_compute; reflexivity. Qed.

(* 4: mutation { a { id } a { id } }: Mutation.a runs twice (data unaffected) *)
Lemma y_per_occurrence :
  trace_of (today false yw0 dm) = Some [(1, 20); (2, 23); (1, 20); (2, 23)] /\
  trace_of (spec yw0 dm) = Some [(1, 20); (2, 23)] /\
  trace_of (corrected false yw0 dm) = Some [(1, 20); (2, 23)] /\
  data_of (today false yw0 dm) = data_of (spec yw0 dm).
Proof. repeat split; vm_compute; reflexivity. Qed.

(* 5: { a { id } } where A.id (Int!) returns the VALUE null: null at a non-null position, no error *)
Definition yw5 := y_world y_q0 [(23, ONull)] [].
Definition yd5 := qdoc OpQuery [] [fld 20 [fld 23 []]] [].
Lemma y_null_at_nonnull :
  data_of (today true yw5 yd5) = Some (VObj [(20, VObj [(23, VNull)])]) /\
  errs_of (today true yw5 yd5) = Some [] /\
  data_of (spec yw5 yd5) = Some (VObj [(20, VNull)]) /\
  data_of (corrected true yw5 yd5) = data_of (spec yw5 yd5) /\
  (* the same outcome returned as None is an error today *)
  data_of (today false yw5 yd5) = Some VNull /\ errs_of (today false yw5 yd5) = Some [[PF 20; PF 23]].
Proof. repeat split; vm_compute; reflexivity. Qed.

(* 6: { name id } where name (String) returns 7 and id (Int!) returns "x" *)
Definition yw6 := y_world ((24, OInt 7) :: (23, OStr [120]) :: y_q0) [] [].
Definition yd6 := qdoc OpQuery [] [fld 24 []; fld 20 [fld 23 []]] [].
Lemma y_scalar_unchecked :
  data_of (today false yw6 yd6) = Some (VObj [(24, VInt 7); (20, VObj [(23, VInt 2)])]) /\
  data_of (spec yw6 yd6) = Some (VObj [(24, VNull); (20, VObj [(23, VInt 2)])]) /\
  data_of (corrected false yw6 yd6) = data_of (spec yw6 yd6).
Proof. repeat split; vm_compute; reflexivity. Qed.

(* 7: { as { __typename } } with as = [an A, null]; { a { __typename } } with a = the VALUE null;
      { ab { __typename } } with ab = the VALUE null *)
Definition yd7 := qdoc OpQuery [] [fld 27 [fld N_typename []]] [].
Definition yw7 := y_world ((20, ONull) :: (28, ONull) :: y_q0) [] [].
Definition yd7a := qdoc OpQuery [] [fld 20 [fld N_typename []]] [].
Definition yd7b := qdoc OpQuery [] [fld 28 [fld N_typename []]] [].
Lemma y_null_value :
  data_of (today false yw0 yd7) = Some (VObj [(27, VList [VObj [(N_typename, VStr [65])]; VObj [(N_typename, VStr [65])]])]) /\
  data_of (spec yw0 yd7) = Some (VObj [(27, VList [VObj [(N_typename, VStr [65])]; VNull])]) /\
  data_of (corrected false yw0 yd7) = data_of (spec yw0 yd7) /\
  data_of (today true yw7 yd7a) = Some (VObj [(20, VObj [(N_typename, VStr [65])])]) /\
  data_of (spec yw7 yd7a) = Some (VObj [(20, VNull)]) /\
  data_of (today true yw7 yd7b) = Some VNull /\
  errs_of (today true yw7 yd7b) = Some [[PF 28]] /\
  data_of (spec yw7 yd7b) = Some (VObj [(28, VNull)]).
Proof. repeat split; vm_compute; reflexivity. Qed.

(* non-vacuity: a fault-free nested query (aliases, interface fragment, list) on
   which today's model, the corrected model and the specification agree *)
Definition ydn := qdoc OpQuery []
  [fld 20 [fld 23 []; fld 24 []; fld 21 [fld 23 []]]; fld 22 [fld 23 []];
   fld 26 [SInline (Some 13) [] [fld 23 []]; SInline (Some 11) [] [fld N_typename []]]; fld N_typename []] [].
Definition ywn := y_world y_q0 [(21, ORef 3); (24, OStr [104; 105])] [].
Lemma y_nonvacuous :
  data_of (today false ywn ydn) = data_of (spec ywn ydn) /\
  data_of (corrected false ywn ydn) = data_of (spec ywn ydn) /\
  data_of (spec ywn ydn) =
    Some (VObj [(20, VObj [(23, VInt 2); (24, VStr [104; 105]); (21, VObj [(23, VInt 3)])]);
                (22, VList [VObj [(23, VInt 3)]; VObj [(23, VInt 3)]]);
                (26, VObj [(23, VInt 2); (N_typename, VStr [65])]); (N_typename, VStr [81])]) /\
  errs_of (today false ywn ydn) = Some [].
Proof. repeat split; vm_compute; reflexivity. Qed.

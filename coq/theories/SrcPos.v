(* SrcPos.v — C14: source positions.
   impl model : PositionCalculator (parser/src/pos.rs) — the per-character
                arms are generated from the source (PosGen.step_char_gen);
                pest::Position::line_col (pest 2.x, external crate) for the
                positions of syntax errors.
   spec       : 1-based line/column of the character at index [i], where LF,
                CR LF and a lone CR each end a line and every Unicode scalar
                value (tab, comma, BOM, non-ASCII included) is one column.
   No proofs here (SrcPosProofs.v). *)
From AG Require Export Base.
From AGgen Require Export PosGen.
Open Scope N_scope.

Definition CR : cp := 13.
Definition LF : cp := 10.
Definition lc := (N * N)%type.       (* (line, column) *)

Definition lc_eqb (a b : lc) : bool := (fst a =? fst b) && (snd a =? snd b).

(* ------------------------------------------------------------------ impl -- *)
(* the body of the loop in PositionCalculator::step, as a fold *)
Definition step_fold (st : lc) (chars : str) : lc :=
  fold_left (fun st ch => step_char_gen ch st) chars st.

(* What [step] returns for a pair starting at character index [i] when the
   calculator has been driven from the start of the input: the fold over the
   prefix.  (Offsets are byte offsets in the code; a pair always starts on a
   character boundary, [i] is the number of characters before it.) *)
Definition pos_model (s : str) (i : nat) : lc := step_fold pos_init_gen (firstn i s).

(* The stateful calculator: remaining input, offset of its start, counters. *)
Record pcalc := { pc_rest : str; pc_pos : nat; pc_lc : lc }.

Definition pc_new (s : str) : pcalc := {| pc_rest := s; pc_pos := 0; pc_lc := pos_init_gen |}.

(* step: debug_assert!(pos >= self.pos) / usize underflow + slice panic *)
Definition pc_step (st : pcalc) (p : nat) : outcome (pcalc * lc) :=
  if Nat.ltb p (pc_pos st) then Panic
  else
    let n := (p - pc_pos st)%nat in
    let r := step_fold (pc_lc st) (firstn n (pc_rest st)) in
    Ok ({| pc_rest := skipn n (pc_rest st); pc_pos := p; pc_lc := r |}, r).

Fixpoint pc_run (st : pcalc) (ps : list nat) : outcome (list lc) :=
  match ps with
  | [] => Ok []
  | p :: l => bindo (pc_step st p) (fun r => bindo (pc_run (fst r) l) (fun out => Ok (snd r :: out)))
  end.

(* the order in which the parse functions call [step]: offsets never decrease *)
Fixpoint nondecr (lo : nat) (ps : list nat) : Prop :=
  match ps with
  | [] => True
  | p :: l => (lo <= p)%nat /\ nondecr p l
  end.

(* pest::Position::line_col over the prefix input[..pos] (pest-2.9.1
   src/position.rs:133): CR LF counts as one line end, a CR that is not
   followed by LF *inside the prefix* is an ordinary character. *)
Fixpoint pest_from (s : str) (l c : N) : lc :=
  match s with
  | [] => (l, c)
  | ch :: t =>
      if ch =? CR then
        match t with
        | ch2 :: t2 => if ch2 =? LF then pest_from t2 (l + 1) 1 else pest_from t l (c + 1)
        | [] => (l, c + 1)
        end
      else if ch =? LF then pest_from t (l + 1) 1
      else pest_from t l (c + 1)
  end.

Definition pest_model (s : str) (i : nat) : lc := pest_from (firstn i s) 1 1.

(* ------------------------------------------------------------------ spec -- *)
Definition next_is_lf (t : str) : bool :=
  match t with ch :: _ => ch =? LF | [] => false end.

(* line and column of the character at index [i] of [s] (of the end of input
   when [i] is not smaller than the length), counting from line [l], column
   [c] for the first character of [s]. *)
Fixpoint linecol_from (s : str) (i : nat) (l c : N) {struct s} : lc :=
  match i, s with
  | O, _ => (l, c)
  | _, [] => (l, c)
  | S i', ch :: t =>
      if ch =? LF then linecol_from t i' (l + 1) 1
      else if ch =? CR then
        (if next_is_lf t then linecol_from t i' l (c + 1)   (* CR of CR LF: the LF ends the line *)
         else linecol_from t i' (l + 1) 1)                  (* lone CR ends the line *)
      else linecol_from t i' l (c + 1)
  end.

Definition linecol (s : str) (i : nat) : lc := linecol_from s i 1 1.

(* ----------------------------------------------------------- known class -- *)
(* a CR not followed by LF occurs at an index below [i] *)
Fixpoint count_lone_cr (s : str) (i : nat) : N :=
  match i, s with
  | S i', ch :: t =>
      (if (ch =? CR) && negb (next_is_lf t) then 1 else 0) + count_lone_cr t i'
  | _, _ => 0
  end.

Definition lone_cr_before (s : str) (i : nat) : bool := negb (count_lone_cr s i =? 0).

(* [i] points at a line feed — ignored text in the grammar: no token, pair
   or error starts there (in particular not between the CR and LF of CR LF) *)
Definition at_lf (s : str) (i : nat) : bool :=
  match nth_error s i with Some ch => ch =? LF | None => false end.

(* ----------------------------------------------------------------- check -- *)
Definition known_of (s : str) (i : nat) : N := if lone_cr_before s i then 1 else 0.

Definition check_one (model : str -> nat -> lc) (s : str) (t : N * lc) : N :=
  let i := N.to_nat (fst t) in
  let impl := snd t in
  let m := model s i in
  let sp := linecol s i in
  verdict (lc_eqb impl m) (lc_eqb m sp) (lc_eqb impl sp) (known_of s i).

(* severity order of verdict codes: 4 > 2 > 3 > 500+k > 100+k > 0 *)
Definition rank (v : N) : N :=
  if v =? 0 then 0
  else if v =? 4 then 6
  else if v =? 2 then 5
  else if v =? 3 then 4
  else if (500 <=? v) && (v <? 600) then 3
  else if (100 <=? v) && (v <? 200) then 2
  else 7.

Definition worst (a b : N) : N := if rank a <? rank b then b else a.

(* one case = one document and every position the library reported for it,
   each paired with the character index of the token it refers to *)
Definition check_doc (model : str -> nat -> lc) (c : str * list (N * lc)) : N :=
  fold_left worst (map (check_one model (fst c)) (snd c)) 0.

Definition check_ast (c : str * list (N * lc)) : N := check_doc pos_model c.
Definition check_syntax (c : str * list (N * lc)) : N := check_doc pest_model c.

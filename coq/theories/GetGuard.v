(* GetGuard.v — C35: HTTP GET requests never execute mutations.

   Thin model.  What the repository owns on this path is small: each
   integration's GET branch decodes the query string into a Request
   (async_graphql::http::parse_query_string, or rocket's GraphQLQuery form) and
   hands it to Executor::execute / execute_batch.  Whether an operation-type
   test lies on that path is re-extracted from the source text on every run
   (tools/factsgen/getguard.py -> GetGuardGen.v).  The executor side is
   prepare_request's choice of the operation (src/schema.rs) followed by
   execute_once: a mutation operation runs the resolver of each of its root
   fields.  Executable, no proofs (GetGuardProofs.v). *)
From AG Require Export Base Doc.
From AGgen Require Export GetGuardGen.
Open Scope N_scope.

(* an operation-type test somewhere between the GET handler and the executor *)
Definition get_guard (i : integ) : bool := get_guard_local_gen i || get_guard_central_gen.

Definition opname_eqb (a : option name) (n : name) : bool :=
  match a with Some x => name_eqb x n | None => false end.

(* prepare_request: with an operation name the document must be a map of named
   operations containing it (a single anonymous operation never matches);
   without one the document must hold exactly one operation *)
Definition select_op (d : document) (opname : option name) : option operation :=
  match opname with
  | Some n => find (fun o => opname_eqb (op_name o) n) (doc_ops d)
  | None => match doc_ops d with [o] => Some o | _ => None end
  end.

(* root fields written directly in the operation (the generated requests use
   plain fields; every one of them is a resolver of the root object) *)
Fixpoint root_fields (sels : list selection) : N :=
  match sels with
  | [] => 0
  | SField _ nm _ _ _ :: r => (if name_eqb nm N_typename then 0 else 1) + root_fields r
  | _ :: r => root_fields r
  end.

(* what a GET request does: [GError] = answered with an error, no resolver;
   [GRan q m] = executed, q query-root and m mutation-root resolver runs *)
Inductive gresult := GError | GRan (q m : N).

Definition guarded_execute (guard : bool) (o : operation) : gresult :=
  match op_ty o with
  | OpQuery => GRan (root_fields (op_sels o)) 0
  | OpMutation => if guard then GError else GRan 0 (root_fields (op_sels o))
  | OpSubscription => GError     (* not supported on this transport *)
  end.

Definition handle_get (i : integ) (d : document) (opname : option name) : gresult :=
  match select_op d opname with
  | None => GError
  | Some o => guarded_execute (get_guard i) o
  end.

Definition mutation_runs (r : gresult) : N := match r with GError => 0 | GRan _ m => m end.
Definition is_error (r : gresult) : bool := match r with GError => true | _ => false end.

(* ------------------------------------------------------------------ spec -- *)
(* the property text: a GET request never executes a mutation operation: it is
   answered with an error and no mutation resolver runs *)
Definition selects_mutation (d : document) (opname : option name) : bool :=
  match select_op d opname with
  | Some o => match op_ty o with OpMutation => true | _ => false end
  | None => false
  end.

Definition spec_ok (d : document) (opname : option name) (r : gresult) : bool :=
  (mutation_runs r =? 0) && (negb (selects_mutation d opname) || is_error r).

(* known class 1: the integration has no operation-type test on its GET path
   and the request selects a mutation *)
Definition known_class (i : integ) (d : document) (opname : option name) : N :=
  if negb (get_guard i) && selects_mutation d opname then 1 else 0.

Definition gresult_eqb (a b : gresult) : bool :=
  match a, b with
  | GError, GError => true
  | GRan q m, GRan q' m' => (q =? q') && (m =? m')
  | _, _ => false
  end.

(* [impl] is what the library answered when the decoded request was handed to
   Schema::execute exactly as the integration's GET branch does.  A branch
   with a local operation-type test is modelled from its source text only:
   the executed path is not that branch, so nothing is compared. *)
Definition check_case (i : integ) (d : document) (opname : option name) (impl : gresult) : N :=
  if get_guard_local_gen i then 0
  else
    let m := handle_get i d opname in
    verdict (gresult_eqb impl m) (spec_ok d opname m) (spec_ok d opname impl) (known_class i d opname).

(* GetGuard.v — C35: HTTP GET requests never execute mutations.

   Thin model.  What the repository owns on this path is small: each
   integration's GET branch decodes the raw query string into a Request
   (async_graphql::http::parse_query_string, or rocket's GraphQLQuery form) and
   hands it to Executor::execute / execute_batch.  Whether an operation-type
   test lies on that path, and the wire keys of the decoder's fields, are
   re-extracted from the source text on every run (tools/factsgen/getguard.py
   -> GetGuardGen.v).

   Decoder side (src/http/mod.rs:24-55): serde_urlencoded over the
   application/x-www-form-urlencoded pairs of the raw query string (split at
   '&', empty pieces skipped, split at the first '=', '+' -> ' ', %XX ->
   byte), one struct field per key (unknown keys ignored, a key seen twice is
   an error, rename and alias name the same field), [query] defaults to "",
   an Option<String> field is Some of the value WHATEVER the value is (the
   empty string included): the operation name reaches the Request verbatim.

   Executor side: prepare_request's choice of the operation
   (src/schema.rs:906-931: with a name the document must hold a named
   operation of exactly that name, the single-operation shortcut applies only
   when the name is absent) followed by execute_once: a mutation operation
   runs the resolver of each of its root fields.

   Not modelled: the GraphQL parser (the document is the real parser's output
   for the decoded query, None = syntax error), validation (generated
   documents are valid for the harness schema), the JSON values of
   `variables` / `extensions` (generated ones are valid JSON objects; resolver
   runs do not depend on them), UTF-8 repair of undecodable bytes (generated
   values decode to valid UTF-8; strings are compared as byte lists).
   Executable, no proofs (GetGuardProofs.v). *)
From AG Require Export Base Doc.
From AGgen Require Export GetGuardGen.
Open Scope N_scope.

(* an operation-type test somewhere between the GET handler and the executor *)
Definition get_guard (i : integ) : bool := get_guard_local_gen i || get_guard_central_gen.

(* ------------------------------------------------- the wire: query string -- *)
Definition bytes := list N.
Definition bytes_eqb (a b : bytes) : bool := list_eqb N.eqb a b.

Definition c_amp : N := 38.   (* & *)
Definition c_eq : N := 61.    (* = *)
Definition c_plus : N := 43.  (* + *)
Definition c_pct : N := 37.   (* % *)
Definition c_sp : N := 32.

(* every piece between separators, empty ones included *)
Fixpoint split_all (sep : N) (l : bytes) : list bytes :=
  match l with
  | [] => [[]]
  | c :: r =>
      if c =? sep then [] :: split_all sep r
      else match split_all sep r with
           | s :: ss => (c :: s) :: ss
           | [] => [[c]]
           end
  end.

(* splitn(2, sep): what precedes the first separator, and what follows it *)
Fixpoint split_first (sep : N) (l : bytes) : bytes * option bytes :=
  match l with
  | [] => ([], None)
  | c :: r =>
      if c =? sep then ([], Some r)
      else let '(a, b) := split_first sep r in (c :: a, b)
  end.

Definition hexval (c : N) : option N :=
  if (48 <=? c) && (c <=? 57) then Some (c - 48)
  else if (65 <=? c) && (c <=? 70) then Some (c - 55)
  else if (97 <=? c) && (c <=? 102) then Some (c - 87)
  else None.

Definition replace_plus (l : bytes) : bytes := map (fun c => if c =? c_plus then c_sp else c) l.

(* percent_encoding::percent_decode: %XX with two hex digits is one byte, any
   other '%' stays *)
Fixpoint pct_decode (l : bytes) : bytes :=
  match l with
  | [] => []
  | c :: r =>
      if c =? c_pct then
        match r with
        | h :: r1 =>
            match r1 with
            | lo :: r2 =>
                match hexval h, hexval lo with
                | Some a, Some b => (16 * a + b) :: pct_decode r2
                | _, _ => c :: pct_decode r
                end
            | [] => c :: pct_decode r
            end
        | [] => [c]
        end
      else c :: pct_decode r
  end.

Definition url_decode (l : bytes) : bytes := pct_decode (replace_plus l).

(* form_urlencoded::parse *)
Definition parse_pairs (raw : bytes) : list (bytes * bytes) :=
  flat_map (fun piece =>
              match piece with
              | [] => []
              | _ => let '(k, v) := split_first c_eq piece in
                     [(url_decode k, url_decode (match v with Some x => x | None => [] end))]
              end)
           (split_all c_amp raw).

(* ------------------------------------------------------------- decoders -- *)
(* the decoded request: the query text and the operation name, or a decoding
   error (the integration answers 400 and nothing is executed) *)
Inductive dreq := DErr | DReq (query : bytes) (opname : option bytes).

Definition is_key (keys : list bytes) (k : bytes) : bool := existsb (bytes_eqb k) keys.

Inductive wfield := FQuery | FOpName | FVars | FExt.

Definition pqs_field (k : bytes) : option wfield :=
  if is_key query_keys_pqs_gen k then Some FQuery
  else if is_key opname_keys_pqs_gen k then Some FOpName
  else if is_key variables_keys_pqs_gen k then Some FVars
  else if is_key extensions_keys_pqs_gen k then Some FExt
  else None.

(* the derived Deserialize of RequestSerde: one slot per field, a second value
   for a filled slot is the error `duplicate field` *)
Record slots := { s_query : option bytes; s_op : option bytes; s_vars : option bytes; s_ext : option bytes }.
Definition no_slots : slots := {| s_query := None; s_op := None; s_vars := None; s_ext := None |}.

Definition put (s : slots) (f : wfield) (v : bytes) : option slots :=
  match f with
  | FQuery => match s_query s with Some _ => None
              | None => Some {| s_query := Some v; s_op := s_op s; s_vars := s_vars s; s_ext := s_ext s |} end
  | FOpName => match s_op s with Some _ => None
               | None => Some {| s_query := s_query s; s_op := Some v; s_vars := s_vars s; s_ext := s_ext s |} end
  | FVars => match s_vars s with Some _ => None
             | None => Some {| s_query := s_query s; s_op := s_op s; s_vars := Some v; s_ext := s_ext s |} end
  | FExt => match s_ext s with Some _ => None
            | None => Some {| s_query := s_query s; s_op := s_op s; s_vars := s_vars s; s_ext := Some v |} end
  end.

Fixpoint fill (field_of : bytes -> option wfield) (ps : list (bytes * bytes)) (s : slots) : option slots :=
  match ps with
  | [] => Some s
  | (k, v) :: r =>
      match field_of k with
      | None => fill field_of r s
      | Some f => match put s f v with Some s' => fill field_of r s' | None => None end
      end
  end.

(* parse_query_string on the pairs: `operation_name: request.operation_name`,
   `..Request::new(request.query)` *)
Definition decode_pqs_pairs (ps : list (bytes * bytes)) : dreq :=
  match fill pqs_field ps no_slots with
  | None => DErr
  | Some s => DReq (match s_query s with Some q => q | None => [] end) (s_op s)
  end.

(* rocket's GraphQLQuery form (not executed, the harness imitates it): the
   first value of `query` (required), of `operationName`, of `variables` *)
Definition key_query : bytes := [113;117;101;114;121].
Fixpoint first_value (keys : list bytes) (ps : list (bytes * bytes)) : option bytes :=
  match ps with
  | [] => None
  | (k, v) :: r => if is_key keys k then Some v else first_value keys r
  end.

Definition decode_rocket_pairs (ps : list (bytes * bytes)) : dreq :=
  match first_value [key_query] ps with
  | None => DErr
  | Some q => DReq q (first_value [opname_key_rocket_gen] ps)
  end.

Definition decode_pairs (i : integ) (ps : list (bytes * bytes)) : dreq :=
  match get_decoder_gen i with
  | DParseQueryString => decode_pqs_pairs ps
  | DRocketForm => decode_rocket_pairs ps
  end.

Definition decode (i : integ) (raw : bytes) : dreq := decode_pairs i (parse_pairs raw).

Definition opname_keys (i : integ) : list bytes :=
  match get_decoder_gen i with
  | DParseQueryString => opname_keys_pqs_gen
  | DRocketForm => [opname_key_rocket_gen]
  end.

(* ------------------------------------------------------------- executor -- *)
(* the spelling of the operation names of the document (interned name -> bytes) *)
Definition nametab := list (name * bytes).

Definition op_named (tab : nametab) (s : bytes) (o : operation) : bool :=
  match op_name o with
  | Some id => match assoc id tab with Some s' => bytes_eqb s s' | None => false end
  | None => false
  end.

(* prepare_request: with an operation name the document must be a map of named
   operations containing exactly that name (a single anonymous operation never
   matches); only without one the single-operation shortcut applies *)
Definition select_op (d : document) (tab : nametab) (opname : option bytes) : option operation :=
  match opname with
  | Some s => find (op_named tab s) (doc_ops d)
  | None => match doc_ops d with [o] => Some o | _ => None end
  end.

(* root fields written directly in the operation (the generated requests use
   plain fields; every one of them is a resolver of the root object) *)
Fixpoint root_fields (sels : list selection) : N :=
  match sels with
  | [] => 0
  | SField _ nm _ _ _ :: r => (if name_eqb nm N_typename then 0 else 1) + root_fields r
  | _ :: r => root_fields r
  end.

(* what a GET request does: [GError] = answered with an error, no resolver;
   [GRan q m] = executed, q query-root and m mutation-root resolver runs *)
Inductive gresult := GError | GRan (q m : N).

Definition guarded_execute (guard : bool) (o : operation) : gresult :=
  match op_ty o with
  | OpQuery => GRan (root_fields (op_sels o)) 0
  | OpMutation => if guard then GError else GRan 0 (root_fields (op_sels o))
  | OpSubscription => GError     (* not supported on this transport *)
  end.

(* execution of a decoded request; [doc] is what the parser made of its query *)
Definition execute_req (guard : bool) (doc : option document) (tab : nametab) (opname : option bytes) : gresult :=
  match doc with
  | None => GError
  | Some d => match select_op d tab opname with
              | None => GError
              | Some o => guarded_execute guard o
              end
  end.

(* the whole GET branch: the decoded request and what came of it *)
Definition handle_get (i : integ) (raw : bytes) (doc : option document) (tab : nametab) : dreq * gresult :=
  match decode i raw with
  | DErr => (DErr, GError)
  | DReq q on => (DReq q on, execute_req (get_guard i) doc tab on)
  end.

Definition mutation_runs (r : gresult) : N := match r with GError => 0 | GRan _ m => m end.
Definition is_error (r : gresult) : bool := match r with GError => true | _ => false end.

(* ------------------------------------------------------------------ spec -- *)
(* Written from the property text and the GraphQL documents, not from the code.
   GraphQL-over-HTTP: the GET parameter `operationName` (this server also reads
   `operation_name`) is the name of the operation to execute; the value is the
   parameter's value, an absent parameter is null.  GraphQL spec 6.1.1
   GetOperation(document, operationName): null -> the document's only
   operation (else error); otherwise the operation of that name (else error). *)
Definition spec_opname (i : integ) (raw : bytes) : option bytes := first_value (opname_keys i) (parse_pairs raw).

Definition spec_get_operation (d : document) (tab : nametab) (opname : option bytes) : option operation :=
  match opname with
  | None => match doc_ops d with [o] => Some o | _ => None end
  | Some s =>
      find (fun o => match op_name o with
                     | None => false
                     | Some id => match assoc id tab with Some s' => bytes_eqb s' s | None => false end
                     end) (doc_ops d)
  end.

Definition designates_mutation (i : integ) (raw : bytes) (doc : option document) (tab : nametab) : bool :=
  match doc with
  | None => false
  | Some d => match spec_get_operation d tab (spec_opname i raw) with
              | Some o => match op_ty o with OpMutation => true | _ => false end
              | None => false
              end
  end.

(* the property text: a GET request never executes a mutation operation: it is
   answered with an error and no mutation resolver runs *)
Definition spec_ok (i : integ) (raw : bytes) (doc : option document) (tab : nametab) (r : gresult) : bool :=
  (mutation_runs r =? 0) && (negb (designates_mutation i raw doc tab) || is_error r).

(* known class 1 = inputs on which TODAY'S MODEL ITSELF executes a mutation:
   no operation-type test on the integration's GET path, the query string
   decodes, and the executor's selection (name absent: single operation; name
   present: the operation of exactly that name) yields a mutation operation.
   Nothing else is excused: where the model answers with an error (empty,
   blank or non-matching operation name, duplicate keys, syntax errors, ...)
   the class is 0 and a mutation resolver run is verdict 4. *)
Definition model_selects_mutation (i : integ) (raw : bytes) (doc : option document) (tab : nametab) : bool :=
  match decode i raw, doc with
  | DReq _ on, Some d => match select_op d tab on with
                         | Some o => match op_ty o with OpMutation => true | _ => false end
                         | None => false
                         end
  | _, _ => false
  end.

Definition known_class (i : integ) (raw : bytes) (doc : option document) (tab : nametab) : N :=
  if negb (get_guard i) && model_selects_mutation i raw doc tab then 1 else 0.

Definition gresult_eqb (a b : gresult) : bool :=
  match a, b with
  | GError, GError => true
  | GRan q m, GRan q' m' => (q =? q') && (m =? m')
  | _, _ => false
  end.

Definition dreq_eqb (a b : dreq) : bool :=
  match a, b with
  | DErr, DErr => true
  | DReq q on, DReq q' on' => bytes_eqb q q' && option_eqb bytes_eqb on on'
  | _, _ => false
  end.

(* [impl_d] is what the library's decoder made of the raw query string (query
   text and operation name, byte for byte), [impl_r] what the library answered
   when that request was handed to Schema::execute exactly as the integration's
   GET branch does.  A branch with a local operation-type test is modelled from
   its source text only: the executed path is not that branch, so nothing is
   compared. *)
Definition check_case (i : integ) (raw : bytes) (doc : option document) (tab : nametab)
           (impl_d : dreq) (impl_r : gresult) : N :=
  if get_guard_local_gen i then 0
  else
    let '(md, mr) := handle_get i raw doc tab in
    verdict (dreq_eqb impl_d md && gresult_eqb impl_r mr)
            (spec_ok i raw doc tab mr) (spec_ok i raw doc tab impl_r) (known_class i raw doc tab).

(* ExtProofs.v — lemmas and proofs about Ext.v (no model definitions). *)
From AG Require Import Ext.
Open Scope N_scope.

(* ------------------------------------------------------------ runners --- *)
Section RunnerProofs.
  Context {A R : Type}.

  (* a chain of pass-through hooks computes exactly the base function *)
  Lemma run_passthrough_value : forall (chain : list (@hook A R)) base a,
      Forall passthrough chain -> fst (run chain base a) = fst (base a).
  Proof.
    induction chain as [|h chain IH]; intros base a HF; [reflexivity|].
    inversion HF as [|? ? [pre [post Hh]] HF']; subst. cbn [run].
    rewrite Hh. cbn [fst]. apply IH; assumption.
  Qed.

  Lemma rec_hook_passthrough : forall e kind okf, passthrough (@rec_hook A R e kind okf).
  Proof.
    intros e kind okf.
    exists (fun a _ => [Enter e (kind a)]), (fun a r => [Exit e (kind a) (okf r)]).
    intros next a. unfold rec_hook. destruct (next a) as [r t]. reflexivity.
  Qed.

  Lemma rec_chain_passthrough : forall l kind okf, Forall passthrough (@rec_chain A R l kind okf).
  Proof.
    intros l kind okf. unfold rec_chain. apply Forall_forall. intros h Hin.
    apply in_map_iff in Hin. destruct Hin as [e [<- _]]. apply rec_hook_passthrough.
  Qed.

  (* nesting: enter_1 .. enter_n, base, exit_n .. exit_1 *)
  Lemma run_rec_chain : forall l kind okf base a,
      run (@rec_chain A R l kind okf) base a =
      (fst (base a),
       map (fun e => Enter e (kind a)) l ++ snd (base a) ++
       map (fun e => Exit e (kind a) (okf (fst (base a)))) (rev l)).
  Proof.
    induction l as [|e l IH]; intros kind okf base a.
    - cbn. rewrite app_nil_r. destruct (base a); reflexivity.
    - cbn [rec_chain map run]. unfold rec_hook at 1. fold (@rec_chain A R l kind okf).
      rewrite IH. cbn [fst snd map rev]. rewrite map_app. cbn [map].
      rewrite <- !app_assoc. reflexivity.
  Qed.

  (* general pass-through chains: the events of the base sit in the middle *)
  Lemma run_passthrough_events : forall (chain : list (@hook A R)) base a,
      Forall passthrough chain ->
      exists pre post, snd (run chain base a) = pre ++ snd (base a) ++ post.
  Proof.
    induction chain as [|h chain IH]; intros base a HF.
    - exists [], []. cbn. rewrite app_nil_r. reflexivity.
    - inversion HF as [|? ? [pre [post Hh]] HF']; subst. cbn [run]. rewrite Hh. cbn [snd fst].
      destruct (IH base a HF') as [pre' [post' E]]. rewrite E.
      exists (pre a (fst (run chain base a)) ++ pre'), (post' ++ post a (fst (run chain base a))).
      rewrite <- !app_assoc. reflexivity.
  Qed.
End RunnerProofs.

Lemma wrap_nil : forall h ok inner, wrap [] h ok inner = inner.
Proof. intros. unfold wrap. cbn. apply app_nil_r. Qed.

(* the execute runner: pass-through extensions hand no data to the factory *)
Section ExecuteProofs.
  Context {D R : Type}.
  Variable merge : D -> D -> D.

  Lemma run_execute_rec : forall (l : list N) okf (factory : option D -> M R) acc op,
      run_execute merge (map (fun e => rec_xhook e okf) l) factory acc op None =
      (fst (factory acc),
       map (fun e => Enter e (HExecute op)) l ++ snd (factory acc) ++
       map (fun e => Exit e (HExecute op) (okf (fst (factory acc)))) (rev l)).
  Proof.
    induction l as [|e l IH]; intros okf factory acc op.
    - cbn. destruct acc; cbn; rewrite app_nil_r; destruct (factory _); reflexivity.
    - cbn [map run_execute]. assert (Hacc : merge_opt merge acc None = acc) by (destruct acc; reflexivity).
      rewrite Hacc. unfold rec_xhook at 1. rewrite IH. cbn [fst snd map rev]. rewrite map_app. cbn [map].
      rewrite <- !app_assoc. reflexivity.
  Qed.

  Lemma next_execute_rec : forall (l : list N) okf (factory : option D -> M R) op,
      next_execute merge (map (fun e => rec_xhook e okf) l) factory op =
      (fst (factory None), wrap l (HExecute op) (okf (fst (factory None))) (snd (factory None))).
  Proof. intros. unfold next_execute. rewrite run_execute_rec. reflexivity. Qed.

  (* in general the factory receives the data of all extensions, outer first,
     merged left to right *)
  Definition data_hook (d : option D) : @xhook D R := fun next op => next op d.
  Lemma run_execute_data : forall (ds : list (option D)) (factory : option D -> M R) acc op d0,
      run_execute merge (map data_hook ds) factory acc op d0 =
      factory (fold_left (merge_opt merge) (d0 :: ds) acc).
  Proof.
    induction ds as [|d ds IH]; intros factory acc op d0; [reflexivity|].
    cbn [map run_execute]. unfold data_hook at 1. rewrite IH. reflexivity.
  Qed.
End ExecuteProofs.

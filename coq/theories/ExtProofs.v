(* ExtProofs.v — lemmas and proofs about Ext.v (no model definitions). *)
From Coq Require Import FinFun.
From AG Require Import Ext.
Open Scope N_scope.

(* ------------------------------------------------------------ runners --- *)
Section RunnerProofs.
  Context {A R : Type}.

  (* a chain of pass-through hooks computes exactly the base function *)
  Lemma run_passthrough_value : forall (chain : list (@hook A R)) base a,
      Forall passthrough chain -> fst (run chain base a) = fst (base a).
  Proof.
    induction chain as [|h chain IH]; intros base a HF; [reflexivity|].
    inversion HF as [|? ? [pre [post Hh]] HF']; subst. cbn [run].
    rewrite Hh. cbn [fst]. apply IH; assumption.
  Qed.

  Lemma rec_hook_passthrough : forall e kind okf, passthrough (@rec_hook A R e kind okf).
  Proof.
    intros e kind okf.
    exists (fun a _ => [Enter e (kind a)]), (fun a r => [Exit e (kind a) (okf r)]).
    intros next a. unfold rec_hook. destruct (next a) as [r t]. reflexivity.
  Qed.

  Lemma rec_chain_passthrough : forall l kind okf, Forall passthrough (@rec_chain A R l kind okf).
  Proof.
    intros l kind okf. unfold rec_chain. apply Forall_forall. intros h Hin.
    apply in_map_iff in Hin. destruct Hin as [e [<- _]]. apply rec_hook_passthrough.
  Qed.

  (* nesting: enter_1 .. enter_n, base, exit_n .. exit_1 *)
  Lemma run_rec_chain : forall l kind okf base a,
      run (@rec_chain A R l kind okf) base a =
      (fst (base a),
       map (fun e => Enter e (kind a)) l ++ snd (base a) ++
       map (fun e => Exit e (kind a) (okf (fst (base a)))) (rev l)).
  Proof.
    induction l as [|e l IH]; intros kind okf base a.
    - cbn. rewrite app_nil_r. destruct (base a); reflexivity.
    - cbn [rec_chain map run]. unfold rec_hook at 1. fold (@rec_chain A R l kind okf).
      rewrite IH. cbn [fst snd map rev]. rewrite map_app. cbn [map].
      rewrite <- !app_assoc. reflexivity.
  Qed.

  (* general pass-through chains: the events of the base sit in the middle *)
  Lemma run_passthrough_events : forall (chain : list (@hook A R)) base a,
      Forall passthrough chain ->
      exists pre post, snd (run chain base a) = pre ++ snd (base a) ++ post.
  Proof.
    induction chain as [|h chain IH]; intros base a HF.
    - exists [], []. cbn. rewrite app_nil_r. reflexivity.
    - inversion HF as [|? ? [pre [post Hh]] HF']; subst. cbn [run]. rewrite Hh. cbn [snd fst].
      destruct (IH base a HF') as [pre' [post' E]]. rewrite E.
      exists (pre a (fst (run chain base a)) ++ pre'), (post' ++ post a (fst (run chain base a))).
      rewrite <- !app_assoc. reflexivity.
  Qed.
End RunnerProofs.

Lemma wrap_nil : forall h ok inner, wrap [] h ok inner = inner.
Proof. intros. unfold wrap. cbn. apply app_nil_r. Qed.

(* the execute runner: pass-through extensions hand no data to the factory *)
Section ExecuteProofs.
  Context {D R : Type}.
  Variable merge : D -> D -> D.

  Lemma run_execute_rec : forall (l : list N) okf (factory : option D -> M R) acc op,
      run_execute merge (map (fun e => rec_xhook e okf) l) factory acc op None =
      (fst (factory acc),
       map (fun e => Enter e (HExecute op)) l ++ snd (factory acc) ++
       map (fun e => Exit e (HExecute op) (okf (fst (factory acc)))) (rev l)).
  Proof.
    induction l as [|e l IH]; intros okf factory acc op.
    - cbn. destruct acc; cbn; rewrite app_nil_r; destruct (factory _); reflexivity.
    - cbn [map run_execute]. assert (Hacc : merge_opt merge acc None = acc) by (destruct acc; reflexivity).
      rewrite Hacc. unfold rec_xhook at 1. rewrite IH. cbn [fst snd map rev]. rewrite map_app. cbn [map].
      rewrite <- !app_assoc. reflexivity.
  Qed.

  Lemma next_execute_rec : forall (l : list N) okf (factory : option D -> M R) op,
      next_execute merge (map (fun e => rec_xhook e okf) l) factory op =
      (fst (factory None), wrap l (HExecute op) (okf (fst (factory None))) (snd (factory None))).
  Proof. intros. unfold next_execute. rewrite run_execute_rec. reflexivity. Qed.

  (* in general the factory receives the data of all extensions, outer first,
     merged left to right *)
  Definition data_hook (d : option D) : @xhook D R := fun next op => next op d.
  Lemma run_execute_data : forall (ds : list (option D)) (factory : option D -> M R) acc op d0,
      run_execute merge (map data_hook ds) factory acc op d0 =
      factory (fold_left (merge_opt merge) (d0 :: ds) acc).
  Proof.
    induction ds as [|d ds IH]; intros factory acc op d0; [reflexivity|].
    cbn [map run_execute]. unfold data_hook at 1. rewrite IH. reflexivity.
  Qed.
End ExecuteProofs.

Lemma bindo_ok {A B} (x : outcome A) (f : A -> outcome B) r :
  bindo x f = Ok r -> exists a, x = Ok a /\ f a = Ok r.
Proof. destruct x; cbn; intros H; try discriminate. eauto. Qed.

Lemma hooked_eq ch h (r : xr ires) :
  hooked ch h r = mkxr (x_v r) (x_es r) (x_tr r) (wrap ch h (ires_ok (x_v r)) (x_ev r)) (x_lf r) (x_ni r).
Proof.
  unfold hooked, next_resolve, resolve_chain. rewrite run_rec_chain. cbn [fst snd]. reflexivity.
Qed.


Definition sim {V} (r r0 : xr V) : Prop :=
  x_v r0 = x_v r /\ x_es r0 = x_es r /\ x_tr r0 = x_tr r /\ x_lf r0 = false.

Section Transparent.
  Variable q : quirks.
  Variable S : schema.
  Variable w : world.
  Variable frags : list (name * fragment).
  Variable vars : list (name * value).
  Variable vdefs : list vardef.
  Variable ch : list N.

  Definition R_set (f f0 : set_t) : Prop :=
    forall st rt nid sels p r, f st rt nid sels p = Ok r -> x_lf r = false ->
      exists r0, f0 st rt nid sels p = Ok r0 /\ sim r r0.
  Definition R_occs (f f0 : occs_t) : Prop :=
    forall rt nid occs p r, f rt nid occs p = Ok r -> x_lf r = false ->
      exists r0, f0 rt nid occs p = Ok r0 /\ sim r r0.
  Definition R_field (f f0 : field_t) : Prop :=
    forall rt nid o p r, f rt nid o p = Ok r -> x_lf r = false ->
      exists r0, f0 rt nid o p = Ok r0 /\ sim r r0.
  Definition R_comp (f f0 : comp_t) : Prop :=
    forall c fa t ov sub p r, f c fa t ov sub p = Ok r -> x_lf r = false ->
      exists r0, f0 c fa t ov sub p = Ok r0 /\ sim r r0.
  Definition R_items (f f0 : items_t) : Prop :=
    forall fa t l i sub p r, f fa t l i sub p = Ok r -> x_lf r = false ->
      exists r0, f0 fa t l i sub p = Ok r0 /\ sim r r0.

  Lemma set_step_rel n' f f0 : R_occs f f0 ->
    R_set (set_step q S frags vars vdefs n' f) (set_step q S frags vars vdefs n' f0).
  Proof.
    intros Hf st rt nid sels p r H Hlf. unfold set_step in *.
    apply bindo_ok in H. destruct H as [occs0 [Hc H]]. rewrite Hc. cbn [bindo].
    apply bindo_ok in H. destruct H as [a [Ha H]]. inversion H; subst r; clear H. cbn [x_lf] in Hlf.
    destruct (Hf _ _ _ _ _ Ha Hlf) as [a0 [Ha0 [Hv [He [Ht Hl]]]]]. rewrite Ha0. cbn [bindo].
    eexists. split; [reflexivity|]. unfold sim; cbn. rewrite Hv. auto.
  Qed.

  Lemma occs_step_rel ff ff0 fo fo0 : R_field ff ff0 -> R_occs fo fo0 ->
    forall rt nid o r p res, occs_step ff fo rt nid o r p = Ok res -> x_lf res = false ->
      exists res0, occs_step ff0 fo0 rt nid o r p = Ok res0 /\ sim res res0.
  Proof.
    intros Hf Ho rt nid o r p res H Hlf. unfold occs_step in *.
    apply bindo_ok in H. destruct H as [a [Ha H]].
    destruct (x_v a) eqn:Eva.
    - apply bindo_ok in H. destruct H as [b [Hb H]]. inversion H; subst res; clear H. cbn [x_lf] in Hlf.
      apply orb_false_elim in Hlf. destruct Hlf as [Hla Hlb].
      destruct (Hf _ _ _ _ _ Ha Hla) as [a0 [Ha0 [Hv [He [Ht Hl]]]]].
      destruct (Ho _ _ _ _ _ Hb Hlb) as [b0 [Hb0 [Hv' [He' [Ht' Hl']]]]].
      rewrite Ha0. cbn [bindo]. rewrite Hv, Eva. rewrite Hb0. cbn [bindo].
      eexists. split; [reflexivity|]. unfold sim; cbn. rewrite Hv', He, He', Ht, Ht', Hl, Hl'. auto.
    - inversion H; subst res; clear H. cbn [x_lf] in Hlf.
      destruct (Hf _ _ _ _ _ Ha Hlf) as [a0 [Ha0 [Hv [He [Ht Hl]]]]].
      rewrite Ha0. cbn [bindo]. rewrite Hv, Eva.
      eexists. split; [reflexivity|]. unfold sim; cbn. auto.
  Qed.

  Lemma field_body_rel c c0 : R_comp c c0 ->
    forall nid o p' t r, field_body q S w c nid o p' t = Ok r -> x_lf r = false ->
      exists r0, field_body q S w c0 nid o p' t = Ok r0 /\ sim r r0.
  Proof.
    intros Hc nid o p' t r H Hlf. unfold field_body in *.
    destruct (resolver_fails S w t (out w nid (o_name (xo o)))).
    - destruct (q_field_err_parent q || is_nonnull t); inversion H; subst r;
        (eexists; split; [reflexivity|]; unfold sim; cbn; auto).
    - apply bindo_ok in H. destruct H as [a [Ha H]]. inversion H; subst r; clear H. cbn [x_lf] in Hlf.
      destruct (Hc _ _ _ _ _ _ _ Ha Hlf) as [a0 [Ha0 [Hv [He [Ht Hl]]]]]. rewrite Ha0. cbn [bindo].
      eexists. split; [reflexivity|]. unfold sim; cbn. rewrite Ht. auto.
  Qed.

  Lemma field_step_rel c c0 : R_comp c c0 ->
    R_field (field_step q S w ch c) (field_step q S w [] c0).
  Proof.
    intros Hc rt nid o p r H Hlf. unfold field_step in *.
    destruct (name_eqb (o_name (xo o)) N_typename).
    { inversion H; subst r. eexists. split; [reflexivity|]. unfold sim; cbn; auto. }
    destruct (declared_ty S rt o) as [t|].
    2:{ destruct (ext_branch ch o) eqn:Ebc.
        - destruct (lookup_ret S (xo_st o) (o_name (xo o))); [discriminate|].
          injection H as <-. cbn in Hlf. discriminate.
        - assert (Hch : ch = []).
          { unfold ext_branch in Ebc. apply orb_false_elim in Ebc. destruct Ebc as [E1 _].
            destruct ch; [reflexivity|discriminate]. }
          subst ch. rewrite Ebc. injection H as <-. eexists. split; [reflexivity|]. unfold sim; cbn; auto. }
    assert (Hbody : forall r', field_body q S w c nid o (p ++ [PF (o_key (xo o))]) t = Ok r' -> x_lf r' = false ->
              exists r0, (if ext_branch [] o then
                            match lookup_ret S (xo_st o) (o_name (xo o)) with
                            | None => Ok (mkxr (IFail []) [] [] [] true O)
                            | Some rty => bindo (field_body q S w c0 nid o (p ++ [PF (o_key (xo o))]) t)
                                                (fun r => Ok (hooked [] (HField (p ++ [PF (o_key (xo o))]) (xo_st o) rty (o_name (xo o)) (xo_alias o)) r))
                            end
                          else field_body q S w c0 nid o (p ++ [PF (o_key (xo o))]) t) = Ok r0 /\ sim r' r0
              \/ (ext_branch [] o = true /\ lookup_ret S (xo_st o) (o_name (xo o)) = None)).
    { intros r' Hb Hl'. destruct (field_body_rel c c0 Hc _ _ _ _ _ Hb Hl') as [r0 [Hb0 Hs]].
      destruct (ext_branch [] o) eqn:Eb.
      - destruct (lookup_ret S (xo_st o) (o_name (xo o))) as [rty|] eqn:El.
        + rewrite Hb0. cbn [bindo]. eexists. left. split; [reflexivity|].
          rewrite hooked_eq. rewrite wrap_nil. destruct Hs as [Hv [He [Ht Hl]]]. unfold sim; cbn. auto.
        + exists r0. right. auto.
      - exists r0. left. auto. }
    destruct (ext_branch ch o) eqn:Ebc.
    - destruct (lookup_ret S (xo_st o) (o_name (xo o))) as [rty|] eqn:El.
      + apply bindo_ok in H. destruct H as [a [Ha H]]. inversion H; subst r; clear H.
        rewrite hooked_eq in Hlf. cbn [x_lf] in Hlf.
        destruct (Hbody a Ha Hlf) as [r0 [[H0 Hs]|[_ Hn]]]; [|discriminate].
        exists r0. split; [exact H0|]. rewrite hooked_eq. destruct Hs as [Hv [He [Ht Hl]]]. unfold sim; cbn. auto.
      + inversion H; subst r. cbn in Hlf. discriminate.
    - (* no extension attached and no directive: the fast path on both sides *)
      assert (Hch : ch = []).
      { unfold ext_branch in Ebc. apply orb_false_elim in Ebc. destruct Ebc as [E1 _].
        destruct ch; [reflexivity|discriminate]. }
      assert (Eb0 : ext_branch [] o = false) by (rewrite <- Hch; exact Ebc).
      destruct (Hbody r H Hlf) as [r0 [[H0 Hs]|[Ht _]]]; [|congruence].
      exists r0. split; [exact H0|exact Hs].
  Qed.

  Lemma xcatch_sim catch (r r0 : xr ires) : sim r r0 -> sim (xcatch catch r) (xcatch catch r0).
  Proof.
    intros [Hv [He [Ht Hl]]]. unfold xcatch. rewrite Hv.
    destruct (x_v r) eqn:E; [unfold sim; rewrite E; auto|].
    destruct catch; unfold sim; cbn; rewrite ?He, ?E; auto.
  Qed.
  Lemma xcatch_lf catch (r : xr ires) : x_lf (xcatch catch r) = x_lf r.
  Proof. unfold xcatch. destruct (x_v r); [reflexivity|]. destruct catch; reflexivity. Qed.

  Lemma comp_step_rel c c0 i i0 s s0 : R_comp c c0 -> R_items i i0 -> R_set s s0 ->
    R_comp (comp_step q S w c i s) (comp_step q S w c0 i0 s0).
  Proof.
    intros Hc Hi Hs catch fa t ov sub p r H Hlf. unfold comp_step in *.
    assert (Leaf : forall v : ires, Ok (mkxr v [] [] [] false O) = Ok r ->
              exists r0, Ok (mkxr v [] [] [] false O) = Ok r0 /\ sim r r0).
    { intros v Hv. injection Hv as <-. eexists. split; [reflexivity|]. unfold sim; cbn [x_v x_es x_tr x_lf]. auto. }
    destruct t as [tn|t'|t'].
    - destruct ov as [| |z|b|s1|b|e|k|l]; try (apply Leaf; exact H).
      destruct (node_ty w k) as [rt'|]; [|apply Leaf; exact H].
      apply bindo_ok in H. destruct H as [a [Ha H]]. injection H as <-.
      rewrite xcatch_lf in Hlf.
      destruct (Hs _ _ _ _ _ _ Ha Hlf) as [a0 [Ha0 Hsim]]. rewrite Ha0. cbn [bindo].
      eexists. split; [reflexivity|]. apply xcatch_sim; exact Hsim.
    - destruct ov as [| |z|b|s1|b|e|k|l]; try (apply Leaf; exact H).
      apply bindo_ok in H. destruct H as [a [Ha H]]. injection H as <-.
      rewrite xcatch_lf in Hlf. cbn [x_lf] in Hlf.
      destruct (Hi _ _ _ _ _ _ _ Ha Hlf) as [a0 [Ha0 [Hv [He [Ht Hl]]]]]. rewrite Ha0. cbn [bindo].
      eexists. split; [reflexivity|]. apply xcatch_sim. unfold sim; cbn [x_v x_es x_tr x_lf]. rewrite Hv. auto.
    - apply (Hc _ _ _ _ _ _ _ H Hlf).
  Qed.

  Lemma item_hooked_sim fa t p i (a a0 : xr ires) : sim a a0 ->
    x_v (item_hooked [] fa t p i a0) = x_v (item_hooked ch fa t p i a) /\
    x_es (item_hooked [] fa t p i a0) = x_es (item_hooked ch fa t p i a) /\
    x_tr (item_hooked [] fa t p i a0) = x_tr (item_hooked ch fa t p i a) /\
    x_lf (item_hooked [] fa t p i a0) = false /\
    x_lf (item_hooked ch fa t p i a) = x_lf a.
  Proof.
    intros [Hv [He [Ht Hl]]]. unfold item_hooked. cbn [is_nil].
    destruct (is_nil ch); [auto|]. rewrite hooked_eq. cbn. auto.
  Qed.

  Lemma items_step_rel c c0 i i0 : R_comp c c0 -> R_items i i0 ->
    forall fa t ov r k sub p res, items_step q ch c i fa t ov r k sub p = Ok res -> x_lf res = false ->
      exists res0, items_step q [] c0 i0 fa t ov r k sub p = Ok res0 /\ sim res res0.
  Proof.
    intros Hc Hi fa t ov r k sub p res H Hlf. unfold items_step in *.
    apply bindo_ok in H. destruct H as [a [Ha H]]. cbv zeta in H.
    assert (Hla : x_lf a = false).
    { destruct (x_v (item_hooked ch fa t p k a)) eqn:E.
      - apply bindo_ok in H. destruct H as [b [Hb H]]. inversion H; subst res. cbn [x_lf] in Hlf.
        apply orb_false_elim in Hlf. destruct Hlf as [Hl1 _].
        unfold item_hooked in Hl1. destruct (is_nil ch); [exact Hl1|]. rewrite hooked_eq in Hl1. exact Hl1.
      - inversion H; subst res. cbn [x_lf] in Hlf.
        unfold item_hooked in Hlf. destruct (is_nil ch); [exact Hlf|]. rewrite hooked_eq in Hlf. exact Hlf. }
    destruct (Hc _ _ _ _ _ _ _ Ha Hla) as [a0 [Ha0 Hsim]]. rewrite Ha0. cbn [bindo]. cbv zeta.
    destruct (item_hooked_sim fa t p k a a0 Hsim) as [Hv [He [Ht [Hl0 Hl1]]]].
    rewrite Hv.
    destruct (x_v (item_hooked ch fa t p k a)) eqn:E.
    - apply bindo_ok in H. destruct H as [b [Hb H]]. inversion H; subst res; clear H. cbn [x_lf] in Hlf.
      apply orb_false_elim in Hlf. destruct Hlf as [_ Hlb].
      destruct (Hi _ _ _ _ _ _ _ Hb Hlb) as [b0 [Hb0 [Hv' [He' [Ht' Hl']]]]]. rewrite Hb0. cbn [bindo].
      eexists. split; [reflexivity|]. unfold sim; cbn [x_v x_es x_tr x_lf]. rewrite Hv', He, He', Ht, Ht', Hl0, Hl'. auto.
    - inversion H; subst res; clear H.
      eexists. split; [reflexivity|]. unfold sim; cbn [x_v x_es x_tr x_lf]. rewrite He, Ht, Hl0. auto.
  Qed.

  Theorem transparent_all : forall n,
      R_set (x_set q S w frags vars vdefs ch n) (x_set q S w frags vars vdefs [] n) /\
      R_occs (x_occs q S w frags vars vdefs ch n) (x_occs q S w frags vars vdefs [] n) /\
      R_field (x_field q S w frags vars vdefs ch n) (x_field q S w frags vars vdefs [] n) /\
      R_comp (x_comp q S w frags vars vdefs ch n) (x_comp q S w frags vars vdefs [] n) /\
      R_items (x_items q S w frags vars vdefs ch n) (x_items q S w frags vars vdefs [] n).
  Proof.
    induction n as [|n [IHs [IHo [IHf [IHc IHi]]]]].
    - repeat split.
      + intros st rt nid sels p r H; discriminate.
      + intros rt nid occs p r H Hlf. destruct occs; [|discriminate].
        cbn in H |- *. inversion H; subst r. eexists; split; [reflexivity|]. unfold sim; cbn; auto.
      + intros rt nid o p r H; discriminate.
      + intros c fa t ov sub p r H; discriminate.
      + intros fa t l i sub p r H Hlf. destruct l; [|discriminate].
        cbn in H |- *. inversion H; subst r. eexists; split; [reflexivity|]. unfold sim; cbn; auto.
    - repeat split.
      + change (R_set (set_step q S frags vars vdefs n (x_occs q S w frags vars vdefs ch n))
                      (set_step q S frags vars vdefs n (x_occs q S w frags vars vdefs [] n))).
        apply set_step_rel; exact IHo.
      + intros rt nid occs p r H Hlf. destruct occs as [|o occs].
        * cbn in H |- *. inversion H; subst r. eexists; split; [reflexivity|]. unfold sim; cbn; auto.
        * change (occs_step (x_field q S w frags vars vdefs ch n) (x_occs q S w frags vars vdefs ch n) rt nid o occs p = Ok r) in H.
          change (exists r0, occs_step (x_field q S w frags vars vdefs [] n) (x_occs q S w frags vars vdefs [] n) rt nid o occs p = Ok r0 /\ sim r r0).
          eapply occs_step_rel; eauto.
      + change (R_field (field_step q S w ch (x_comp q S w frags vars vdefs ch n))
                        (field_step q S w [] (x_comp q S w frags vars vdefs [] n))).
        apply field_step_rel; exact IHc.
      + change (R_comp (comp_step q S w (x_comp q S w frags vars vdefs ch n) (x_items q S w frags vars vdefs ch n) (x_set q S w frags vars vdefs ch n))
                       (comp_step q S w (x_comp q S w frags vars vdefs [] n) (x_items q S w frags vars vdefs [] n) (x_set q S w frags vars vdefs [] n))).
        apply comp_step_rel; assumption.
      + intros fa t l i sub p r H Hlf. destruct l as [|ov l].
        * cbn in H |- *. inversion H; subst r. eexists; split; [reflexivity|]. unfold sim; cbn; auto.
        * change (items_step q ch (x_comp q S w frags vars vdefs ch n) (x_items q S w frags vars vdefs ch n) fa t ov l i sub p = Ok r) in H.
          change (exists r0, items_step q [] (x_comp q S w frags vars vdefs [] n) (x_items q S w frags vars vdefs [] n) fa t ov l i sub p = Ok r0 /\ sim r r0).
          eapply items_step_rel; eauto.
  Qed.
End Transparent.


(* ---------------------------------------------- shape of the resolve events --- *)
Inductive nested (ch : list N) : list ev -> Prop :=
| nested_nil : nested ch []
| nested_cons : forall h ok inner rest,
    is_resolve h = true -> nested ch inner -> nested ch rest ->
    nested ch (wrap ch h ok inner ++ rest).

Lemma nested_app ch a b : nested ch a -> nested ch b -> nested ch (a ++ b).
Proof.
  intros Ha Hb. induction Ha as [|h ok inner rest Hr Hi IHi Hrest IHrest]; [exact Hb|].
  rewrite <- app_assoc. apply nested_cons; auto.
Qed.

Lemma nested_wrap ch h ok inner : is_resolve h = true -> nested ch inner -> nested ch (wrap ch h ok inner).
Proof.
  intros Hr Hi. rewrite <- (app_nil_r (wrap ch h ok inner)). apply nested_cons; auto. constructor.
Qed.

Definition cnt (e : N) (f : hk -> bool) (evs : list ev) : nat :=
  length (filter (fun x => match x with Enter e' h => (e' =? e) && f h | Exit _ _ _ => false end) evs).

Lemma cnt_app e f a b : cnt e f (a ++ b) = (cnt e f a + cnt e f b)%nat.
Proof. unfold cnt. rewrite filter_app, app_length. reflexivity. Qed.

Lemma cnt_enters e f h ch :
  cnt e f (map (fun x => Enter x h) ch) = if f h then count_occ N.eq_dec ch e else O.
Proof.
  induction ch as [|x ch IH]; [destruct (f h); reflexivity|].
  unfold cnt in *. cbn [map filter count_occ].
  destruct (N.eqb_spec x e) as [->|Hne]; cbn [andb].
  - destruct (f h) eqn:Ef; cbn [length].
    + rewrite IH. destruct (N.eq_dec e e); [reflexivity|congruence].
    + exact IH.
  - rewrite IH. destruct (f h); [|reflexivity]. destruct (N.eq_dec x e); [congruence|reflexivity].
Qed.

Lemma cnt_exits e f h ok l : cnt e f (map (fun x => Exit x h ok) l) = O.
Proof. induction l as [|x l IH]; [reflexivity|]. unfold cnt in *. cbn. exact IH. Qed.

Lemma cnt_wrap e f ch h ok inner :
  cnt e f (wrap ch h ok inner) = ((if f h then count_occ N.eq_dec ch e else O) + cnt e f inner)%nat.
Proof. unfold wrap. rewrite !cnt_app, cnt_enters, cnt_exits. lia. Qed.

(* invariant of every piece of execution: events well nested in chain order;
   every extension sees one field hook per resolver invocation and one item
   hook per list item handed to resolve_list's hooked branch *)
Definition inv {V} (ch : list N) (r : xr V) : Prop :=
  nested ch (x_ev r) /\
  (forall e, cnt e is_field (x_ev r) = (count_occ N.eq_dec ch e * length (x_tr r))%nat) /\
  (forall e, cnt e is_item (x_ev r) = (count_occ N.eq_dec ch e * x_ni r)%nat).

Lemma inv_empty {V} ch (v : V) es lf : inv ch (mkxr v es [] [] lf O).
Proof.
  unfold inv; cbn. split; [constructor|]. split; intros e; unfold cnt; cbn; lia.
Qed.

Lemma inv_join {V W} ch (a : xr V) (b : xr W) (r : xr (V + W)) :
  inv ch a -> inv ch b -> x_ev r = x_ev a ++ x_ev b -> x_tr r = x_tr a ++ x_tr b ->
  x_ni r = (x_ni a + x_ni b)%nat -> inv ch r.
Proof.
  intros [Na [Fa Ia]] [Nb [Fb Ib]] He Ht Hn. unfold inv. rewrite He, Ht, Hn. split; [apply nested_app; auto|].
  split; intros e; rewrite cnt_app, ?app_length, ?Fa, ?Fb, ?Ia, ?Ib; lia.
Qed.

Section Events.
  Variable q : quirks.
  Variable S : schema.
  Variable w : world.
  Variable frags : list (name * fragment).
  Variable vars : list (name * value).
  Variable vdefs : list vardef.
  Variable ch : list N.

  Definition I_set (f : set_t) : Prop := forall st rt nid sels p r, f st rt nid sels p = Ok r -> inv ch r.
  Definition I_occs (f : occs_t) : Prop := forall rt nid occs p r, f rt nid occs p = Ok r -> inv ch r.
  Definition I_field (f : field_t) : Prop := forall rt nid o p r, f rt nid o p = Ok r -> inv ch r.
  Definition I_comp (f : comp_t) : Prop := forall c fa t ov sub p r, f c fa t ov sub p = Ok r -> inv ch r.
  Definition I_items (f : items_t) : Prop := forall fa t l i sub p r, f fa t l i sub p = Ok r -> inv ch r.

  Lemma inv_same {V W} (a : xr V) (b : xr W) :
    inv ch a -> x_ev b = x_ev a -> x_tr b = x_tr a -> x_ni b = x_ni a -> inv ch b.
  Proof. intros [Na [Fa Ia]] He Ht Hn. unfold inv. rewrite He, Ht, Hn. auto. Qed.

  Lemma set_step_inv n' f : I_occs f -> I_set (set_step q S frags vars vdefs n' f).
  Proof.
    intros Hf st rt nid sels p r H. unfold set_step in H.
    apply bindo_ok in H. destruct H as [occs0 [_ H]].
    apply bindo_ok in H. destruct H as [a [Ha H]]. injection H as <-.
    eapply inv_same; [exact (Hf _ _ _ _ _ Ha)|reflexivity..].
  Qed.

  Lemma occs_step_inv ff fo : I_field ff -> I_occs fo ->
    forall rt nid o r p res, occs_step ff fo rt nid o r p = Ok res -> inv ch res.
  Proof.
    intros Hf Ho rt nid o r p res H. unfold occs_step in H.
    apply bindo_ok in H. destruct H as [a [Ha H]].
    destruct (x_v a).
    - apply bindo_ok in H. destruct H as [b [Hb H]]. injection H as <-.
      pose proof (Hf _ _ _ _ _ Ha) as [Na [Fa Ia]]. pose proof (Ho _ _ _ _ _ Hb) as [Nb [Fb Ib]].
      unfold inv; cbn [x_ev x_tr x_ni]. split; [apply nested_app; auto|].
      split; intros e; rewrite cnt_app, ?app_length, ?Fa, ?Fb, ?Ia, ?Ib; lia.
    - injection H as <-. eapply inv_same; [exact (Hf _ _ _ _ _ Ha)|reflexivity..].
  Qed.

  Lemma hooked_inv_field h (r : xr ires) one :
    is_field h = true -> nested ch (x_ev r) ->
    (forall e, cnt e is_field (x_ev r) = (count_occ N.eq_dec ch e * one)%nat) ->
    (forall e, cnt e is_item (x_ev r) = (count_occ N.eq_dec ch e * x_ni r)%nat) ->
    length (x_tr r) = Datatypes.S one ->
    inv ch (hooked ch h r).
  Proof.
    intros Hh Nr Fr Ir Hl. rewrite hooked_eq. unfold inv; cbn [x_ev x_tr x_ni].
    assert (Hres : is_resolve h = true) by (destruct h; try discriminate; reflexivity).
    assert (Hit : is_item h = false) by (destruct h; try discriminate; reflexivity).
    split; [apply nested_wrap; auto|].
    split; intros e; rewrite cnt_wrap, ?Hh, ?Hit, ?Fr, ?Ir, ?Hl; lia.
  Qed.

  Lemma field_step_inv c : I_comp c -> I_field (field_step q S w ch c).
  Proof.
    intros Hc rt nid o p r H. unfold field_step in H.
    destruct (name_eqb (o_name (xo o)) N_typename); [injection H as <-; apply inv_empty|].
    destruct (declared_ty S rt o) as [t|].
    2:{ destruct (ext_branch ch o).
        - destruct (lookup_ret S (xo_st o) (o_name (xo o))); [discriminate|]. injection H as <-. apply inv_empty.
        - injection H as <-. apply inv_empty. }
    (* the body: exactly one resolver invocation of its own *)
    assert (Hbody : forall r', field_body q S w c nid o (p ++ [PF (o_key (xo o))]) t = Ok r' ->
              nested ch (x_ev r') /\
              (exists one, length (x_tr r') = Datatypes.S one /\
                 (forall e, cnt e is_field (x_ev r') = (count_occ N.eq_dec ch e * one)%nat)) /\
              (forall e, cnt e is_item (x_ev r') = (count_occ N.eq_dec ch e * x_ni r')%nat)).
    { intros r' Hb. unfold field_body in Hb.
      destruct (resolver_fails S w t (out w nid (o_name (xo o)))).
      - assert (E : x_ev r' = [] /\ x_tr r' = [(nid, o_name (xo o))] /\ x_ni r' = O).
        { destruct (q_field_err_parent q || is_nonnull t); injection Hb as <-; auto. }
        destruct E as [E1 [E2 E3]]. rewrite E1, E2, E3. split; [constructor|].
        split; [exists O; split; [reflexivity|]|]; intros e; unfold cnt; cbn; lia.
      - apply bindo_ok in Hb. destruct Hb as [a [Ha Hb]]. injection Hb as <-. cbn [x_ev x_tr x_ni].
        destruct (Hc _ _ _ _ _ _ _ Ha) as [Na [Fa Ia]]. split; [exact Na|].
        split; [exists (length (x_tr a)); split; [reflexivity|exact Fa]|exact Ia]. }
    destruct (ext_branch ch o) eqn:Eb.
    - destruct (lookup_ret S (xo_st o) (o_name (xo o))) as [rty|]; [|injection H as <-; apply inv_empty].
      apply bindo_ok in H. destruct H as [a [Ha H]]. injection H as <-.
      destruct (Hbody a Ha) as [Na [[one [Hl Fa]] Ia]].
      eapply hooked_inv_field; eauto.
    - assert (Hch : ch = []).
      { unfold ext_branch in Eb. apply orb_false_elim in Eb. destruct Eb as [E1 _].
        destruct ch; [reflexivity|discriminate]. }
      destruct (Hbody r H) as [Na [[one [Hl Fa]] Ia]]. unfold inv. split; [exact Na|].
      split; [|exact Ia]. intros e. rewrite Fa, Hch. reflexivity.
  Qed.

  Lemma xcatch_inv catch (r : xr ires) : inv ch r -> inv ch (xcatch catch r).
  Proof.
    intros Hr. unfold xcatch. destruct (x_v r); [exact Hr|]. destruct catch; [|exact Hr].
    eapply inv_same; [exact Hr|reflexivity..].
  Qed.

  Lemma comp_step_inv c i s : I_comp c -> I_items i -> I_set s -> I_comp (comp_step q S w c i s).
  Proof.
    intros Hc Hi Hs catch fa t ov sub p r H. unfold comp_step in H.
    assert (Leaf : forall v : ires, Ok (mkxr v [] [] [] false O) = Ok r -> inv ch r).
    { intros v Hv. injection Hv as <-. apply inv_empty. }
    destruct t as [tn|t'|t'].
    - destruct ov as [| |z|b|s1|b|e|k|l]; try (eapply Leaf; exact H).
      destruct (node_ty w k) as [rt'|]; [|eapply Leaf; exact H].
      apply bindo_ok in H. destruct H as [a [Ha H]]. injection H as <-.
      apply xcatch_inv. exact (Hs _ _ _ _ _ _ Ha).
    - destruct ov as [| |z|b|s1|b|e|k|l]; try (eapply Leaf; exact H).
      apply bindo_ok in H. destruct H as [a [Ha H]]. injection H as <-.
      apply xcatch_inv. eapply inv_same; [exact (Hi _ _ _ _ _ _ _ Ha)|reflexivity..].
    - exact (Hc _ _ _ _ _ _ _ H).
  Qed.

  Lemma item_hooked_inv fa t p i (a : xr ires) : inv ch a -> inv ch (item_hooked ch fa t p i a).
  Proof.
    intros [Na [Fa Ia]]. unfold item_hooked. destruct ch as [|c0 ch'] eqn:Ech; [cbn; unfold inv; auto|].
    cbn [is_nil]. rewrite hooked_eq. unfold inv; cbn [x_ev x_tr x_ni]. rewrite <- Ech in *.
    split; [apply nested_wrap; auto|].
    split; intros e; rewrite cnt_wrap; cbn [is_field is_item]; rewrite ?Fa, ?Ia; lia.
  Qed.

  Lemma items_step_inv c i : I_comp c -> I_items i ->
    forall fa t ov r k sub p res, items_step q ch c i fa t ov r k sub p = Ok res -> inv ch res.
  Proof.
    intros Hc Hi fa t ov r k sub p res H. unfold items_step in H.
    apply bindo_ok in H. destruct H as [a [Ha H]]. cbv zeta in H.
    pose proof (item_hooked_inv fa t p k a (Hc _ _ _ _ _ _ _ Ha)) as Hinv.
    destruct (x_v (item_hooked ch fa t p k a)).
    - apply bindo_ok in H. destruct H as [b [Hb H]]. injection H as <-.
      destruct Hinv as [Na [Fa Ia]]. pose proof (Hi _ _ _ _ _ _ _ Hb) as [Nb [Fb Ib]].
      unfold inv; cbn [x_ev x_tr x_ni]. split; [apply nested_app; auto|].
      split; intros e; rewrite cnt_app, ?app_length, ?Fa, ?Fb, ?Ia, ?Ib; lia.
    - injection H as <-. eapply inv_same; [exact Hinv|reflexivity..].
  Qed.

  Theorem events_all : forall n,
      I_set (x_set q S w frags vars vdefs ch n) /\
      I_occs (x_occs q S w frags vars vdefs ch n) /\
      I_field (x_field q S w frags vars vdefs ch n) /\
      I_comp (x_comp q S w frags vars vdefs ch n) /\
      I_items (x_items q S w frags vars vdefs ch n).
  Proof.
    induction n as [|n [IHs [IHo [IHf [IHc IHi]]]]].
    - split; [|split; [|split; [|split]]].
      + intros st rt nid sels p r H; discriminate.
      + intros rt nid occs p r H. destruct occs; [|discriminate]. injection H as <-. apply inv_empty.
      + intros rt nid o p r H; discriminate.
      + intros c fa t ov sub p r H; discriminate.
      + intros fa t l i sub p r H. destruct l; [|discriminate]. injection H as <-. apply inv_empty.
    - split; [|split; [|split; [|split]]].
      + change (I_set (set_step q S frags vars vdefs n (x_occs q S w frags vars vdefs ch n))).
        apply set_step_inv; exact IHo.
      + intros rt nid occs p r H. destruct occs as [|o occs]; [injection H as <-; apply inv_empty|].
        change (occs_step (x_field q S w frags vars vdefs ch n) (x_occs q S w frags vars vdefs ch n) rt nid o occs p = Ok r) in H.
        eapply occs_step_inv; eauto.
      + change (I_field (field_step q S w ch (x_comp q S w frags vars vdefs ch n))).
        apply field_step_inv; exact IHc.
      + change (I_comp (comp_step q S w (x_comp q S w frags vars vdefs ch n) (x_items q S w frags vars vdefs ch n) (x_set q S w frags vars vdefs ch n))).
        apply comp_step_inv; assumption.
      + intros fa t l i sub p r H. destruct l as [|ov l]; [injection H as <-; apply inv_empty|].
        change (items_step q ch (x_comp q S w frags vars vdefs ch n) (x_items q S w frags vars vdefs ch n) fa t ov l i sub p = Ok r) in H.
        eapply items_step_inv; eauto.
  Qed.
End Events.


(* --------------------------------------------------- introspection-only --- *)
Lemma intro_occs_nested S ch rstr occs : nested ch (x_ev (x_intro_occs S ch rstr occs)).
Proof.
  induction occs as [|o r IH]; [constructor|]. cbn [x_intro_occs]. cbv zeta.
  set (a := if name_eqb (o_name (xo o)) N_typename then _ else _).
  assert (Ha : nested ch (x_ev a)).
  { subst a. destruct (name_eqb (o_name (xo o)) N_typename); [constructor|].
    destruct (ext_branch ch o); [|constructor].
    destruct (lookup_ret S (xo_st o) (o_name (xo o))); [|constructor].
    rewrite hooked_eq. cbn [x_ev]. apply nested_wrap; [reflexivity|constructor]. }
  destruct (x_v a); cbn [x_ev]; [apply nested_app; auto|exact Ha].
Qed.

Lemma intro_occs_transparent S ch rstr occs :
  x_lf (x_intro_occs S ch rstr occs) = false ->
  sim (x_intro_occs S ch rstr occs) (x_intro_occs S [] rstr occs).
Proof.
  induction occs as [|o r IH]; intros Hlf; [unfold sim; cbn; auto|].
  cbn [x_intro_occs] in *. cbv zeta in *.
  set (a := if name_eqb (o_name (xo o)) N_typename then _ else _) in *.
  set (a0 := if name_eqb (o_name (xo o)) N_typename then _ else _).
  assert (Ha : x_lf a = false -> sim a a0).
  { subst a a0. destruct (name_eqb (o_name (xo o)) N_typename); [intros _; unfold sim; cbn; auto|].
    destruct (ext_branch ch o) eqn:Eb.
    - destruct (lookup_ret S (xo_st o) (o_name (xo o))); [|cbn; discriminate].
      intros _. destruct (ext_branch [] o); rewrite ?hooked_eq; unfold sim; cbn; auto.
    - assert (Hch : ch = []).
      { unfold ext_branch in Eb. apply orb_false_elim in Eb. destruct Eb as [E1 _].
        destruct ch; [reflexivity|discriminate]. }
      subst ch. rewrite Eb. intros _. unfold sim; cbn; auto. }
  destruct (x_v a) eqn:Ev.
  - cbn [x_lf] in Hlf. apply orb_false_elim in Hlf. destruct Hlf as [Hla Hlb].
    destruct (Ha Hla) as [Hv [He [Ht Hl]]]. rewrite Hv, Ev.
    destruct (IH Hlb) as [Hv' [He' [Ht' Hl']]].
    unfold sim; cbn [x_v x_es x_tr x_lf]. rewrite Hv', He, He', Ht, Ht', Hl, Hl'. auto.
  - cbn [x_lf] in Hlf. destruct (Ha Hlf) as [Hv [He [Ht Hl]]]. rewrite Hv, Ev.
    unfold sim; cbn [x_v x_es x_tr x_lf]. auto.
Qed.

(* ------------------------------------------------------- request phases --- *)
Inductive phases (ch : list N) : list ev -> Prop :=
| ph_parse_fail :
    phases ch (wrap ch HPrepare true [] ++ wrap ch HParse false [])
| ph_validation_fail :
    phases ch (wrap ch HPrepare true [] ++ wrap ch HParse true [] ++ wrap ch HValidation false [])
| ph_no_operation :
    phases ch (wrap ch HPrepare true [] ++ wrap ch HParse true [] ++ wrap ch HValidation true [])
| ph_executed : forall op ok inner, nested ch inner ->
    phases ch (wrap ch HPrepare true [] ++ wrap ch HParse true [] ++ wrap ch HValidation true [] ++
               wrap ch (HExecute op) ok inner).

Definition lifecycle (ch : list N) (evs : list ev) : Prop :=
  exists ok ph, phases ch ph /\ evs = wrap ch HRequest ok ph.

Lemma next_prepare_rec ch :
  next_prepare (rec_chain ch (fun _ : unit => HPrepare) outcome_ok) tt = (Ok tt, wrap ch HPrepare true []).
Proof. unfold next_prepare. rewrite run_rec_chain. reflexivity. Qed.
Lemma next_parse_rec {D} ch (od : option D) :
  next_parse (rec_chain ch (fun _ : unit => HParse) some_ok) (od, []) tt = (od, wrap ch HParse (some_ok od) []).
Proof. unfold next_parse. rewrite run_rec_chain. reflexivity. Qed.
Lemma next_validation_rec ch (v : bool) :
  next_validation (rec_chain ch (fun _ => HValidation) (fun b : bool => b)) (v, []) = (v, wrap ch HValidation v []).
Proof. unfold next_validation. rewrite run_rec_chain. reflexivity. Qed.
Lemma next_request_rec {R} ch (okf : R -> bool) (fut : M R) :
  next_request (rec_chain ch (fun _ => HRequest) okf) fut = (fst fut, wrap ch HRequest (okf (fst fut)) (snd fut)).
Proof. unfold next_request. rewrite run_rec_chain. reflexivity. Qed.

Section Request.
  Variable q : quirks.
  Variable S : schema.
  Variable w : world.

  Lemma x_execute_nested d opname vars cf ch n op r :
    x_execute q S w d opname vars cf ch n = Ok (Some (op, r)) -> nested ch (x_ev r).
  Proof.
    unfold x_execute. destruct (select_op d opname) as [o|]; [|discriminate].
    destruct (root_name S o) as [rt|]; [|discriminate].
    intros H. apply bindo_ok in H. destruct H as [a [Ha H]]. injection H as _ <-.
    destruct (c_intro cf).
    - assert (Hi : forall root rstr, x_intro q S (doc_frags d) vars (op_vars o) ch n root rstr (op_sels o) = Ok a -> nested ch (x_ev a)).
      { intros root rstr Hx. unfold x_intro in Hx. apply bindo_ok in Hx. destruct Hx as [occs0 [_ Hx]].
        injection Hx as <-. cbn [x_ev]. apply intro_occs_nested. }
      destruct (op_ty o); eapply Hi; exact Ha.
    - destruct (events_all q S w (doc_frags d) vars (op_vars o) ch n) as [Hs _].
      destruct (Hs _ _ _ _ _ _ Ha) as [Hn _]. exact Hn.
  Qed.

  Theorem request_lifecycle od opname vars cf n resp evs lf :
    x_request q S w od opname vars cf n = Ok (resp, evs, lf) -> lifecycle (ids (c_k cf)) evs.
  Proof.
    unfold x_request. intros H. apply bindo_ok in H. destruct H as [ex [Hex H]].
    rewrite next_prepare_rec, next_parse_rec in H.
    destruct od as [d|].
    - rewrite next_validation_rec in H. destruct (c_valid cf) eqn:Ev; cbn [negb] in H.
      + destruct ex as [[op r]|].
        * rewrite next_execute_rec in H. cbn [fst snd] in H. rewrite next_request_rec in H. cbn [fst snd] in H.
          injection H as _ <- _. eexists _, _. split; [|reflexivity].
          apply ph_executed. eapply x_execute_nested; exact Hex.
        * rewrite next_request_rec in H. cbn [fst snd] in H. injection H as _ <- _.
          eexists _, _. split; [|reflexivity]. apply ph_no_operation.
      + rewrite next_request_rec in H. cbn [fst snd] in H. injection H as _ <- _.
        eexists _, _. split; [|reflexivity]. apply ph_validation_fail.
    - rewrite next_request_rec in H. cbn [fst snd some_ok] in H. injection H as _ <- _.
      eexists _, _. split; [|reflexivity]. apply ph_parse_fail.
  Qed.

  (* transparency of one request *)
  Lemma sim_to_response (r r0 : xr ires) : sim r r0 -> to_response r0 = to_response r.
  Proof. intros [Hv [He [Ht _]]]. unfold to_response. rewrite Hv, He, Ht. reflexivity. Qed.

  Lemma x_execute_transparent d opname vars cf ch n op r :
    x_execute q S w d opname vars cf ch n = Ok (Some (op, r)) -> x_lf r = false ->
    exists r0, x_execute q S w d opname vars cf [] n = Ok (Some (op, r0)) /\ sim r r0.
  Proof.
    unfold x_execute. destruct (select_op d opname) as [o|]; [|discriminate].
    destruct (root_name S o) as [rt|]; [|discriminate].
    intros H Hlf. apply bindo_ok in H. destruct H as [a [Ha H]]. injection H as <- <-.
    destruct (c_intro cf).
    - assert (Hi : forall root rstr, x_intro q S (doc_frags d) vars (op_vars o) ch n root rstr (op_sels o) = Ok a ->
                exists a0, x_intro q S (doc_frags d) vars (op_vars o) [] n root rstr (op_sels o) = Ok a0 /\ sim a a0).
      { intros root rstr Hx. unfold x_intro in *. apply bindo_ok in Hx. destruct Hx as [occs0 [Hc Hx]].
        rewrite Hc. cbn [bindo]. injection Hx as <-. cbn [x_lf] in Hlf.
        eexists. split; [reflexivity|].
        destruct (intro_occs_transparent S ch rstr _ Hlf) as [Hv [He [Ht Hl]]].
        unfold sim; cbn [x_v x_es x_tr x_lf]. rewrite Hv. auto. }
      destruct (op_ty o); destruct (Hi _ _ Ha) as [a0 [Ha0 Hs]]; rewrite Ha0; cbn [bindo]; eauto.
    - destruct (transparent_all q S w (doc_frags d) vars (op_vars o) ch n) as [Hs _].
      destruct (Hs _ _ _ _ _ _ Ha Hlf) as [a0 [Ha0 Hsim]]. rewrite Ha0. cbn [bindo]. eauto.
  Qed.

  Lemma x_execute_none d opname vars cf ch n :
    x_execute q S w d opname vars cf ch n = Ok None -> x_execute q S w d opname vars cf [] n = Ok None.
  Proof.
    unfold x_execute. destruct (select_op d opname) as [o|]; [|auto].
    destruct (root_name S o) as [rt|]; [|discriminate].
    intros H. apply bindo_ok in H. destruct H as [a [_ H]]. discriminate.
  Qed.

  Theorem request_transparent od opname vars cf n resp evs :
    x_request q S w od opname vars cf n = Ok (resp, evs, false) ->
    exists evs0, x_request q S w od opname vars (with_k cf 0) n = Ok (resp, evs0, false).
  Proof.
    unfold x_request. intros H. apply bindo_ok in H. destruct H as [ex [Hex H]].
    change (c_k (with_k cf 0)) with 0. change (c_valid (with_k cf 0)) with (c_valid cf).
    change (ids 0) with (@nil N).
    rewrite next_prepare_rec, next_parse_rec in H |- *.
    destruct od as [d|].
    - rewrite next_validation_rec in H |- *. destruct (c_valid cf) eqn:Ev; cbn [negb] in H |- *.
      + destruct ex as [[op r]|].
        * rewrite next_execute_rec in H. cbn [fst snd] in H. rewrite next_request_rec in H. cbn [fst snd] in H.
          injection H as <- _ Hlf.
          assert (Hex' : x_execute q S w d opname vars (with_k cf 0) [] n = x_execute q S w d opname vars cf [] n) by reflexivity.
          destruct (x_execute_transparent _ _ _ _ _ _ _ _ Hex Hlf) as [r0 [Hr0 Hs]].
          rewrite Hex', Hr0. cbn [bindo]. rewrite next_execute_rec. cbn [fst snd]. rewrite next_request_rec. cbn [fst snd].
          rewrite (sim_to_response _ _ Hs). destruct Hs as [_ [_ [_ Hl]]]. rewrite Hl. eexists. reflexivity.
        * rewrite next_request_rec in H. cbn [fst snd] in H. injection H as <- _.
          assert (Hex' : x_execute q S w d opname vars (with_k cf 0) [] n = x_execute q S w d opname vars cf [] n) by reflexivity.
          rewrite Hex', (x_execute_none _ _ _ _ _ _ Hex). cbn [bindo]. rewrite next_request_rec. cbn [fst snd].
          eexists. reflexivity.
      + injection Hex as <-. cbn [bindo]. rewrite next_request_rec in H |- *. cbn [fst snd] in H |- *.
        injection H as <- _. eexists. reflexivity.
    - injection Hex as <-. cbn [bindo]. rewrite next_request_rec in H |- *. cbn [fst snd some_ok] in H |- *.
      injection H as <- _. eexists. reflexivity.
  Qed.
End Request.


Lemma to_response_trace (r : xr ires) : rs_trace (to_response r) = x_tr r.
Proof. unfold to_response. destruct (x_v r); reflexivity. Qed.

Theorem request_resolve_count q S w od opname vars cf n resp evs lf :
  c_intro cf = false ->
  x_request q S w od opname vars cf n = Ok (Some resp, evs, lf) ->
  forall e, cnt e is_field evs = (count_occ N.eq_dec (ids (c_k cf)) e * length (rs_trace resp))%nat.
Proof.
  intros Hintro H e. unfold x_request in H. apply bindo_ok in H. destruct H as [ex [Hex H]].
  rewrite next_prepare_rec, next_parse_rec in H.
  destruct od as [d|].
  - rewrite next_validation_rec in H. destruct (c_valid cf) eqn:Ev; cbn [negb] in H.
    + destruct ex as [[op r]|].
      * rewrite next_execute_rec in H. cbn [fst snd] in H. rewrite next_request_rec in H. cbn [fst snd] in H.
        injection H as <- <- _. rewrite to_response_trace.
        rewrite cnt_wrap, !cnt_app, !cnt_wrap. cbn [is_field].
        assert (Hr : cnt e is_field (x_ev r) = (count_occ N.eq_dec (ids (c_k cf)) e * length (x_tr r))%nat).
        { unfold x_execute in Hex. destruct (select_op d opname) as [o|]; [|discriminate].
          destruct (root_name S o) as [rt|]; [|discriminate].
          apply bindo_ok in Hex. destruct Hex as [a [Ha Hex]]. injection Hex as _ <-.
          rewrite Hintro in Ha.
          destruct (events_all q S w (doc_frags d) vars (op_vars o) (ids (c_k cf)) n) as [Hs _].
          destruct (Hs _ _ _ _ _ _ Ha) as [_ [Hf _]]. apply Hf. }
        rewrite Hr. unfold cnt at 1 2 3. cbn. lia.
      * rewrite next_request_rec in H. cbn [fst snd] in H. discriminate.
    + rewrite next_request_rec in H. cbn [fst snd] in H. discriminate.
  - rewrite next_request_rec in H. cbn [fst snd some_ok] in H. discriminate.
Qed.

Lemma ids_In k e : In e (ids k) <-> e < k.
Proof.
  unfold ids. rewrite in_map_iff. split.
  - intros [x [<- Hin]]. apply in_seq in Hin. lia.
  - intros H. exists (N.to_nat e). split; [apply N2Nat.id|]. apply in_seq. lia.
Qed.

Lemma ids_NoDup k : NoDup (ids k).
Proof.
  unfold ids. apply Injective_map_NoDup; [|apply seq_NoDup].
  intros x y H. apply Nat2N.inj. exact H.
Qed.

Lemma ids_count k e : count_occ N.eq_dec (ids k) e = if e <? k then 1%nat else 0%nat.
Proof.
  destruct (N.ltb_spec e k) as [Hlt|Hge].
  - pose proof (proj1 (NoDup_count_occ N.eq_dec (ids k)) (ids_NoDup k) e) as Hle.
    pose proof (proj1 (count_occ_In N.eq_dec (ids k) e) (proj2 (ids_In k e) Hlt)) as Hgt. lia.
  - apply count_occ_not_In. rewrite ids_In. lia.
Qed.

(* ------------------------------------------------------------ witnesses --- *)
Definition S0 : schema :=
  {| s_types := [(10, DObject [(6, TNonNull (TNamed 12)); (7, TNonNull (TList (TNonNull (TNamed 12))))] []);
                 (11, DObject [(6, TNonNull (TNamed 12))] []);
                 (12, DScalar 0)];
     s_query := 10; s_mutation := Some 11;
     s_tname := [(10, [81]); (11, [77]); (12, [73])] |}.
Definition w0 : world :=
  {| w_nodes := [(0, {| n_ty := 10; n_fields := [(7, OList [OInt 4; OInt 5])] |}); (1, {| n_ty := 11; n_fields := [] |})];
     w_defaults := []; w_idname := 6 |}.
Definition d_mut : document :=
  {| doc_ops := [{| op_name := None; op_ty := OpMutation; op_vars := []; op_dirs := [];
                    op_sels := [SField None 6 [] [] []] |}]; doc_frags := [] |}.
Definition d_query : document :=
  {| doc_ops := [{| op_name := None; op_ty := OpQuery; op_vars := []; op_dirs := [];
                    op_sels := [SField None 6 [] [] []; SField (Some 8) 7 [] [] []] |}]; doc_frags := [] |}.
Definition cf_intro (k : N) : cfg := {| c_k := k; c_valid := true; c_intro := true; c_empty := 99; c_fast := false |}.
Definition cf_norm (k : N) : cfg := {| c_k := k; c_valid := true; c_intro := false; c_empty := 99; c_fast := false |}.

(* `mutation { id }` as an introspection-only request: with one pass-through
   extension the response is an error, without it {"id": null} *)
Theorem transparent_refuted :
  exists q S w d cf n r1 e1 r0 e0,
    x_request q S w (Some d) None [] cf n = Ok (r1, e1, true) /\
    x_request q S w (Some d) None [] (with_k cf 0) n = Ok (r0, e0, false) /\
    oresp_same r1 r0 = false /\
    r1 = Some {| rs_data := VNull; rs_errors := [[]]; rs_trace := [] |} /\
    r0 = Some {| rs_data := VObj [(6, VNull)]; rs_errors := []; rs_trace := [] |}.
Proof.
  exists quirks_today, S0, w0, d_mut, (cf_intro 1), 10%nat.
  eexists _, _, _, _. repeat split; vm_compute; reflexivity.
Qed.

(* `{ nope }` accepted by validation mode Fast: null without extensions, an
   error with one *)
Definition d_unknown : document :=
  {| doc_ops := [{| op_name := None; op_ty := OpQuery; op_vars := []; op_dirs := [];
                    op_sels := [SField None 9 [] [] []; SField None 6 [] [] []] |}]; doc_frags := [] |}.
Definition cf_fast (k : N) : cfg := {| c_k := k; c_valid := true; c_intro := false; c_empty := 99; c_fast := true |}.
Theorem transparent_refuted_fast :
  exists q S w d cf n r1 e1 r0 e0,
    c_fast cf = true /\
    x_request q S w (Some d) None [] cf n = Ok (r1, e1, true) /\
    x_request q S w (Some d) None [] (with_k cf 0) n = Ok (r0, e0, false) /\
    oresp_same r1 r0 = false /\
    r1 = Some {| rs_data := VNull; rs_errors := [[]]; rs_trace := [] |} /\
    r0 = Some {| rs_data := VObj [(9, VNull); (6, VInt 0)]; rs_errors := []; rs_trace := [(0, 6)] |}.
Proof.
  exists quirks_today, S0, w0, d_unknown, (cf_fast 1), 10%nat.
  eexists _, _, _, _. repeat split; vm_compute; reflexivity.
Qed.

(* non-vacuity: a query with a list, two extensions, no failing lookup *)
Example transparent_nonvacuous :
  match x_request quirks_today S0 w0 (Some d_query) None [] (cf_norm 2) 10 with
  | Ok (Some r, evs, false) =>
      value_eqb (rs_data r) (VObj [(6, VInt 0); (8, VList [VInt 4; VInt 5])]) &&
      Nat.eqb (length evs) 36 && lifecycle_ok 2 evs (Some (length (rs_trace r)))
  | _ => false
  end = true.
Proof. vm_compute. reflexivity. Qed.

(* a field collected under its own runtime object type cannot fail the lookup:
   the known class needs a static type name different from the runtime type *)
Lemma lookup_concrete S rt nm t : obj_field_ty S rt nm = Some t -> lookup_ret S rt nm = Some t.
Proof.
  unfold obj_field_ty, lookup_ret. destruct (tdef_of S rt) as [d|]; [|discriminate].
  destruct d; try discriminate. auto.
Qed.

(* SchedCheck.v — per-case verdict for gated runs that are judged on their event
   log alone (stream DSCHED of harness/src/bin/c04d.rs: dynamic executor
   src/dynamic/resolve.rs + schema.rs, and the static derive schema).
   C04, second half: the root fields of a mutation run one at a time in document
   order, each starting only after the previous one, its sub-selection included,
   has finished.  C05: the data is the data of the all-ready run. *)
From AG Require Export Sched.
Open Scope N_scope.

(* the event belongs to the root field with response key [k] (or lies beneath it) *)
Definition first_is (k : name) (e : item) : bool :=
  match e with
  | IStart (PF x :: _) => name_eqb x k
  | IEnd (PF x :: _) => name_eqb x k
  | _ => false
  end.

Fixpoint skipkey (k : name) (l : list item) : list item :=
  match l with
  | [] => []
  | e :: r => if first_is k e then skipkey k r else l
  end.

(* [keys]: response keys of the root field OCCURRENCES in document order (a repeated
   key may be executed once or once per occurrence: both are serial).  The log must
   split into consecutive segments, the i-th holding only events under keys[i]. *)
Fixpoint serial_keys (keys : list name) (l : list item) : bool :=
  match keys with
  | [] => match l with [] => true | _ => false end
  | k :: ks => serial_keys ks (skipkey k l)
  end.

Definition dcase := (bool * list name * list item * value * value)%type.

Definition check_dsched (c : dcase) : N :=
  let '(is_mut, keys, evs, ready, data) := c in
  if value_eqb data ready && (if is_mut then serial_keys keys evs else true) then 0 else 4.

(* Ws.v — C25: model of the WebSocket session state machine
   (src/http/websocket.rs, `impl Stream for WebSocket`, fn poll_next), the world
   it runs in (client frames in flight, init/ping callback answers, the source
   streams of the subscriptions, the keep-alive timer), and the specification:
   a protocol monitor written from the two protocol documents
   (subscriptions-transport-ws PROTOCOL.md = [Legacy],
    graphql-ws PROTOCOL.md = [Modern], i.e. Sec-WebSocket-Protocol
    graphql-transport-ws) and from the property text.
   Executable definitions only; proofs are in WsProofs.v. *)
From AG Require Export Base.
Open Scope N_scope.

Inductive proto := Legacy (* Protocols::SubscriptionsTransportWS *)
                 | Modern (* Protocols::GraphQLWS *).

(* Client frames after ClientMessage::from_bytes.  [CBad] is a frame serde
   rejects (invalid JSON, unknown "type", missing field).  [CEof] marks the end
   of the client stream.  start/subscribe and stop/complete are serde aliases
   of the same variant.  [inst] numbers the operation *instance*: it is
   allocated by the world when the frame is sent and names the source stream
   the subscription resolver will return. *)
Inductive cmsg :=
| CInit | CStart (id : name) (inst : N) | CStop (id : name)
| CTerminate | CPing | CPong | CBad | CEof.

Inductive event :=
| EClient (m : cmsg)        (* the client sends a frame / closes its side *)
| EInitDone (ok : bool)     (* the on_connection_init future gets its answer *)
| EPingDone (ok : bool)     (* an on_ping future gets its answer *)
| EItem (inst n : N)        (* source stream [inst] produces item [n] *)
| EEnd (inst : N)           (* source stream [inst] ends *)
| ETimer.                   (* the current keep-alive delay elapses *)

(* connection_error reasons: 1 timeout, 2 too many init, 3 init rejected,
   4 ping handler failed *)
Inductive out :=
| OAck | OConnErr (why : N)
| OData (id : name) (inst n : N)   (* {"type":"data"}  *)
| ONext (id : name) (inst n : N)   (* {"type":"next"}  *)
| OComplete (id : name) | OPong | OClose (code : N).

Inductive pres := RPending | REnd | RMsg (o : out).

(* [APoll c]: one call of poll_next; [c] names the stream the HashMap iteration
   reaches first among the ready ones (used only if admissible). *)
Inductive action := AEnv (e : event) | APoll (c : option name).
Inductive obs := ObsEnv | ObsPoll (k : nat) (r : pres) (* k = frames taken from the client stream *)
               | ObsSkip (* the consumer stopped polling after Ready(None) *).

Definition chan := (list N * bool)%type.   (* buffered items, ended *)

Record srv := mkSrv {
  closed : bool;                 (* close *)
  on_init : bool;                (* on_connection_init.is_some() *)
  init_fut : bool;               (* init_fut.is_some() *)
  ping_fut : bool;               (* ping_fut.is_some() *)
  acked : bool;                  (* data.is_some() *)
  streams : list (name * N) }.   (* streams: id -> running instance *)

Record env := mkEnv {
  inbox : list cmsg;             (* frames sent, not yet read *)
  init_q : list bool;            (* answers available to the init future *)
  ping_q : list bool;            (* answers available to ping futures *)
  chans : list (N * chan);       (* source streams by instance *)
  timer_fired : bool;            (* the current delay future is ready *)
  next_inst : N }.

Definition remove_key {A} (k : name) (l : list (name * A)) : list (name * A) :=
  filter (fun p => negb (name_eqb k (fst p))) l.
Definition insert {A} (k : name) (v : A) (l : list (name * A)) : list (name * A) :=
  remove_key k l ++ [(k, v)].

Definition set_closed (s : srv) : srv :=
  mkSrv true (on_init s) (init_fut s) (ping_fut s) (acked s) (streams s).
Definition set_streams (s : srv) (l : list (name * N)) : srv :=
  mkSrv (closed s) (on_init s) (init_fut s) (ping_fut s) (acked s) l.

Fixpoint has_eof (l : list cmsg) : bool :=
  match l with [] => false | CEof :: _ => true | _ :: r => has_eof r end.

(* ----------------------------------------------------------- the world -- *)
Definition push_client (inb : list cmsg) (ch : list (N * chan)) (nx : N) (m : cmsg)
  : list cmsg * list (N * chan) * N :=
  if has_eof inb then (inb, ch, nx)
  else match m with
       | CStart id _ => (inb ++ [CStart id nx], ch ++ [(nx, ([], false))], nx + 1)
       | _ => (inb ++ [m], ch, nx)
       end.

Definition chan_item (ch : list (N * chan)) (i n : N) : list (N * chan) :=
  match assoc i ch with
  | Some (b, false) => insert i (b ++ [n], false) ch
  | _ => ch
  end.
Definition chan_end (ch : list (N * chan)) (i : N) : list (N * chan) :=
  match assoc i ch with
  | Some (b, false) => insert i (b, true) ch
  | _ => ch
  end.

Section Session.
  Variable pr : proto.
  Variable ka : bool.     (* keepalive_timeout configured *)

  Definition env_step (e : env) (ev : event) : env :=
    match ev with
    | EClient m =>
        let '(inb, ch, nx) := push_client (inbox e) (chans e) (next_inst e) m in
        mkEnv inb (init_q e) (ping_q e) ch (timer_fired e) nx
    | EInitDone b => mkEnv (inbox e) (init_q e ++ [b]) (ping_q e) (chans e) (timer_fired e) (next_inst e)
    | EPingDone b => mkEnv (inbox e) (init_q e) (ping_q e ++ [b]) (chans e) (timer_fired e) (next_inst e)
    | EItem i n => mkEnv (inbox e) (init_q e) (ping_q e) (chan_item (chans e) i n) (timer_fired e) (next_inst e)
    | EEnd i => mkEnv (inbox e) (init_q e) (ping_q e) (chan_end (chans e) i) (timer_fired e) (next_inst e)
    | ETimer => mkEnv (inbox e) (init_q e) (ping_q e) (chans e) (ka || timer_fired e) (next_inst e)
    end.

  (* ------------------------------------------------------------- impl -- *)
  (* websocket.rs:327-421, the `while let Poll::Ready(message)` loop.
     Returns the server state, the timer flag (reset by every well-formed
     frame), the frames left, the number taken, and [Some r] if the loop
     returned from poll_next ([None]: it broke or the client stream is
     pending). *)
  Fixpoint drain (s : srv) (tf : bool) (inb : list cmsg) (k : nat)
    : srv * bool * list cmsg * nat * option pres :=
    match inb with
    | [] => (s, tf, [], k, None)
    | CEof :: _ => (s, tf, inb, k, Some REnd)
    | CBad :: r => (set_closed s, tf, r, S k, Some (RMsg (OClose 1002)))
    | CInit :: r =>
        if on_init s
        then (mkSrv (closed s) false true (ping_fut s) (acked s) (streams s), false, r, S k, None)
        else (set_closed s, false, r, S k,
              Some (RMsg match pr with Legacy => OConnErr 2 | Modern => OClose 4429 end))
    | CStart id inst :: r =>
        if acked s
        then drain (set_streams s (insert id inst (streams s))) false r (S k)
        else (set_closed s, false, r, S k, Some (RMsg (OClose 1011)))
    | CStop id :: r =>
        match assoc id (streams s) with
        | Some _ => (set_streams s (remove_key id (streams s)), false, r, S k, Some (RMsg (OComplete id)))
        | None => drain s false r (S k)
        end
    | CTerminate :: r => (set_closed s, false, r, S k, Some REnd)
    | CPing :: r => (mkSrv (closed s) (on_init s) (init_fut s) true (acked s) (streams s), false, r, S k, None)
    | CPong :: r => drain s false r (S k)
    end.

  Definition ready (ch : list (N * chan)) (i : N) : bool :=
    match assoc i ch with
    | Some (_ :: _, _) => true
    | Some ([], true) => true
    | _ => false
    end.

  Fixpoint first_ready (ch : list (N * chan)) (l : list (name * N)) : option name :=
    match l with
    | [] => None
    | (id, i) :: r => if ready ch i then Some id else first_ready ch r
    end.

  (* the stream the iteration `for (id, stream) in &mut *this.streams` finds
     ready first: the caller's choice if that stream is ready, otherwise the
     first ready one in the model's order *)
  Definition pick (ch : list (N * chan)) (l : list (name * N)) (c : option name) : option name :=
    match c with
    | Some id => match assoc id l with
                 | Some i => if ready ch i then Some id else first_ready ch l
                 | None => first_ready ch l
                 end
    | None => first_ready ch l
    end.

  Definition data_msg (id : name) (i n : N) : out :=
    match pr with Legacy => OData id i n | Modern => ONext id i n end.

  Definition fail_msg (why : N) : out :=
    match pr with Legacy => OConnErr why | Modern => OClose 1002 end.

  (* websocket.rs:475-493 *)
  Definition poll_streams (s : srv) (e : env) (k : nat) (c : option name) : srv * env * nat * pres :=
    match pick (chans e) (streams s) c with
    | None => (s, e, k, RPending)
    | Some id =>
        match assoc id (streams s) with
        | None => (s, e, k, RPending)
        | Some i =>
            match assoc i (chans e) with
            | Some (n :: b, en) =>
                (s, mkEnv (inbox e) (init_q e) (ping_q e) (insert i (b, en) (chans e)) (timer_fired e) (next_inst e),
                 k, RMsg (data_msg id i n))
            | Some ([], true) => (set_streams s (remove_key id (streams s)), e, k, RMsg (OComplete id))
            | _ => (s, e, k, RPending)
            end
        end
    end.

  (* websocket.rs:424-473 *)
  Definition poll_futs (s : srv) (e : env) (k : nat) (c : option name) : srv * env * nat * pres :=
    if init_fut s then
      match init_q e with
      | [] => (s, e, k, RPending)
      | true :: q =>
          (mkSrv (closed s) (on_init s) false (ping_fut s) true (streams s),
           mkEnv (inbox e) q (ping_q e) (chans e) (timer_fired e) (next_inst e), k, RMsg OAck)
      | false :: q =>
          (mkSrv true (on_init s) false (ping_fut s) (acked s) (streams s),
           mkEnv (inbox e) q (ping_q e) (chans e) (timer_fired e) (next_inst e), k, RMsg (fail_msg 3))
      end
    else if ping_fut s then
      match ping_q e with
      | [] => (s, e, k, RPending)
      | true :: q =>
          (mkSrv (closed s) (on_init s) (init_fut s) false (acked s) (streams s),
           mkEnv (inbox e) (init_q e) q (chans e) (timer_fired e) (next_inst e), k, RMsg OPong)
      | false :: q =>
          (mkSrv true (on_init s) (init_fut s) false (acked s) (streams s),
           mkEnv (inbox e) (init_q e) q (chans e) (timer_fired e) (next_inst e), k, RMsg (fail_msg 4))
      end
    else poll_streams s e k c.

  (* poll_next, websocket.rs:299-494 *)
  Definition poll (s : srv) (e : env) (c : option name) : srv * env * nat * pres :=
    if closed s then (s, e, O, REnd)
    else if ka && timer_fired e then
      (set_closed s, mkEnv (inbox e) (init_q e) (ping_q e) (chans e) false (next_inst e), O,
       RMsg match pr with Legacy => OConnErr 1 | Modern => OClose 3008 end)
    else if negb (init_fut s) && negb (ping_fut s) then
      let '(s1, tf, inb, k, early) := drain s (timer_fired e) (inbox e) O in
      let e1 := mkEnv inb (init_q e) (ping_q e) (chans e) tf (next_inst e) in
      match early with
      | Some r => (s1, e1, k, r)
      | None => poll_futs s1 e1 k c
      end
    else poll_futs s e O c.

  (* The session together with its consumer: an integration stops polling
     after Ready(None) (`while let Some(item) = stream.next().await`). *)
  Record sys := mkSys { sv : srv; en : env; fin : bool }.

  Definition act (y : sys) (a : action) : sys * obs :=
    match a with
    | AEnv ev => (mkSys (sv y) (env_step (en y) ev) (fin y), ObsEnv)
    | APoll c =>
        if fin y then (y, ObsSkip)
        else let '(s, e, k, r) := poll (sv y) (en y) c in
             (mkSys s e match r with REnd => true | _ => false end, ObsPoll k r)
    end.

  Fixpoint run (y : sys) (acts : list action) : list obs :=
    match acts with
    | [] => []
    | a :: l => let '(y', o) := act y a in o :: run y' l
    end.

  Definition sys0 : sys :=
    mkSys (mkSrv false true false false false []) (mkEnv [] [] [] [] false 0) false.

  (* ------------------------------------------------------------- spec -- *)
  (* The monitor follows the conversation as a protocol observer placed at the
     server's socket: it knows which frames the server has taken ([k] of each
     poll), which answers the application gave, what the source streams
     produced, and every message the server emitted. *)
  Record quirks := mkQ {
    q_dup_replaces : bool;   (* Modern: subscribe with a live id replaces it, no 4409 *)
    q_unauth_1011 : bool;    (* Modern: subscribe before ack closes 1011, not 4401 *)
    q_bad_1002 : bool }.     (* Modern: unreadable frame closes 1002, not 4400 *)
  Definition quirks_none := mkQ false false false.
  Definition quirks_today := mkQ true true true.

  Inductive cause := KTooMany | KUnauth | KDup | KBad | KTerm.

  Record mon := mkMon {
    m_inbox : list cmsg; m_chans : list (N * chan); m_next : N;   (* the world *)
    m_init_ans : option bool;   (* the application's (first) answer to connection_init *)
    m_pingfail : bool;          (* some ping handler answer was an error *)
    m_timer : bool;             (* a keep-alive delay elapsed *)
    m_fin : bool;               (* the outgoing stream ended *)
    m_closed : bool;            (* a close frame / connection_error was sent *)
    m_inits : bool;             (* connection_init received *)
    m_initdone : bool;          (* the connection_init was answered (ack or rejection) *)
    m_acked : bool;             (* connection_ack sent *)
    m_live : list (name * N);   (* running operations *)
    m_stopped : list name;      (* stopped by the client, completion not (yet) confirmed *)
    m_due : option cause;       (* a received frame obliges the server to close now *)
    m_overrun : bool;           (* the server read past such a frame *)
    m_quirk : N }.              (* first known deviation the monitor tolerated; 0 = none *)

  Definition mon0 : mon :=
    mkMon [] [] 0 None false false false false false false false [] [] None false 0.

  Variable q : quirks.

  Definition note (old k : N) : N := if old =? 0 then k else old.

  (* the server receives one client frame *)
  Definition recv (m : mon) (c : cmsg) : mon :=
    let upd inits live stopped due quirk :=
      mkMon (m_inbox m) (m_chans m) (m_next m) (m_init_ans m) (m_pingfail m) (m_timer m) (m_fin m)
            (m_closed m) inits (m_initdone m) (m_acked m) live stopped due (m_overrun m) quirk in
    let same := upd (m_inits m) (m_live m) (m_stopped m) (m_due m) (m_quirk m) in
    let due k := upd (m_inits m) (m_live m) (m_stopped m) (Some k) (m_quirk m) in
    match m_due m with
    | Some _ =>
        mkMon (m_inbox m) (m_chans m) (m_next m) (m_init_ans m) (m_pingfail m) (m_timer m) (m_fin m)
              (m_closed m) (m_inits m) (m_initdone m) (m_acked m) (m_live m) (m_stopped m) (m_due m) true (m_quirk m)
    | None =>
      match c with
      | CInit => if m_inits m then due KTooMany
                 else upd true (m_live m) (m_stopped m) None (m_quirk m)
      | CStart id i =>
          if negb (m_acked m) then due KUnauth
          else match assoc id (m_live m) with
               | None => upd (m_inits m) (insert id i (m_live m)) (m_stopped m) None (m_quirk m)
               | Some _ =>
                   match pr with
                   | Legacy => upd (m_inits m) (insert id i (m_live m)) (m_stopped m) None (m_quirk m)
                   | Modern =>
                       if q_dup_replaces q
                       then upd (m_inits m) (insert id i (m_live m)) (m_stopped m) None (note (m_quirk m) 1)
                       else due KDup
                   end
               end
      | CStop id =>
          match assoc id (m_live m) with
          | Some _ => upd (m_inits m) (remove_key id (m_live m)) (id :: m_stopped m) None (m_quirk m)
          | None => same
          end
      | CTerminate => due KTerm
      | CPing | CPong => same
      | CBad => due KBad
      | CEof => mkMon (m_inbox m) (m_chans m) (m_next m) (m_init_ans m) (m_pingfail m) (m_timer m) (m_fin m)
                      (m_closed m) (m_inits m) (m_initdone m) (m_acked m) (m_live m) (m_stopped m) (m_due m) true (m_quirk m)
      end
    end.

  (* Which answer closes the connection correctly for [k]; [Some 0] conforming,
     [Some c] tolerated as known deviation c, [None] wrong. *)
  Definition close_class (k : cause) (r : pres) : option N :=
    match pr, k, r with
    | _, KTerm, REnd => Some 0
    | _, KTerm, RMsg (OClose _) => Some 0
    | Legacy, _, RMsg (OClose _) => Some 0
    | Legacy, _, RMsg (OConnErr _) => Some 0
    | Modern, KTooMany, RMsg (OClose c) => if c =? 4429 then Some 0 else None
    | Modern, KUnauth, RMsg (OClose c) =>
        if c =? 4401 then Some 0 else if (c =? 1011) && q_unauth_1011 q then Some 2 else None
    | Modern, KDup, RMsg (OClose c) => if c =? 4409 then Some 0 else None
    | Modern, KBad, RMsg (OClose c) =>
        if c =? 4400 then Some 0 else if (c =? 1002) && q_bad_1002 q then Some 3 else None
    | _, _, _ => None
    end.

  Fixpoint remove_first (x : name) (l : list name) : list name :=
    match l with
    | [] => []
    | y :: r => if name_eqb x y then r else y :: remove_first x r
    end.

  Definition init_rejected (m : mon) : bool :=
    m_inits m && negb (m_initdone m) && match m_init_ans m with Some false => true | _ => false end.

  (* the server's answer to one poll when no received frame obliges it to close *)
  Definition normal (m : mon) (r : pres) : option mon :=
    let upd chs fin cl initdone ack live stopped :=
      mkMon (m_inbox m) chs (m_next m) (m_init_ans m) (m_pingfail m) (m_timer m) fin
            cl (m_inits m) initdone ack live stopped None false (m_quirk m) in
    let keep := Some m in
    let item id i n :=
      match assoc id (m_live m), assoc i (m_chans m) with
      | Some j, Some (x :: b, en) =>
          if (j =? i) && (x =? n)
          then Some (upd (insert i (b, en) (m_chans m)) false false (m_initdone m) (m_acked m) (m_live m) (m_stopped m))
          else None
      | _, _ => None
      end in
    match r with
    | RPending => keep
    | REnd => match m_inbox m with
              | CEof :: _ => Some (upd (m_chans m) true (m_closed m) (m_initdone m) (m_acked m) (m_live m) (m_stopped m))
              | _ => None
              end
    | RMsg OAck =>
        if m_inits m && negb (m_initdone m) && negb (m_acked m) &&
           match m_init_ans m with Some true => true | _ => false end
        then Some (upd (m_chans m) false false true true (m_live m) (m_stopped m))
        else None
    | RMsg (OData id i n) => match pr with Legacy => item id i n | Modern => None end
    | RMsg (ONext id i n) => match pr with Modern => item id i n | Legacy => None end
    | RMsg (OComplete id) =>
        if mem id (m_stopped m)
        then Some (upd (m_chans m) false false (m_initdone m) (m_acked m) (m_live m) (remove_first id (m_stopped m)))
        else match assoc id (m_live m) with
             | Some i => match assoc i (m_chans m) with
                         | Some ([], true) =>
                             Some (upd (m_chans m) false false (m_initdone m) (m_acked m) (remove_key id (m_live m)) (m_stopped m))
                         | _ => None
                         end
             | None => None
             end
    | RMsg OPong => keep
    | RMsg (OConnErr w) =>
        match pr with
        | Modern => None
        | Legacy =>
            if ((w =? 1) && m_timer m) || ((w =? 3) && init_rejected m) || ((w =? 4) && m_pingfail m)
            then Some (upd (m_chans m) false true (m_initdone m || (w =? 3)) (m_acked m) (m_live m) (m_stopped m))
            else None
        end
    | RMsg (OClose _) =>
        match pr with
        | Legacy => None
        | Modern =>
            if m_timer m || init_rejected m || m_pingfail m
            then Some (upd (m_chans m) false true true (m_acked m) (m_live m) (m_stopped m))
            else None
        end
    end.

  Definition set_inbox (m : mon) (l : list cmsg) : mon :=
    mkMon l (m_chans m) (m_next m) (m_init_ans m) (m_pingfail m) (m_timer m) (m_fin m)
          (m_closed m) (m_inits m) (m_initdone m) (m_acked m) (m_live m) (m_stopped m) (m_due m) (m_overrun m) (m_quirk m).

  Definition mon_poll (m : mon) (k : nat) (r : pres) : option mon :=
    if m_closed m then
      match k, r with
      | O, REnd => Some (mkMon (m_inbox m) (m_chans m) (m_next m) (m_init_ans m) (m_pingfail m) (m_timer m) true
                               true (m_inits m) (m_initdone m) (m_acked m) (m_live m) (m_stopped m) None false (m_quirk m))
      | _, _ => None        (* nothing is sent, nothing is read after a close *)
      end
    else if Nat.ltb (length (m_inbox m)) k then None
    else
      let m1 := fold_left recv (firstn k (m_inbox m)) (set_inbox m (skipn k (m_inbox m))) in
      if m_overrun m1 then None
      else match m_due m1 with
           | Some c =>
               match close_class c r with
               | Some d =>
                   Some (mkMon (m_inbox m1) (m_chans m1) (m_next m1) (m_init_ans m1) (m_pingfail m1) (m_timer m1)
                               match r with REnd => true | _ => false end
                               true (m_inits m1) (m_initdone m1) (m_acked m1) (m_live m1) (m_stopped m1) None false
                               (if d =? 0 then m_quirk m1 else note (m_quirk m1) d))
               | None => None
               end
           | None => normal m1 r
           end.

  Definition mon_env (m : mon) (ev : event) : mon :=
    match ev with
    | EClient c =>
        let '(inb, ch, nx) := push_client (m_inbox m) (m_chans m) (m_next m) c in
        mkMon inb ch nx (m_init_ans m) (m_pingfail m) (m_timer m) (m_fin m)
              (m_closed m) (m_inits m) (m_initdone m) (m_acked m) (m_live m) (m_stopped m) (m_due m) (m_overrun m) (m_quirk m)
    | EInitDone b =>
        mkMon (m_inbox m) (m_chans m) (m_next m) (match m_init_ans m with None => Some b | a => a end)
              (m_pingfail m) (m_timer m) (m_fin m)
              (m_closed m) (m_inits m) (m_initdone m) (m_acked m) (m_live m) (m_stopped m) (m_due m) (m_overrun m) (m_quirk m)
    | EPingDone b =>
        mkMon (m_inbox m) (m_chans m) (m_next m) (m_init_ans m) (m_pingfail m || negb b) (m_timer m) (m_fin m)
              (m_closed m) (m_inits m) (m_initdone m) (m_acked m) (m_live m) (m_stopped m) (m_due m) (m_overrun m) (m_quirk m)
    | EItem i n =>
        mkMon (m_inbox m) (chan_item (m_chans m) i n) (m_next m) (m_init_ans m) (m_pingfail m) (m_timer m) (m_fin m)
              (m_closed m) (m_inits m) (m_initdone m) (m_acked m) (m_live m) (m_stopped m) (m_due m) (m_overrun m) (m_quirk m)
    | EEnd i =>
        mkMon (m_inbox m) (chan_end (m_chans m) i) (m_next m) (m_init_ans m) (m_pingfail m) (m_timer m) (m_fin m)
              (m_closed m) (m_inits m) (m_initdone m) (m_acked m) (m_live m) (m_stopped m) (m_due m) (m_overrun m) (m_quirk m)
    | ETimer =>
        mkMon (m_inbox m) (m_chans m) (m_next m) (m_init_ans m) (m_pingfail m) (m_timer m || ka) (m_fin m)
              (m_closed m) (m_inits m) (m_initdone m) (m_acked m) (m_live m) (m_stopped m) (m_due m) (m_overrun m) (m_quirk m)
    end.

  Definition mon_step (m : mon) (a : action) (o : obs) : option mon :=
    match a, o with
    | AEnv ev, ObsEnv => Some (mon_env m ev)
    | APoll _, ObsSkip => if m_fin m then Some m else None
    | APoll _, ObsPoll k r => if m_fin m then None else mon_poll m k r
    | _, _ => None
    end.

  Fixpoint mon_run (m : mon) (acts : list action) (os : list obs) : option mon :=
    match acts, os with
    | [], [] => Some m
    | a :: l, o :: l' => match mon_step m a o with Some m' => mon_run m' l l' | None => None end
    | _, _ => None
    end.
End Session.

Definition accepts pr ka q acts os : bool :=
  match mon_run pr ka q mon0 acts os with Some _ => true | None => false end.

(* the first known deviation met by the (tolerant) monitor; 0 = none *)
Definition known_class pr ka acts os : N :=
  match mon_run pr ka quirks_today mon0 acts os with Some m => m_quirk m | None => 0 end.

(* -------------------------------------------------------- comparison -- *)
Definition out_eqb (a b : out) : bool :=
  match a, b with
  | OAck, OAck => true
  | OConnErr x, OConnErr y => x =? y
  | OData i j n, OData i' j' n' => (i =? i') && (j =? j') && (n =? n')
  | ONext i j n, ONext i' j' n' => (i =? i') && (j =? j') && (n =? n')
  | OComplete i, OComplete i' => i =? i'
  | OPong, OPong => true
  | OClose c, OClose c' => c =? c'
  | _, _ => false
  end.
Definition pres_eqb (a b : pres) : bool :=
  match a, b with
  | RPending, RPending => true
  | REnd, REnd => true
  | RMsg x, RMsg y => out_eqb x y
  | _, _ => false
  end.
Definition obs_eqb (a b : obs) : bool :=
  match a, b with
  | ObsEnv, ObsEnv => true
  | ObsSkip, ObsSkip => true
  | ObsPoll k r, ObsPoll k' r' => Nat.eqb k k' && pres_eqb r r'
  | _, _ => false
  end.

(* verdict for one session: [tr] pairs every action with what the real
   library answered. *)
Definition check_case (c : proto * bool * list (action * obs)) : N :=
  let '(pr, ka, tr) := c in
  let acts := map fst tr in
  let impl := map snd tr in
  let model := run pr ka (sys0) acts in
  let same := list_eqb obs_eqb impl model in
  verdict same
          (accepts pr ka quirks_none acts model)
          (accepts pr ka quirks_none acts impl)
          (if same then known_class pr ka acts model else known_class pr ka acts impl).

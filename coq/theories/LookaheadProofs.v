(* LookaheadProofs.v — proofs about Lookahead.v (no model definitions; only
   the auxiliary notions needed to state the theorems). *)
From AG Require Import Lookahead.

(* ------------------------------------------------------------- generic ---- *)
Lemma bindo_ok {A B} (x : outcome A) (f : A -> outcome B) y :
  bindo x f = Ok y -> exists a, x = Ok a /\ f a = Ok y.
Proof. destruct x; cbn; try discriminate. intros H. eauto. Qed.

Ltac inv_bind H :=
  let a := fresh "a" in let Ha := fresh "Ha" in
  apply bindo_ok in H; destruct H as (a & Ha & H).

(* subsequence: same elements, same order, some left out *)
Inductive sublist {A} : list A -> list A -> Prop :=
| sl_nil : sublist [] []
| sl_skip x l1 l2 : sublist l1 l2 -> sublist l1 (x :: l2)
| sl_keep x l1 l2 : sublist l1 l2 -> sublist (x :: l1) (x :: l2).

Lemma sublist_nil_l {A} (l : list A) : sublist [] l.
Proof. induction l; constructor; auto. Qed.

Lemma sublist_refl {A} (l : list A) : sublist l l.
Proof. induction l; [apply sl_nil|apply sl_keep; assumption]. Qed.

Lemma sublist_app {A} (a b c d : list A) : sublist a b -> sublist c d -> sublist (a ++ c) (b ++ d).
Proof.
  intros H; induction H; cbn; intros Hc.
  - exact Hc.
  - apply sl_skip. auto.
  - apply sl_keep. auto.
Qed.

Lemma sublist_incl {A} (a b : list A) : sublist a b -> incl a b.
Proof.
  intros H; induction H; intros y Hy.
  - exact Hy.
  - right. auto.
  - destruct Hy as [<-|Hy]; [left; reflexivity|right; auto].
Qed.

Lemma sublist_length {A} (a b : list A) : sublist a b -> length a <= length b.
Proof. intros H; induction H; cbn; lia. Qed.

Lemma sublist_filter {A} (p : A -> bool) (a b : list A) :
  sublist a b -> sublist (filter p a) (filter p b).
Proof.
  intros H; induction H; cbn.
  - apply sl_nil.
  - destruct (p x); [apply sl_skip|]; assumption.
  - destruct (p x); [apply sl_keep|]; assumption.
Qed.

Lemma sublist_trans {A} (a b c : list A) : sublist a b -> sublist b c -> sublist a c.
Proof.
  intros H1 H2. revert a H1. induction H2; intros a H1.
  - exact H1.
  - apply sl_skip. auto.
  - inversion H1; subst; [apply sl_skip|apply sl_keep]; auto.
Qed.

Definition omap {A B} (f : A -> B) (o : outcome A) : outcome B := bindo o (fun x => Ok (f x)).

Lemma omap_app {A B} (f : A -> B) (x y : outcome (list A)) :
  bindo (omap (map f) x) (fun a => bindo (omap (map f) y) (fun b => Ok (a ++ b))) =
  omap (map f) (bindo x (fun a => bindo y (fun b => Ok (a ++ b)))).
Proof. destruct x; cbn; try reflexivity. destruct y; cbn; try reflexivity. rewrite map_app. reflexivity. Qed.

Definition named (nm : name) (f : fieldn) : bool := name_eqb (f_name f) nm.

(* ------------------------------------------------- unfolding equations ---- *)
Section Eqs.
  Variable frags : list (name * fragment).
  Variable cond : name -> name -> option name -> option name.   (* any type-condition rule *)

  Lemma flat_sel_S n s :
    flat_sel frags (S n) s =
    match s with
    | SField a nm args d sub => Ok [mkF a nm args d sub]
    | SSpread nm _ => match assoc nm frags with
                      | Some fr => flat_list frags n (fr_sels fr)
                      | None => Ok []
                      end
    | SInline _ _ sub => flat_list frags n sub
    end.
  Proof. reflexivity. Qed.
  Lemma flat_list_S n x r :
    flat_list frags (S n) (x :: r) =
    bindo (flat_sel frags n x) (fun a => bindo (flat_list frags n r) (fun b => Ok (a ++ b))).
  Proof. reflexivity. Qed.
  Lemma flat_list_nil n : flat_list frags n [] = Ok [].
  Proof. destruct n; reflexivity. Qed.

  Lemma filter_sel_S n nm s :
    filter_sel frags (S n) nm s =
    match s with
    | SField a fnm args d sub => Ok (if name_eqb fnm nm then [mkF a fnm args d sub] else [])
    | SSpread f _ => match assoc f frags with
                     | Some fr => filter_list frags n nm (fr_sels fr)
                     | None => Ok []
                     end
    | SInline _ _ sub => filter_list frags n nm sub
    end.
  Proof. reflexivity. Qed.
  Lemma filter_list_S n nm x r :
    filter_list frags (S n) nm (x :: r) =
    bindo (filter_sel frags n nm x) (fun a => bindo (filter_list frags n nm r) (fun b => Ok (a ++ b))).
  Proof. reflexivity. Qed.
  Lemma filter_list_nil n nm : filter_list frags n nm [] = Ok [].
  Proof. destruct n; reflexivity. Qed.

  Lemma collect_sel_S n st rt s :
    collect_sel frags cond (S n) st rt s =
    match s with
    | SField a nm args d sub => Ok [mkF a nm args d sub]
    | SSpread nm _ =>
        match assoc nm frags with
        | None => Err E_UNKNOWN_FRAGMENT
        | Some fr =>
            match cond st rt (Some (fr_cond fr)) with
            | Some st' => collect_list frags cond n st' rt (fr_sels fr)
            | None => Ok []
            end
        end
    | SInline c _ sub =>
        match cond st rt c with
        | Some st' => collect_list frags cond n st' rt sub
        | None => Ok []
        end
    end.
  Proof. reflexivity. Qed.
  Lemma collect_list_S n st rt x r :
    collect_list frags cond (S n) st rt (x :: r) =
    bindo (collect_sel frags cond n st rt x) (fun a =>
    bindo (collect_list frags cond n st rt r) (fun b => Ok (a ++ b))).
  Proof. reflexivity. Qed.
  Lemma collect_list_nil n st rt : collect_list frags cond n st rt [] = Ok [].
  Proof. destruct n; reflexivity. Qed.

  (* ---- T1: what the executor resolves is a subsequence of the view ------- *)
  Lemma collect_sub_flat n :
    (forall st rt s c, collect_sel frags cond n st rt s = Ok c ->
       forall m v, flat_sel frags m s = Ok v -> sublist c v) /\
    (forall st rt l c, collect_list frags cond n st rt l = Ok c ->
       forall m v, flat_list frags m l = Ok v -> sublist c v).
  Proof.
    induction n as [|n [IHs IHl]].
    - split; [discriminate|]. intros st rt [|x r] c H m v Hv; [|discriminate].
      injection H as <-. apply sublist_nil_l.
    - split.
      + intros st rt s c H [|m] v Hv; [discriminate|].
        rewrite collect_sel_S in H. rewrite flat_sel_S in Hv.
        destruct s as [al nm args dirs sub|nm dirs|cd dirs sub].
        * injection H as <-. injection Hv as <-. apply sublist_refl.
        * destruct (assoc nm frags) as [fr|]; [|discriminate].
          destruct (cond st rt (Some (fr_cond fr))) as [st'|]; [eapply IHl; eauto|].
          injection H as <-. apply sublist_nil_l.
        * destruct (cond st rt cd) as [st'|]; [eapply IHl; eauto|].
          injection H as <-. apply sublist_nil_l.
      + intros st rt [|x r] c H m v Hv.
        * rewrite collect_list_nil in H. injection H as <-. apply sublist_nil_l.
        * destruct m as [|m]; [discriminate|].
          rewrite collect_list_S in H. rewrite flat_list_S in Hv.
          inv_bind H. inv_bind H. injection H as <-.
          inv_bind Hv. inv_bind Hv. injection Hv as <-.
          apply sublist_app; [eapply IHs|eapply IHl]; eauto.
  Qed.

  (* ---- T2: look_ahead::filter = the view restricted to one name ----------- *)
  Lemma filter_is_filter n nm :
    (forall s r, filter_sel frags n nm s = Ok r ->
       forall m v, flat_sel frags m s = Ok v -> r = filter (named nm) v) /\
    (forall l r, filter_list frags n nm l = Ok r ->
       forall m v, flat_list frags m l = Ok v -> r = filter (named nm) v).
  Proof.
    induction n as [|n [IHs IHl]].
    - split; [discriminate|]. intros [|x r0] r H m v Hv; [|discriminate].
      injection H as <-. rewrite flat_list_nil in Hv. injection Hv as <-. reflexivity.
    - split.
      + intros s r H [|m] v Hv; [discriminate|].
        rewrite filter_sel_S in H. rewrite flat_sel_S in Hv.
        destruct s as [al fnm args dirs sub|f dirs|cd dirs sub].
        * injection H as <-. injection Hv as <-. cbn [filter]. unfold named. cbn [f_name].
          destruct (name_eqb fnm nm); reflexivity.
        * destruct (assoc f frags) as [fr|]; [eapply IHl; eauto|].
          injection H as <-. injection Hv as <-. reflexivity.
        * eapply IHl; eauto.
      + intros [|x r0] r H m v Hv.
        * rewrite filter_list_nil in H. injection H as <-.
          rewrite flat_list_nil in Hv. injection Hv as <-. reflexivity.
        * destruct m as [|m]; [discriminate|].
          rewrite filter_list_S in H. rewrite flat_list_S in Hv.
          inv_bind H. inv_bind H. injection H as <-.
          inv_bind Hv. inv_bind Hv. injection Hv as <-.
          rewrite filter_app. f_equal; [eapply IHs|eapply IHl]; eauto.
  Qed.

  (* the look-ahead needs no more fuel than the view *)
  Lemma filter_total n nm :
    (forall s v, flat_sel frags n s = Ok v -> filter_sel frags n nm s = Ok (filter (named nm) v)) /\
    (forall l v, flat_list frags n l = Ok v -> filter_list frags n nm l = Ok (filter (named nm) v)).
  Proof.
    induction n as [|n [IHs IHl]].
    - split; [discriminate|]. intros [|x r0] v Hv; [|discriminate]. injection Hv as <-. reflexivity.
    - split.
      + intros s v Hv. rewrite flat_sel_S in Hv. rewrite filter_sel_S.
        destruct s as [al fnm args dirs sub|f dirs|cd dirs sub].
        * injection Hv as <-. cbn [filter]. unfold named. cbn [f_name]. destruct (name_eqb fnm nm); reflexivity.
        * destruct (assoc f frags) as [fr|]; [apply IHl; exact Hv|]. injection Hv as <-. reflexivity.
        * apply IHl; exact Hv.
      + intros [|x r0] v Hv.
        * rewrite flat_list_nil in Hv. injection Hv as <-. apply filter_list_nil.
        * rewrite flat_list_S in Hv. inv_bind Hv. inv_bind Hv. injection Hv as <-.
          rewrite filter_list_S, (IHs _ _ Ha), (IHl _ _ Ha0). cbn [bindo]. rewrite filter_app. reflexivity.
  Qed.

  (* ---- T3: every resolved field is found by the look-ahead ---------------- *)
  (* direct version: no assumption that the selection view terminates *)
  Lemma collect_sub_filter n nm :
    (forall st rt s c, collect_sel frags cond n st rt s = Ok c ->
       forall m r, filter_sel frags m nm s = Ok r -> sublist (filter (named nm) c) r) /\
    (forall st rt l c, collect_list frags cond n st rt l = Ok c ->
       forall m r, filter_list frags m nm l = Ok r -> sublist (filter (named nm) c) r).
  Proof.
    induction n as [|n [IHs IHl]].
    - split; [discriminate|]. intros st rt [|x r0] c H m r Hr; [|discriminate].
      injection H as <-. apply sublist_nil_l.
    - split.
      + intros st rt s c H [|m] r Hr; [discriminate|].
        rewrite collect_sel_S in H. rewrite filter_sel_S in Hr.
        destruct s as [al fnm args dirs sub|f dirs|cd dirs sub].
        * injection H as <-. injection Hr as <-. cbn [filter]. unfold named. cbn [f_name].
          destruct (name_eqb fnm nm); apply sublist_refl.
        * destruct (assoc f frags) as [fr|]; [|discriminate].
          destruct (cond st rt (Some (fr_cond fr))) as [st'|]; [eapply IHl; eauto|].
          injection H as <-. apply sublist_nil_l.
        * destruct (cond st rt cd) as [st'|]; [eapply IHl; eauto|].
          injection H as <-. apply sublist_nil_l.
      + intros st rt [|x r0] c H m r Hr.
        * rewrite collect_list_nil in H. injection H as <-. apply sublist_nil_l.
        * destruct m as [|m]; [discriminate|].
          rewrite collect_list_S in H. rewrite filter_list_S in Hr.
          inv_bind H. inv_bind H. injection H as <-.
          inv_bind Hr. inv_bind Hr. injection Hr as <-.
          rewrite filter_app. apply sublist_app; [eapply IHs|eapply IHl]; eauto.
  Qed.

  Lemma la_field_in m nm F fs r :
    In F fs -> la_field frags m nm fs = Ok r ->
    exists a, filter_list frags m nm (f_sels F) = Ok a /\ incl a r.
  Proof.
    revert r. induction fs as [|g fs IH]; intros r HF H; [destruct HF|].
    cbn [la_field] in H. inv_bind H. inv_bind H. injection H as <-.
    destruct HF as [->|HF].
    - exists a. split; [exact Ha|]. apply incl_appl, incl_refl.
    - destruct (IH _ HF Ha0) as (b & Hb & Hi). exists b. split; [exact Hb|].
      apply incl_appr. exact Hi.
  Qed.

  Lemma in_filter_named (g : fieldn) l : In g l -> In g (filter (named (f_name g)) l).
  Proof. intros H. apply filter_In. split; [exact H|]. unfold named. apply name_eqb_refl. Qed.

  Theorem resolved_found_by_lookahead n st rt F c g :
    collect_list frags cond n st rt (f_sels F) = Ok c -> In g c ->
    forall m fs r, In F fs -> la_field frags m (f_name g) fs = Ok r ->
    In g r /\ la_exists r = true.
  Proof.
    intros Hc Hg m fs r HF Hr.
    destruct (la_field_in _ _ _ _ _ HF Hr) as (a & Ha & Hi).
    assert (Hin : In g r).
    { apply Hi. eapply sublist_incl.
      - exact (proj2 (collect_sub_filter n (f_name g)) _ _ _ _ Hc _ _ Ha).
      - apply in_filter_named. exact Hg. }
    split; [exact Hin|]. destruct r; [destruct Hin|reflexivity].
  Qed.

  (* ---- T4: look-ahead chains follow every resolution path ------------------ *)
  (* [rpath F chain h]: h is resolved beneath ... beneath F along field names
     [chain], for some static/runtime types at every step. *)
  Inductive rpath : fieldn -> list name -> fieldn -> Prop :=
  | rp_nil F : rpath F [] F
  | rp_step F g h chain n st rt c :
      collect_list frags cond n st rt (f_sels F) = Ok c -> In g c ->
      rpath g chain h -> rpath F (f_name g :: chain) h.

  Theorem chain_follows_resolution F chain h :
    rpath F chain h ->
    forall m fs r, In F fs -> la_chain frags m chain fs = Ok r -> In h r /\ la_exists r = true.
  Proof.
    intros Hp. induction Hp as [F|F g h chain n st rt c Hc Hg Hp IH]; intros m fs r HF Hr.
    - cbn [la_chain] in Hr. injection Hr as <-. split; [exact HF|].
      destruct fs; [destruct HF|reflexivity].
    - cbn [la_chain] in Hr. inv_bind Hr.
      destruct (resolved_found_by_lookahead _ _ _ _ _ _ Hc Hg _ _ _ HF Ha) as [Hin _].
      exact (IH _ _ _ Hin Hr).
  Qed.

  (* ---- exactness: when every fragment condition met applies, the executor
     resolves exactly the view ------------------------------------------------ *)
  Fixpoint all_apply_sel (n : nat) (st rt : name) (s : selection) {struct n} : bool :=
    match n with
    | O => false
    | S n' =>
      match s with
      | SField _ _ _ _ _ => true
      | SSpread nm _ =>
          match assoc nm frags with
          | None => false
          | Some fr =>
              match cond st rt (Some (fr_cond fr)) with
              | Some st' => all_apply_list n' st' rt (fr_sels fr)
              | None => false
              end
          end
      | SInline c _ sub =>
          match cond st rt c with
          | Some st' => all_apply_list n' st' rt sub
          | None => false
          end
      end
    end
  with all_apply_list (n : nat) (st rt : name) (l : list selection) {struct n} : bool :=
    match l with
    | [] => true
    | x :: r => match n with
                | O => false
                | S n' => all_apply_sel n' st rt x && all_apply_list n' st rt r
                end
    end.

  Lemma collect_exact n :
    (forall st rt s, all_apply_sel n st rt s = true ->
       forall v, flat_sel frags n s = Ok v -> collect_sel frags cond n st rt s = Ok v) /\
    (forall st rt l, all_apply_list n st rt l = true ->
       forall v, flat_list frags n l = Ok v -> collect_list frags cond n st rt l = Ok v).
  Proof.
    induction n as [|n [IHs IHl]].
    - split; [discriminate|]. intros st rt [|x r] H v Hv; [|discriminate]. exact Hv.
    - split.
      + intros st rt s H v Hv. rewrite flat_sel_S in Hv. rewrite collect_sel_S.
        destruct s as [al nm args dirs sub|nm dirs|cd dirs sub]; cbn [all_apply_sel] in H.
        * exact Hv.
        * destruct (assoc nm frags) as [fr|]; [|discriminate].
          destruct (cond st rt (Some (fr_cond fr))) as [st'|]; [apply IHl; assumption|discriminate].
        * destruct (cond st rt cd) as [st'|]; [apply IHl; assumption|discriminate].
      + intros st rt [|x r] H v Hv.
        * rewrite flat_list_nil in Hv. rewrite collect_list_nil. exact Hv.
        * cbn [all_apply_list] in H. apply andb_true_iff in H. destruct H as [H1 H2].
          rewrite flat_list_S in Hv. inv_bind Hv. inv_bind Hv. injection Hv as <-.
          rewrite collect_list_S, (IHs _ _ _ H1 _ Ha), (IHl _ _ _ H2 _ Ha0). reflexivity.
  Qed.
End Eqs.

(* ------------------------------------------------------------ arguments ---- *)
Section Args.
  Variable vars : list (name * value).
  Variable vdefs : list vardef.

  Lemma view_args_cons n v r :
    view_args vars vdefs ((n, v) :: r) =
    bindo (riv vars vdefs v) (fun ov =>
    bindo (view_args vars vdefs r) (fun l =>
    Ok (match ov with Some x => (n, x) :: l | None => l end))).
  Proof. reflexivity. Qed.

  Lemma view_args_keys args l :
    view_args vars vdefs args = Ok l -> incl (map fst l) (map fst args).
  Proof.
    revert l. induction args as [|[n v] r IH]; intros l H.
    - injection H as <-. apply incl_refl.
    - rewrite view_args_cons in H. inv_bind H. inv_bind H. injection H as <-.
      specialize (IH _ Ha0). destruct a as [x|]; cbn [map fst].
      + intros y [<-|Hy]; [left; reflexivity|right; apply IH; exact Hy].
      + apply incl_tl. exact IH.
  Qed.

  Lemma assoc_not_in {A} k (l : list (name * A)) : ~ In k (map fst l) -> assoc k l = None.
  Proof.
    induction l as [|[k' v] l IH]; cbn [assoc map fst]; intros H; [reflexivity|].
    destruct (name_eqb k k') eqn:E.
    - apply name_eqb_eq in E. subst. exfalso. apply H. left. reflexivity.
    - apply IH. intros Hin. apply H. right. exact Hin.
  Qed.

  (* T5: the arguments the view reports are the values get_param_value
     resolves for the resolver — same Field node, same variables. *)
  Theorem view_args_are_params args l :
    view_args vars vdefs args = Ok l -> NoDup (map fst args) ->
    forall nm, param_raw vars vdefs nm args = Ok (assoc nm l).
  Proof.
    revert l. induction args as [|[n v] r IH]; intros l H ND nm.
    - injection H as <-. reflexivity.
    - rewrite view_args_cons in H. inv_bind H. inv_bind H. injection H as <-.
      cbn [map fst] in ND. inversion ND as [|? ? Hn ND']; subst.
      unfold param_raw. cbn [assoc]. destruct (name_eqb nm n) eqn:E.
      + apply name_eqb_eq in E. subst nm. rewrite Ha. f_equal.
        destruct a as [x|]; cbn [assoc]; [rewrite name_eqb_refl; reflexivity|].
        symmetry. apply assoc_not_in. intros Hin. apply Hn.
        exact (view_args_keys _ _ Ha0 _ Hin).
      + specialize (IH _ Ha0 ND' nm). unfold param_raw in IH. rewrite IH. f_equal.
        destruct a as [x|]; cbn [assoc]; [rewrite E|]; reflexivity.
  Qed.

  (* without the uniqueness assumption: whatever the resolver receives for an
     argument is listed by the view *)
  Theorem param_listed args l nm v :
    view_args vars vdefs args = Ok l ->
    param_raw vars vdefs nm args = Ok (Some v) -> In (nm, v) l.
  Proof.
    revert l. induction args as [|[n x] r IH]; intros l H Hp.
    - discriminate.
    - rewrite view_args_cons in H. inv_bind H. inv_bind H. injection H as <-.
      unfold param_raw in Hp. cbn [assoc] in Hp. destruct (name_eqb nm n) eqn:E.
      + apply name_eqb_eq in E. subst nm. rewrite Ha in Hp. injection Hp as ->. left. reflexivity.
      + assert (In (nm, v) a0) by (apply IH; [exact Ha0|exact Hp]).
        destruct a; [right|]; assumption.
  Qed.

  (* and every listed argument comes from an argument of the field *)
  Theorem listed_from_field args l nm v :
    view_args vars vdefs args = Ok l -> In (nm, v) l ->
    exists raw, In (nm, raw) args /\ riv vars vdefs raw = Ok (Some v).
  Proof.
    revert l. induction args as [|[n x] r IH]; intros l H Hin.
    - injection H as <-. destruct Hin.
    - rewrite view_args_cons in H. inv_bind H. inv_bind H. injection H as <-.
      destruct a as [y|].
      + destruct Hin as [E|Hin].
        * injection E as -> ->. exists x. split; [left; reflexivity|exact Ha].
        * destruct (IH _ Ha0 Hin) as (raw & H1 & H2). exists raw. split; [right|]; assumption.
      + destruct (IH _ Ha0 Hin) as (raw & H1 & H2). exists raw. split; [right|]; assumption.
  Qed.
End Args.

(* -------------------------------------------------------------- pruning ---- *)
Section PruneP.
  Variable vars : list (name * value).
  Variable frags : list (name * fragment).    (* ORIGINAL fragments *)
  Variable cond : name -> name -> option name -> option name.

  Lemma prune_sel_field a nm args d sub :
    prune_sel vars (SField a nm args d sub) = SField a nm args (strip d) (prune_list vars sub).
  Proof. reflexivity. Qed.
  Lemma prune_sel_inline c d sub :
    prune_sel vars (SInline c d sub) = SInline c (strip d) (prune_list vars sub).
  Proof. reflexivity. Qed.

  (* remove_skipped_selection = retain the unskipped, then strip and recurse *)
  Lemma prune_list_map l : prune_list vars l = map (prune_sel vars) (unskipped vars l).
  Proof.
    induction l as [|x r IH]; [reflexivity|].
    cbn [prune_list unskipped filter]. fold (unskipped vars r).
    destruct (is_skipped vars (sel_dirs x)); cbn [negb map]; rewrite IH; reflexivity.
  Qed.

  Lemma assoc_prune_frags nm :
    assoc nm (prune_frags vars frags) = option_map (prune_frag vars) (assoc nm frags).
  Proof.
    unfold prune_frags. induction frags as [|[k fr] r IH]; [reflexivity|].
    cbn [map assoc fst snd]. destruct (name_eqb nm k); [reflexivity|exact IH].
  Qed.

  Lemma sflat_sel_S n s :
    sflat_sel vars frags (S n) s =
    match s with
    | SField a nm args d sub => Ok [mkF a nm args d sub]
    | SSpread nm _ => match assoc nm frags with
                      | Some fr => sflat_list vars frags n (unskipped vars (fr_sels fr))
                      | None => Ok []
                      end
    | SInline _ _ sub => sflat_list vars frags n (unskipped vars sub)
    end.
  Proof. reflexivity. Qed.
  Lemma sflat_list_S n x r :
    sflat_list vars frags (S n) (x :: r) =
    bindo (sflat_sel vars frags n x) (fun a => bindo (sflat_list vars frags n r) (fun b => Ok (a ++ b))).
  Proof. reflexivity. Qed.
  Lemma sflat_list_nil n : sflat_list vars frags n [] = Ok [].
  Proof. destruct n; reflexivity. Qed.

  Lemma scollect_sel_S n st rt s :
    scollect_sel vars frags cond (S n) st rt s =
    match s with
    | SField a nm args d sub => Ok [mkF a nm args d sub]
    | SSpread nm _ =>
        match assoc nm frags with
        | None => Err E_UNKNOWN_FRAGMENT
        | Some fr =>
            match cond st rt (Some (fr_cond fr)) with
            | Some st' => scollect_list vars frags cond n st' rt (unskipped vars (fr_sels fr))
            | None => Ok []
            end
        end
    | SInline c _ sub =>
        match cond st rt c with
        | Some st' => scollect_list vars frags cond n st' rt (unskipped vars sub)
        | None => Ok []
        end
    end.
  Proof. reflexivity. Qed.
  Lemma scollect_list_S n st rt x r :
    scollect_list vars frags cond (S n) st rt (x :: r) =
    bindo (scollect_sel vars frags cond n st rt x) (fun a =>
    bindo (scollect_list vars frags cond n st rt r) (fun b => Ok (a ++ b))).
  Proof. reflexivity. Qed.
  Lemma scollect_list_nil n st rt : scollect_list vars frags cond n st rt [] = Ok [].
  Proof. destruct n; reflexivity. Qed.

  Let frags' := prune_frags vars frags.
  Let pf := map (prune_field vars).

  (* ---- T6: the view of the pruned document = the specified view of the
     original document (same fuel, same outcome, also when out of fuel) ------ *)
  Lemma flat_prune n :
    (forall s, flat_sel frags' n (prune_sel vars s) = omap pf (sflat_sel vars frags n s)) /\
    (forall l, flat_list frags' n (map (prune_sel vars) l) = omap pf (sflat_list vars frags n l)).
  Proof.
    induction n as [|n [IHs IHl]].
    - split; [reflexivity|]. intros [|x r]; reflexivity.
    - split.
      + intros s. rewrite sflat_sel_S.
        destruct s as [al nm args dirs sub|nm dirs|cd dirs sub].
        * rewrite prune_sel_field, flat_sel_S. reflexivity.
        * cbn [prune_sel]. rewrite flat_sel_S. unfold frags'. rewrite assoc_prune_frags.
          destruct (assoc nm frags) as [fr|]; cbn [option_map]; [|reflexivity].
          cbn [prune_frag fr_sels]. rewrite prune_list_map. apply IHl.
        * rewrite prune_sel_inline, flat_sel_S, prune_list_map. apply IHl.
      + intros [|x r].
        * cbn [map]. rewrite flat_list_nil, sflat_list_nil. reflexivity.
        * cbn [map]. rewrite flat_list_S, sflat_list_S, IHs, IHl. apply omap_app.
  Qed.

  Theorem view_fields_commute n l :
    flat_list frags' n (prune_list vars l) = omap pf (spec_fields vars frags n l).
  Proof. rewrite prune_list_map. apply (proj2 (flat_prune n)). Qed.

  (* the same for what the executor collects *)
  Lemma collect_prune n :
    (forall st rt s, collect_sel frags' cond n st rt (prune_sel vars s) =
                     omap pf (scollect_sel vars frags cond n st rt s)) /\
    (forall st rt l, collect_list frags' cond n st rt (map (prune_sel vars) l) =
                     omap pf (scollect_list vars frags cond n st rt l)).
  Proof.
    induction n as [|n [IHs IHl]].
    - split; [reflexivity|]. intros st rt [|x r]; reflexivity.
    - split.
      + intros st rt s. rewrite scollect_sel_S.
        destruct s as [al nm args dirs sub|nm dirs|cd dirs sub].
        * rewrite prune_sel_field, collect_sel_S. reflexivity.
        * cbn [prune_sel]. rewrite collect_sel_S. unfold frags'. rewrite assoc_prune_frags.
          destruct (assoc nm frags) as [fr|]; cbn [option_map]; [|reflexivity].
          cbn [prune_frag fr_sels fr_cond]. rewrite prune_list_map.
          destruct (cond st rt (Some (fr_cond fr))) as [st'|]; [apply IHl|reflexivity].
        * rewrite prune_sel_inline, collect_sel_S, prune_list_map.
          destruct (cond st rt cd) as [st'|]; [apply IHl|reflexivity].
      + intros st rt [|x r].
        * cbn [map]. rewrite collect_list_nil, scollect_list_nil. reflexivity.
        * cbn [map]. rewrite collect_list_S, scollect_list_S, IHs, IHl. apply omap_app.
  Qed.

  Theorem collect_commute n st rt l :
    collect_list frags' cond n st rt (prune_list vars l) =
    omap pf (scollect_list vars frags cond n st rt (unskipped vars l)).
  Proof. rewrite prune_list_map. apply (proj2 (collect_prune n)). Qed.

  (* the recursive view recorded by a resolver *)
  Variable vdefs : list vardef.

  Theorem view_commute n f :
    view_of vars vdefs frags' n (prune_field vars f) = sview_of vars vdefs frags n f.
  Proof.
    revert f. induction n as [|n IH]; intros f; [reflexivity|].
    cbn [view_of sview_of]. cbn [prune_field f_sels f_alias f_name f_args f_dirs].
    rewrite view_fields_commute.
    destruct (spec_fields vars frags n (f_sels f)) as [fs| | |]; cbn [omap bindo]; try reflexivity.
    assert (E : forall l,
      (fix go (l : list fieldn) : outcome (list sview) :=
         match l with
         | [] => Ok []
         | x :: r => bindo (view_of vars vdefs frags' n x) (fun a => bindo (go r) (fun b => Ok (a :: b)))
         end) (pf l) =
      (fix go (l : list fieldn) : outcome (list sview) :=
         match l with
         | [] => Ok []
         | x :: r => bindo (sview_of vars vdefs frags n x) (fun a => bindo (go r) (fun b => Ok (a :: b)))
         end) l).
    { induction l as [|x r IHr]; [reflexivity|]. unfold pf. cbn [map]. fold (pf r).
      rewrite IH, IHr. reflexivity. }
    rewrite E. reflexivity.
  Qed.

  (* ---- T7: a field removed by @skip/@include appears in no view ------------ *)
  (* [kept l f]: f is reachable from the selection set l of the ORIGINAL
     document through selections none of which is removed by its directives *)
  Inductive kept : list selection -> fieldn -> Prop :=
  | k_field l a nm args d sub :
      In (SField a nm args d sub) l -> is_skipped vars d = false ->
      kept l (mkF a nm args d sub)
  | k_inline l c d sub f :
      In (SInline c d sub) l -> is_skipped vars d = false -> kept sub f -> kept l f
  | k_spread l nm d fr f :
      In (SSpread nm d) l -> is_skipped vars d = false -> assoc nm frags = Some fr ->
      kept (fr_sels fr) f -> kept l f.

  Lemma kept_incl l l' f : incl l l' -> kept l f -> kept l' f.
  Proof.
    intros Hi H. destruct H.
    - apply k_field; auto.
    - eapply k_inline; eauto.
    - eapply k_spread; eauto.
  Qed.

  Lemma unskipped_in s l : In s (unskipped vars l) <-> In s l /\ is_skipped vars (sel_dirs s) = false.
  Proof.
    unfold unskipped. rewrite filter_In. split; intros [H1 H2]; split; auto.
    - destruct (is_skipped vars (sel_dirs s)); [discriminate|reflexivity].
    - rewrite H2. reflexivity.
  Qed.

  Lemma sflat_kept n :
    (forall s v, sflat_sel vars frags n s = Ok v -> is_skipped vars (sel_dirs s) = false ->
       forall f, In f v -> kept [s] f) /\
    (forall l v, sflat_list vars frags n l = Ok v ->
       (forall s, In s l -> is_skipped vars (sel_dirs s) = false) ->
       forall f, In f v -> kept l f).
  Proof.
    induction n as [|n [IHs IHl]].
    - split; [discriminate|]. intros [|x r] v H Hall f Hf; [|discriminate].
      injection H as <-. destruct Hf.
    - split.
      + intros s v H Hs f Hf. rewrite sflat_sel_S in H.
        destruct s as [al nm args dirs sub|nm dirs|cd dirs sub]; cbn [sel_dirs] in Hs.
        * injection H as <-. destruct Hf as [<-|[]]. apply k_field; [left; reflexivity|exact Hs].
        * destruct (assoc nm frags) as [fr|] eqn:E; [|injection H as <-; destruct Hf].
          eapply k_spread; [left; reflexivity|exact Hs|exact E|].
          eapply kept_incl; [|eapply IHl; [exact H| |exact Hf]].
          -- intros y Hy. apply unskipped_in in Hy. destruct Hy; assumption.
          -- intros y Hy. apply unskipped_in in Hy. destruct Hy; assumption.
        * eapply k_inline; [left; reflexivity|exact Hs|].
          eapply kept_incl; [|eapply IHl; [exact H| |exact Hf]].
          -- intros y Hy. apply unskipped_in in Hy. destruct Hy; assumption.
          -- intros y Hy. apply unskipped_in in Hy. destruct Hy; assumption.
      + intros [|x r] v H Hall f Hf.
        * rewrite sflat_list_nil in H. injection H as <-. destruct Hf.
        * rewrite sflat_list_S in H. inv_bind H. inv_bind H. injection H as <-.
          apply in_app_or in Hf. destruct Hf as [Hf|Hf].
          -- eapply kept_incl; [|eapply IHs; [exact Ha|apply Hall; left; reflexivity|exact Hf]].
             intros y [<-|[]]. left. reflexivity.
          -- eapply kept_incl; [|eapply IHl; [exact Ha0| |exact Hf]].
             ++ apply incl_tl, incl_refl.
             ++ intros y Hy. apply Hall. right. exact Hy.
  Qed.

  Theorem view_only_kept n l v g :
    flat_list frags' n (prune_list vars l) = Ok v -> In g v ->
    exists f, g = prune_field vars f /\ kept l f.
  Proof.
    intros H Hg. rewrite view_fields_commute in H. unfold omap in H. inv_bind H. injection H as <-.
    unfold pf in Hg. apply in_map_iff in Hg. destruct Hg as (f & <- & Hf).
    exists f. split; [reflexivity|].
    unfold spec_fields in Ha.
    eapply kept_incl; [|eapply (proj2 (sflat_kept n)); [exact Ha| |exact Hf]].
    - intros y Hy. apply unskipped_in in Hy. destruct Hy; assumption.
    - intros y Hy. apply unskipped_in in Hy. destruct Hy; assumption.
  Qed.

  (* conversely every kept field is listed (the pruning removes nothing else) *)
  Lemma sflat_list_in n l v s :
    sflat_list vars frags n l = Ok v -> In s l ->
    exists n' a, sflat_sel vars frags n' s = Ok a /\ incl a v.
  Proof.
    revert l v. induction n as [|n IH]; intros [|x r] v H Hs; try destruct Hs; try discriminate.
    - subst x. rewrite sflat_list_S in H. inv_bind H. inv_bind H. injection H as <-.
      exists n, a. split; [exact Ha|apply incl_appl, incl_refl].
    - rewrite sflat_list_S in H. inv_bind H. inv_bind H. injection H as <-.
      destruct (IH _ _ Ha0 H0) as (n' & b & Hb & Hi). exists n', b. split; [exact Hb|].
      apply incl_appr. exact Hi.
  Qed.

  Theorem kept_is_listed l f :
    kept l f -> forall n v, spec_fields vars frags n l = Ok v -> In f v.
  Proof.
    intros Hk. induction Hk as [l a nm args d sub Hin Hs|l c d sub f Hin Hs Hk IH|l nm d fr f Hin Hs E Hk IH];
      intros n v H; unfold spec_fields in H.
    - assert (Hu : In (SField a nm args d sub) (unskipped vars l)) by (apply unskipped_in; auto).
      destruct (sflat_list_in _ _ _ _ H Hu) as (n' & b & Hb & Hi).
      destruct n' as [|n']; [discriminate|]. rewrite sflat_sel_S in Hb. injection Hb as <-.
      apply Hi. left. reflexivity.
    - assert (Hu : In (SInline c d sub) (unskipped vars l)) by (apply unskipped_in; auto).
      destruct (sflat_list_in _ _ _ _ H Hu) as (n' & b & Hb & Hi).
      destruct n' as [|n']; [discriminate|]. rewrite sflat_sel_S in Hb.
      apply Hi. exact (IH _ _ Hb).
    - assert (Hu : In (SSpread nm d) (unskipped vars l)) by (apply unskipped_in; auto).
      destruct (sflat_list_in _ _ _ _ H Hu) as (n' & b & Hb & Hi).
      destruct n' as [|n']; [discriminate|]. rewrite sflat_sel_S, E in Hb.
      apply Hi. exact (IH _ _ Hb).
  Qed.

  (* a selection whose own directives remove it contributes nothing *)
  Theorem skipped_selection_unlisted n s :
    is_skipped vars (sel_dirs s) = true ->
    flat_list frags' n (prune_list vars [s]) = Ok [].
  Proof. intros H. cbn [prune_list]. rewrite H. apply flat_list_nil. Qed.
End PruneP.

(* ------------------------------------------------ the property, assembled ---- *)
(* For the request (document fragments [frags], variables [vars], operation
   variable definitions [vdefs]) the executor holds the pruned fragment table.
   For any field F of the pruned document, any static/runtime type and any
   fuel: if add_set collects c beneath F and g is in c, then g is in F's
   selection view, look_ahead().field(name g) exists and contains g, and the
   arguments the view shows for g are the parameters g's resolver is given. *)
Theorem c22_complete vars vdefs frags cond F n st rt c :
  let frags' := prune_frags vars frags in
  collect_list frags' cond n st rt (f_sels F) = Ok c ->
  (forall m v, flat_list frags' m (f_sels F) = Ok v -> sublist c v) /\
  (forall g, In g c ->
     (forall m r, la_field frags' m (f_name g) [F] = Ok r -> In g r /\ la_exists r = true) /\
     (forall l, view_args vars vdefs (f_args g) = Ok l -> NoDup (map fst (f_args g)) ->
        forall nm, param_raw vars vdefs nm (f_args g) = Ok (assoc nm l))).
Proof.
  intros frags' Hc. split.
  - intros m v Hv. exact (proj2 (collect_sub_flat frags' cond n) _ _ _ _ Hc _ _ Hv).
  - intros g Hg. split.
    + intros m r Hr. eapply resolved_found_by_lookahead; eauto. left. reflexivity.
    + intros l Hl ND nm. apply view_args_are_params; assumption.
Qed.

(* the same seen from the ORIGINAL document: what is resolved beneath F and
   what the views list are both images of the unskipped part *)
Theorem c22_relative_to_pruning vars vdefs frags cond n f :
  view_of vars vdefs (prune_frags vars frags) n (prune_field vars f) = sview_of vars vdefs frags n f /\
  (forall st rt, collect_list (prune_frags vars frags) cond n st rt (f_sels (prune_field vars f)) =
                 omap (map (prune_field vars)) (scollect_list vars frags cond n st rt (unskipped vars (f_sels f)))).
Proof.
  split; [apply view_commute|]. intros st rt. cbn [prune_field f_sels]. apply collect_commute.
Qed.

(* ------------------------------------------------------- non-vacuity ---- *)
(* { node { id @skip(if: $b) ...F ... on B { onlyB } } }  fragment F on Node { label }
   with $b = true; node is of interface type 20 (Node), runtime type 21 (A)
   implementing 20. *)
Definition ex_frags : list (name * fragment) :=
  [(30%N, {| fr_cond := 20%N; fr_dirs := []; fr_sels := [SField None 12%N [] [] []] |})].
Definition ex_field : fieldn :=
  mkF None 10%N [(40%N, VVar 41%N)] []
    [SField None 11%N [] [{| d_name := N_skip; d_args := [(N_if, VVar 42%N)] |}] [];
     SSpread 30%N [];
     SInline (Some 22%N) [] [SField None 13%N [] [] []]].
Definition ex_vars : list (name * value) := [(42%N, VBool true); (41%N, VInt 5)].
Definition ex_vdefs : list vardef :=
  [{| vd_name := 41%N; vd_ty := []; vd_default := None |}; {| vd_name := 42%N; vd_ty := []; vd_default := None |}].
Definition ex_impls : list (name * list name) := [(21%N, [20%N])].

Lemma c22_nonvacuous :
  let F := prune_field ex_vars ex_field in
  let frags' := prune_frags ex_vars ex_frags in
  collect_list frags' (cond_today ex_impls) 10 20%N 21%N (f_sels F) = Ok [mkF None 12%N [] [] []] /\
  flat_list frags' 10 (f_sels F) = Ok [mkF None 12%N [] [] []; mkF None 13%N [] [] []] /\
  la_field frags' 10 12%N [F] = Ok [mkF None 12%N [] [] []] /\
  la_field frags' 10 11%N [F] = Ok [] /\
  view_args ex_vars ex_vdefs (f_args F) = Ok [(40%N, VInt 5)].
Proof. vm_compute. repeat split. Qed.

(* ----------------------------------- the model's whole invocation tree ---- *)
(* [tree_listed t]: every resolver invocation recorded directly beneath an
   invocation has its own view among the sub-views of the enclosing
   invocation's view — at every depth of the tree. *)
Inductive tree_listed : tnode -> Prop :=
| tl_intro c v r p gs :
    (forall o ch t, In (o, ch) gs -> In t ch -> In (tn_view t) (sv_sub v) /\ tree_listed t) ->
    tree_listed (TN c v r p gs).

Section ModelTree.
  Variable S : lschema.
  Variable vars : list (name * value).
  Variable vdefs : list vardef.
  Variable frags : list (name * fragment).
  Variable cond : name -> name -> option name -> option name.

  Section Z.
    Variable n' : nat.
    Fixpoint viewsm (l : list fieldn) : outcome (list sview) :=
      match l with
      | [] => Ok []
      | x :: r => bindo (view_of vars vdefs frags n' x) (fun a => bindo (viewsm r) (fun b => Ok (a :: b)))
      end.
    Variable o : name.
    Fixpoint zipm (fs : list fieldn) (ch : list tnode) : outcome (list tnode) :=
      match fs with
      | [] => Ok []
      | c :: fs' => bindo (model_node S vars vdefs frags cond n' o c (hd dummy_node ch)) (fun t =>
                    bindo (zipm fs' (tl ch)) (fun r => Ok (t :: r)))
      end.
  End Z.

  Section G.
    Variable n' : nat.
    Variable cont : name.
    Variable f : fieldn.
    Fixpoint groupsm (gl : list (name * list tnode)) : outcome (list (name * list tnode)) :=
      match gl with
      | [] => Ok []
      | (o, ch) :: r =>
          bindo (collect_list frags cond n' (ret_type S cont f) o (f_sels f)) (fun fs =>
          bindo (zipm n' o (resolvable fs) ch) (fun ch' =>
          bindo (groupsm r) (fun r' => Ok ((o, ch') :: r'))))
      end.
  End G.

  Lemma view_of_S n f :
    view_of vars vdefs frags (Datatypes.S n) f =
    bindo (flat_list frags n (f_sels f)) (fun fs =>
    bindo (viewsm n fs) (fun subs =>
    Ok (SV (f_alias f) (f_name f) (o2opt (view_args vars vdefs (f_args f)))
           (o2opt (view_dirs vars vdefs (f_dirs f))) subs))).
  Proof. reflexivity. Qed.

  Lemma model_node_S n cont f orc :
    model_node S vars vdefs frags cond (Datatypes.S n) cont f orc =
    bindo (view_of vars vdefs frags n f) (fun v =>
    bindo (probes_of vars vdefs frags n f (chains S)) (fun pr =>
    bindo (groupsm n cont f (tn_groups orc)) (fun gs =>
    Ok (TN cont v (recv_of S vars vdefs cont f) pr gs)))).
  Proof. reflexivity. Qed.

  Lemma viewsm_in n l subs x :
    viewsm n l = Ok subs -> In x l ->
    exists s, view_of vars vdefs frags n x = Ok s /\ In s subs.
  Proof.
    revert subs. induction l as [|y r IH]; intros subs H Hx; [destruct Hx|].
    cbn [viewsm] in H. inv_bind H. inv_bind H. injection H as <-.
    destruct Hx as [->|Hx].
    - exists a. split; [exact Ha|left; reflexivity].
    - destruct (IH _ Ha0 Hx) as (s & H1 & H2). exists s. split; [exact H1|right; exact H2].
  Qed.

  Lemma zipm_in n o fs ch ts t :
    zipm n o fs ch = Ok ts -> In t ts ->
    exists c orc, In c fs /\ model_node S vars vdefs frags cond n o c orc = Ok t.
  Proof.
    revert ch ts. induction fs as [|c fs IH]; intros ch ts H Ht.
    - injection H as <-. destruct Ht.
    - cbn [zipm] in H. inv_bind H. inv_bind H. injection H as <-.
      destruct Ht as [<-|Ht].
      + exists c, (hd dummy_node ch). split; [left; reflexivity|exact Ha].
      + destruct (IH _ _ Ha0 Ht) as (c' & orc & H1 & H2). exists c', orc. split; [right; exact H1|exact H2].
  Qed.

  Lemma groupsm_in n cont f gl gs o ch' :
    groupsm n cont f gl = Ok gs -> In (o, ch') gs ->
    exists fs ch, collect_list frags cond n (ret_type S cont f) o (f_sels f) = Ok fs /\
                  zipm n o (resolvable fs) ch = Ok ch'.
  Proof.
    revert gs. induction gl as [|[o0 ch0] r IH]; intros gs H Hin.
    - injection H as <-. destruct Hin.
    - cbn [groupsm] in H. inv_bind H. inv_bind H. inv_bind H. injection H as <-.
      destruct Hin as [E|Hin].
      + injection E as <- <-. exists a, ch0. split; assumption.
      + exact (IH _ Ha1 Hin).
  Qed.

  (* T8: in the model's invocation tree — for every oracle of runtime types,
     every field, every fuel — each resolver invoked beneath a resolver is
     listed, with its complete own view, in that resolver's selection view. *)
  Theorem model_tree_listed n cont f orc t :
    model_node S vars vdefs frags cond n cont f orc = Ok t -> tree_listed t.
  Proof.
    revert cont f orc t. induction n as [|n IH]; intros cont f orc t H; [discriminate|].
    rewrite model_node_S in H. inv_bind H. inv_bind H. inv_bind H. injection H as <-.
    constructor. intros o ch' t' Hg Ht'.
    destruct (groupsm_in _ _ _ _ _ _ _ Ha1 Hg) as (fs & ch & Hc & Hz).
    destruct (zipm_in _ _ _ _ _ _ Hz Ht') as (c & orc' & Hcin & Hm).
    split; [|exact (IH _ _ _ _ Hm)].
    destruct n as [|n]; [discriminate|].
    rewrite view_of_S in Ha. inv_bind Ha. inv_bind Ha. injection Ha as <-. cbn [sv_sub].
    rewrite model_node_S in Hm. inv_bind Hm. inv_bind Hm. inv_bind Hm. injection Hm as <-. cbn [tn_view].
    assert (Hfl : In c a2).
    { eapply sublist_incl.
      - exact (proj2 (collect_sub_flat frags cond (Datatypes.S n)) _ _ _ _ Hc _ _ Ha2).
      - unfold resolvable in Hcin. apply filter_In in Hcin. tauto. }
    destruct (viewsm_in _ _ _ _ Ha3 Hfl) as (s & Hs & Hin).
    match goal with
    | Hv : view_of vars vdefs frags n c = Ok _ |- _ => rewrite Hs in Hv; injection Hv as <-
    end.
    exact Hin.
  Qed.
End ModelTree.

Theorem model_roots_listed S vars vdefs frags cond n root sels orc ts :
  model_roots S vars vdefs frags cond n root sels orc = Ok ts -> Forall tree_listed ts.
Proof.
  unfold model_roots. intros H. inv_bind H.
  change (zipm S vars vdefs frags cond n root (resolvable a) orc = Ok ts) in H.
  apply Forall_forall. intros t Ht.
  destruct (zipm_in _ _ _ _ _ _ _ _ _ _ _ H Ht) as (c & orc' & _ & Hm).
  exact (model_tree_listed _ _ _ _ _ _ _ _ _ _ Hm).
Qed.

(* ------------------------------------------- results do not depend on fuel ---- *)
Section FuelIndep.
  Variable frags : list (name * fragment).
  Variable cond : name -> name -> option name -> option name.

  Lemma flat_fuel_indep n :
    (forall s v, flat_sel frags n s = Ok v -> forall m v', flat_sel frags m s = Ok v' -> v = v') /\
    (forall l v, flat_list frags n l = Ok v -> forall m v', flat_list frags m l = Ok v' -> v = v').
  Proof.
    induction n as [|n [IHs IHl]].
    - split; [discriminate|]. intros [|x r] v H m v' H'; [|discriminate].
      injection H as <-. rewrite flat_list_nil in H'. injection H' as <-. reflexivity.
    - split.
      + intros s v H [|m] v' H'; [discriminate|]. rewrite flat_sel_S in H, H'.
        destruct s as [al nm args dirs sub|nm dirs|cd dirs sub].
        * congruence.
        * destruct (assoc nm frags); [eapply IHl; eauto|congruence].
        * eapply IHl; eauto.
      + intros [|x r] v H m v' H'.
        * rewrite flat_list_nil in H, H'. congruence.
        * destruct m as [|m]; [discriminate|]. rewrite flat_list_S in H, H'.
          inv_bind H. inv_bind H. injection H as <-.
          inv_bind H'. inv_bind H'. injection H' as <-.
          f_equal; [eapply IHs|eapply IHl]; eauto.
  Qed.

  Lemma collect_fuel_indep n :
    (forall st rt s v, collect_sel frags cond n st rt s = Ok v ->
       forall m v', collect_sel frags cond m st rt s = Ok v' -> v = v') /\
    (forall st rt l v, collect_list frags cond n st rt l = Ok v ->
       forall m v', collect_list frags cond m st rt l = Ok v' -> v = v').
  Proof.
    induction n as [|n [IHs IHl]].
    - split; [discriminate|]. intros st rt [|x r] v H m v' H'; [|discriminate].
      injection H as <-. rewrite collect_list_nil in H'. injection H' as <-. reflexivity.
    - split.
      + intros st rt s v H [|m] v' H'; [discriminate|]. rewrite collect_sel_S in H, H'.
        destruct s as [al nm args dirs sub|nm dirs|cd dirs sub].
        * congruence.
        * destruct (assoc nm frags) as [fr|]; [|discriminate].
          destruct (cond st rt (Some (fr_cond fr))) as [st'|]; [eapply IHl; eauto|congruence].
        * destruct (cond st rt cd) as [st'|]; [eapply IHl; eauto|congruence].
      + intros st rt [|x r] v H m v' H'.
        * rewrite collect_list_nil in H, H'. congruence.
        * destruct m as [|m]; [discriminate|]. rewrite collect_list_S in H, H'.
          inv_bind H. inv_bind H. injection H as <-.
          inv_bind H'. inv_bind H'. injection H' as <-.
          f_equal; [eapply IHs|eapply IHl]; eauto.
  Qed.
End FuelIndep.

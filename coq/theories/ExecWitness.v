(* ExecWitness.v — a small concrete schema/world and the witnesses of the
   recorded deviations (all by vm_compute). *)
From AG Require Import ExecCheck.
Open Scope N_scope.

(* names: types 10 Query, 11 A, 12 B, 13 Node, 14 Pair, 15 Int, 16 Float, 17 String;
   fields 20 a, 21 b, 22 bs, 23 id, 24 name, 25 score, 26 node *)
Definition m_fields : list (name * ty) :=
  [ (20, TNamed 11); (21, TNonNull (TNamed 12)); (22, TNonNull (TList (TNonNull (TNamed 12))));
    (23, TNonNull (TNamed 15)); (24, TNamed 17); (25, TNonNull (TNamed 16)); (26, TNamed 13) ].
Definition m_schema : schema :=
  {| s_types := [ (10, DObject m_fields []); (11, DObject m_fields [13]); (12, DObject m_fields [13]);
                  (13, DInterface [(23, TNonNull (TNamed 15)); (24, TNamed 17)] [11; 12]);
                  (14, DUnion [11; 12]); (15, DScalar 0); (16, DScalar 1); (17, DScalar 2) ];
     s_query := 10; s_mutation := Some 10;
     s_tname := [(10, [81]); (11, [65]); (12, [66])] |}.

Definition m_world (a_fields b_fields : list (name * outv)) : world :=
  {| w_nodes := [ (0, {| n_ty := 10; n_fields := [(20, ORef 2); (21, ORef 3); (22, OList [ORef 3; ORef 3]); (26, ORef 2)] |});
                  (1, {| n_ty := 10; n_fields := [(20, ORef 2)] |});
                  (2, {| n_ty := 11; n_fields := a_fields |});
                  (3, {| n_ty := 12; n_fields := b_fields |}) ];
     w_defaults := [(25, OFloat 4609434218613702656); (22, OList [])];
     w_idname := 23 |}.

Definition fld (nm : name) (sub : list selection) : selection := SField None nm [] [] sub.
Definition qdoc (ty : optype) (vds : list vardef) (sels : list selection) (frs : list (name * fragment)) : document :=
  {| doc_ops := [ {| op_name := None; op_ty := ty; op_vars := vds; op_dirs := []; op_sels := sels |} ];
     doc_frags := frs |}.

Definition data_of (r : outcome response) : option value :=
  match r with Ok x => Some (rs_data x) | _ => None end.
Definition errs_of (r : outcome response) : option (list path) :=
  match r with Ok x => Some (rs_errors x) | _ => None end.
Definition trace_of (r : outcome response) : option (list (N * name)) :=
  match r with Ok x => Some (rs_trace x) | _ => None end.

(* 4: { a { id name } } with a.name failing: parent nulled instead of the field *)
Definition w4 := m_world [(24, OErr)] [].
Definition d4 := qdoc OpQuery [] [fld 20 [fld 23 []; fld 24 []]] [].
Lemma w_field_error :
  data_of (impl_exec quirks_today m_schema w4 d4 None [] 50) = Some (VObj [(20, VNull)]) /\
  data_of (spec_exec m_schema w4 d4 None [] 50) = Some (VObj [(20, VObj [(23, VInt 2); (24, VNull)])]) /\
  data_of (impl_exec quirks_none m_schema w4 d4 None [] 50) = data_of (spec_exec m_schema w4 d4 None [] 50).
Proof. repeat split; vm_compute; reflexivity. Qed.

(* 7: { a { id } a { b { score } } } with a.b.score failing: partial object survives *)
Definition w7 := m_world [(21, ORef 3)] [(25, OErr)].
Definition d7 := qdoc OpQuery [] [fld 20 [fld 23 []]; fld 20 [fld 21 [fld 25 []]]] [].
Lemma w_per_occurrence :
  data_of (impl_exec quirks_today m_schema w7 d7 None [] 50) = Some (VObj [(20, VObj [(23, VInt 2)])]) /\
  data_of (spec_exec m_schema w7 d7 None [] 50) = Some (VObj [(20, VNull)]) /\
  trace_of (impl_exec quirks_today m_schema w7 d7 None [] 50) = Some [(0, 20); (2, 23); (0, 20); (2, 21); (3, 25)] /\
  trace_of (spec_exec m_schema w7 d7 None [] 50) = Some [(0, 20); (2, 23); (2, 21); (3, 25)].
Proof. repeat split; vm_compute; reflexivity. Qed.

(* 5: { bs { id score } } with score failing: the error path is cut at the list item *)
Definition w5 := m_world [] [(25, OErr)].
Definition d5 := qdoc OpQuery [] [fld 22 [fld 23 []; fld 25 []]] [].
Lemma w_list_path :
  errs_of (impl_exec quirks_today m_schema w5 d5 None [] 50) = Some [[PF 22; PI 0]] /\
  errs_of (spec_exec m_schema w5 d5 None [] 50) = Some [[PF 22; PI 0; PF 25]; [PF 22; PI 1; PF 25]] /\
  errs_of (impl_exec quirks_none m_schema w5 d5 None [] 50) = Some [[PF 22; PI 0; PF 25]] /\
  data_of (impl_exec quirks_today m_schema w5 d5 None [] 50) = Some VNull /\
  data_of (spec_exec m_schema w5 d5 None [] 50) = Some VNull.
Proof. repeat split; vm_compute; reflexivity. Qed.

(* 6: { node { id name } } (node : Node -> an A) with name failing: error without path *)
Definition d6 := qdoc OpQuery [] [fld 26 [fld 23 []; fld 24 []]] [].
Lemma w_iface_path :
  errs_of (impl_exec quirks_today m_schema w4 d6 None [] 50) = Some [[]] /\
  errs_of (spec_exec m_schema w4 d6 None [] 50) = Some [[PF 26; PF 24]].
Proof. repeat split; vm_compute; reflexivity. Qed.

(* 3: { b { score } } with score = NaN at Float! *)
Definition w3 := m_world [] [(25, OFloat 9221120237041090560)].
Definition d3 := qdoc OpQuery [] [fld 21 [fld 25 []]] [].
Lemma w_nan :
  data_of (impl_exec quirks_today m_schema w3 d3 None [] 50) = Some (VObj [(21, VObj [(25, VNull)])]) /\
  errs_of (impl_exec quirks_today m_schema w3 d3 None [] 50) = Some [].
Proof. repeat split; vm_compute; reflexivity. Qed.

(* 2: { node { ... on Pair { id } } a { ... on Pair { __typename } } } *)
Definition w0 := m_world [] [].
Definition d2 := qdoc OpQuery []
  [fld 26 [SInline (Some 14) [] [fld 23 []]]; fld 20 [SInline (Some 14) [] [fld N_typename []]]] [].
Lemma w_union_cond :
  data_of (impl_exec quirks_today m_schema w0 d2 None [] 50) = Some (VObj [(26, VObj []); (20, VObj [])]) /\
  data_of (spec_exec m_schema w0 d2 None [] 50) = Some (VObj [(26, VObj [(23, VInt 2)]); (20, VObj [(N_typename, VStr [65])])]).
Proof. repeat split; vm_compute; reflexivity. Qed.

(* 1: query($s: Boolean = true) { a @skip(if: $s) { id } b @include(if: $s) { id } } *)
Definition d1 := qdoc OpQuery [{| vd_name := 30; vd_ty := []; vd_default := Some (VBool true) |}]
  [SField None 20 [] [{| d_name := N_skip; d_args := [(N_if, VVar 30)] |}] [fld 23 []];
   SField None 21 [] [{| d_name := N_include; d_args := [(N_if, VVar 30)] |}] [fld 23 []]] [].
Lemma w_skip_default :
  data_of (impl_exec quirks_today m_schema w0 d1 None [] 50) = Some (VObj [(20, VObj [(23, VInt 2)])]) /\
  data_of (spec_exec m_schema w0 d1 None [] 50) = Some (VObj [(21, VObj [(23, VInt 3)])]).
Proof. repeat split; vm_compute; reflexivity. Qed.

(* mutation { a { id } a { id } }: Mutation.a runs twice *)
Definition dm := qdoc OpMutation [] [fld 20 [fld 23 []]; fld 20 [fld 23 []]] [].
Lemma w_mutation_twice :
  trace_of (impl_exec quirks_today m_schema w0 dm None [] 50) = Some [(1, 20); (2, 23); (1, 20); (2, 23)] /\
  trace_of (spec_exec m_schema w0 dm None [] 50) = Some [(1, 20); (2, 23)] /\
  trace_of (impl_exec quirks_none m_schema w0 dm None [] 50) = Some [(1, 20); (2, 23)].
Proof. repeat split; vm_compute; reflexivity. Qed.

(* non-vacuity: a fault-free nested query where today's model, the corrected model and the spec agree *)
Definition dn := qdoc OpQuery [] [fld 20 [fld 23 []; fld 24 []; fld 21 [fld 23 []]]; fld 22 [fld 23 []]; fld N_typename []] [].
Definition wn := m_world [(21, ORef 3); (24, OStr [104; 105])] [].
Lemma w_nonvacuous :
  data_of (impl_exec quirks_today m_schema wn dn None [] 50) = data_of (spec_exec m_schema wn dn None [] 50) /\
  data_of (spec_exec m_schema wn dn None [] 50) =
    Some (VObj [(20, VObj [(23, VInt 2); (24, VStr [104; 105]); (21, VObj [(23, VInt 3)])]);
                (22, VList [VObj [(23, VInt 3)]; VObj [(23, VInt 3)]]); (N_typename, VStr [81])]) /\
  errs_of (impl_exec quirks_today m_schema wn dn None [] 50) = Some [].
Proof. repeat split; vm_compute; reflexivity. Qed.

(* IntrospectProofs.v — proofs about Introspect.v (no model definitions). *)
From AG Require Import Introspect.
Open Scope N_scope.

(* ------------------------------------------------------------ generic ---- *)
Lemma bindo_ok {A B} (x : outcome A) (f : A -> outcome B) y :
  bindo x f = Ok y -> exists a, x = Ok a /\ f a = Ok y.
Proof. destruct x; cbn; try discriminate. intros H. eauto. Qed.

Lemma assoc_In {A} k (l : list (name * A)) v : assoc k l = Some v -> In (k, v) l.
Proof.
  induction l as [|[k' v'] l IH]; cbn; [discriminate|].
  destruct (name_eqb k k') eqn:E.
  - apply name_eqb_eq in E. subst. intros H. inversion H. subst. now left.
  - intros H. right. now apply IH.
Qed.

Lemma In_assoc {A} k (l : list (name * A)) v :
  NoDup (map fst l) -> In (k, v) l -> assoc k l = Some v.
Proof.
  induction l as [|[k' v'] l IH]; cbn; [tauto|].
  intros ND [H|H].
  - inversion H. subst. now rewrite name_eqb_refl.
  - inversion ND as [|? ? Hn ND']. subst.
    destruct (name_eqb k k') eqn:E.
    + apply name_eqb_eq in E. subst. exfalso. apply Hn.
      change k' with (fst (k', v)). now apply in_map.
    + now apply IH.
Qed.

Lemma mem_false_In k l : mem k l = false <-> ~ In k l.
Proof. rewrite <- mem_In. destruct (mem k l); split; congruence. Qed.

Lemma nodupb_NoDup l : nodupb l = true -> NoDup l.
Proof.
  induction l as [|x l IH]; cbn; [constructor|].
  intros H. apply andb_true_iff in H as [H1 H2]. constructor; [|now apply IH].
  apply mem_false_In. now destruct (mem x l).
Qed.


Lemma wf_keys_name R k ty : wf_keys R = true -> In (k, ty) (r_types R) -> mt_name ty = k.
Proof.
  unfold wf_keys. rewrite forallb_forall. intros H Hin. specialize (H _ Hin). cbn in H.
  apply name_eqb_eq in H. now symmetry.
Qed.

Lemma wf_assoc_name R k ty : wf_keys R = true -> assoc k (r_types R) = Some ty -> mt_name ty = k.
Proof. intros H Ha. eapply wf_keys_name; eauto using assoc_In. Qed.

(* ------------------------------------------------------------ wrappers --- *)
Lemma last_app1 {A} (l : list A) a d : last (l ++ [a]) d = a.
Proof. apply last_last. Qed.

Lemma mtn_bang t : mtn_create (t ++ [KBang]) = TnNonNull t.
Proof. unfold mtn_create. now rewrite last_last, removelast_last. Qed.

Lemma mtn_list t : mtn_create (KOpen :: t ++ [KClose]) = TnList t.
Proof.
  unfold mtn_create. change (KOpen :: t ++ [KClose]) with ((KOpen :: t) ++ [KClose]).
  rewrite last_last. cbn [app]. now rewrite removelast_last.
Qed.

Lemma mtn_name n : mtn_create [KName n] = TnNamed [KName n].
Proof. reflexivity. Qed.

Lemma print_len t : (0 < length (print_ty t))%nat.
Proof. induction t; cbn; rewrite ?app_length; cbn; lia. Qed.

Lemma mk_ref_f_print R t : wf_keys R = true ->
  forall fuel, (length (print_ty t) < fuel)%nat -> mk_ref_f R fuel (print_ty t) = spec_ref R t.
Proof.
  intros W. induction t as [n|t IH|t IH]; intros fuel Hf; (destruct fuel as [|f]; [cbn in Hf; lia|]).
  - cbn [print_ty mk_ref_f spec_ref]. rewrite mtn_name.
    destruct (assoc n (r_types R)) eqn:E; [|reflexivity].
    now rewrite (wf_assoc_name _ _ _ W E).
  - cbn [print_ty mk_ref_f spec_ref]. rewrite mtn_list. rewrite IH; [reflexivity|].
    cbn in Hf. rewrite app_length in Hf. cbn in Hf. lia.
  - cbn [print_ty mk_ref_f spec_ref]. rewrite mtn_bang. rewrite IH; [reflexivity|].
    cbn in Hf. rewrite app_length in Hf. cbn in Hf. lia.
Qed.

(* the ofType chain the resolvers build from the registry's type string is the
   wrapper chain the declared type denotes *)
Lemma mk_ref_print R t : wf_keys R = true -> mk_ref R (print_ty t) = spec_ref R t.
Proof. intros W. unfold mk_ref. apply mk_ref_f_print; [exact W|lia]. Qed.

Lemma concrete_f_print t : forall fuel, (length (print_ty t) < fuel)%nat ->
  concrete_f fuel (print_ty t) = Some (ty_leaf t).
Proof.
  induction t as [n|t IH|t IH]; intros fuel Hf; (destruct fuel as [|f]; [cbn in Hf; lia|]).
  - reflexivity.
  - cbn [print_ty concrete_f ty_leaf]. rewrite mtn_list. apply IH.
    cbn in Hf. rewrite app_length in Hf. cbn in Hf. lia.
  - cbn [print_ty concrete_f ty_leaf]. rewrite mtn_bang. apply IH.
    cbn in Hf. rewrite app_length in Hf. cbn in Hf. lia.
Qed.

Lemma concrete_print t : concrete (print_ty t) = Some (ty_leaf t).
Proof. unfold concrete. apply concrete_f_print. lia. Qed.

(* the independent parser reads back what the printer writes *)
Lemma parse_print t : forall fuel rest, (length (print_ty t ++ rest) < fuel)%nat ->
  parse_ty_f fuel (print_ty t ++ rest) = Some (bangs t rest).
Proof.
  induction t as [n|t IH|t IH]; intros fuel rest Hf; (destruct fuel as [|f]; [cbn in Hf; lia|]).
  - reflexivity.
  - cbn [print_ty app parse_ty_f]. rewrite <- app_assoc. cbn [app].
    rewrite IH.
    + reflexivity.
    + cbn in Hf. rewrite !app_length in Hf. cbn in Hf. rewrite app_length. cbn. lia.
  - cbn [print_ty]. rewrite <- app_assoc. cbn [app].
    rewrite (IH (S f)).
    + reflexivity.
    + cbn [print_ty] in Hf. rewrite <- app_assoc in Hf. exact Hf.
Qed.

Lemma parse_ty_print t : parse_ty (print_ty t) = Some t.
Proof.
  unfold parse_ty. rewrite <- (app_nil_r (print_ty t)) at 2.
  rewrite parse_print; [reflexivity|]. rewrite app_nil_r. lia.
Qed.

Fixpoint iref_eqb_refl (r : iref) : iref_eqb r r = true.
Proof.
  destruct r as [k n o]. cbn [iref_eqb]. rewrite N.eqb_refl.
  assert (option_eqb name_eqb n n = true) as -> by (destruct n; cbn; auto using name_eqb_refl).
  destruct o; [apply iref_eqb_refl|reflexivity].
Qed.

Lemma ref_matches_print R t : wf_keys R = true -> ref_matches R (print_ty t) (mk_ref R (print_ty t)) = true.
Proof.
  intros W. unfold ref_matches. rewrite parse_ty_print, mk_ref_print by exact W. apply iref_eqb_refl.
Qed.

(* a reference that is not a panic / out-of-fuel marker ends in a registered name,
   and that name is the concrete type name find_visible_types follows *)
Lemma mk_ref_f_good R fuel : forall t, ref_bad (mk_ref_f R fuel t) = false ->
  exists n ty, concrete_f fuel t = Some n /\ assoc n (r_types R) = Some ty /\
               ref_leaf (mk_ref_f R fuel t) = Some (mt_name ty).
Proof.
  induction fuel as [|f IH]; intros t H; [cbn in H; discriminate|].
  cbn [mk_ref_f concrete_f] in *. destruct (mtn_create t) as [t'|t'|t'].
  - cbn [ref_bad] in H. apply orb_false_iff in H as [_ H].
    destruct (IH _ H) as (n & ty & A & B & C). exists n, ty. cbn [ref_leaf]. auto.
  - cbn [ref_bad] in H. apply orb_false_iff in H as [_ H].
    destruct (IH _ H) as (n & ty & A & B & C). exists n, ty. cbn [ref_leaf]. auto.
  - destruct t' as [|[| | |n] [|? ?]]; try (cbn in H; discriminate).
    destruct (assoc n (r_types R)) as [ty|] eqn:E; [|cbn in H; discriminate].
    exists n, ty. cbn [ref_leaf]. auto.
Qed.

Lemma mk_ref_good R t : ref_bad (mk_ref R t) = false ->
  exists n ty, concrete t = Some n /\ assoc n (r_types R) = Some ty /\ ref_leaf (mk_ref R t) = Some (mt_name ty).
Proof. apply mk_ref_f_good. Qed.

Lemma mk_named_ref_leaf R n ty : assoc n (r_types R) = Some ty -> ref_leaf (mk_named_ref R n) = Some (mt_name ty).
Proof. intros H. unfold mk_named_ref, mk_ref. cbn. now rewrite H. Qed.

(* ------------------------------------------------ find_visible_types ----- *)
Section Dfs.
  Variable R : registry.
  Variable ctx : N.
  (* a reflexive, transitive relation between the visited set before and after,
     preserved by the insertion of a registered, visible, new type *)
  Variable Q : list name -> list name -> Prop.
  Hypothesis Qrefl : forall v, Q v v.
  Hypothesis Qtrans : forall a b c, Q a b -> Q b c -> Q a c.
  Hypothesis Qadd : forall v tn ty, assoc tn (r_types R) = Some ty -> tvisible ctx ty = true ->
                                    mem tn v = false -> Q v (tn :: v).

  Definition step {B} (g : list name -> B -> outcome (list name)) :=
    forall v x v', g v x = Ok v' -> Q v v'.

  Lemma foldo_rel {B} (g : list name -> B -> outcome (list name)) l :
    step g -> forall v v', foldo g l v = Ok v' -> Q v v'.
  Proof.
    intros Hg. induction l as [|x l IH]; intros v v' H; cbn in H.
    - inversion H. subst. apply Qrefl.
    - apply bindo_ok in H as (a & H1 & H2). eapply Qtrans; [eapply Hg; eauto|eauto].
  Qed.

  Lemma trav_input_rel go : step go -> step (trav_input ctx go).
  Proof.
    intros Hg v iv v' H. unfold trav_input in H.
    destruct (veval ctx (mi_vis iv)); [|inversion H; subst; apply Qrefl].
    destruct (concrete (mi_ty iv)); [eapply Hg; eauto|inversion H; subst; apply Qrefl].
  Qed.

  Lemma trav_field_rel go : step go -> step (trav_field ctx go).
  Proof.
    intros Hg v f v' H. unfold trav_field in H.
    destruct (veval ctx (mf_vis f)); [|inversion H; subst; apply Qrefl].
    apply bindo_ok in H as (a & H1 & H2).
    eapply Qtrans.
    - destruct (concrete (mf_ty f)); [eapply Hg; eauto|inversion H1; subst; apply Qrefl].
    - eapply foldo_rel; [|exact H2]. now apply trav_input_rel.
  Qed.

  Lemma trav_kind_rel go : step go -> forall k v v', trav_kind ctx go v k = Ok v' -> Q v v'.
  Proof.
    intros Hg k v v' H. destruct k as [|fs|fs ps|ps|vs|fs]; cbn in H.
    - inversion H; subst; apply Qrefl.
    - eapply foldo_rel; [|exact H]. now apply trav_field_rel.
    - apply bindo_ok in H as (a & H1 & H2). eapply Qtrans.
      + eapply foldo_rel; [|exact H1]. now apply trav_field_rel.
      + eapply foldo_rel; [|exact H2]. exact Hg.
    - eapply foldo_rel; [|exact H]. exact Hg.
    - inversion H; subst; apply Qrefl.
    - eapply foldo_rel; [|exact H]. now apply trav_input_rel.
  Qed.

  Lemma trav_rel fuel : step (trav R ctx fuel).
  Proof.
    induction fuel as [|f IH]; intros v tn v' H; cbn in H; [discriminate|].
    destruct (mem tn v) eqn:M; [inversion H; subst; apply Qrefl|].
    destruct (assoc tn (r_types R)) as [ty|] eqn:A; [|inversion H; subst; apply Qrefl].
    destruct (tvisible ctx ty) eqn:V; [|inversion H; subst; apply Qrefl].
    eapply Qtrans; [eapply Qadd; eauto|]. eapply trav_kind_rel; eauto.
  Qed.

  Lemma reached_rel fuel v : reached R ctx fuel = Ok v -> Q [] v.
  Proof.
    unfold reached. intros H.
    apply bindo_ok in H as (v1 & H1 & H).
    apply bindo_ok in H as (v2 & H2 & H).
    apply bindo_ok in H as (v3 & H3 & H4).
    assert (Q [] v1) as A1.
    { eapply foldo_rel; [|exact H1]. intros a d a' Hd.
      destruct (veval ctx (md_vis d)); [|inversion Hd; subst; apply Qrefl].
      eapply foldo_rel; [|exact Hd]. apply trav_input_rel, trav_rel. }
    assert (Q v1 v2) as A2 by (eapply foldo_rel; [|exact H2]; apply trav_rel).
    assert (Q v2 v3) as A3 by (eapply foldo_rel; [|exact H3]; apply trav_rel).
    assert (Q v3 v) as A4.
    { eapply foldo_rel; [|exact H4]. intros a p a' Hp. unfold iface_pass in Hp.
      destruct (mt_kind (snd p)); try (inversion Hp; subst; apply Qrefl).
      match type of Hp with (if ?c then _ else _) = _ => destruct c end;
        [eapply trav_rel; eauto|inversion Hp; subst; apply Qrefl]. }
    eauto.
  Qed.
End Dfs.

(* every type the traversal inserts is registered and visible in this context *)
Definition all_visible (R : registry) (ctx : N) (v : list name) : Prop :=
  forall x, In x v -> exists ty, assoc x (r_types R) = Some ty /\ tvisible ctx ty = true.

Lemma reached_visible R ctx fuel v : reached R ctx fuel = Ok v -> all_visible R ctx v.
Proof.
  intros H.
  refine (reached_rel R ctx (fun a b => all_visible R ctx a -> all_visible R ctx b) _ _ _ fuel v H _).
  - auto.
  - auto.
  - intros a tn ty A V _ Ha x [Hx|Hx]; [subst; eauto|auto].
  - intros x [].
Qed.

Lemma trav_mono R ctx fuel v tn v' : trav R ctx fuel v tn = Ok v' -> incl v v'.
Proof.
  refine (trav_rel R ctx (fun a b => incl a b) _ _ _ fuel v tn v').
  - apply incl_refl.
  - intros; eapply incl_tran; eauto.
  - intros. now apply incl_tl, incl_refl.
Qed.

(* names of the result of find_visible_types *)
Lemma find_visible_spec R ctx fuel vt :
  find_visible R ctx fuel = Ok vt ->
  exists v, reached R ctx fuel = Ok v /\
            vt = map (fun p => mt_name (snd p)) (filter (listed_in v) (r_types R)).
Proof.
  unfold find_visible. intros H. apply bindo_ok in H as (v & H1 & H2). inversion H2. eauto.
Qed.

Lemma find_visible_not_hidden R ctx fuel vt n :
  wf_registry R = true -> find_visible R ctx fuel = Ok vt -> In n vt -> type_hidden R ctx n = false.
Proof.
  intros W H Hin. apply andb_true_iff in W as [W1 W2]. apply nodupb_NoDup in W2.
  apply find_visible_spec in H as (v & Hr & ->).
  apply in_map_iff in Hin as ([k ty] & <- & Hin). apply filter_In in Hin as [Hin L].
  cbn [snd] in *. pose proof (wf_keys_name _ _ _ W1 Hin) as Hk. rewrite Hk.
  unfold type_hidden. rewrite (In_assoc _ _ _ W2 Hin).
  unfold listed_in in L. cbn [snd] in L. apply orb_true_iff in L as [L|L].
  - now rewrite L.
  - rewrite Hk in L. apply mem_In in L. apply (reached_visible _ _ _ _ Hr) in L as (ty' & A & V).
    rewrite (In_assoc _ _ _ W2 Hin) in A. inversion A. subst ty'.
    unfold tvisible in V. rewrite V. now rewrite andb_false_r.
Qed.

Lemma find_visible_registered R ctx fuel vt n :
  wf_registry R = true -> find_visible R ctx fuel = Ok vt -> In n vt ->
  exists ty, assoc n (r_types R) = Some ty /\ mt_name ty = n.
Proof.
  intros W H Hin. apply andb_true_iff in W as [W1 W2]. apply nodupb_NoDup in W2.
  apply find_visible_spec in H as (v & Hr & ->).
  apply in_map_iff in Hin as ([k ty] & <- & Hin). apply filter_In in Hin as [Hin L].
  cbn [snd] in *. pose proof (wf_keys_name _ _ _ W1 Hin) as Hk. exists ty. rewrite Hk.
  split; [now apply In_assoc|reflexivity].
Qed.

(* ------------------------------------------------ the introspection tree -- *)
Lemma existsb_false {A} (f : A -> bool) l : existsb f l = false -> forall x, In x l -> f x = false.
Proof.
  induction l as [|a l IH]; cbn; [tauto|].
  intros H x [Hx|Hx]; apply orb_false_iff in H as [H1 H2]; [now subst|auto].
Qed.

Lemma introspect_ok R ctx fe ai fuel qs s tq :
  introspect R ctx fe ai fuel qs = Ok (s, tq) ->
  exists vt, find_visible R ctx fuel = Ok vt /\ s = mk_schema R ctx fe ai vt /\ schema_bad s = false /\
             tq = map (fun n => (n, mk_type_query R ctx fe ai vt n)) qs /\
             exists q, assoc (r_query R) (r_types R) = Some q.
Proof.
  unfold introspect. intros H. apply bindo_ok in H as (vt & Hv & H).
  destruct (assoc (r_query R) (r_types R)) as [q|]; [|discriminate].
  match type of H with (if ?c then _ else _) = _ => destruct c eqn:B end; [discriminate|].
  inversion H. subst. apply orb_false_iff in B as [B _].
  exists vt. repeat split; eauto.
Qed.

Lemma In_types R ctx fe ai vt it :
  In it (is_types (mk_schema R ctx fe ai vt)) ->
  exists k ty, In (k, ty) (r_types R) /\ mem (mt_name ty) vt = true /\ it = mk_type R ctx fe ai vt ty.
Proof.
  cbn [mk_schema is_types]. intros H. apply in_map_iff in H as ([k ty] & <- & H).
  apply filter_In in H as [H1 H2]. cbn [snd] in *. eauto.
Qed.

Lemma listed_of_vt R ctx fe ai fuel vt n :
  find_visible R ctx fuel = Ok vt -> In n vt ->
  In n (map it_name (is_types (mk_schema R ctx fe ai vt))).
Proof.
  intros H Hin. pose proof Hin as Hin0. apply find_visible_spec in H as (v & _ & E).
  rewrite E in Hin. apply in_map_iff in Hin as ([k ty] & Hn & Hin). apply filter_In in Hin as [Hin _].
  cbn [snd] in Hn. apply in_map_iff. exists (mk_type R ctx fe ai vt ty). split; [exact Hn|].
  cbn [mk_schema is_types]. apply in_map_iff. exists (k, ty). split; [reflexivity|].
  apply filter_In. split; [exact Hin|]. cbn [snd]. rewrite Hn. now apply mem_In.
Qed.

Lemma vt_of_listed R ctx fe ai vt n :
  In n (map it_name (is_types (mk_schema R ctx fe ai vt))) -> In n vt.
Proof.
  intros H. apply in_map_iff in H as (it & <- & H). apply In_types in H as (k & ty & _ & M & ->).
  cbn. now apply mem_In.
Qed.

Lemma ref_names_refs_in R ctx fuel vt l :
  wf_registry R = true -> find_visible R ctx fuel = Ok vt ->
  ref_names (refs_in R vt l) = filter (fun n => mem n vt) l.
Proof.
  intros W H. unfold refs_in, ref_names. induction l as [|n l IH]; [reflexivity|].
  cbn [filter]. destruct (mem n vt) eqn:M; [|exact IH].
  cbn [map flat_map]. rewrite IH.
  apply mem_In in M. destruct (find_visible_registered _ _ _ _ _ W H M) as (ty & A & Hn).
  rewrite (mk_named_ref_leaf _ _ _ A), Hn. reflexivity.
Qed.

Lemma refs_in_In R vt l r : In r (refs_in R vt l) -> exists n, In n l /\ In n vt /\ r = mk_named_ref R n.
Proof.
  unfold refs_in. intros H. apply in_map_iff in H as (n & <- & H). apply filter_In in H as [H1 H2].
  exists n. repeat split; auto. now apply mem_In.
Qed.

(* what "shown without anything hidden" means for one listed type *)
Definition input_visible (ctx : N) (l : list minput) (i : iinput) : Prop :=
  exists m, In m l /\ ii_name i = mi_name m /\ veval ctx (mi_vis m) = true.

Definition members_visible (R : registry) (ctx : N) (it : itype) : Prop :=
  exists ty, assoc (it_name it) (r_types R) = Some ty /\
    (forall f, In f (olist (it_fields it)) ->
       exists m, In m (reg_fields (mt_kind ty)) /\ if_name f = mf_name m /\ veval ctx (mf_vis m) = true /\
                 forall a, In a (if_args f) -> input_visible ctx (mf_args m) a) /\
    (forall e, In e (olist (it_enums it)) ->
       exists vs m, mt_kind ty = MEnum vs /\ In m vs /\ ie_name e = me_name m /\ veval ctx (me_vis m) = true) /\
    (forall i, In i (olist (it_inputs it)) ->
       exists fs, mt_kind ty = MInput fs /\ input_visible ctx fs i).

Definition leaf_not_hidden (R : registry) (ctx : N) (r : iref) : Prop :=
  exists n, ref_leaf r = Some n /\ type_hidden R ctx n = false.

Lemma mk_inputs_In ctx R fe l a :
  In a (mk_inputs R ctx fe l) -> exists m, In m l /\ show_input ctx fe m = true /\ a = mk_input R m.
Proof.
  unfold mk_inputs. intros H. apply in_map_iff in H as (m & <- & H). apply filter_In in H as [H1 H2]. eauto.
Qed.

Lemma mk_inputs_visible ctx R fe l a : In a (mk_inputs R ctx fe l) -> input_visible ctx l a.
Proof.
  intros H. apply mk_inputs_In in H as (m & H1 & H2 & ->). exists m. repeat split; auto.
  unfold show_input in H2. now apply andb_true_iff in H2 as [_ H2].
Qed.

Lemma mk_fields_In ctx R fe ai l f :
  In f (mk_fields R ctx fe ai l) -> exists m, In m l /\ show_field ctx fe m = true /\ f = mk_field R ctx ai m.
Proof.
  unfold mk_fields. intros H. apply in_map_iff in H as (m & <- & H). apply filter_In in H as [H1 H2]. eauto.
Qed.

Lemma mk_type_members_visible R ctx fe ai vt k ty :
  wf_registry R = true -> In (k, ty) (r_types R) -> members_visible R ctx (mk_type R ctx fe ai vt ty).
Proof.
  intros W Hin. apply andb_true_iff in W as [W1 W2]. apply nodupb_NoDup in W2.
  exists ty. cbn [mk_type it_name it_fields it_enums it_inputs].
  rewrite (wf_keys_name _ _ _ W1 Hin). split; [now apply In_assoc|]. split; [|split].
  - intros f Hf.
    assert (exists fs, reg_fields (mt_kind ty) = fs /\ In f (mk_fields R ctx fe ai fs)) as (fs & Efs & Hf').
    { destruct (mt_kind ty); cbn in Hf; try tauto; eexists; split; try reflexivity; exact Hf. }
    apply mk_fields_In in Hf' as (m & Hm & Sm & ->). exists m. rewrite Efs. repeat split; auto.
    + unfold show_field in Sm. now apply andb_true_iff in Sm as [Sm _].
    + intros a Ha. cbn [mk_field if_args] in Ha. eapply mk_inputs_visible; eauto.
  - intros e He. destruct (mt_kind ty) as [|?|? ?|?|vs|?]; cbn in He; try tauto.
    unfold mk_enums in He. apply in_map_iff in He as (m & <- & He). apply filter_In in He as [He1 He2].
    exists vs, m. repeat split; auto. unfold show_enum in He2. now apply andb_true_iff in He2 as [He2 _].
  - intros i Hi. destruct (mt_kind ty) as [|?|? ?|?|?|fs]; cbn in Hi; try tauto.
    exists fs. split; [reflexivity|]. eapply mk_inputs_visible; eauto.
Qed.

Lemma mk_type_links R ctx fe ai fuel vt ty r :
  wf_registry R = true -> find_visible R ctx fuel = Ok vt ->
  In r (link_refs (mk_type R ctx fe ai vt ty)) -> exists n, ref_leaf r = Some n /\ In n vt.
Proof.
  intros W H Hr. unfold link_refs in Hr. cbn [mk_type it_interfaces it_possible] in Hr.
  assert (exists l, In r (refs_in R vt l)) as (l & Hl).
  { apply in_app_or in Hr as [Hr|Hr]; destruct (mt_kind ty); cbn in Hr; try tauto; eauto. }
  apply refs_in_In in Hl as (n & _ & Hn & ->).
  destruct (find_visible_registered _ _ _ _ _ W H Hn) as (ty' & A & E).
  exists n. split; [|exact Hn]. now rewrite (mk_named_ref_leaf _ _ _ A), E.
Qed.

(* C18_hidden_never_appears, part 1: types listed, linked (interfaces / possibleTypes) or named as
   mutation / subscription root are not hidden; every member shown is visible *)
Lemma hidden_never_appears R ctx fe ai fuel qs s tq :
  wf_registry R = true -> introspect R ctx fe ai fuel qs = Ok (s, tq) ->
  (forall it, In it (is_types s) ->
      type_hidden R ctx (it_name it) = false /\
      members_visible R ctx it /\
      forall r, In r (link_refs it) -> leaf_not_hidden R ctx r) /\
  (forall n, is_mutation s = Some n \/ is_subscription s = Some n -> type_hidden R ctx n = false).
Proof.
  intros W H. apply introspect_ok in H as (vt & Hv & -> & _ & _ & _). split.
  - intros it Hit. apply In_types in Hit as (k & ty & Hin & M & ->). split; [|split].
    + cbn [mk_type it_name]. apply mem_In in M. eapply find_visible_not_hidden; eauto.
    + eapply mk_type_members_visible; eauto.
    + intros r Hr. destruct (mk_type_links _ _ _ _ _ _ _ _ W Hv Hr) as (n & L & Hn).
      exists n. split; [exact L|]. eapply find_visible_not_hidden; eauto.
  - intros n [Hn|Hn]; cbn [mk_schema is_mutation is_subscription] in Hn; unfold opt_in in Hn.
    + destruct (r_mutation R) as [m|]; [|discriminate]. destruct (mem m vt) eqn:M; [|discriminate].
      inversion Hn. subst. apply mem_In in M. eapply find_visible_not_hidden; eauto.
    + destruct (r_subscription R) as [m|]; [|discriminate]. destruct (mem m vt) eqn:M; [|discriminate].
      inversion Hn. subst. apply mem_In in M. eapply find_visible_not_hidden; eauto.
Qed.

(* part 2: outside known class 1 the type named by every member shown is not hidden either *)
Lemma kc1_input R ctx l m :
  input_names_hidden R ctx l = false -> In m l -> veval ctx (mi_vis m) = true -> ty_hidden R ctx (mi_ty m) = false.
Proof.
  unfold input_names_hidden. intros H Hin V. apply (existsb_false _ _ H) in Hin. cbn beta in Hin. rewrite V in Hin. exact Hin.
Qed.

Lemma member_ref_leaf R ctx t :
  wf_registry R = true -> ref_bad (mk_ref R t) = false -> ty_hidden R ctx t = false ->
  leaf_not_hidden R ctx (mk_ref R t).
Proof.
  intros W B Hh. apply andb_true_iff in W as [W1 _].
  destruct (mk_ref_good _ _ B) as (n & ty & C & A & L).
  exists n. rewrite L, (wf_assoc_name _ _ _ W1 A). split; [reflexivity|].
  unfold ty_hidden in Hh. rewrite C in Hh. exact Hh.
Qed.

Lemma member_types_not_hidden R ctx fe ai fuel qs s tq :
  wf_registry R = true -> introspect R ctx fe ai fuel qs = Ok (s, tq) -> kc1 R ctx = false ->
  (forall it r, In it (is_types s) -> In r (member_refs it) -> leaf_not_hidden R ctx r) /\
  type_hidden R ctx (is_query s) = false.
Proof.
  intros W H K. apply introspect_ok in H as (vt & Hv & -> & B & _ & _).
  unfold kc1 in K. apply orb_false_iff in K as [K K3]. apply orb_false_iff in K as [K1 K2].
  split; [|exact K1].
  intros it r Hit Hr.
  unfold schema_bad in B. apply orb_false_iff in B as [B _].
  pose proof (existsb_false _ _ B _ Hit) as Bt.
  apply In_types in Hit as (k & ty & Hin & M & ->).
  pose proof (existsb_false _ _ K3 _ Hin) as Kt. cbn [snd] in Kt.
  unfold type_bad in Bt. cbn [mk_type it_fields it_interfaces it_possible it_inputs] in Bt.
  apply orb_false_iff in Bt as [Bt Bi]. apply orb_false_iff in Bt as [Bt _]. apply orb_false_iff in Bt as [Bf _].
  unfold member_refs in Hr. cbn [mk_type it_fields it_inputs] in Hr. apply in_app_or in Hr as [Hr|Hr].
  - assert (exists fs, In r (flat_map (fun f => if_type f :: map ii_type (if_args f)) (mk_fields R ctx fe ai fs)) /\
                       existsb (field_bad) (mk_fields R ctx fe ai fs) = false /\
                       existsb (fun f => veval ctx (mf_vis f) && (ty_hidden R ctx (mf_ty f) || input_names_hidden R ctx (mf_args f))) fs = false)
      as (fs & Hr' & Bf' & Kf).
    { destruct (mt_kind ty); cbn in Hr; try tauto; eexists; repeat split; eauto. }
    apply in_flat_map in Hr' as (f & Hf & Hr').
    pose proof (existsb_false _ _ Bf' _ Hf) as Bff. unfold field_bad in Bff. apply orb_false_iff in Bff as [Bty Bargs].
    apply mk_fields_In in Hf as (m & Hm & Sm & ->).
    pose proof (existsb_false _ _ Kf _ Hm) as Km. cbn beta in Km.
    unfold show_field in Sm. apply andb_true_iff in Sm as [Vm _]. rewrite Vm in Km. cbn [andb] in Km.
    apply orb_false_iff in Km as [Km1 Km2].
    cbn [mk_field if_type if_args] in *. destruct Hr' as [<-|Hr'].
    + now apply member_ref_leaf.
    + apply in_map_iff in Hr' as (a & <- & Ha).
      pose proof (existsb_false _ _ Bargs _ Ha) as Ba.
      apply mk_inputs_In in Ha as (mi & Hmi & Smi & ->). cbn [mk_input ii_type] in *.
      unfold input_bad in Ba. cbn [mk_input ii_type] in Ba.
      apply member_ref_leaf; auto. eapply kc1_input; eauto.
      unfold show_input in Smi. now apply andb_true_iff in Smi as [_ Smi].
  - destruct (mt_kind ty) as [|?|? ?|?|?|fs]; cbn in Hr; try tauto.
    apply in_map_iff in Hr as (a & <- & Ha). cbn [olist_bad] in Bi.
    pose proof (existsb_false _ _ Bi _ Ha) as Ba.
    apply mk_inputs_In in Ha as (mi & Hmi & Smi & ->). cbn [mk_input ii_type] in *.
    unfold input_bad in Ba. cbn [mk_input ii_type] in Ba.
    apply member_ref_leaf; auto. eapply kc1_input; eauto.
    unfold show_input in Smi. now apply andb_true_iff in Smi as [_ Smi].
Qed.

(* C18_closed, the part that needs no reachability argument: everything referenced through
   interfaces / possibleTypes / mutationType / subscriptionType is listed *)
Lemma closed_links R ctx fe ai fuel qs s tq :
  wf_registry R = true -> introspect R ctx fe ai fuel qs = Ok (s, tq) ->
  (forall it r, In it (is_types s) -> In r (link_refs it) ->
      exists n, ref_leaf r = Some n /\ In n (map it_name (is_types s))) /\
  (forall n, is_mutation s = Some n \/ is_subscription s = Some n -> In n (map it_name (is_types s))).
Proof.
  intros W H. apply introspect_ok in H as (vt & Hv & -> & _ & _ & _). split.
  - intros it r Hit Hr. apply In_types in Hit as (k & ty & Hin & M & ->).
    destruct (mk_type_links _ _ _ _ _ _ _ _ W Hv Hr) as (n & L & Hn).
    exists n. split; [exact L|]. eapply listed_of_vt; eauto.
  - intros n [Hn|Hn]; cbn [mk_schema is_mutation is_subscription] in Hn; unfold opt_in in Hn.
    + destruct (r_mutation R) as [m|]; [|discriminate]. destruct (mem m vt) eqn:M; [|discriminate].
      inversion Hn. subst. apply mem_In in M. eapply listed_of_vt; eauto.
    + destruct (r_subscription R) as [m|]; [|discriminate]. destruct (mem m vt) eqn:M; [|discriminate].
      inversion Hn. subst. apply mem_In in M. eapply listed_of_vt; eauto.
Qed.

(* C18_wrappers on the tree: the type reference of every member shown is the wrapper chain of the
   type the registry declares for it *)
Definition decl_ok (R : registry) (decl : tystr) (r : iref) : Prop :=
  forall t, decl = print_ty t -> r = spec_ref R t.
Definition input_decl_ok (R : registry) (l : list minput) (i : iinput) : Prop :=
  exists m, In m l /\ ii_name i = mi_name m /\ decl_ok R (mi_ty m) (ii_type i) /\
            ii_default i = mi_default m /\ ii_dep i = mi_dep m.

Lemma mk_input_decl_ok R ctx fe l a : wf_registry R = true -> In a (mk_inputs R ctx fe l) -> input_decl_ok R l a.
Proof.
  intros W H. apply andb_true_iff in W as [W1 _]. apply mk_inputs_In in H as (m & H1 & _ & ->).
  exists m. repeat split; auto. intros t E. cbn [mk_input mk_field ii_type if_type]. rewrite E. now apply mk_ref_print.
Qed.

Lemma wrappers_tree R ctx fe ai fuel qs s tq :
  wf_registry R = true -> introspect R ctx fe ai fuel qs = Ok (s, tq) ->
  forall it, In it (is_types s) ->
    exists ty, assoc (it_name it) (r_types R) = Some ty /\ it_kind it = kind_of (mt_kind ty) /\
      (forall f, In f (olist (it_fields it)) ->
         exists m, In m (reg_fields (mt_kind ty)) /\ if_name f = mf_name m /\ if_dep f = mf_dep m /\
                   decl_ok R (mf_ty m) (if_type f) /\
                   forall a, In a (if_args f) -> input_decl_ok R (mf_args m) a) /\
      (forall i, In i (olist (it_inputs it)) -> exists fs, mt_kind ty = MInput fs /\ input_decl_ok R fs i).
Proof.
  intros W H it Hit. apply introspect_ok in H as (vt & Hv & -> & _ & _ & _).
  apply In_types in Hit as (k & ty & Hin & M & ->).
  pose proof W as W'. apply andb_true_iff in W' as [W1 W2]. apply nodupb_NoDup in W2.
  exists ty. cbn [mk_type it_name it_kind it_fields it_inputs].
  rewrite (wf_keys_name _ _ _ W1 Hin). split; [now apply In_assoc|]. split; [reflexivity|]. split.
  - intros f Hf.
    assert (exists fs, reg_fields (mt_kind ty) = fs /\ In f (mk_fields R ctx fe ai fs)) as (fs & Efs & Hf').
    { destruct (mt_kind ty); cbn in Hf; try tauto; eexists; split; try reflexivity; exact Hf. }
    apply mk_fields_In in Hf' as (m & Hm & _ & ->). exists m. rewrite Efs. repeat split; auto.
    + intros t E. cbn [mk_input mk_field ii_type if_type]. rewrite E. now apply mk_ref_print.
    + intros a Ha. cbn [mk_field if_args] in Ha. eapply mk_input_decl_ok; eauto.
  - intros i Hi. destruct (mt_kind ty) as [|?|? ?|?|?|fs]; cbn in Hi; try tauto.
    exists fs. split; [reflexivity|]. eapply mk_input_decl_ok; eauto.
Qed.

(* C18_possible_exact *)
Lemma possible_exact R ctx fe ai fuel qs s tq :
  wf_registry R = true -> introspect R ctx fe ai fuel qs = Ok (s, tq) ->
  forall it, In it (is_types s) ->
    exists ty, assoc (it_name it) (r_types R) = Some ty /\
      let shown l := filter (fun n => existsb (fun t => name_eqb (it_name t) n) (is_types s)) l in
      match mt_kind ty with
      | MUnion ps | MInterface _ ps =>
          exists l, it_possible it = Some l /\ ref_names l = shown ps /\ it_interfaces it = None
      | MObject _ =>
          exists l, it_interfaces it = Some l /\ ref_names l = shown (lookup_impl R (it_name it)) /\ it_possible it = None
      | _ => it_possible it = None /\ it_interfaces it = None
      end.
Proof.
  intros W H it Hit. apply introspect_ok in H as (vt & Hv & -> & _ & _ & _).
  apply In_types in Hit as (k & ty & Hin & M & ->).
  pose proof W as W'. apply andb_true_iff in W' as [W1 W2]. apply nodupb_NoDup in W2.
  exists ty. cbn [mk_type it_name it_possible it_interfaces].
  rewrite (wf_keys_name _ _ _ W1 Hin). split; [now apply In_assoc|].
  assert (forall l, filter (fun n => existsb (fun t => name_eqb (it_name t) n) (is_types (mk_schema R ctx fe ai vt))) l
                    = filter (fun n => mem n vt) l) as Hsh.
  { intros l. apply filter_ext. intros n.
    destruct (mem n vt) eqn:Mn.
    - apply mem_In in Mn. pose proof (listed_of_vt R ctx fe ai fuel vt n Hv Mn) as L.
      apply in_map_iff in L as (t & Et & Ht). apply existsb_exists. exists t. split; [exact Ht|].
      now apply name_eqb_eq.
    - destruct (existsb _ _) eqn:Ex; [|reflexivity]. apply existsb_exists in Ex as (t & Ht & Et).
      apply name_eqb_eq in Et. exfalso. apply mem_false_In in Mn. apply Mn.
      eapply vt_of_listed. apply in_map_iff. eauto. }
  cbv zeta. destruct (mt_kind ty) as [|fs|fs ps|ps|vs|fs].
  - auto.
  - eexists. split; [reflexivity|]. rewrite Hsh. split; [|reflexivity]. eapply ref_names_refs_in; eauto.
  - eexists. split; [reflexivity|]. rewrite Hsh. split; [|reflexivity]. eapply ref_names_refs_in; eauto.
  - eexists. split; [reflexivity|]. rewrite Hsh. split; [|reflexivity]. eapply ref_names_refs_in; eauto.
  - auto.
  - auto.
Qed.

(* ------------------------------------------ witnesses and non-vacuity ----- *)
Definition w_ty (n : name) (sys : bool) (v : vis) (k : mkind) : name * mtype :=
  (n, {| mt_name := n; mt_system := sys; mt_keyed := false; mt_vis := v; mt_kind := k |}).
Definition w_f (n : name) (t : tystr) (v : vis) : mfield :=
  {| mf_name := n; mf_dunder := false; mf_args := []; mf_ty := t; mf_dep := false; mf_vis := v |}.
Definition w_reg types dirs impls : registry :=
  {| r_types := types; r_directives := dirs; r_implements := impls; r_query := 10;
     r_mutation := None; r_subscription := None |}.
Definition w_int := w_ty 11 true 255 MScalar.
Definition w_run R ctx := introspect R ctx true true (default_fuel R) [].

(* class 1: Query.obj : Hid! is visible, the type Hid is hidden (visible = false) *)
Definition w1 : registry :=
  w_reg [w_int; w_ty 12 false 0 (MObject [w_f 30 [KName 11] 255]);
         w_ty 10 false 255 (MObject [w_f 31 [KName 12; KBang] 255])] [] [].
(* class 2: a directive hidden by its visibility rule *)
Definition w2 : registry :=
  w_reg [w_int; w_ty 10 false 255 (MObject [w_f 30 [KName 11] 255])]
        [{| md_name := 40; md_args := []; md_vis := 0 |}] [].
(* class 3: interface Parent (14) implements interface Grand (13), as the derive macro registers it *)
Definition w3 : registry :=
  w_reg [w_int;
         w_ty 10 false 255 (MObject [w_f 31 [KName 13] 255]);
         w_ty 13 false 255 (MInterface [w_f 30 [KName 11] 255] [14; 15]);
         w_ty 14 false 255 (MInterface [w_f 30 [KName 11] 255] [15]);
         w_ty 15 false 255 (MObject [w_f 30 [KName 11] 255])]
        [] [(15, [14; 13]); (14, [13])].
(* class 4: interfaces A (20, possible X) and B (21, possible Y, field x : X); only Y is reachable *)
Definition w4 : registry :=
  w_reg [w_ty 20 false 255 (MInterface [w_f 30 [KName 11] 255] [22]);
         w_ty 21 false 255 (MInterface [w_f 30 [KName 11] 255; w_f 32 [KName 22] 255] [23]);
         w_int;
         w_ty 10 false 255 (MObject [w_f 31 [KName 23] 255]);
         w_ty 22 false 255 (MObject [w_f 30 [KName 11] 255]);
         w_ty 23 false 255 (MObject [w_f 30 [KName 11] 255])]
        [] [(22, [20]); (23, [21])].

Lemma c18_hidden_type_refuted :
  wf_registry w1 = true /\ kc1 w1 0 = true /\
  exists r, w_run w1 0 = Ok r /\ s_hidden_types w1 0 (fst r) = false /\ s_closed_members (fst r) = false.
Proof. split; [|split]; [vm_compute; reflexivity..|]. eexists. split; [vm_compute; reflexivity|]. split; vm_compute; reflexivity. Qed.

Lemma c18_hidden_directive_refuted :
  wf_registry w2 = true /\ kc2 w2 0 = true /\
  exists r, w_run w2 0 = Ok r /\ s_hidden_dirs w2 0 (fst r) = false.
Proof. split; [|split]; [vm_compute; reflexivity..|]. eexists. split; vm_compute; reflexivity. Qed.

Lemma c18_interface_interfaces_refuted :
  wf_registry w3 = true /\ kc3 w3 [] = true /\
  exists r, w_run w3 0 = Ok r /\ s_symmetric w3 [] (fst r) = false /\ s_possible_iface w3 [] (fst r) = false.
Proof. split; [|split]; [vm_compute; reflexivity..|]. eexists. split; [vm_compute; reflexivity|]. split; vm_compute; reflexivity. Qed.

Lemma c18_interface_pass_refuted :
  wf_registry w4 = true /\
  exists vt r, find_visible w4 0 (default_fuel w4) = Ok vt /\ kc4 w4 [] 0 vt = true /\
               w_run w4 0 = Ok r /\ s_iface_listed w4 [] 0 (fst r) = false /\
               (* X (22) is listed, implements the visible interface A (20), A is not listed *)
               In 22 vt /\ ~ In 20 vt.
Proof.
  split; [vm_compute; reflexivity|]. eexists. eexists.
  split; [vm_compute; reflexivity|]. split; [vm_compute; reflexivity|].
  split; [vm_compute; reflexivity|]. split; [vm_compute; reflexivity|].
  split; [cbn; tauto|]. cbn. intros H. repeat destruct H as [H|H]; try discriminate; exact H.
Qed.

(* non-vacuity: a registry with an interface, a union, an enum, an input object, a directive, hidden
   members and a context-dependent type, on which every hypothesis holds and every part of the spec passes *)
Definition w_in (n : name) (t : tystr) (v : vis) (d : bool) : minput :=
  {| mi_name := n; mi_ty := t; mi_dep := d; mi_default := None; mi_vis := v |}.
Definition w_ok : registry :=
  w_reg [w_int;
         w_ty 10 false 255 (MObject [w_f 31 [KOpen; KName 13; KBang; KClose; KBang] 255;
                                     {| mf_name := 33; mf_dunder := false;
                                        mf_args := [w_in 50 [KName 17] 255 false; w_in 51 [KName 11] 2 true];
                                        mf_ty := [KName 16]; mf_dep := true; mf_vis := 255 |};
                                     w_f 34 [KName 18] 2]);
         w_ty 13 false 255 (MInterface [w_f 30 [KName 11] 255] [15; 18]);
         w_ty 15 false 255 (MObject [w_f 30 [KName 11] 255; w_f 35 [KName 19] 255]);
         w_ty 16 false 255 (MUnion [15; 18]);
         w_ty 17 false 255 (MInput [w_in 52 [KOpen; KName 19; KClose] 255 false]);
         w_ty 18 false 2 (MObject [w_f 30 [KName 11] 255]);
         w_ty 19 false 255 (MEnum [{| me_name := 60; me_dep := false; me_vis := 255 |};
                                   {| me_name := 61; me_dep := true; me_vis := 2 |}])]
        [{| md_name := 40; md_args := [w_in 53 [KName 11; KBang] 255 false]; md_vis := 255 |}]
        [(15, [13]); (18, [13])].

Lemma c18_nonvacuous :
  wf_registry w_ok = true /\
  forallb (fun ctx => negb (kc1 w_ok ctx) && negb (kc2 w_ok ctx) && negb (kc3 w_ok [])) [0; 1] = true /\
  forallb (fun ctx => match introspect w_ok ctx true false (default_fuel w_ok) [13; 18] with
                      | Ok r => spec_ok w_ok [] ctx true false r && (7 <=? N.of_nat (length (is_types (fst r))))
                      | _ => false end) [0; 1] = true.
Proof. split; [|split]; vm_compute; reflexivity. Qed.

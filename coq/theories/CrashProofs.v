(* CrashProofs.v — C12: lemmas about the models of Crash.v (no model definitions). *)
From AG Require Import Crash CursorProofs.
From AGgen Require Import CrashConstGen.
Open Scope Z_scope.

(* ================================================================ upload == *)
Definition S_MARK_X : str := upload_prefix_gen ++ [120%N].   (* #__graphql_file__:x *)
Definition S_MARK_0 : str := upload_prefix_gen ++ [48%N].    (* #__graphql_file__:0 *)

Lemma in_range_u64 z : in_range U64 z = true <-> 0 <= z <= usize_max.
Proof.
  unfold in_range, it_lo, it_hi, U64, usize_max. cbn [it_signed it_bits].
  rewrite andb_true_iff, !Z.leb_le. tauto.
Qed.

(* Upload::parse panics exactly on: marker prefix, rest not a usize *)
Lemma upload_parse_panic_iff q v :
  upload_parse q v = Panic <-> q_parse_unwrap q = true /\ upload_parse_known_class v = 1%N.
Proof.
  unfold upload_parse, upload_parse_known_class, upload_known_class.
  destruct v as [[|s|]|]; try (split; [discriminate|intros [_ H]; discriminate]).
  destruct (strip_prefix upload_prefix_gen s) as [rest|]; [|split; [discriminate|intros [_ H]; discriminate]].
  rewrite <- parse_int_spec. destruct (parse_int U64 rest) as [n|].
  - split; [discriminate|]. intros [_ H]. destruct (n <? 0); discriminate.
  - destruct (q_parse_unwrap q); split; try tauto; try discriminate. intros [H _]; discriminate.
Qed.

Lemma upload_parse_no_panic q v : upload_parse_known_class v = 0%N -> upload_parse q v <> Panic.
Proof. intros K H. apply upload_parse_panic_iff in H. destruct H as [_ H]. rewrite K in H. discriminate. Qed.

Lemma upload_field_panic_iff q nup v :
  upload_field q nup v = Panic <->
  (q_parse_unwrap q = true /\ upload_known_class nup v = 1%N) \/
  (q_value_index q = true /\ upload_known_class nup v = 2%N).
Proof.
  unfold upload_field, upload_parse, upload_value, upload_known_class.
  destruct v as [[|s|]|]; cbn [bindo]; try (split; [discriminate|intros [[_ H]|[_ H]]; discriminate]).
  destruct (strip_prefix upload_prefix_gen s) as [rest|]; cbn [bindo];
    [|split; [discriminate|intros [[_ H]|[_ H]]; discriminate]].
  rewrite <- parse_int_spec. destruct (parse_int U64 rest) as [n|]; cbn [bindo].
  - destruct (n <? nup).
    + split; [discriminate|intros [[_ H]|[_ H]]; discriminate].
    + destruct (q_value_index q); split; try discriminate; try tauto.
      * intros [[_ H]|[H _]]; discriminate.
  - destruct (q_parse_unwrap q); cbn [bindo]; split; try discriminate; try tauto.
    intros [[H _]|[_ H]]; discriminate.
Qed.

(* the property outside the known classes, for every quirk vector *)
Lemma upload_no_panic q nup v : upload_known_class nup v = 0%N -> upload_field q nup v <> Panic.
Proof.
  intros K H. apply upload_field_panic_iff in H. rewrite K in H. destruct H as [[_ H]|[_ H]]; discriminate.
Qed.

(* with both defects: panic exactly inside the known classes *)
Lemma upload_panic_exact nup v : upload_field quirks_all nup v = Panic <-> upload_known_class nup v <> 0%N.
Proof.
  rewrite upload_field_panic_iff. cbn [quirks_all q_parse_unwrap q_value_index].
  assert (K : upload_known_class nup v = 0%N \/ upload_known_class nup v = 1%N \/ upload_known_class nup v = 2%N).
  { unfold upload_known_class. destruct v as [[|s|]|]; auto.
    destruct (strip_prefix _ s); auto. destruct (spec_parse_int U64 _); auto. destruct (_ <? nup); auto. }
  destruct K as [K|[K|K]]; rewrite K; split; try tauto; try discriminate.
  - intros [[_ H]|[_ H]]; discriminate.
Qed.

(* the corrected code (both flags off) satisfies the property everywhere *)
Lemma upload_fixed_no_panic nup v : upload_field quirks_none nup v <> Panic.
Proof.
  intros H. apply upload_field_panic_iff in H. cbn [quirks_none q_parse_unwrap q_value_index] in H.
  destruct H as [[H _]|[H _]]; discriminate.
Qed.

(* the known classes are narrow: only strings that carry the marker prefix *)
Lemma strip_prefix_app p : forall s r, strip_prefix p s = Some r -> s = p ++ r.
Proof.
  induction p as [|a p IH]; intros s r H; cbn [strip_prefix] in H.
  - inversion H. reflexivity.
  - destruct s as [|b s]; [discriminate|]. destruct (N.eqb_spec a b) as [->|]; [|discriminate].
    cbn [app]. f_equal. apply IH. exact H.
Qed.
Lemma strip_prefix_app_eq p r : strip_prefix p (p ++ r) = Some r.
Proof. induction p as [|a p IH]; cbn [strip_prefix app]; [reflexivity|]. rewrite N.eqb_refl. exact IH. Qed.

Lemma upload_known_class_narrow nup v :
  upload_known_class nup v <> 0%N ->
  exists rest, v = Some (UStr (upload_prefix_gen ++ rest)) /\
               (spec_parse_int U64 rest = None \/ exists i, spec_parse_int U64 rest = Some i /\ nup <= i).
Proof.
  unfold upload_known_class. destruct v as [[|s|]|]; try congruence.
  destruct (strip_prefix upload_prefix_gen s) as [rest|] eqn:E; [|congruence].
  apply strip_prefix_app in E. subst s. intros H. exists rest. split; [reflexivity|].
  destruct (spec_parse_int U64 rest) as [i|]; [|left; reflexivity].
  right. exists i. split; [reflexivity|]. destruct (Z.ltb_spec i nup); [congruence|lia].
Qed.

Lemma c12_upload_marker_refuted :
  upload_field quirks_all 3 (Some (UStr S_MARK_X)) = Panic /\ upload_known_class 3 (Some (UStr S_MARK_X)) = 1%N.
Proof. split; vm_compute; reflexivity. Qed.
Lemma c12_upload_index_refuted :
  upload_field quirks_all 0 (Some (UStr S_MARK_0)) = Panic /\ upload_known_class 0 (Some (UStr S_MARK_0)) = 2%N /\
  upload_parse quirks_all (Some (UStr S_MARK_0)) = Ok 0.
Proof. repeat split; vm_compute; reflexivity. Qed.

(* the writer and the reader of the marker use the same text *)
Lemma marker_is_prefix : upload_marker_gen = upload_prefix_gen.
Proof. vm_compute. reflexivity. Qed.

(* every marker written by set_upload is read back and names an existing file *)
Lemma genuine_marker_ok q nup n :
  0 <= n < nup -> nup <= 2 ^ 64 -> upload_field q nup (Some (UStr (marker n))) = Ok n.
Proof.
  intros Hn Hu. unfold upload_field, upload_parse, marker. rewrite marker_is_prefix, strip_prefix_app_eq.
  assert (R : in_range U64 n = true) by (apply in_range_u64; unfold usize_max; lia).
  pose proof (int_roundtrip U64 n R) as P. unfold print_int in P.
  destruct (Z.ltb_spec n 0); [lia|]. rewrite P. cbn [bindo]. unfold upload_value.
  destruct (Z.ltb_spec n nup); [reflexivity|lia].
Qed.

(* ============================================================ set_upload == *)
Lemma split_dot_aux_nonempty s : forall cur, split_dot_aux cur s <> [].
Proof.
  induction s as [|c r IH]; intros cur; cbn [split_dot_aux]; [discriminate|].
  destruct (c =? C_DOT)%N; [discriminate|apply IH].
Qed.
Lemma split_dot_nonempty s : split_dot s <> [].
Proof. apply split_dot_aux_nonempty. Qed.

Lemma set_upload_no_panic vars nup path : 0 <= nup -> set_upload vars nup path <> Panic.
Proof.
  intros H. unfold set_upload. destruct (strip_prefix S_VARIABLES_DOT path) as [rest|]; [|discriminate].
  pose proof (split_dot_nonempty rest) as NE. destruct (split_dot rest) as [|first parts]; [congruence|].
  destruct (sassoc first vars) as [v0|]; [|discriminate].
  destruct (set_at parts v0 _); [|discriminate].
  destruct (Z.ltb_spec (nup + 1) 1); [lia|discriminate].
Qed.

Lemma set_upload_count vars nup path vars' nup' :
  0 <= nup -> set_upload vars nup path = Ok (vars', nup') -> nup' = nup \/ nup' = nup + 1.
Proof.
  intros H. unfold set_upload. destruct (strip_prefix S_VARIABLES_DOT path) as [rest|]; [|intros E; inversion E; auto].
  destruct (split_dot rest) as [|first parts]; [discriminate|].
  destruct (sassoc first vars) as [v0|]; [|intros E; inversion E; auto].
  destruct (set_at parts v0 _); [|intros E; inversion E; auto].
  destruct (nup + 1 <? 1); [discriminate|]. intros E; inversion E; auto.
Qed.

Lemma set_uploads_no_panic paths : forall vars nup, 0 <= nup -> set_uploads vars nup paths <> Panic.
Proof.
  induction paths as [|p ps IH]; intros vars nup H; cbn [set_uploads]; [discriminate|].
  destruct (set_upload vars nup p) as [[vars' nup']| | |] eqn:E; cbn [bindo]; try discriminate.
  - cbn [fst snd]. apply IH. apply set_upload_count in E; [|exact H]. lia.
  - exfalso. revert E. apply set_upload_no_panic. exact H.
Qed.

(* what set_at writes is what get_at (the same walk) finds *)
Lemma sassoc_sreplace {A} k (v : A) m x : sassoc k m = Some x -> sassoc k (sreplace k v m) = Some v.
Proof.
  induction m as [|[k' v'] m IH]; cbn [sassoc sreplace]; [discriminate|].
  destruct (str_eqb k k') eqn:E; intros H.
  - cbn [sassoc]. rewrite E. reflexivity.
  - cbn [sassoc]. rewrite E. apply IH. exact H.
Qed.
Lemma nth_replace_nth {A} (v : A) : forall i l x, nth_error l i = Some x -> nth_error (replace_nth i v l) i = Some v.
Proof.
  induction i as [|i IH]; intros [|y l] x H; try discriminate; cbn [replace_nth nth_error] in *; [reflexivity|].
  eapply IH. exact H.
Qed.
Lemma replace_nth_length {A} (v : A) : forall i l, length (replace_nth i v l) = length l.
Proof.
  induction i as [|i IH]; intros [|y l]; cbn [replace_nth length]; try reflexivity. f_equal. apply IH.
Qed.

Lemma set_at_get_at parts : forall v new v', set_at parts v new = Some v' -> get_at parts v' = Some new.
Proof.
  induction parts as [|p ps IH]; intros v new v' H; cbn [set_at get_at] in *.
  - inversion H. reflexivity.
  - destruct v as [t|s|l|m]; try discriminate.
    + destruct (parse_int U32 p) as [i|]; [|discriminate].
      destruct (i <? Z.of_nat (length l)) eqn:B; cbn [negb] in H; [|discriminate].
      destruct (nth_error l (Z.to_nat i)) as [x|] eqn:N; [|discriminate].
      destruct (set_at ps x new) as [x'|] eqn:S; [|discriminate].
      inversion H. subst v'. rewrite replace_nth_length, B. cbn [negb].
      rewrite (nth_replace_nth x' _ _ _ N). eapply IH. exact S.
    + destruct (sassoc p m) as [x|] eqn:A; [|discriminate].
      destruct (set_at ps x new) as [x'|] eqn:S; [|discriminate].
      inversion H. subst v'. rewrite (sassoc_sreplace _ x' _ _ A). eapply IH. exact S.
Qed.

(* a successful set_upload leaves, at the addressed place, a marker that the
   reader accepts and that names the file just attached *)
Lemma set_upload_marker_safe q vars nup path vars' :
  0 <= nup -> nup + 1 <= 2 ^ 64 ->
  set_upload vars nup path = Ok (vars', nup + 1) ->
  exists rest first parts v1,
    strip_prefix S_VARIABLES_DOT path = Some rest /\ split_dot rest = first :: parts /\
    sassoc first vars' = Some v1 /\
    get_at parts v1 = Some (VStr (marker nup)) /\
    upload_field q (nup + 1) (Some (UStr (marker nup))) = Ok nup.
Proof.
  intros H0 H1. unfold set_upload.
  destruct (strip_prefix S_VARIABLES_DOT path) as [rest|] eqn:SP; [|intros E; inversion E; lia].
  destruct (split_dot rest) as [|first parts] eqn:SD; [discriminate|].
  destruct (sassoc first vars) as [v0|] eqn:A; [|intros E; inversion E; lia].
  replace (nup + 1 - 1) with nup by lia.
  destruct (set_at parts v0 (VStr (marker nup))) as [v1|] eqn:S; [|intros E; inversion E; lia].
  destruct (nup + 1 <? 1); [discriminate|]. intros E. inversion E. subst vars'.
  exists rest, first, parts, v1. split; [reflexivity|]. split; [exact SD|].
  split; [eapply sassoc_sreplace; exact A|].
  split; [eapply set_at_get_at; exact S|]. apply genuine_marker_ok; lia.
Qed.

(* ======================================================== limit product == *)
Lemma limit_product_no_panic chk a b : a * b <= usize_max -> limit_product chk a b <> Panic.
Proof. intros H. unfold limit_product. destruct (Z.leb_spec (a * b) usize_max); [discriminate|lia]. Qed.
Lemma limit_product_release a b : limit_product false a b <> Panic.
Proof. unfold limit_product. destruct (a * b <=? usize_max); discriminate. Qed.
Lemma limit_product_panic_iff chk a b : limit_product chk a b = Panic <-> chk = true /\ usize_max < a * b.
Proof.
  unfold limit_product. destruct (Z.leb_spec (a * b) usize_max).
  - split; [discriminate|lia].
  - destruct chk; split; try discriminate; try tauto. intros [H' _]; discriminate.
Qed.
Lemma limit_product_overflow_example : limit_product true usize_max 2 = Panic.
Proof. vm_compute. reflexivity. Qed.

(* ========================================================== exactly_one == *)
Lemma exactly_one_singleton {A} dbg (x : A) : exactly_one dbg [x] = Ok x.
Proof. reflexivity. Qed.
Lemma exactly_one_panic_iff {A} dbg (l : list A) :
  exactly_one dbg l = Panic <-> l = [] \/ (dbg = true /\ (2 <= length l)%nat).
Proof.
  destruct l as [|x [|y l]]; cbn [exactly_one length].
  - split; [auto|reflexivity].
  - split; [discriminate|]. intros [H|[_ H]]; [discriminate|lia].
  - destruct dbg; split; try discriminate; auto.
    + intros _. right. split; [reflexivity|lia].
    + intros [H|[H _]]; discriminate.
Qed.

(* ========================================================= string_value == *)
Require Import ZifyBool.

(* every escape the grammar admits after a backslash has an arm in string_value
   (both tables are re-read from the source on every run) *)
Lemma escapes_cover :
  forallb (fun e => match assoc e string_value_escapes_gen with Some _ => true | None => false end)
          pest_simple_escapes_gen = true.
Proof. vm_compute. reflexivity. Qed.
Lemma escape_u_absent : assoc C_U string_value_escapes_gen = None.
Proof. vm_compute. reflexivity. Qed.
Lemma mem_escape e : mem e pest_simple_escapes_gen = true -> exists v, assoc e string_value_escapes_gen = Some v.
Proof.
  intros H. apply mem_In in H. pose proof escapes_cover as C. rewrite forallb_forall in C.
  specialize (C e H). destruct (assoc e string_value_escapes_gen) as [v|]; [eauto|discriminate].
Qed.

Lemma sv_plain c r : (c =? C_BACKSLASH)%N = false -> string_value (c :: r) = cons_ok c (string_value r).
Proof. intros H. cbn [string_value]. rewrite H. reflexivity. Qed.
Lemma sv_simple e v r :
  assoc e string_value_escapes_gen = Some v -> string_value (C_BACKSLASH :: e :: r) = cons_ok v (string_value r).
Proof. intros H. cbn [string_value]. rewrite N.eqb_refl, H. reflexivity. Qed.
Lemma sv_unicode a b c d x y z w r :
  hex_digit a = Some x -> hex_digit b = Some y -> hex_digit c = Some z -> hex_digit d = Some w ->
  is_scalar (((x * 16 + y) * 16 + z) * 16 + w) = true ->
  string_value (C_BACKSLASH :: C_U :: a :: b :: c :: d :: r) =
  cons_ok (Z.to_N (((x * 16 + y) * 16 + z) * 16 + w)) (string_value r).
Proof.
  intros Ha Hb Hc Hd Hs. cbn [string_value]. rewrite N.eqb_refl, escape_u_absent, N.eqb_refl, Ha, Hb, Hc, Hd.
  cbn zeta. rewrite Hs. reflexivity.
Qed.

Lemma hex_digit_cases c x :
  hex_digit c = Some x ->
  (48 <= Z.of_N c <= 57 /\ x = Z.of_N c - 48) \/ (97 <= Z.of_N c <= 102 /\ x = Z.of_N c - 87) \/
  (65 <= Z.of_N c <= 70 /\ x = Z.of_N c - 55).
Proof.
  unfold hex_digit. cbn zeta.
  destruct ((48 <=? Z.of_N c) && (Z.of_N c <=? 57)) eqn:A.
  { intros H; inversion H. left. lia. }
  destruct ((97 <=? Z.of_N c) && (Z.of_N c <=? 102)) eqn:B.
  { intros H; inversion H. right; left. lia. }
  destruct ((65 <=? Z.of_N c) && (Z.of_N c <=? 70)) eqn:C; [|discriminate].
  intros H; inversion H. right; right. lia.
Qed.
Lemma is_hex_some c : is_hex c = true -> exists x, hex_digit c = Some x.
Proof. unfold is_hex. destruct (hex_digit c) as [x|]; [eauto|discriminate]. Qed.

(* the negative look-ahead of unicode_scalar_value_hex excludes exactly the
   surrogates, so char::from_u32 succeeds *)
Lemma hex4_scalar a b c d x y z w :
  hex_digit a = Some x -> hex_digit b = Some y -> hex_digit c = Some z -> hex_digit d = Some w ->
  surrogate_lead a b = false ->
  is_scalar (((x * 16 + y) * 16 + z) * 16 + w) = true.
Proof.
  intros Ha Hb Hc Hd S.
  apply hex_digit_cases in Ha, Hb, Hc, Hd. unfold surrogate_lead in S. unfold is_scalar.
  lia.
Qed.

(* THE guard: on every string the grammar rule string_content matches,
   string_value returns (no expect / unwrap / unreachable! fires) *)
Lemma string_value_total s : string_content s -> exists v, string_value s = Ok v.
Proof.
  induction 1 as [|s r H _ [v IH]]; [exists []; reflexivity|].
  unfold string_character in H. destruct s as [|c s0]; [discriminate|].
  destruct (negb (c =? C_QUOTE)%N && negb (c =? C_BACKSLASH)%N && negb (c =? C_CR)%N && negb (c =? C_LF)%N) eqn:P.
  - inversion H; subst s0. assert (B : (c =? C_BACKSLASH)%N = false) by lia.
    rewrite (sv_plain _ _ B), IH. eexists; reflexivity.
  - destruct (N.eqb_spec c C_BACKSLASH) as [->|]; [|discriminate].
    destruct s0 as [|e r']; [discriminate|].
    destruct (mem e pest_simple_escapes_gen) eqn:M.
    + inversion H; subst r'. destruct (mem_escape e M) as [v' A].
      rewrite (sv_simple _ _ _ A), IH. eexists; reflexivity.
    + destruct (N.eqb_spec e C_U) as [->|]; [|discriminate].
      unfold unicode_scalar_value_hex in H.
      destruct r' as [|a [|b [|c [|d r'']]]]; try discriminate.
      destruct (negb (surrogate_lead a b) && is_hex a && is_hex b && is_hex c && is_hex d) eqn:Q; [|discriminate].
      inversion H; subst r''.
      apply andb_true_iff in Q. destruct Q as [Q Hd]. apply andb_true_iff in Q. destruct Q as [Q Hc].
      apply andb_true_iff in Q. destruct Q as [Q Hb]. apply andb_true_iff in Q. destruct Q as [Q Ha].
      apply negb_true_iff in Q.
      apply is_hex_some in Ha, Hb, Hc, Hd.
      destruct Ha as [x Ha], Hb as [y Hb], Hc as [z Hc], Hd as [w Hd].
      rewrite (sv_unicode _ _ _ _ _ _ _ _ _ Ha Hb Hc Hd (hex4_scalar _ _ _ _ _ _ _ _ Ha Hb Hc Hd Q)), IH.
      eexists; reflexivity.
Qed.

(* without the grammar in front the function does panic *)
Lemma string_value_unguarded_panics :
  string_value [92]%N = Panic /\ string_value [92; 120]%N = Panic /\ string_value [92; 117; 49; 50]%N = Panic /\
  string_value [92; 117; 71; 71; 71; 71]%N = Panic /\ string_value [92; 117; 68; 56; 48; 48]%N = Panic.
Proof. repeat split; vm_compute; reflexivity. Qed.

Lemma string_character_shorter s r : string_character s = Some r -> (length r < length s)%nat.
Proof.
  unfold string_character. destruct s as [|c s0]; [discriminate|].
  destruct (negb (c =? C_QUOTE)%N && negb (c =? C_BACKSLASH)%N && negb (c =? C_CR)%N && negb (c =? C_LF)%N).
  { intros H; inversion H. cbn [length]. lia. }
  destruct (c =? C_BACKSLASH)%N; [|discriminate]. destruct s0 as [|e r']; [discriminate|].
  destruct (mem e pest_simple_escapes_gen). { intros H; inversion H. cbn [length]. lia. }
  destruct (e =? C_U)%N; [|discriminate]. unfold unicode_scalar_value_hex.
  destruct r' as [|a [|b [|c' [|d r'']]]]; try discriminate.
  destruct (_ && _); [|discriminate]. intros H; inversion H. cbn [length]. lia.
Qed.

Lemma string_chars_rest_sound f : forall s, string_chars_rest f s = [] -> string_content s.
Proof.
  induction f as [|f IH]; intros s H; cbn [string_chars_rest] in H; [subst; constructor|].
  destruct (string_character s) as [r|] eqn:E; [|subst; constructor].
  econstructor; [exact E|]. apply IH. exact H.
Qed.
Lemma string_chars_rest_complete s : string_content s -> forall f, (length s <= f)%nat -> string_chars_rest f s = [].
Proof.
  induction 1 as [|s r H _ IH]; intros f L.
  - destruct f; reflexivity.
  - pose proof (string_character_shorter _ _ H) as SH.
    destruct f as [|f]; [lia|]. cbn [string_chars_rest]. rewrite H. apply IH. lia.
Qed.
Lemma string_content_b_iff s : string_content_b s = true <-> string_content s.
Proof.
  unfold string_content_b. split.
  - intros H. apply (string_chars_rest_sound (length s)). destruct (string_chars_rest (length s) s); [reflexivity|discriminate].
  - intros H. rewrite (string_chars_rest_complete s H); [reflexivity|lia].
Qed.

(* ============================================================ Type::new == *)
Lemma strip_suffix_snoc c x : strip_suffix_c c (x ++ [c]) = Some x.
Proof. unfold strip_suffix_c. rewrite rev_app_distr. cbn [rev app]. rewrite N.eqb_refl, rev_involutive. reflexivity. Qed.
Lemma strip_suffix_snoc_ne c d x : d <> c -> strip_suffix_c c (x ++ [d]) = None.
Proof.
  intros NE. unfold strip_suffix_c. rewrite rev_app_distr. cbn [rev app].
  destruct (N.eqb_spec d c); [congruence|reflexivity].
Qed.
Lemma strip_suffix_all (P : cp -> bool) c s : forallb P s = true -> P c = false -> strip_suffix_c c s = None.
Proof.
  intros A Pc. unfold strip_suffix_c. destruct (rev s) as [|c' l] eqn:E; [reflexivity|].
  destruct (N.eqb_spec c' c) as [->|]; [|reflexivity].
  rewrite forallb_forall in A. assert (I : In c s) by (apply in_rev; rewrite E; left; reflexivity).
  rewrite (A c I) in Pc. discriminate.
Qed.
Lemma strip_suffix_len c s r : strip_suffix_c c s = Some r -> length s = S (length r).
Proof.
  unfold strip_suffix_c. destruct (rev s) as [|c' l] eqn:E; [discriminate|].
  destruct (c' =? c)%N; [|discriminate]. intros H; inversion H.
  rewrite <- (rev_involutive s), E. cbn [rev]. rewrite app_length, !rev_length. cbn [length]. lia.
Qed.

Lemma name_start_cont c : name_start c = true -> name_cont c = true.
Proof. unfold name_start, name_cont. lia. Qed.
Lemma is_name_all n : is_name n = true -> forallb name_cont n = true.
Proof.
  destruct n as [|c r]; [discriminate|]. cbn [is_name forallb]. intros H.
  apply andb_true_iff in H. destruct H as [H1 H2]. rewrite (name_start_cont _ H1), H2. reflexivity.
Qed.
Lemma is_name_no_bang n : is_name n = true -> strip_suffix_c C_BANG n = None.
Proof. intros H. apply (strip_suffix_all name_cont); [apply is_name_all; exact H|reflexivity]. Qed.

Lemma type_new_f_S f s :
  type_new_f (S f) s =
  let '(nullable, ty) := match strip_suffix_c C_BANG s with Some rest => (false, rest) | None => (true, s) end in
  match ty with
  | c :: ty' =>
      if (c =? C_LBRACK)%N then
        match strip_suffix_c C_RBRACK ty' with
        | Some inner => match type_new_f f inner with Ok t => Ok (TList t nullable) | o => o end
        | None => Err 1%N
        end
      else Ok (TNamed ty nullable)
  | [] => Ok (TNamed ty nullable)
  end.
Proof. reflexivity. Qed.

Lemma type_new_named f n nl :
  is_name n = true -> type_new_f (S f) (n ++ bang (negb nl)) = Ok (TNamed n nl).
Proof.
  intros H. rewrite type_new_f_S. destruct nl; cbn [negb bang].
  - rewrite app_nil_r, (is_name_no_bang _ H). destruct n as [|c r]; [discriminate|].
    cbn [is_name] in H. apply andb_true_iff in H. destruct H as [H _].
    destruct (N.eqb_spec c C_LBRACK) as [->|]; [discriminate|reflexivity].
  - rewrite strip_suffix_snoc. destruct n as [|c r]; [discriminate|].
    cbn [is_name] in H. apply andb_true_iff in H. destruct H as [H _].
    destruct (N.eqb_spec c C_LBRACK) as [->|]; [discriminate|reflexivity].
Qed.

Lemma type_new_list f t nl ty :
  type_new_f f t = Ok ty ->
  type_new_f (S f) (C_LBRACK :: t ++ C_RBRACK :: bang (negb nl)) = Ok (TList ty nl).
Proof.
  intros H. rewrite type_new_f_S. destruct nl; cbn [negb bang].
  - replace (C_LBRACK :: t ++ [C_RBRACK]) with ((C_LBRACK :: t) ++ [C_RBRACK]) by reflexivity.
    rewrite (strip_suffix_snoc_ne C_BANG C_RBRACK) by discriminate.
    cbn [app]. rewrite N.eqb_refl, strip_suffix_snoc, H. reflexivity.
  - replace (C_LBRACK :: t ++ [C_RBRACK; C_BANG]) with ((C_LBRACK :: t ++ [C_RBRACK]) ++ [C_BANG])
      by (cbn [app]; rewrite <- app_assoc; reflexivity).
    rewrite strip_suffix_snoc, N.eqb_refl, strip_suffix_snoc, H. reflexivity.
Qed.

(* Type::new succeeds on every string of rule type_, and Display gives the string back *)
Lemma type_new_shape s : type_shape s -> forall f, (length s < f)%nat ->
  exists t, type_new_f f s = Ok t /\ print_ty t = s.
Proof.
  induction 1 as [n b Hn|t b Ht IH]; intros f L; (destruct f as [|f]; [lia|]).
  - exists (TNamed n (negb b)). split.
    + rewrite <- (negb_involutive b) at 1. apply type_new_named. exact Hn.
    + cbn [print_ty]. destruct b; reflexivity.
  - destruct (IH f) as [ty [E P]].
    { cbn [length] in L. rewrite app_length in L. lia. }
    exists (TList ty (negb b)). split.
    + rewrite <- (negb_involutive b) at 1. apply type_new_list. exact E.
    + cbn [print_ty]. rewrite P. destruct b; reflexivity.
Qed.

Lemma type_new_total s : type_shape s -> exists t, type_new s = Ok t /\ print_ty t = s.
Proof. intros H. apply type_new_shape; [exact H|lia]. Qed.

Lemma parse_type_unwrap_ok s : type_shape s -> exists t, parse_type_unwrap s = Ok t.
Proof. intros H. destruct (type_new_total s H) as [t [E _]]. exists t. unfold parse_type_unwrap. rewrite E. reflexivity. Qed.

(* on arbitrary strings Type::new returns None (never panics itself; the
   unwrap in parse_type is what needs the grammar), and the fuel suffices *)
Lemma type_new_f_regular f : forall s, (length s < f)%nat ->
  type_new_f f s <> Panic /\ type_new_f f s <> OutOfFuel.
Proof.
  induction f as [|f IH]; intros s L; [lia|]. rewrite type_new_f_S.
  destruct (strip_suffix_c C_BANG s) as [rest|] eqn:E.
  - apply strip_suffix_len in E. destruct rest as [|c ty']; [split; discriminate|].
    destruct (c =? C_LBRACK)%N; [|split; discriminate].
    destruct (strip_suffix_c C_RBRACK ty') as [inner|] eqn:E2; [|split; discriminate].
    apply strip_suffix_len in E2. destruct (IH inner) as [A B]; [cbn [length] in E; lia|].
    destruct (type_new_f f inner); split; try discriminate; congruence.
  - destruct s as [|c ty']; [split; discriminate|].
    destruct (c =? C_LBRACK)%N; [|split; discriminate].
    destruct (strip_suffix_c C_RBRACK ty') as [inner|] eqn:E2; [|split; discriminate].
    apply strip_suffix_len in E2. destruct (IH inner) as [A B]; [cbn [length] in L; lia|].
    destruct (type_new_f f inner); split; try discriminate; congruence.
Qed.
Lemma type_new_regular s : type_new s <> Panic /\ type_new s <> OutOfFuel.
Proof. apply type_new_f_regular. lia. Qed.
Lemma parse_type_unwrap_can_panic : parse_type_unwrap [91; 73]%N = Panic.   (* [I *)
Proof. vm_compute. reflexivity. Qed.

(* the PEG recogniser only accepts strings of the shape *)
Lemma name_rest_split s : exists p, s = p ++ name_rest s /\ forallb name_cont p = true.
Proof.
  induction s as [|c r [p [E A]]]; [exists []; split; reflexivity|].
  cbn [name_rest]. destruct (name_cont c) eqn:C.
  - exists (c :: p). cbn [app forallb]. rewrite C, A. split; [f_equal; exact E|reflexivity].
  - exists []. split; reflexivity.
Qed.
Lemma peg_name_sound s r : peg_name s = Some r -> exists n, s = n ++ r /\ is_name n = true.
Proof.
  unfold peg_name. destruct s as [|c s0]; [discriminate|]. destruct (name_start c) eqn:C; [|discriminate].
  intros H; inversion H. destruct (name_rest_split s0) as [p [E A]].
  exists (c :: p). cbn [app is_name]. rewrite C, A. split; [f_equal; exact E|reflexivity].
Qed.
Lemma opt_bang_split r : exists b, r = bang b ++ opt_bang r.
Proof.
  unfold opt_bang. destruct r as [|c r']; [exists false; reflexivity|].
  destruct (N.eqb_spec c C_BANG) as [->|]; [exists true; reflexivity|exists false; reflexivity].
Qed.
Lemma peg_type_sound f : forall s r, peg_type f s = Some r -> exists p, s = p ++ r /\ type_shape p.
Proof.
  induction f as [|f IH]; intros s r H; cbn [peg_type] in H; [discriminate|].
  destruct (peg_name s) as [r0|] eqn:PN.
  - inversion H. destruct (peg_name_sound _ _ PN) as [n [E N]]. destruct (opt_bang_split r0) as [b B].
    exists (n ++ bang b). split; [rewrite <- app_assoc, <- B; exact E|constructor; exact N].
  - destruct s as [|c s1]; [discriminate|]. destruct (N.eqb_spec c C_LBRACK) as [->|]; [|discriminate].
    destruct (peg_type f s1) as [[|c2 r1]|] eqn:PT; try discriminate.
    destruct (N.eqb_spec c2 C_RBRACK) as [->|]; [|discriminate]. inversion H.
    destruct (IH _ _ PT) as [p1 [E1 S1]]. destruct (opt_bang_split r1) as [b B].
    exists (C_LBRACK :: p1 ++ C_RBRACK :: bang b). split; [|constructor; exact S1].
    cbn [app]. f_equal. rewrite <- app_assoc. cbn [app]. rewrite <- B. exact E1.
Qed.
Lemma type_shape_b_sound s : type_shape_b s = true -> type_shape s.
Proof.
  unfold type_shape_b. destruct (peg_type (S (length s)) s) as [[|c r]|] eqn:E; try discriminate.
  intros _. destruct (peg_type_sound _ _ _ E) as [p [E1 S1]]. rewrite app_nil_r in E1. subst p. exact S1.
Qed.
Lemma type_shape_nonvacuous :
  type_shape_b [91; 91; 73; 110; 116; 33; 93; 93; 33]%N = true /\          (* [[Int!]]! *)
  type_new [91; 91; 73; 110; 116; 33; 93; 93; 33]%N = Ok (TList (TList (TNamed [73; 110; 116]%N false) true) false).
Proof. split; vm_compute; reflexivity. Qed.
Lemma string_content_nonvacuous :
  string_content_b [97; 92; 110; 92; 117; 50; 97; 49; 65; 92; 34]%N = true /\   (* a, backslash n, backslash u2a1A, backslash quote *)
  string_value [97; 92; 110; 92; 117; 50; 97; 49; 65; 92; 34]%N = Ok [97; 10; 10778; 34]%N.
Proof. split; vm_compute; reflexivity. Qed.

(* ===================================== the verdict functions never report a
   theorem gap (code 2): whatever the real library answers, a case on which the
   model violates "no panic" lies in a known class *)
Lemma verdict_gap a b c k : verdict a b c k = 2%N -> a = true /\ b = false /\ k = 0%N.
Proof.
  unfold verdict, V_OK, V_THEOREM_GAP, V_STALE_OK, V_VIOLATION.
  destruct a, b, c; destruct (N.eqb_spec k 0); intros H; try discriminate; try lia; auto.
Qed.

Lemma check_uexec_no_gap c : check_uexec c <> 2%N.
Proof.
  destruct c as [[nup v] impl]. unfold check_uexec. intros H. apply verdict_gap in H. destruct H as [_ [B K]].
  unfold no_panic in B. apply negb_false_iff in B.
  destruct (upload_field quirks_today nup (Some v)) eqn:E; try discriminate.
  revert E. apply upload_no_panic. exact K.
Qed.
Lemma check_uparse_no_gap c : check_uparse c <> 2%N.
Proof.
  destruct c as [v impl]. unfold check_uparse. intros H. apply verdict_gap in H. destruct H as [_ [B K]].
  unfold no_panic in B. apply negb_false_iff in B.
  destruct (upload_parse quirks_today v) eqn:E; try discriminate.
  apply upload_parse_panic_iff in E. destruct E as [_ E]. rewrite E in K. discriminate.
Qed.
Lemma check_setup_no_gap c : check_setup c <> 2%N.
Proof.
  destruct c as [[vars paths] impl]. unfold check_setup. intros H. apply verdict_gap in H. destruct H as [_ [B _]].
  unfold no_panic in B. apply negb_false_iff in B.
  destruct (set_uploads vars 0 paths) eqn:E; try discriminate.
  revert E. apply set_uploads_no_panic. lia.
Qed.
Lemma check_lim_no_gap c : check_lim c <> 2%N.
Proof.
  destruct c as [[[chk a] b] impl]. unfold check_lim. intros H. apply verdict_gap in H. destruct H as [_ [B _]].
  apply orb_false_iff in B. destruct B as [B C]. unfold no_panic in B. apply negb_false_iff in B.
  apply negb_false_iff in C. apply Z.leb_le in C.
  destruct (limit_product chk a b) eqn:E; try discriminate.
  revert E. apply limit_product_no_panic. exact C.
Qed.
Lemma check_str_no_gap c : check_str c <> 2%N.
Proof.
  destruct c as [s impl]. unfold check_str. destruct (string_content_b s) eqn:SC; intros H;
    apply verdict_gap in H; destruct H as [_ [B _]]; [|discriminate].
  apply string_content_b_iff in SC. destruct (string_value_total s SC) as [v E]. rewrite E in B. discriminate.
Qed.
Lemma check_ty_no_gap c : check_ty c <> 2%N.
Proof.
  destruct c as [s impl]. unfold check_ty. intros H. apply verdict_gap in H. destruct H as [_ [B _]].
  destruct (type_shape_b s) eqn:TS.
  - apply type_shape_b_sound in TS. destruct (type_new_total s TS) as [t [E _]]. rewrite E in B. discriminate.
  - unfold no_panic in B. apply negb_false_iff in B. destruct (type_new s) eqn:E; try discriminate.
    destruct (type_new_regular s) as [A _]. congruence.
Qed.

(* Loader.v — C28: the DataLoader of src/dataloader/mod.rs as a state machine
   whose atomic steps are its critical sections (everything done while the
   scc entry of the key type is locked, plus the straight-line code up to the
   next await):
     SRequest w ks  load_many's block (cache lookups, keys/pending update,
                    dispatch decision) up to `rx.await`; an immediate load's
                    task is taken to its loader call
     SFire t        the timer of start-fetch task t elapses: Requests::take,
                    then do_load up to the loader call
     SDone t r      the loader answers the call of task t: cache update and
                    fan-out to the waiters of the batch
     SCancel w      the future of a waiting load is dropped
     SFeed kvs      feed_many
   One key type; cache kind, max_batch_size and the (constant) cache-disable
   flag are the configuration.  Executable, no proofs. *)
From AG Require Export Base DLCache.
Open Scope N_scope.

Record cfg := { c_kind : kind; c_max : nat; c_dis : bool }.

(* one element of Requests.pending: (keys_set, ResSender{use_cache_values, tx}) *)
Record pend := { p_w : N; p_keys : list key; p_use : list (key * val) }.

(* spawned tasks: a start-fetch task sleeping on its timer, or do_load
   awaiting the loader with the batch it took *)
Inductive task := TTimer | TLoad (ks : list key) (senders : list pend).

Inductive wres := WOk (r : list (key * val)) | WErr (code : N).

Record state := {
  st_keys : list key;                 (* Requests.keys (a set) *)
  st_pending : list pend;             (* Requests.pending, push order *)
  st_cache : icache;
  st_tasks : list (N * task);         (* live spawned tasks *)
  st_next : N;                        (* spawn counter = id of the next task *)
  st_used : list N;                   (* waiter ids already issued *)
  st_cancelled : list N;
  st_done : list (N * wres);          (* completed loads, completion order *)
  st_calls : list (N * list key);     (* Loader::load call log: task, batch *)
  st_answers : list (N * lresp);      (* log: what the loader answered to task t *)
  st_reqs : list (N * (list key * list (key * val)))  (* log: (keys_set, use_cache_values) of each request *)
}.

Inductive step :=
| SRequest (w : N) (ks : list key)
| SFire (t : N)
| SDone (t : N) (r : lresp)
| SCancel (w : N)
| SFeed (kvs : list (key * val)).

(* ----------------------------------------------------------------- sets -- *)
Definition add_key (k : key) (l : list key) : list key := if mem k l then l else l ++ [k].
Definition union (a b : list key) : list key := fold_left (fun acc k => add_key k acc) b a.
Definition dedup (l : list key) : list key := union [] l.

Fixpoint find_task (t : N) (l : list (N * task)) : option task :=
  match l with
  | [] => None
  | (t', x) :: l' => if N.eqb t t' then Some x else find_task t l'
  end.

Fixpoint remove_task (t : N) (l : list (N * task)) : list (N * task) :=
  match l with
  | [] => []
  | (t', x) :: l' => if N.eqb t t' then remove_task t l' else (t', x) :: remove_task t l'
  end.

Definition task_waiters (x : N * task) : list N :=
  match snd x with TTimer => [] | TLoad _ senders => map p_w senders end.

Definition waiting_ids (st : state) : list N :=
  map p_w (st_pending st) ++ flat_map task_waiters (st_tasks st).

(* ------------------------------------------------------------- the steps -- *)
Definition init_cache (kd : kind) : icache :=
  match ic_create kd with Ok c => c | _ => INo end.

Definition init (cf : cfg) : state :=
  {| st_keys := []; st_pending := []; st_cache := init_cache (c_kind cf); st_tasks := []; st_next := 0;
     st_used := []; st_cancelled := []; st_done := []; st_calls := []; st_answers := []; st_reqs := [] |}.

(* load_many's lookup: (storage after the gets, use_cache_values, keys_set) *)
Definition lookup (cf : cfg) (c : icache) (ks : list key) : icache * list (key * val) * list key :=
  if c_dis cf then (c, [], dedup ks)
  else let '(c1, use, need) := scan ks c [] [] in (c1, use, dedup need).

Definition picks (need : list key) (vals : list (key * val)) : list (key * val) :=
  flat_map (fun k => match assoc k vals with Some v => [(k, v)] | None => [] end) need.

(* do_load's fan-out for one sender *)
Definition result (p : pend) (r : lresp) : wres :=
  match r with
  | LOk vals => WOk (canon_kv (picks (p_keys p) vals ++ p_use p))
  | LErr e => WErr e
  end.

Definition mrequest (cf : cfg) (st : state) (w : N) (ks : list key) : state :=
  if mem w (st_used st) then st else
  let '(c1, use, need) := lookup cf (st_cache st) ks in
  let used := w :: st_used st in
  let reqs := st_reqs st ++ [(w, (need, use))] in
  match need with
  | [] =>
      {| st_keys := st_keys st; st_pending := st_pending st; st_cache := c1; st_tasks := st_tasks st;
         st_next := st_next st; st_used := used; st_cancelled := st_cancelled st;
         st_done := st_done st ++ [(w, WOk (canon_kv use))]; st_calls := st_calls st;
         st_answers := st_answers st; st_reqs := reqs |}
  | _ =>
      let keys' := union (st_keys st) need in
      let pending' := st_pending st ++ [{| p_w := w; p_keys := need; p_use := use |}] in
      if (c_max cf <=? length keys')%nat then
        (* Action::ImmediateLoad(typed_requests.take()) *)
        {| st_keys := []; st_pending := []; st_cache := c1;
           st_tasks := st_tasks st ++ [(st_next st, TLoad keys' pending')];
           st_next := st_next st + 1; st_used := used; st_cancelled := st_cancelled st;
           st_done := st_done st; st_calls := st_calls st ++ [(st_next st, keys')];
           st_answers := st_answers st; st_reqs := reqs |}
      else
        match st_keys st with
        | [] =>
            (* Action::StartFetch *)
            {| st_keys := keys'; st_pending := pending'; st_cache := c1;
               st_tasks := st_tasks st ++ [(st_next st, TTimer)];
               st_next := st_next st + 1; st_used := used; st_cancelled := st_cancelled st;
               st_done := st_done st; st_calls := st_calls st;
               st_answers := st_answers st; st_reqs := reqs |}
        | _ =>
            (* Action::Delay *)
            {| st_keys := keys'; st_pending := pending'; st_cache := c1; st_tasks := st_tasks st;
               st_next := st_next st; st_used := used; st_cancelled := st_cancelled st;
               st_done := st_done st; st_calls := st_calls st;
               st_answers := st_answers st; st_reqs := reqs |}
        end
  end.

Definition mfire (st : state) (t : N) : state :=
  match find_task t (st_tasks st) with
  | Some TTimer =>
      match st_keys st with
      | [] =>
          {| st_keys := []; st_pending := st_pending st; st_cache := st_cache st;
             st_tasks := remove_task t (st_tasks st); st_next := st_next st; st_used := st_used st;
             st_cancelled := st_cancelled st; st_done := st_done st; st_calls := st_calls st;
             st_answers := st_answers st; st_reqs := st_reqs st |}
      | ks =>
          {| st_keys := []; st_pending := []; st_cache := st_cache st;
             st_tasks := remove_task t (st_tasks st) ++ [(t, TLoad ks (st_pending st))];
             st_next := st_next st; st_used := st_used st;
             st_cancelled := st_cancelled st; st_done := st_done st;
             st_calls := st_calls st ++ [(t, ks)];
             st_answers := st_answers st; st_reqs := st_reqs st |}
      end
  | _ => st
  end.

Definition mdone (cf : cfg) (st : state) (t : N) (r : lresp) : state :=
  match find_task t (st_tasks st) with
  | Some (TLoad ks senders) =>
      let cache := match r with
                   | LOk vals => if c_dis cf then st_cache st else ic_insert_all vals (st_cache st)
                   | LErr _ => st_cache st
                   end in
      let live := filter (fun p => negb (mem (p_w p) (st_cancelled st))) senders in
      {| st_keys := st_keys st; st_pending := st_pending st; st_cache := cache;
         st_tasks := remove_task t (st_tasks st); st_next := st_next st; st_used := st_used st;
         st_cancelled := st_cancelled st;
         st_done := st_done st ++ map (fun p => (p_w p, result p r)) live;
         st_calls := st_calls st; st_answers := st_answers st ++ [(t, r)]; st_reqs := st_reqs st |}
  | _ => st
  end.

Definition mcancel (st : state) (w : N) : state :=
  if mem w (waiting_ids st) && negb (mem w (st_cancelled st)) then
    {| st_keys := st_keys st; st_pending := st_pending st; st_cache := st_cache st;
       st_tasks := st_tasks st; st_next := st_next st; st_used := st_used st;
       st_cancelled := w :: st_cancelled st; st_done := st_done st; st_calls := st_calls st;
       st_answers := st_answers st; st_reqs := st_reqs st |}
  else st.

Definition mfeed (st : state) (kvs : list (key * val)) : state :=
  {| st_keys := st_keys st; st_pending := st_pending st; st_cache := ic_insert_all kvs (st_cache st);
     st_tasks := st_tasks st; st_next := st_next st; st_used := st_used st;
     st_cancelled := st_cancelled st; st_done := st_done st; st_calls := st_calls st;
     st_answers := st_answers st; st_reqs := st_reqs st |}.

Definition mstep (cf : cfg) (st : state) (s : step) : state :=
  match s with
  | SRequest w ks => mrequest cf st w ks
  | SFire t => mfire st t
  | SDone t r => mdone cf st t r
  | SCancel w => mcancel st w
  | SFeed kvs => mfeed st kvs
  end.

Definition run_from (cf : cfg) (st : state) (steps : list step) : state := fold_left (mstep cf) steps st.
Definition run (cf : cfg) (steps : list step) : state := run_from cf (init cf) steps.

(* size of the largest single request (distinct keys) *)
Fixpoint maxreq (steps : list step) : nat :=
  match steps with
  | [] => O
  | SRequest _ ks :: r => Nat.max (length (dedup ks)) (maxreq r)
  | _ :: r => maxreq r
  end.

(* "spawned tasks and timers run": fire every timer, then answer every call *)
Definition timers (st : state) : list N :=
  flat_map (fun x => match snd x with TTimer => [fst x] | _ => [] end) (st_tasks st).
Definition loads (st : state) : list N :=
  flat_map (fun x => match snd x with TLoad _ _ => [fst x] | _ => [] end) (st_tasks st).

Definition drain (cf : cfg) (answer : N -> lresp) (st : state) : state :=
  let st1 := fold_left mfire (timers st) st in
  fold_left (fun s t => mdone cf s t (answer t)) (loads st1) st1.

(* ------------------------------------------------------------- verdicts -- *)
(* what the harness sees of one step: the batches newly handed to the loader
   (calling task, keys sorted) and the loads that completed, with results *)
Inductive sobs := SO (calls : list (N * list key)) (done : list (N * wres)) | SAnom (n : N).

Definition wres_eqb (a b : wres) : bool :=
  match a, b with
  | WOk x, WOk y => list_eqb kv_eqb x y
  | WErr x, WErr y => N.eqb x y
  | _, _ => false
  end.

Definition sobs_eqb (a b : sobs) : bool :=
  match a, b with
  | SO c d, SO c' d' =>
      list_eqb (fun x y => N.eqb (fst x) (fst y) && list_eqb N.eqb (snd x) (snd y)) c c' &&
      list_eqb (fun x y => N.eqb (fst x) (fst y) && wres_eqb (snd x) (snd y)) d d'
  | SAnom x, SAnom y => N.eqb x y
  | _, _ => false
  end.

Definition observe (old new : state) : sobs :=
  SO (map (fun c => (fst c, canon (snd c))) (skipn (length (st_calls old)) (st_calls new)))
     (skipn (length (st_done old)) (st_done new)).

Fixpoint mtrace (cf : cfg) (st : state) (steps : list step) : list sobs :=
  match steps with
  | [] => []
  | s :: r => let st' := mstep cf st s in observe st st' :: mtrace cf st' r
  end.

(* ------------------------------------------------- the specification side -- *)
(* A checker of the property on an observed trace ALONE (steps = what the
   callers, the timers and the loader did; observations = what reached the
   loader and the callers).  It does not run the machine: it keeps the
   reference cache of C29 (DLCache.v: one recency-ordered map with optional
   capacity) fed from the trace (fed values, values the loader returned while
   caching is enabled, every cache hit counts as a use), the batches the
   loader was asked and has not answered yet, and per request the cache
   content it could see.  A load that completes must
     - have been requested, not completed before, not cancelled;
     - complete either in its own request step, and then every key was served
       from the cache, or in the step where the loader answers a batch that
       was handed to the loader and contains every key of the request that the
       cache did not serve;
     - hold, for every requested key, exactly the cached value, else exactly
       what the loader answered for that key in that batch, else nothing; no
       other key; no key twice;
     - or hold that batch's error.
   Batches stay below max_batch_size + the largest request; a request wholly
   served from the cache completes at once; at the end of a schedule in which
   every timer and task ran, every load that was not cancelled is done. *)
Fixpoint subset (a b : list key) : bool :=
  match a with [] => true | x :: a' => mem x b && subset a' b end.

Record treq := { r_ks : list key; r_snap : list (key * val); r_need : list key }.

Record tstate := {
  t_cache : list (key * val);         (* reference cache *)
  t_reqs : list (N * treq);
  t_open : list (N * list key);       (* batches handed to the loader, not answered yet *)
  t_done : list N;
  t_canc : list N;
  t_maxreq : nat }.

Definition t_init : tstate :=
  {| t_cache := []; t_reqs := []; t_open := []; t_done := []; t_canc := []; t_maxreq := O |}.

(* the value a completed load must hold for key k *)
Definition value_of (snap vals : list (key * val)) (k : key) : option val :=
  match assoc k snap with Some v => Some v | None => assoc k vals end.

Definition wok_ok (rq : treq) (vals l : list (key * val)) : bool :=
  subset (map fst l) (r_ks rq) && Nat.eqb (length (canon (map fst l))) (length l) &&
  forallb (fun k => option_eqb N.eqb (assoc k l) (value_of (r_snap rq) vals k)) (r_ks rq).

Definition done_ok (ts : tstate) (s : step) (d : N * wres) : bool :=
  let (w, r) := d in
  negb (mem w (t_done ts)) && negb (mem w (t_canc ts)) &&
  match assoc w (t_reqs ts) with
  | None => false
  | Some rq =>
      match s, r with
      | SRequest w' _, WOk l =>
          N.eqb w' w && match r_need rq with [] => true | _ => false end && wok_ok rq [] l
      | SDone t (LOk vals), WOk l =>
          match assoc t (t_open ts) with
          | Some b => subset (r_need rq) b && wok_ok rq vals l
          | None => false
          end
      | SDone t (LErr e'), WErr e =>
          N.eqb e e' && match assoc t (t_open ts) with Some b => subset (r_need rq) b | None => false end
      | _, _ => false
      end
  end.

Fixpoint nodup_ids (l : list N) : bool :=
  match l with [] => true | x :: r => negb (mem x r) && nodup_ids r end.

Definition remove_open (t : N) (l : list (N * list key)) : list (N * list key) :=
  filter (fun x => negb (N.eqb (fst x) t)) l.

(* a request / a feed as the reference cache sees it *)
Definition treg (cf : cfg) (ts : tstate) (s : step) : tstate :=
  match s with
  | SRequest w ks =>
      if mem w (map fst (t_reqs ts)) then ts
      else
        let snap := if c_dis cf then [] else t_cache ts in
        {| t_cache := fold_left (fun l k => s_touch k l) (filter (holds snap) ks) (t_cache ts);
           t_reqs := (w, {| r_ks := ks; r_snap := snap;
                            r_need := canon (filter (fun k => negb (holds snap k)) ks) |}) :: t_reqs ts;
           t_open := t_open ts; t_done := t_done ts; t_canc := t_canc ts;
           t_maxreq := Nat.max (length (canon ks)) (t_maxreq ts) |}
  | SFeed kvs =>
      {| t_cache := s_put_all (cap_of (c_kind cf)) kvs (t_cache ts); t_reqs := t_reqs ts;
         t_open := t_open ts; t_done := t_done ts; t_canc := t_canc ts; t_maxreq := t_maxreq ts |}
  | _ => ts
  end.

(* a request wholly served from the cache completes in its own step *)
Definition fresh_ok (ts ts1 : tstate) (s : step) (done : list (N * wres)) : bool :=
  match s with
  | SRequest w _ =>
      if mem w (map fst (t_reqs ts)) then true
      else match assoc w (t_reqs ts1) with
           | Some rq => match r_need rq with [] => mem w (map fst done) | _ => true end
           | None => false
           end
  | _ => true
  end.

(* the loader's answer closes its batch and, when caching is enabled, enters
   the cache; a dropped future cancels a load that is not done *)
Definition tclose (cf : cfg) (ts : tstate) (s : step) : tstate :=
  match s with
  | SDone t r =>
      match assoc t (t_open ts) with
      | Some _ =>
          {| t_cache := match r with
                        | LOk vals => if c_dis cf then t_cache ts else s_put_all (cap_of (c_kind cf)) vals (t_cache ts)
                        | LErr _ => t_cache ts
                        end;
             t_reqs := t_reqs ts; t_open := remove_open t (t_open ts); t_done := t_done ts;
             t_canc := t_canc ts; t_maxreq := t_maxreq ts |}
      | None => ts
      end
  | SCancel w =>
      if mem w (map fst (t_reqs ts)) && negb (mem w (t_done ts)) then
        {| t_cache := t_cache ts; t_reqs := t_reqs ts; t_open := t_open ts; t_done := t_done ts;
           t_canc := w :: t_canc ts; t_maxreq := t_maxreq ts |}
      else ts
  | _ => ts
  end.

Definition tstep (cf : cfg) (ts : tstate) (s : step) (o : sobs) : option tstate :=
  match o with
  | SAnom _ => None
  | SO calls done =>
      let ts1 := treg cf ts s in
      if forallb (fun c => (length (snd c) <? c_max cf + t_maxreq ts1)%nat) calls &&
         forallb (done_ok ts1 s) done && nodup_ids (map fst done) && fresh_ok ts ts1 s done
      then
        let ts2 := tclose cf ts1 s in
        Some {| t_cache := t_cache ts2; t_reqs := t_reqs ts2; t_open := calls ++ t_open ts2;
                t_done := map fst done ++ t_done ts2; t_canc := t_canc ts2; t_maxreq := t_maxreq ts2 |}
      else None
  end.

Definition tfinal (ts : tstate) (complete : bool) : bool :=
  negb complete || forallb (fun x => mem (fst x) (t_done ts) || mem (fst x) (t_canc ts)) (t_reqs ts).

Fixpoint trace_ok (cf : cfg) (ts : tstate) (l : list (step * sobs)) (complete : bool) : bool :=
  match l with
  | [] => tfinal ts complete
  | (s, o) :: r =>
      match tstep cf ts s o with
      | Some ts' => trace_ok cf ts' r complete
      | None => false
      end
  end.

Definition wf_cfg (cf : cfg) : bool := wf_kind (c_kind cf) && (1 <=? c_max cf)%nat.

(* one schedule: configuration, steps with what the real loader showed after
   each, and whether the harness ran every timer and task to the end *)
Definition check_case (c : cfg * list (step * sobs) * bool) : N :=
  let '(cf, l, complete) := c in
  let steps := map fst l in
  let impl := map snd l in
  let m := mtrace cf (init cf) steps in
  verdict (list_eqb sobs_eqb impl m)
          (trace_ok cf t_init (combine steps m) complete)
          (trace_ok cf t_init l complete) 0.

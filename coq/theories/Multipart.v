(* Multipart.v — C26: model of create_multipart_mixed_stream
   (src/http/multipart_subscribe.rs:18-59) as a state machine, an RFC 2046
   multipart reader written independently as the specification, and the
   per-case verdict function.  The byte-string constants and the order of the
   yielded chunks per select! branch come from the translated source
   (MultipartGen.v).  No proofs here (MultipartProofs.v). *)
From AG Require Export Base.
From AGgen Require Export MultipartGen.

Definition bytes := list N.
Definition chunk := bytes.

Definition bytes_eqb (a b : bytes) : bool := list_eqb N.eqb a b.

(* ================================================================ impl == *)
(* Event level: the sequence of select! outcomes of the loop. *)
Inductive event :=
| EResp (json : bytes)   (* input.next() = Some(resp), serde_json::to_writer succeeded *)
| EBad                   (* input.next() = Some(resp), serialisation failed: `continue` *)
| ETick                  (* the heartbeat timer fired (and is re-armed) *)
| EEnd.                  (* input.next() = None: `break`, then EOF *)

(* the items yielded by the generator, in order; nothing follows EEnd *)
Fixpoint emit (evs : list event) : list chunk :=
  match evs with
  | [] => []
  | EResp j :: r => resp_chunks_gen j ++ emit r
  | EBad :: r => emit r
  | ETick :: r => tick_chunks_gen ++ emit r
  | EEnd :: _ => end_chunks_gen
  end.

Definition is_end (e : event) : bool := match e with EEnd => true | _ => false end.
Definition finished (evs : list event) : bool := existsb is_end evs.

(* Schedule level: the environment (channel, timer, consumer) acts; the
   generator runs one select! when it is polled with nothing left to hand
   over.  [choice] is consulted only when both branches are ready
   (futures_util::select! picks pseudo-randomly): true = the input branch. *)
Inductive item := IResp (j : bytes) | IEnd.

Record st := {
  st_q : list item;        (* what input.next() will yield, in order *)
  st_closed : bool;        (* the sender side is gone *)
  st_due : bool;           (* the armed heartbeat delay has elapsed *)
  st_buf : list chunk;     (* chunks of the current branch not yet handed over *)
  st_fin : bool }.         (* the generator has left the loop *)

Definition st_init : st :=
  {| st_q := []; st_closed := false; st_due := false; st_buf := []; st_fin := false |}.

Inductive action :=
| AArrive (j : bytes)      (* a response is sent into the input stream *)
| AClose                   (* the input stream ends *)
| AFire                    (* the heartbeat interval elapses *)
| APoll (choice : bool).   (* the consumer polls the body stream once *)

Inductive obs := OChunk (c : chunk) | ONone | OPending | OUnit.

(* hand over the first chunk of a branch, keep the rest *)
Definition commit (s : st) (cs : list chunk) : st * obs :=
  match cs with
  | x :: b => ({| st_q := st_q s; st_closed := st_closed s; st_due := st_due s;
                  st_buf := b; st_fin := st_fin s |}, OChunk x)
  | [] => (s, OPending)   (* no branch yields nothing (checked on the generated table) *)
  end.

Definition step (s : st) (a : action) : st * obs * list event :=
  match a with
  | AArrive j =>
      if st_closed s then (s, OUnit, [])
      else ({| st_q := st_q s ++ [IResp j]; st_closed := false; st_due := st_due s;
               st_buf := st_buf s; st_fin := st_fin s |}, OUnit, [])
  | AClose =>
      if st_closed s then (s, OUnit, [])
      else ({| st_q := st_q s ++ [IEnd]; st_closed := true; st_due := st_due s;
               st_buf := st_buf s; st_fin := st_fin s |}, OUnit, [])
  | AFire =>
      ({| st_q := st_q s; st_closed := st_closed s; st_due := true;
          st_buf := st_buf s; st_fin := st_fin s |}, OUnit, [])
  | APoll c =>
      match st_buf s with
      | x :: b => ({| st_q := st_q s; st_closed := st_closed s; st_due := st_due s;
                      st_buf := b; st_fin := st_fin s |}, OChunk x, [])
      | [] =>
        if st_fin s then (s, ONone, [])
        else
          match st_q s with
          | it :: q' =>
            if negb (st_due s) || c then
              match it with
              | IResp j =>
                  (commit {| st_q := q'; st_closed := st_closed s; st_due := st_due s;
                             st_buf := []; st_fin := false |} (resp_chunks_gen j), [EResp j])
              | IEnd =>
                  (commit {| st_q := q'; st_closed := st_closed s; st_due := st_due s;
                             st_buf := []; st_fin := true |} end_chunks_gen, [EEnd])
              end
            else
              (commit {| st_q := st_q s; st_closed := st_closed s; st_due := false;
                         st_buf := []; st_fin := false |} tick_chunks_gen, [ETick])
          | [] =>
            if st_due s then
              (commit {| st_q := []; st_closed := st_closed s; st_due := false;
                         st_buf := []; st_fin := false |} tick_chunks_gen, [ETick])
            else (s, OPending, [])
          end
      end
  end.

Fixpoint run (s : st) (acts : list action) : st * list obs * list event :=
  match acts with
  | [] => (s, [], [])
  | a :: r =>
      let '(s1, o, e) := step s a in
      let '(s2, os, es) := run s1 r in
      (s2, o :: os, e ++ es)
  end.

Fixpoint chunks_of (os : list obs) : list chunk :=
  match os with
  | [] => []
  | OChunk c :: r => c :: chunks_of r
  | _ :: r => chunks_of r
  end.

Fixpoint arrivals (closed : bool) (acts : list action) : list bytes :=
  match acts with
  | [] => []
  | AArrive j :: r => if closed then arrivals closed r else j :: arrivals closed r
  | AClose :: r => arrivals true r
  | _ :: r => arrivals closed r
  end.

Fixpoint queue_resps (q : list item) : list bytes :=
  match q with
  | [] => []
  | IResp j :: r => j :: queue_resps r
  | IEnd :: r => queue_resps r
  end.

Fixpoint event_resps (evs : list event) : list bytes :=
  match evs with
  | [] => []
  | EResp j :: r => j :: event_resps r
  | _ :: r => event_resps r
  end.

Definition is_tick (e : event) : bool := match e with ETick => true | _ => false end.
Definition is_fire (a : action) : bool := match a with AFire => true | _ => false end.

(* vocabulary of the schedule-level theorems: the chunks of every selection
   (no truncation at the end of the input), selections without an end,
   heartbeat and firing counts *)
Definition ev_chunks (e : event) : list chunk :=
  match e with
  | EResp j => resp_chunks_gen j
  | EBad => []
  | ETick => tick_chunks_gen
  | EEnd => end_chunks_gen
  end.
Definition emit_all (evs : list event) : list chunk := flat_map ev_chunks evs.
Definition obs_chunk (o : obs) : list chunk := match o with OChunk c => [c] | _ => [] end.
Definition no_end (evs : list event) : bool := forallb (fun e => negb (is_end e)) evs.
Definition b2n (b : bool) : nat := if b then 1%nat else 0%nat.
Definition ticks (evs : list event) : nat := length (filter is_tick evs).
Definition fires (acts : list action) : nat := length (filter is_fire acts).

(* ================================================================ spec == *)
(* RFC 2046 section 5.1.1, boundary "graphql":
     dash-boundary   := "--" boundary
     delimiter       := CRLF dash-boundary
     close-delimiter := delimiter "--"
     multipart-body  := [preamble CRLF] dash-boundary transport-padding CRLF
                        body-part *(delimiter transport-padding CRLF body-part)
                        close-delimiter transport-padding [CRLF epilogue]
     body-part       := MIME-part-headers [CRLF *OCTET]
   The reader takes no preamble, accepts a body of zero parts (a dash-boundary
   immediately followed by "--"), and returns the parts with the epilogue. *)
Definition CR : N := 13%N.
Definition LF : N := 10%N.
Definition DASH : N := 45%N.
Definition boundary : bytes := [103; 114; 97; 112; 104; 113; 108]%N.   (* graphql *)
Definition dash_boundary : bytes := DASH :: DASH :: boundary.
Definition delimiter : bytes := CR :: LF :: dash_boundary.

Record part := { p_headers : list bytes; p_body : bytes }.

Fixpoint starts_with (p s : bytes) : option bytes :=
  match p with
  | [] => Some s
  | a :: p' => match s with
               | b :: s' => if N.eqb a b then starts_with p' s' else None
               | [] => None
               end
  end.

Fixpoint skip_lwsp (s : bytes) : bytes :=
  match s with
  | b :: s' => if N.eqb b 32 || N.eqb b 9 then skip_lwsp s' else s
  | [] => []
  end.

(* header lines up to the empty line *)
Fixpoint read_headers (s cur : bytes) (lines : list bytes) : option (list bytes * bytes) :=
  match s with
  | [] => None
  | b :: s1 =>
    if N.eqb b CR then
      match s1 with
      | c :: s2 =>
          if N.eqb c LF then
            match cur with
            | [] => Some (rev lines, s2)
            | _ => read_headers s2 [] (rev cur :: lines)
            end
          else read_headers s1 (b :: cur) lines
      | [] => None
      end
    else read_headers s1 (b :: cur) lines
  end.

(* the octets up to the next delimiter, and what follows the delimiter *)
Fixpoint split_at_delim (s acc : bytes) : option (bytes * bytes) :=
  match starts_with delimiter s with
  | Some rest => Some (rev acc, rest)
  | None => match s with
            | b :: s' => split_at_delim s' (b :: acc)
            | [] => None
            end
  end.

(* [s] follows a dash-boundary *)
Fixpoint parts_after (fuel : nat) (s : bytes) : option (list part * bytes) :=
  match fuel with
  | O => None
  | S f =>
    match starts_with [DASH; DASH] s with
    | Some epi => Some ([], epi)
    | None =>
      match starts_with [CR; LF] (skip_lwsp s) with
      | None => None
      | Some s1 =>
        match read_headers s1 [] [] with
        | None => None
        | Some (hs, s2) =>
          match split_at_delim s2 [] with
          | None => None
          | Some (body, s3) =>
            match parts_after f s3 with
            | None => None
            | Some (ps, epi) => Some ({| p_headers := hs; p_body := body |} :: ps, epi)
            end
          end
        end
      end
    end
  end.

Definition read_multipart (s : bytes) : option (list part * bytes) :=
  match starts_with dash_boundary s with
  | Some s1 => parts_after (S (length s)) s1
  | None => None
  end.

(* what the protocol asks of the parts (Apollo multipart subscription
   protocol: every part is application/json; a heartbeat is the empty object) *)
Definition ct_line : bytes :=   (* Content-Type: application/json *)
  [67; 111; 110; 116; 101; 110; 116; 45; 84; 121; 112; 101; 58; 32;
   97; 112; 112; 108; 105; 99; 97; 116; 105; 111; 110; 47; 106; 115; 111; 110]%N.
Definition hb_body : bytes := [123; 125]%N.   (* {} *)

Definition json_part (j : bytes) : part := {| p_headers := [ct_line]; p_body := j |}.

Fixpoint expected (evs : list event) : list part :=
  match evs with
  | [] => []
  | EResp j :: r => json_part j :: expected r
  | EBad :: r => expected r
  | ETick :: r => json_part hb_body :: expected r
  | EEnd :: _ => []
  end.

(* serde_json never writes a raw control character: no CR in a payload *)
Definition no_cr (j : bytes) : bool := forallb (fun b => negb (N.eqb b CR)) j.

Fixpoint payloads_ok (evs : list event) : bool :=
  match evs with
  | [] => true
  | EResp j :: r => no_cr j && payloads_ok r
  | _ :: r => payloads_ok r
  end.

Definition part_eqb (a b : part) : bool :=
  list_eqb bytes_eqb (p_headers a) (p_headers b) && bytes_eqb (p_body a) (p_body b).

(* the parts are the responses, each once, in order, with heartbeat parts in
   between; returns the number of heartbeats *)
Fixpoint interleaved (ps : list part) (rs : list bytes) : option nat :=
  match ps with
  | [] => match rs with [] => Some O | _ => None end
  | p :: ps' =>
    match rs with
    | r :: rs' =>
        if part_eqb p (json_part r) then interleaved ps' rs'
        else if part_eqb p (json_part hb_body)
             then match interleaved ps' rs with Some n => Some (S n) | None => None end
             else None
    | [] =>
        if part_eqb p (json_part hb_body)
        then match interleaved ps' [] with Some n => Some (S n) | None => None end
        else None
    end
  end.

Definition crlf : bytes := [CR; LF].

(* a finished body, judged from the bytes alone *)
Definition body_ok (acts : list action) (cs : list chunk) : bool :=
  match read_multipart (concat cs) with
  | Some (ps, epi) =>
      bytes_eqb epi crlf &&
      match interleaved ps (arrivals false acts) with
      | Some n => Nat.leb n (length (filter is_fire acts))
      | None => false
      end
  | None => false
  end.

(* ------------------------------------------------- correspondence cases -- *)
Definition obs_eqb (a b : obs) : bool :=
  match a, b with
  | OChunk x, OChunk y => bytes_eqb x y
  | ONone, ONone | OPending, OPending | OUnit, OUnit => true
  | _, _ => false
  end.

(* select! decides at random when both branches are ready; what it decided is
   visible in the chunk of the *next* poll (both branches start with the part
   header).  The choice of each poll is read off the observations. *)
Fixpoint next_poll_obs (l : list (action * obs)) : option obs :=
  match l with
  | [] => None
  | (APoll _, o) :: _ => Some o
  | _ :: r => next_poll_obs r
  end.

Fixpoint infer_choices (l : list (action * obs)) : list action :=
  match l with
  | [] => []
  | (APoll _, o) :: r =>
      let c := match o with
               | OChunk x =>
                   if bytes_eqb x eof_gen then true
                   else match next_poll_obs r with
                        | Some (OChunk y) => negb (bytes_eqb y heartbeat_gen)
                        | _ => true
                        end
               | _ => true
               end in
      APoll c :: infer_choices r
  | (a, _) :: r => a :: infer_choices r
  end.

Definition saw_none (os : list obs) : bool :=
  existsb (fun o => match o with ONone => true | _ => false end) os.

(* the stream was driven to its end; nothing but None after the first None *)
Fixpoint none_is_final (os : list obs) (seen : bool) : bool :=
  match os with
  | [] => true
  | ONone :: r => none_is_final r true
  | OChunk _ :: r => negb seen && none_is_final r seen
  | OPending :: r => negb seen && none_is_final r seen
  | OUnit :: r => none_is_final r seen
  end.

Definition spec_ok (acts : list action) (os : list obs) : bool :=
  none_is_final os false &&
  (if saw_none os then body_ok acts (chunks_of os) else true).

Definition check_case (l : list (action * obs)) : N :=
  let acts := infer_choices l in
  let impl := map snd l in
  let model := snd (fst (run st_init acts)) in
  verdict (list_eqb obs_eqb impl model) (spec_ok acts model) (spec_ok acts impl) 0%N.

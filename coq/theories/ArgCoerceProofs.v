(* ArgCoerceProofs.v — C06: lemmas and proofs about ArgCoerce.v (no model definitions). *)
From AG Require Import Base ArgCoerce.
Open Scope Z_scope.

(* ------------------------------------------------------------ small facts *)
Lemma name_eqb_sym a b : name_eqb a b = name_eqb b a.
Proof. apply N.eqb_sym. Qed.

Lemma first_nz_0 a b : first_nz a b = 0%N -> a = 0%N /\ b = 0%N.
Proof.
  unfold first_nz. destruct (N.eqb a 0) eqn:E; intro H.
  - apply N.eqb_eq in E. auto.
  - subst. discriminate.
Qed.

Lemma mapo_ext {A B} (f g : A -> outcome B) l :
  (forall a, In a l -> f a = g a) -> mapo f l = mapo g l.
Proof.
  induction l as [|a r IH]; intro H; cbn [mapo]; [reflexivity|].
  rewrite (H a (or_introl eq_refl)), IH; [reflexivity|].
  intros b Hb. apply H. right. exact Hb.
Qed.

Lemma mapo_map {A B C} (f : B -> outcome C) (h : A -> B) l :
  mapo f (map h l) = mapo (fun a => f (h a)) l.
Proof. induction l as [|a r IH]; cbn [mapo map]; [reflexivity|]. rewrite IH. reflexivity. Qed.

Lemma fold_first_nz_0 {A} (f : A -> N) l :
  fold_right (fun i acc => first_nz (f i) acc) 0%N l = 0%N -> forall i, In i l -> f i = 0%N.
Proof.
  induction l as [|a r IH]; cbn [fold_right]; intros H i Hi; [destruct Hi|].
  apply first_nz_0 in H. destruct H as [Ha Hr]. destruct Hi as [<-|Hi]; auto.
Qed.

(* ------------------------------------------------------ equality on [tv] *)
Lemma tv_eqb_eq : forall a b, tv_eqb a b = true -> a = b.
Proof.
  fix IH 1. intros a b. destruct a; destruct b; cbn [tv_eqb]; try discriminate; intro H.
  - reflexivity.
  - reflexivity.
  - apply Z.eqb_eq in H. subst. reflexivity.
  - apply name_eqb_eq in H. subst. reflexivity.
  - apply Bool.eqb_prop in H. subst. reflexivity.
  - apply name_eqb_eq in H. subst. reflexivity.
  - f_equal. revert l0 H. induction l as [|x r IHl]; intros [|y r'] H; try discriminate; [reflexivity|].
    apply andb_prop in H. destruct H as [H1 H2].
    f_equal; [apply IH; exact H1 | apply IHl; exact H2].
  - f_equal. revert l0 H. induction l as [|[k x] r IHl]; intros [|[k' y] r'] H; cbn [tv_eqb_kvs] in H; try discriminate; [reflexivity|].
    apply andb_prop in H. destruct H as [H12 H3]. apply andb_prop in H12. destruct H12 as [H1 H2].
    apply name_eqb_eq in H1. subst k'.
    f_equal; [f_equal; apply IH; exact H2 | apply IHl; exact H3].
Qed.

Lemma tv_eqb_refl : forall x, tv_eqb x x = true.
Proof.
  fix IH 1. intro x. destruct x; cbn [tv_eqb]; try reflexivity.
  - apply Z.eqb_refl.
  - apply name_eqb_refl.
  - destruct b; reflexivity.
  - apply name_eqb_refl.
  - induction l as [|y r IHl]; [reflexivity|]. rewrite (IH y), IHl. reflexivity.
  - induction l as [|[k y] r IHl]; cbn [tv_eqb_kvs]; [reflexivity|].
    rewrite name_eqb_refl, (IH y). cbn [andb]. exact IHl.
Qed.

Lemma out_tv_eqb_eq o b : out_tv_eqb o b = true -> o = Ok b.
Proof. destruct o; cbn; try discriminate. intro H. apply tv_eqb_eq in H. subst. reflexivity. Qed.

(* --------------------------------------------------- erase and lookups *)
Lemma assoc_erase_notin n kvs :
  mem n (map fst kvs) = false -> assoc n (erase_kvs erase1 kvs) = None.
Proof.
  induction kvs as [|[k v] r IH]; cbn [map fst mem erase_kvs]; intro H; [reflexivity|].
  destruct (name_eqb n k) eqn:E; [discriminate|].
  destruct v; cbn [assoc]; rewrite ?E; apply IH; exact H.
Qed.

Lemma assoc_erase n kvs :
  nodup_names (map fst kvs) = true ->
  assoc n (erase_kvs erase1 kvs) =
  match assoc n kvs with
  | Some v => if is_absent v then None else Some (erase1 v)
  | None => None
  end.
Proof.
  induction kvs as [|[k v] r IH]; cbn [map fst nodup_names erase_kvs assoc]; intro H; [reflexivity|].
  apply andb_prop in H. destruct H as [Hk Hr]. apply negb_true_iff in Hk.
  destruct (name_eqb n k) eqn:E.
  - apply name_eqb_eq in E. subst k.
    destruct v; cbn [assoc is_absent]; rewrite ?name_eqb_refl; try reflexivity.
    apply assoc_erase_notin. exact Hk.
  - destruct v; cbn [assoc]; rewrite ?E; apply IH; exact Hr.
Qed.

Lemma wf_xv_obj kvs : wf_xv (XObj kvs) = true ->
  nodup_names (map fst kvs) = true /\ forall n v, assoc n kvs = Some v -> wf_xv v = true.
Proof.
  cbn [wf_xv]. intro H. apply andb_prop in H. destruct H as [H1 H2]. split; [exact H1|].
  clear H1. induction kvs as [|[k w] r IH]; cbn [assoc wf_xv_kvs] in *; intros n v Hv; [discriminate|].
  apply andb_prop in H2. destruct H2 as [Hw Hr].
  destruct (name_eqb n k); [injection Hv as <-; exact Hw | eapply IH; eauto].
Qed.

Lemma wf_xv_list l : wf_xv (XList l) = true -> forall i, In i l -> wf_xv i = true.
Proof. cbn [wf_xv]. intro H. apply forallb_forall. exact H. Qed.

Lemma erase1_not_null x : nullish x = false -> erase1 x <> XNull.
Proof. destruct x; cbn; try discriminate; intros _ H; discriminate. Qed.

(* ---------------------------------------------- null where it cannot be *)
Lemma parse_null_err : forall t, null_ok t = false -> parse t (Some XNull) = Err 0.
Proof.
  induction t; cbn [null_ok parse unwrap]; intro H; try reflexivity; try discriminate.
  rewrite (IHt H). reflexivity.
Qed.

Lemma parse_none_absent t :
  dev_missing t None = 0%N -> parse t None = absent_tv t.
Proof.
  destruct t; cbn [dev_missing parse unwrap absent_tv]; intro H; try reflexivity.
  destruct (null_ok t) eqn:E; [discriminate|].
  rewrite (parse_null_err t E). reflexivity.
Qed.

Lemma coerce_null_nonnullable t : nullable t = false -> coerce t XNull = Err 0.
Proof. destruct t; cbn; intro H; try reflexivity; discriminate. Qed.

(* ===================================================== the central lemma *)
Definition P_ty (t : rty) : Prop :=
  wf_rty t = true ->
  forall x, wf_xv x = true -> dev t x = 0%N -> parse t (Some (erase1 x)) = coerce t x.

Definition P_flds (fs : flds) : Prop :=
  (wf_flds fs = true ->
   forall kvs, wf_xv (XObj kvs) = true -> dev_fields fs kvs = 0%N ->
               parse_fields fs (erase_kvs erase1 kvs) = coerce_fields fs kvs)
  /\
  (wf_members fs = true ->
   forall k v, wf_xv v = true -> is_absent v = false -> dev_one fs k v = 0%N ->
               parse_one fs [(k, erase1 v)] = if nullish v then Err 0 else coerce_one fs k v).

Lemma length_erase_single k v :
  length (erase_kvs erase1 [(k, v)]) = if is_absent v then O else 1%nat.
Proof. destruct v; reflexivity. Qed.

Lemma erase_single k v : is_absent v = false -> erase_kvs erase1 [(k, v)] = [(k, erase1 v)].
Proof. destruct v; cbn; intro H; try reflexivity; discriminate. Qed.

Lemma central : forall t, P_ty t.
Proof.
  apply (rty_mind P_ty P_flds); unfold P_ty.
  - (* RInt *) intros _ x _ _. destruct x; reflexivity.
  - (* RStr *) intros _ x _ _. destruct x; reflexivity.
  - (* RBool *) intros _ x _ _. destruct x; reflexivity.
  - (* REnum *) intros tn vals _ x _ Hd. destruct x; try reflexivity.
    cbn [erase1 parse unwrap coerce]. destruct json; [reflexivity|].
    cbn [dev] in Hd. destruct (mem s vals); [discriminate|reflexivity].
  - (* RObj *) intros tn fs [IHf _] Hwf x Hx Hd. cbn [wf_rty] in Hwf.
    destruct x; try reflexivity.
    cbn [erase1 parse coerce]. cbn [dev] in Hd.
    destruct (keys_known fs l); [|discriminate].
    rewrite (IHf Hwf l Hx Hd). reflexivity.
  - (* ROne *) intros tn fs [_ IHm] Hwf x Hx Hd. cbn [wf_rty] in Hwf.
    destruct x; try reflexivity.
    cbn [erase1 parse coerce].
    destruct l as [|[k v] [|kv2 r]]; cbn [dev] in Hd.
    + reflexivity.
    + rewrite length_erase_single.
      assert (Hv : wf_xv v = true).
      { apply wf_xv_obj in Hx. destruct Hx as [_ Hx]. apply (Hx k). cbn. rewrite name_eqb_refl. reflexivity. }
      destruct (is_absent v) eqn:Ea.
      * destruct v; try discriminate. reflexivity.
      * rewrite (erase_single _ _ Ea). cbn [length Nat.eqb].
        assert (Hd' : dev_one fs k v = 0%N).
        { destruct (nullish v); rewrite ?Ea in Hd; exact Hd. }
        exact (IHm Hwf k v Hv Ea Hd').
    + destruct (length (erase_kvs erase1 ((k, v) :: kv2 :: r)) =? 1)%nat; [discriminate|reflexivity].
  - (* RVec *) intros t IH Hwf x Hx Hd. cbn [wf_rty] in Hwf.
    destruct x; cbn [erase1 parse unwrap coerce]; cbn [dev] in Hd.
    + destruct (null_ok t) eqn:E; [discriminate|]. rewrite (parse_null_err t E). reflexivity.
    + destruct (null_ok t) eqn:E; [discriminate|]. rewrite (parse_null_err t E). reflexivity.
    + rewrite <- (IH Hwf (XInt z) Hx Hd). reflexivity.
    + rewrite <- (IH Hwf (XStr json s) Hx Hd). reflexivity.
    + rewrite <- (IH Hwf (XBool b) Hx Hd). reflexivity.
    + rewrite <- (IH Hwf (XEnum n) Hx Hd). reflexivity.
    + rewrite mapo_map.
      rewrite (mapo_ext (fun a => parse t (Some (erase1 a))) (coerce t) l); [reflexivity|].
      intros i Hi. apply (IH Hwf).
      * exact (wf_xv_list l Hx i Hi).
      * exact (fold_first_nz_0 (dev t) l Hd i Hi).
    + rewrite <- (IH Hwf (XObj l) Hx Hd). reflexivity.
  - (* ROpt *) intros t IH Hwf x Hx Hd. cbn [wf_rty] in Hwf. cbn [dev] in Hd.
    destruct x; cbn [nullish] in Hd; cbn [erase1 parse unwrap coerce nullish]; try reflexivity;
      rewrite <- (IH Hwf _ Hx Hd); reflexivity.
  - (* RMaybe *) intros t IH Hwf x Hx Hd. cbn [wf_rty] in Hwf. cbn [dev] in Hd.
    destruct x; cbn [nullish] in Hd; cbn [erase1 parse unwrap coerce nullish]; try reflexivity;
      rewrite <- (IH Hwf _ Hx Hd); reflexivity.
  - (* FNil *) split; intros; [reflexivity|]. cbn [parse_one coerce_one]. destruct (nullish v); reflexivity.
  - (* FCons *) intros n t IHt d rest [IHr1 IHr2]. split.
    + intros Hwf kvs Hx Hd. cbn [wf_flds] in Hwf.
      apply andb_prop in Hwf. destruct Hwf as [Hwf Hrest].
      apply andb_prop in Hwf. destruct Hwf as [Hwf Hdef].
      apply andb_prop in Hwf. destruct Hwf as [Hwt _].
      cbn [dev_fields] in Hd. apply first_nz_0 in Hd. destruct Hd as [Hd1 Hd2].
      cbn [parse_fields coerce_fields].
      rewrite (IHr1 Hrest kvs Hx Hd2).
      destruct (wf_xv_obj kvs Hx) as [Hnd Hlook].
      rewrite (assoc_erase n kvs Hnd).
      destruct (assoc n kvs) as [v|] eqn:Ea.
      * destruct (is_absent v) eqn:Eabs.
        -- destruct d as [[dc dt]|].
           ++ apply out_tv_eqb_eq in Hdef. rewrite Hdef. reflexivity.
           ++ rewrite (parse_none_absent t Hd1). reflexivity.
        -- rewrite <- (IHt Hwt v (Hlook n v Ea) Hd1). destruct d as [[dc dt]|]; reflexivity.
      * destruct d as [[dc dt]|].
        -- apply out_tv_eqb_eq in Hdef. rewrite Hdef. reflexivity.
        -- rewrite (parse_none_absent t Hd1). reflexivity.
    + intros Hwf k v Hv Habs Hd. cbn [wf_members] in Hwf.
      apply andb_prop in Hwf. destruct Hwf as [Hwf Hrest].
      apply andb_prop in Hwf. destruct Hwf as [Hwf _].
      apply andb_prop in Hwf. destruct Hwf as [Hwf Hnn].
      apply andb_prop in Hwf. destruct Hwf as [Hwt _].
      apply negb_true_iff in Hnn.
      cbn [parse_one coerce_one assoc]. cbn [dev_one] in Hd.
      rewrite (name_eqb_sym n k).
      destruct (name_eqb k n) eqn:E.
      * rewrite (IHt Hwt v Hv Hd).
        destruct (nullish v) eqn:En; [|reflexivity].
        destruct v; try discriminate. rewrite (coerce_null_nonnullable t Hnn). reflexivity.
      * exact (IHr2 Hrest k v Hv Habs Hd).
Qed.

(* ------------------------------------------------ substitution keeps wf *)
Lemma map_fst_subst_kvs f kvs : map fst (subst_kvs f kvs) = map fst kvs.
Proof. induction kvs as [|[k v] r IH]; cbn; [reflexivity|]. rewrite IH. reflexivity. Qed.

Lemma wf_subst env : (forall x, wf_xv (env x) = true) ->
  forall v, wf_ival v = true -> wf_xv (subst env v) = true.
Proof.
  intro Henv. fix IH 1. intros v. destruct v; cbn [subst wf_ival wf_xv]; intro H; try reflexivity.
  - apply Henv.
  - induction l as [|a r IHl]; cbn [map forallb] in *; [reflexivity|].
    apply andb_prop in H. destruct H as [H1 H2]. rewrite (IH a H1), (IHl H2). reflexivity.
  - apply andb_prop in H. destruct H as [H1 H2]. rewrite map_fst_subst_kvs, H1. cbn [andb].
    clear H1. induction l as [|[k a] r IHl]; cbn [subst_kvs wf_xv_kvs] in *; [reflexivity|].
    apply andb_prop in H2. destruct H2 as [H2 H3]. rewrite (IH a H2), (IHl H3). reflexivity.
Qed.

Lemma wf_var_env vds vars :
  forallb (fun kv => wf_xv (snd kv)) vars = true ->
  forallb (fun vd : vdef => let '(_, _, d) := vd in match d with Some dv => wf_xv dv | None => true end) vds = true ->
  forall x, wf_xv (var_env vds vars x) = true.
Proof.
  intros Hv Hd x. unfold var_env.
  destruct (assoc x vars) as [v|] eqn:Ea.
  - clear Hd. induction vars as [|[k w] r IH]; cbn [assoc forallb snd] in *; [discriminate|].
    apply andb_prop in Hv. destruct Hv as [Hw Hr].
    destruct (name_eqb x k); [injection Ea as <-; exact Hw | exact (IH Hr Ea)].
  - clear Hv Ea. induction vds as [|[[k t] d] r IH]; cbn [vlookup forallb] in *; [reflexivity|].
    apply andb_prop in Hd. destruct Hd as [Hd1 Hd2].
    destruct (name_eqb x k); [destruct d; [exact Hd1|reflexivity] | exact (IH Hd2)].
Qed.

(* ============================================ one argument, all arguments *)
Lemma arg_agree vds env t d lit :
  (forall x, wf_xv (env x) = true) ->
  wf_rty t = true ->
  match d with Some (dc, dt) => out_tv_eqb (coerce t dc) dt | None => true end = true ->
  match lit with Some l => wf_ival l | None => true end = true ->
  dev_arg vds env t d lit = 0%N ->
  impl_arg vds env t d lit = spec_arg vds env t d lit.
Proof.
  intros Henv Hwt Hdef Hlit Hd. unfold impl_arg, spec_arg. unfold dev_arg in Hd.
  destruct lit as [l|].
  - destruct (negb (vars_defined vds l)); [reflexivity|].
    pose proof (wf_subst env Henv l Hlit) as Hx.
    destruct (is_absent (subst env l)) eqn:Ea.
    + destruct (subst env l); try discriminate. cbn [erase].
      destruct d as [[dc dt]|].
      * apply out_tv_eqb_eq in Hdef. rewrite Hdef. reflexivity.
      * apply parse_none_absent. exact Hd.
    + assert (E : erase (subst env l) = Some (erase1 (subst env l))).
      { destruct (subst env l); try reflexivity. discriminate. }
      rewrite E. transitivity (parse t (Some (erase1 (subst env l)))); [destruct d as [[dc dt]|]; reflexivity|].
      apply central; assumption.
  - destruct d as [[dc dt]|].
    + apply out_tv_eqb_eq in Hdef. rewrite Hdef. reflexivity.
    + apply parse_none_absent. exact Hd.
Qed.

Lemma wf_args_lookup args n :
  forallb (fun kv : name * ival => wf_ival (snd kv)) args = true ->
  match assoc n args with Some l => wf_ival l | None => true end = true.
Proof.
  induction args as [|[k v] r IH]; cbn [assoc forallb snd]; intro H; [reflexivity|].
  apply andb_prop in H. destruct H as [H1 H2].
  destruct (name_eqb n k); [exact H1 | exact (IH H2)].
Qed.

Lemma args_agree vds env args :
  (forall x, wf_xv (env x) = true) ->
  forallb (fun kv : name * ival => wf_ival (snd kv)) args = true ->
  forall sig, wf_sig sig = true -> dev_args vds env sig args = 0%N ->
  args_with (impl_arg vds env) sig args = args_with (spec_arg vds env) sig args.
Proof.
  intros Henv Hargs. induction sig as [|n t d rest IH]; cbn [wf_sig dev_args args_with]; intros Hwf Hd; [reflexivity|].
  apply andb_prop in Hwf. destruct Hwf as [Hwf Hrest].
  apply andb_prop in Hwf. destruct Hwf as [Hwf Hdef].
  apply andb_prop in Hwf. destruct Hwf as [Hwt _].
  apply first_nz_0 in Hd. destruct Hd as [Hd1 Hd2].
  rewrite (arg_agree vds env t d (assoc n args) Henv Hwt Hdef (wf_args_lookup args n Hargs) Hd1).
  rewrite (IH Hrest Hd2). reflexivity.
Qed.

(* ====================================================== request level *)
Lemma wf_case_parts sig args vds vars : wf_case sig args vds vars = true ->
  wf_sig sig = true /\ forallb (fun kv : name * ival => wf_ival (snd kv)) args = true /\
  forall x, wf_xv (var_env vds vars x) = true.
Proof.
  unfold wf_case. intro H.
  apply andb_prop in H. destruct H as [H H4].
  apply andb_prop in H. destruct H as [H H3].
  apply andb_prop in H. destruct H as [H1 H2].
  repeat split; try assumption. apply wf_var_env; assumption.
Qed.

Lemma known_class_0 sig args vds vars : known_class sig args vds vars = 0%N ->
  forallb (var_ok vars) vds = true /\ dev_args vds (var_env vds vars) sig args = 0%N.
Proof.
  unfold known_class. destruct (forallb (var_ok vars) vds); cbn [negb]; intro H; [auto|discriminate].
Qed.

(* outside the known classes the executor's argument values are exactly the
   specified ones, or both fail *)
Theorem exec_exact sig args vds vars :
  wf_case sig args vds vars = true ->
  static_ok sig args vds = true ->
  known_class sig args vds vars = 0%N ->
  impl_exec sig args vds vars = spec_request sig args vds vars.
Proof.
  intros Hwf Hst Hk. destruct (wf_case_parts _ _ _ _ Hwf) as [Hs [Ha He]].
  destruct (known_class_0 _ _ _ _ Hk) as [Hv Hd].
  unfold impl_exec, spec_request. rewrite Hst, Hv. cbn [negb].
  apply args_agree; assumption.
Qed.

Theorem request_sound sig args vds vars strict a :
  wf_case sig args vds vars = true ->
  static_ok sig args vds = true ->
  known_class sig args vds vars = 0%N ->
  impl_request sig args vds vars strict = Ok a ->
  spec_request sig args vds vars = Ok a.
Proof.
  intros Hwf Hst Hk H. rewrite <- (exec_exact _ _ _ _ Hwf Hst Hk).
  unfold impl_request in H.
  destruct (strict && negb (strict_ok sig args vds vars)); [discriminate|].
  destruct (impl_exec sig args vds vars); try discriminate. exact H.
Qed.

Theorem fast_complete sig args vds vars :
  wf_case sig args vds vars = true ->
  static_ok sig args vds = true ->
  known_class sig args vds vars = 0%N ->
  res_eqb (impl_request sig args vds vars false) (spec_request sig args vds vars) = true
  /\ forall a, spec_request sig args vds vars = Ok a -> impl_request sig args vds vars false = Ok a.
Proof.
  intros Hwf Hst Hk. rewrite <- (exec_exact _ _ _ _ Hwf Hst Hk).
  unfold impl_request. cbn [andb]. split.
  - destruct (impl_exec sig args vds vars) as [a| | |] eqn:E; cbn [res_eqb]; try reflexivity.
    apply (tv_eqb_refl (TObj a)).
  - intros a H. rewrite H. reflexivity.
Qed.

(* =========================================== what reaches a resolver is typed *)
Lemma forallb_mapo {A B} (f : A -> outcome B) (p : B -> bool) l r :
  (forall a b, In a l -> f a = Ok b -> p b = true) -> mapo f l = Ok r -> forallb p r = true.
Proof.
  revert r. induction l as [|a l IH]; cbn [mapo]; intros r H E.
  - injection E as <-. reflexivity.
  - destruct (f a) as [b| | |] eqn:Ea; cbn [bindo] in E; try discriminate.
    destruct (mapo f l) as [bs| | |] eqn:El; cbn [bindo] in E; try discriminate.
    injection E as <-. cbn [forallb].
    rewrite (H a b (or_introl eq_refl) Ea), (IH bs); auto.
    intros a' b' Hi. apply H. right. exact Hi.
Qed.

Definition T_ty (t : rty) : Prop :=
  wf_rty t = true ->
  (forall x a, coerce t x = Ok a -> has_type t a = true) /\
  (forall o a, parse t o = Ok a -> has_type t a = true).

Definition T_flds (fs : flds) : Prop :=
  (wf_flds fs = true ->
   (forall kvs r, coerce_fields fs kvs = Ok r -> fields_typed fs r = true) /\
   (forall kvs r, parse_fields fs kvs = Ok r -> fields_typed fs r = true))
  /\
  (wf_members fs = true ->
   (forall k v a, coerce_one fs k v = Ok a -> has_type (ROne 0%N fs) a = true) /\
   (forall kvs a, parse_one fs kvs = Ok a -> has_type (ROne 0%N fs) a = true)).

Lemma nonnull_coerce_not_null t x a : nullable t = false -> coerce t x = Ok a -> tv_is_null a = false.
Proof.
  destruct t; cbn [nullable coerce]; intros Hn H; try discriminate.
  - destruct x; try discriminate. destruct (in_i32 z); [injection H as <-; reflexivity|discriminate].
  - destruct x; try discriminate. injection H as <-. reflexivity.
  - destruct x; try discriminate. injection H as <-. reflexivity.
  - destruct x; try discriminate.
    + destruct json; try discriminate. destruct (mem s vals); [injection H as <-; reflexivity|discriminate].
    + destruct (mem n vals); [injection H as <-; reflexivity|discriminate].
  - destruct x; try discriminate. destruct (keys_known fs l); try discriminate.
    destruct (coerce_fields fs l); cbn [bindo] in H; try discriminate. injection H as <-. reflexivity.
  - destruct x; try discriminate. destruct l as [|[k v] [|]]; try discriminate.
    destruct (nullish v); try discriminate.
    clear Hn. induction fs as [|n t' d rest IH]; cbn [coerce_one] in H; [discriminate|].
    destruct (name_eqb k n); [|exact (IH H)].
    destruct (coerce t' v); cbn [bindo] in H; try discriminate. injection H as <-. reflexivity.
  - destruct x; try discriminate;
      match type of H with
      | bindo ?e _ = _ => destruct e; cbn [bindo] in H; try discriminate; injection H as <-; reflexivity
      end.
Qed.

Lemma nonnull_parse_not_null t o a : nullable t = false -> parse t o = Ok a -> tv_is_null a = false.
Proof.
  destruct t; cbn [nullable parse]; intros Hn H; try discriminate.
  - destruct (unwrap o); try discriminate. destruct (in_i32 z); [injection H as <-; reflexivity|discriminate].
  - destruct (unwrap o); try discriminate. injection H as <-. reflexivity.
  - destruct (unwrap o); try discriminate. injection H as <-. reflexivity.
  - destruct (unwrap o); try discriminate.
    + destruct (mem s vals); [injection H as <-; reflexivity|discriminate].
    + destruct (mem n vals); [injection H as <-; reflexivity|discriminate].
  - destruct o as [[]|]; try discriminate.
    destruct (parse_fields fs l); cbn [bindo] in H; try discriminate. injection H as <-. reflexivity.
  - destruct o as [[]|]; try discriminate. destruct (length l =? 1)%nat; try discriminate.
    clear Hn. induction fs as [|n t' d rest IH]; cbn [parse_one] in H; [discriminate|].
    destruct (assoc n l); [|exact (IH H)].
    destruct (parse t' (Some x)); cbn [bindo] in H; try discriminate. injection H as <-. reflexivity.
  - destruct (unwrap o);
      match type of H with
      | bindo ?e _ = _ => destruct e; cbn [bindo] in H; try discriminate; injection H as <-; reflexivity
      end.
Qed.

Lemma typed_all : forall t, T_ty t.
Proof.
  apply (rty_mind T_ty T_flds); unfold T_ty.
  - (* RInt *) intros _. split.
    + intros x a H. cbn [coerce] in H. destruct x; try discriminate.
      destruct (in_i32 z) eqn:E; [injection H as <-; exact E|discriminate].
    + intros o a H. cbn [parse] in H. destruct (unwrap o); try discriminate.
      destruct (in_i32 z) eqn:E; [injection H as <-; exact E|discriminate].
  - (* RStr *) intros _. split.
    + intros x a H. cbn [coerce] in H. destruct x; try discriminate. injection H as <-. reflexivity.
    + intros o a H. cbn [parse] in H. destruct (unwrap o); try discriminate. injection H as <-. reflexivity.
  - (* RBool *) intros _. split.
    + intros x a H. cbn [coerce] in H. destruct x; try discriminate. injection H as <-. reflexivity.
    + intros o a H. cbn [parse] in H. destruct (unwrap o); try discriminate. injection H as <-. reflexivity.
  - (* REnum *) intros tn vals _. split.
    + intros x a H. cbn [coerce] in H. destruct x; try discriminate.
      * destruct json; try discriminate. destruct (mem s vals) eqn:E; [injection H as <-; exact E|discriminate].
      * destruct (mem n vals) eqn:E; [injection H as <-; exact E|discriminate].
    + intros o a H. cbn [parse] in H. destruct (unwrap o); try discriminate.
      * destruct (mem s vals) eqn:E; [injection H as <-; exact E|discriminate].
      * destruct (mem n vals) eqn:E; [injection H as <-; exact E|discriminate].
  - (* RObj *) intros tn fs [IHf _] Hwf. cbn [wf_rty] in Hwf. destruct (IHf Hwf) as [Hc Hp]. split.
    + intros x a H. cbn [coerce] in H. destruct x; try discriminate.
      destruct (keys_known fs l); try discriminate.
      destruct (coerce_fields fs l) eqn:E; cbn [bindo] in H; try discriminate.
      injection H as <-. cbn [has_type]. exact (Hc l a0 E).
    + intros o a H. cbn [parse] in H. destruct o as [[]|]; try discriminate.
      destruct (parse_fields fs l) eqn:E; cbn [bindo] in H; try discriminate.
      injection H as <-. cbn [has_type]. exact (Hp l a0 E).
  - (* ROne *) intros tn fs [_ IHm] Hwf. cbn [wf_rty] in Hwf. destruct (IHm Hwf) as [Hc Hp]. split.
    + intros x a H. cbn [coerce] in H. destruct x; try discriminate.
      destruct l as [|[k v] [|]]; try discriminate. destruct (nullish v); try discriminate.
      exact (Hc k v a H).
    + intros o a H. cbn [parse] in H. destruct o as [[]|]; try discriminate.
      destruct (length l =? 1)%nat; try discriminate. exact (Hp l a H).
  - (* RVec *) intros t IH Hwf. cbn [wf_rty] in Hwf. destruct (IH Hwf) as [Hc Hp]. split.
    + intros x a H. cbn [coerce] in H.
      destruct x; try discriminate;
        try (match type of H with
             | bindo (coerce t ?v) _ = _ =>
                 destruct (coerce t v) eqn:E; cbn [bindo] in H; try discriminate;
                 injection H as <-; cbn [has_type forallb]; rewrite (Hc _ _ E); reflexivity
             end).
      destruct (mapo (coerce t) l) eqn:E; cbn [bindo] in H; try discriminate.
      injection H as <-. cbn [has_type].
      apply (forallb_mapo (coerce t) (has_type t) l a0); [|exact E]. intros x b _ Hb. exact (Hc x b Hb).
    + intros o a H. cbn [parse] in H.
      destruct (unwrap o); try discriminate;
        try (match type of H with
             | bindo (parse t ?v) _ = _ =>
                 destruct (parse t v) eqn:E; cbn [bindo] in H; try discriminate;
                 injection H as <-; cbn [has_type forallb]; rewrite (Hp _ _ E); reflexivity
             end).
      destruct (mapo (fun v => parse t (Some v)) l) eqn:E; cbn [bindo] in H; try discriminate.
      injection H as <-. cbn [has_type].
      apply (forallb_mapo (fun v => parse t (Some v)) (has_type t) l a0); [|exact E].
      intros x b _ Hb. exact (Hp (Some x) b Hb).
  - (* ROpt *) intros t IH Hwf. cbn [wf_rty] in Hwf. destruct (IH Hwf) as [Hc Hp]. split.
    + intros x a H. cbn [coerce] in H. cbn [has_type].
      destruct (nullish x); [injection H as <-; reflexivity|].
      rewrite (Hc x a H). destruct a; reflexivity.
    + intros o a H. cbn [parse] in H. cbn [has_type].
      destruct (unwrap o); try (injection H as <-; reflexivity);
        rewrite (Hp _ a H); destruct a; reflexivity.
  - (* RMaybe *) intros t IH Hwf. cbn [wf_rty] in Hwf. destruct (IH Hwf) as [Hc Hp]. split.
    + intros x a H. cbn [coerce] in H. cbn [has_type].
      destruct (nullish x); [injection H as <-; reflexivity|].
      rewrite (Hc x a H). destruct a; reflexivity.
    + intros o a H. cbn [parse] in H. cbn [has_type].
      destruct o as [x|]; [|injection H as <-; reflexivity].
      destruct x; try (injection H as <-; reflexivity);
        rewrite (Hp _ a H); destruct a; reflexivity.
  - (* FNil *) split; intros _; split; intros; cbn in *; try discriminate.
    + injection H as <-. reflexivity.
    + injection H as <-. reflexivity.
  - (* FCons *) intros n t IHt d rest [IHr1 IHr2]. split.
    + intros Hwf. cbn [wf_flds] in Hwf.
      apply andb_prop in Hwf. destruct Hwf as [Hwf Hrest].
      apply andb_prop in Hwf. destruct Hwf as [Hwf Hdef].
      apply andb_prop in Hwf. destruct Hwf as [Hwt _].
      destruct (IHt Hwt) as [Hc Hp]. destruct (IHr1 Hrest) as [Hrc Hrp].
      assert (Hdt : forall dc dt, d = Some (dc, dt) -> has_type t dt = true).
      { intros dc dt ->. apply out_tv_eqb_eq in Hdef. exact (Hc dc dt Hdef). }
      split.
      * intros kvs r H. cbn [coerce_fields] in H.
        match type of H with bindo ?e _ = _ => destruct e as [a| | |] eqn:E; cbn [bindo] in H; try discriminate end.
        destruct (coerce_fields rest kvs) eqn:Er; cbn [bindo] in H; try discriminate.
        injection H as <-. cbn [fields_typed]. rewrite name_eqb_refl, (Hrc kvs a0 Er). cbn [andb].
        rewrite andb_true_r.
        assert (Hmiss : match d with Some (dc, _) => coerce t dc | None => absent_tv t end = Ok a -> has_type t a = true).
        { destruct d as [[dc dt]|]; [apply Hc|].
          destruct t; cbn [absent_tv]; intro Q; try discriminate; injection Q as <-; reflexivity. }
        destruct (assoc n kvs) as [v|]; [|exact (Hmiss E)].
        destruct (is_absent v); [exact (Hmiss E)|exact (Hc v a E)].
      * intros kvs r H. cbn [parse_fields] in H.
        match type of H with bindo ?e _ = _ => destruct e as [a| | |] eqn:E; cbn [bindo] in H; try discriminate end.
        destruct (parse_fields rest kvs) eqn:Er; cbn [bindo] in H; try discriminate.
        injection H as <-. cbn [fields_typed]. rewrite name_eqb_refl, (Hrp kvs a0 Er). cbn [andb].
        rewrite andb_true_r.
        destruct d as [[dc dt]|]; destruct (assoc n kvs) as [v|]; try exact (Hp _ a E).
        injection E as <-. exact (Hdt dc dt eq_refl).
    + intros Hwf. cbn [wf_members] in Hwf.
      apply andb_prop in Hwf. destruct Hwf as [Hwf Hrest].
      apply andb_prop in Hwf. destruct Hwf as [Hwf _].
      apply andb_prop in Hwf. destruct Hwf as [Hwf Hnn].
      apply andb_prop in Hwf. destruct Hwf as [Hwt Hfresh].
      apply negb_true_iff in Hnn. apply negb_true_iff in Hfresh.
      destruct (IHt Hwt) as [Hc Hp]. destruct (IHr2 Hrest) as [Hrc Hrp].
      (* a member found in [rest] is not [n] *)
      assert (Hlift : forall a, has_type (ROne 0%N rest) a = true -> has_type (ROne 0%N (FCons n t d rest)) a = true).
      { intros a. cbn [has_type]. destruct a; try discriminate. destruct l as [|[k b] [|]]; try discriminate.
        cbn [member_typed]. destruct (name_eqb k n) eqn:E; [|auto].
        apply name_eqb_eq in E. subst k. intro Q. exfalso.
        clear - Q Hfresh. induction rest as [|n' t' d' r' IH]; cbn [member_typed fmem] in *; [discriminate|].
        destruct (name_eqb n n'); [discriminate|]. exact (IH Hfresh Q). }
      split.
      * intros k v a H. cbn [coerce_one] in H.
        destruct (name_eqb k n) eqn:E; [|exact (Hlift a (Hrc k v a H))].
        destruct (coerce t v) eqn:Ec; cbn [bindo] in H; try discriminate.
        injection H as <-. cbn [has_type member_typed]. rewrite name_eqb_refl, (Hc v a0 Ec).
        rewrite (nonnull_coerce_not_null t v a0 Hnn Ec). reflexivity.
      * intros kvs a H. cbn [parse_one] in H.
        destruct (assoc n kvs) as [v|]; [|exact (Hlift a (Hrp kvs a H))].
        destruct (parse t (Some v)) eqn:Ec; cbn [bindo] in H; try discriminate.
        injection H as <-. cbn [has_type member_typed]. rewrite name_eqb_refl, (Hp _ a0 Ec).
        rewrite (nonnull_parse_not_null t _ a0 Hnn Ec). reflexivity.
Qed.

Lemma exec_typed vds env args : forall sig a,
  wf_sig sig = true -> args_with (impl_arg vds env) sig args = Ok a -> args_typed sig a = true.
Proof.
  induction sig as [|n t d rest IH]; cbn [wf_sig args_with]; intros a Hwf H.
  - injection H as <-. reflexivity.
  - apply andb_prop in Hwf. destruct Hwf as [Hwf Hrest].
    apply andb_prop in Hwf. destruct Hwf as [Hwf Hdef].
    apply andb_prop in Hwf. destruct Hwf as [Hwt _].
    destruct (typed_all t Hwt) as [Hc Hp].
    destruct (impl_arg vds env t d (assoc n args)) as [x| | |] eqn:E; cbn [bindo] in H; try discriminate.
    destruct (args_with (impl_arg vds env) rest args) as [r| | |] eqn:Er; cbn [bindo] in H; try discriminate.
    injection H as <-. cbn [args_typed]. rewrite name_eqb_refl, (IH r Hrest eq_refl). cbn [andb]. rewrite andb_true_r.
    unfold impl_arg in E. destruct (assoc n args) as [l|].
    + destruct (negb (vars_defined vds l)); [discriminate|].
      destruct (erase (subst env l)) as [v|]; destruct d as [[dc dt]|]; try exact (Hp _ x E).
      injection E as <-. apply out_tv_eqb_eq in Hdef. exact (Hc dc dt Hdef).
    + destruct d as [[dc dt]|]; [|exact (Hp _ x E)].
      injection E as <-. apply out_tv_eqb_eq in Hdef. exact (Hc dc dt Hdef).
Qed.

(* never a mistyped value, no exclusion, both modes *)
Theorem never_mistyped sig args vds vars strict a :
  wf_sig sig = true ->
  impl_request sig args vds vars strict = Ok a -> args_typed sig a = true.
Proof.
  intros Hwf H. unfold impl_request in H.
  destruct (strict && negb (strict_ok sig args vds vars)); [discriminate|].
  destruct (impl_exec sig args vds vars) as [r| | |] eqn:E; try discriminate.
  injection H as <-. exact (exec_typed vds _ args sig r Hwf E).
Qed.

(* the verdict function agrees with the theorems: outside the known classes a
   case on which the code equals the model is never reported *)
Theorem check_quiet sig args vds vars strict :
  wf_case sig args vds vars = true ->
  static_ok sig args vds = true ->
  known_class sig args vds vars = 0%N ->
  strict = false ->
  check_c06 sig args vds vars strict (impl_request sig args vds vars strict) = 0%N.
Proof.
  intros Hwf Hst Hk ->. unfold check_c06. rewrite Hwf. cbn [negb].
  destruct (fast_complete _ _ _ _ Hwf Hst Hk) as [Hres _].
  destruct (wf_case_parts _ _ _ _ Hwf) as [Hs _].
  assert (Hty : match impl_request sig args vds vars false with Ok a => negb (args_typed sig a) | _ => false end = false).
  { destruct (impl_request sig args vds vars false) eqn:E; try reflexivity.
    rewrite (never_mistyped _ _ _ _ _ _ Hs E). reflexivity. }
  rewrite Hty.
  assert (Hrefl : res_eqb_code (impl_request sig args vds vars false) (impl_request sig args vds vars false) = true).
  { unfold impl_request. cbn [andb].
    destruct (impl_exec sig args vds vars) as [a| c| |]; cbn [res_eqb_code]; try reflexivity.
    apply (tv_eqb_refl (TObj a)). }
  rewrite Hrefl. unfold satisfies. rewrite Hst, Hres. reflexivity.
Qed.

(* ============ strict validation accepts every value that coerces (partial) *)
Lemma has_absent_assoc kvs n v :
  has_absent (XObj kvs) = false -> assoc n kvs = Some v -> has_absent v = false.
Proof.
  cbn [has_absent]. induction kvs as [|[k w] r IH]; cbn [has_absent_kvs assoc]; intros H E; [discriminate|].
  apply orb_false_iff in H. destruct H as [Hw Hr].
  destruct (name_eqb n k); [injection E as <-; exact Hw | exact (IH Hr E)].
Qed.

Lemma mapo_ok_all {A B} (f : A -> outcome B) l r :
  mapo f l = Ok r -> forall a, In a l -> exists b, f a = Ok b.
Proof.
  revert r. induction l as [|x l IH]; cbn [mapo]; intros r H a Ha; [destruct Ha|].
  destruct (f x) as [b| | |] eqn:Ex; cbn [bindo] in H; try discriminate.
  destruct (mapo f l) as [bs| | |] eqn:El; cbn [bindo] in H; try discriminate.
  destruct Ha as [<-|Ha]; [eauto | exact (IH bs eq_refl a Ha)].
Qed.

Lemma valid_members_notin fs k v : fmem k fs = false -> valid_members fs [(k, v)] = true.
Proof.
  induction fs as [|n t d rest IH]; cbn [fmem valid_members assoc]; intro H; [reflexivity|].
  rewrite (name_eqb_sym n k). destruct (name_eqb k n); [discriminate|]. exact (IH H).
Qed.

Definition V_ty (t : rty) : Prop :=
  wf_rty t = true ->
  forall x a, has_absent x = false -> coerce t x = Ok a -> valid t x = true.

Definition V_flds (fs : flds) : Prop :=
  (wf_flds fs = true ->
   forall kvs r, has_absent (XObj kvs) = false -> coerce_fields fs kvs = Ok r -> valid_fields fs kvs = true)
  /\
  (wf_members fs = true ->
   forall k v a, has_absent v = false -> nullish v = false -> coerce_one fs k v = Ok a ->
                 valid_members fs [(k, v)] = true /\ fmem k fs = true).

Lemma coerce_valid : forall t, V_ty t.
Proof.
  apply (rty_mind V_ty V_flds); unfold V_ty.
  - intros _ x a _ H. cbn [coerce] in H. destruct x; try discriminate. reflexivity.
  - intros _ x a _ H. cbn [coerce] in H. destruct x; try discriminate. reflexivity.
  - intros _ x a _ H. cbn [coerce] in H. destruct x; try discriminate. reflexivity.
  - intros tn vals _ x a _ H. cbn [coerce] in H. cbn [valid]. destruct x; try discriminate.
    + destruct json; try discriminate. destruct (mem s vals); [reflexivity|discriminate].
    + destruct (mem n vals); [reflexivity|discriminate].
  - intros tn fs [IHf _] Hwf x a Hab H. cbn [wf_rty] in Hwf. cbn [coerce] in H. destruct x; try discriminate.
    cbn [valid]. destruct (keys_known fs l); try discriminate.
    destruct (coerce_fields fs l) eqn:E; cbn [bindo] in H; try discriminate.
    rewrite (IHf Hwf l a0 Hab E). reflexivity.
  - intros tn fs [_ IHm] Hwf x a Hab H. cbn [wf_rty] in Hwf. cbn [coerce] in H. destruct x; try discriminate.
    destruct l as [|[k v] [|]]; try discriminate. destruct (nullish v) eqn:En; try discriminate.
    assert (Hv : has_absent v = false).
    { cbn [has_absent has_absent_kvs] in Hab. apply orb_false_iff in Hab. tauto. }
    destruct (IHm Hwf k v a Hv En H) as [Hm Hk].
    cbn [valid length Nat.eqb keys_known forallb fst]. rewrite Hm, Hk.
    destruct v; try discriminate; reflexivity.
  - intros t IH Hwf x a Hab H. cbn [wf_rty] in Hwf. cbn [coerce] in H. cbn [valid].
    destruct x; try discriminate;
      try (match type of H with
           | bindo (coerce t ?v) _ = _ => destruct (coerce t v) eqn:E; cbn [bindo] in H; try discriminate;
                                          exact (IH Hwf _ _ Hab E)
           end).
    destruct (mapo (coerce t) l) eqn:E; cbn [bindo] in H; try discriminate.
    apply forallb_forall. intros i Hi.
    destruct (mapo_ok_all _ _ _ E i Hi) as [b Hb].
    apply (IH Hwf i b); [|exact Hb].
    cbn [has_absent] in Hab. destruct (has_absent i) eqn:Ei; [|reflexivity].
    exfalso. assert (existsb has_absent l = true) by (apply existsb_exists; eauto). congruence.
  - intros t IH Hwf x a Hab H. cbn [wf_rty] in Hwf. cbn [coerce] in H. cbn [valid].
    destruct x; cbn [nullish] in H; try discriminate; try reflexivity; exact (IH Hwf _ _ Hab H).
  - intros t IH Hwf x a Hab H. cbn [wf_rty] in Hwf. cbn [coerce] in H. cbn [valid].
    destruct x; cbn [nullish] in H; try discriminate; try reflexivity; exact (IH Hwf _ _ Hab H).
  - split; intros; cbn in *; try reflexivity. discriminate.
  - intros n t IHt d rest [IHr1 IHr2]. split.
    + intros Hwf kvs r Hab H. cbn [wf_flds] in Hwf.
      apply andb_prop in Hwf. destruct Hwf as [Hwf Hrest].
      apply andb_prop in Hwf. destruct Hwf as [Hwf Hdef].
      apply andb_prop in Hwf. destruct Hwf as [Hwt _].
      cbn [coerce_fields] in H. cbn [valid_fields].
      match type of H with bindo ?e _ = _ => destruct e as [a| | |] eqn:E; cbn [bindo] in H; try discriminate end.
      destruct (coerce_fields rest kvs) eqn:Er; cbn [bindo] in H; try discriminate.
      rewrite (IHr1 Hrest kvs a0 Hab Er). rewrite andb_true_r.
      destruct (assoc n kvs) as [v|] eqn:Ea.
      * pose proof (has_absent_assoc kvs n v Hab Ea) as Hv.
        assert (is_absent v = false) by (destruct v; try reflexivity; discriminate).
        rewrite H0 in E. exact (IHt Hwt v a Hv E).
      * destruct d as [[dc dt]|]; [destruct (nullable t); reflexivity|].
        destruct t; cbn [absent_tv] in E; try discriminate; reflexivity.
    + intros Hwf k v a Hab Hn H. cbn [wf_members] in Hwf.
      apply andb_prop in Hwf. destruct Hwf as [Hwf Hrest].
      apply andb_prop in Hwf. destruct Hwf as [Hwf _].
      apply andb_prop in Hwf. destruct Hwf as [Hwf Hnn].
      apply andb_prop in Hwf. destruct Hwf as [Hwt Hfresh].
      apply negb_true_iff in Hfresh.
      cbn [coerce_one] in H. cbn [valid_members assoc fmem]. rewrite (name_eqb_sym n k).
      destruct (name_eqb k n) eqn:E.
      * apply name_eqb_eq in E. subst k.
        destruct (coerce t v) eqn:Ec; cbn [bindo] in H; try discriminate.
        rewrite (IHt Hwt v a0 Hab Ec), (valid_members_notin rest n v Hfresh).
        split; [|reflexivity]. destruct v; try discriminate; reflexivity.
      * destruct (IHr2 Hrest k v a Hab Hn H) as [Hm Hk]. rewrite Hm, Hk. split; reflexivity.
Qed.

Theorem strict_accepts_coercible t x a :
  wf_rty t = true -> has_absent x = false -> coerce t x = Ok a -> valid t x = true.
Proof. intros Hwf Hab H. exact (coerce_valid t Hwf x a Hab H). Qed.

(* ================================================= witnesses (all replayed
   on the real code by harness/src/bin/c06.rs, fixed corpus) *)
Local Open Scope N_scope.

(* query($n: Int) { di(a: $n) }   di(a: Int! = 5), no variables *)
Definition w1_sig := FCons 10 RInt (Some (XInt 5, TInt 5)) FNil.
Definition w1_args := [(10, IVar 11)].
Definition w1_vds : list vdef := [(11, ROpt RInt, None)].

(* { e(a: "RED") } *)
Definition w2_sig := FCons 10 (ROpt (REnum 20 [21; 22])) None FNil.
Definition w2_args := [(10, IStr 21)].

(* query($u: Int) { obj2(a: {k: $u}) }   input Inp2 { l: [Int]!  k: Int } *)
Definition w3_sig :=
  FCons 10 (ROpt (RObj 30 (FCons 31 (RVec (ROpt RInt)) None (FCons 32 (ROpt RInt) None FNil)))) None FNil.
Definition w3_args := [(10, IObj [(32, IVar 11)])].
Definition w3_vds : list vdef := [(11, ROpt RInt, None)].

(* query($u: Int) { obj(a: {x: 1, bogus: 2, y: $u}) } *)
Definition w4_sig :=
  FCons 10 (ROpt (RObj 30 (FCons 31 RInt None (FCons 32 (ROpt RInt) (Some (XInt 7, TInt 7)) FNil)))) None FNil.
Definition w4_args := [(10, IObj [(31, IInt 1); (99, IInt 2); (32, IVar 11)])].

(* query($u: String) { one(a: {i: 1, s: $u}) } *)
Definition w5_sig := FCons 10 (ROpt (ROne 40 (FCons 41 RInt None (FCons 42 RStr None FNil)))) None FNil.
Definition w5_args := [(10, IObj [(41, IInt 1); (42, IVar 11)])].
Definition w5_vds : list vdef := [(11, ROpt RStr, None)].

(* query($v: Int!) { i(a: $v) }  no variables;  query($v: [Int!]) { li(a: $v) }  v = [1, null] *)
Definition w6_sig := FCons 10 (ROpt RInt) None FNil.
Definition w6_args := [(10, IVar 11)].
Definition w6_vds : list vdef := [(11, RInt, None)].
Definition w6b_sig := FCons 10 (ROpt (RVec (ROpt RInt))) None FNil.
Definition w6b_vds : list vdef := [(11, ROpt (RVec RInt), None)].
Definition w6b_vars := [(11, XList [XInt 1; XNull])].

(* the former class 1 (fixed in d9e053e): the argument default now applies *)
Lemma arg_default_fixed :
  wf_case w1_sig w1_args w1_vds [] = true /\ static_ok w1_sig w1_args w1_vds = true /\
  known_class w1_sig w1_args w1_vds [] = 0 /\
  spec_request w1_sig w1_args w1_vds [] = Ok [(10, TInt 5%Z)] /\
  impl_request w1_sig w1_args w1_vds [] true = Ok [(10, TInt 5%Z)] /\
  impl_request w1_sig w1_args w1_vds [] false = Ok [(10, TInt 5%Z)].
Proof. vm_compute. repeat split; reflexivity. Qed.

Lemma refuted_enum_string :
  wf_case w2_sig w2_args [] [] = true /\ static_ok w2_sig w2_args [] = true /\
  known_class w2_sig w2_args [] [] = K_ENUM_STRING /\
  impl_request w2_sig w2_args [] [] true = Ok [(10, TEnum 21)] /\
  spec_request w2_sig w2_args [] [] = Err 0.
Proof. vm_compute. repeat split; reflexivity. Qed.

Lemma refuted_list_null :
  wf_case w3_sig w3_args w3_vds [] = true /\ static_ok w3_sig w3_args w3_vds = true /\
  known_class w3_sig w3_args w3_vds [] = K_LIST_NULL /\
  impl_request w3_sig w3_args w3_vds [] true = Ok [(10, TObj [(31, TList [TNull]); (32, TNull)])] /\
  spec_request w3_sig w3_args w3_vds [] = Err 0.
Proof. vm_compute. repeat split; reflexivity. Qed.

Lemma refuted_unknown_field :
  wf_case w4_sig w4_args w3_vds [] = true /\ static_ok w4_sig w4_args w3_vds = true /\
  known_class w4_sig w4_args w3_vds [] = K_UNKNOWN_FIELD /\
  impl_request w4_sig w4_args w3_vds [] true = Ok [(10, TObj [(31, TInt 1%Z); (32, TInt 7%Z)])] /\
  spec_request w4_sig w4_args w3_vds [] = Err 0.
Proof. vm_compute. repeat split; reflexivity. Qed.

Lemma refuted_oneof_extra :
  wf_case w5_sig w5_args w5_vds [] = true /\ static_ok w5_sig w5_args w5_vds = true /\
  known_class w5_sig w5_args w5_vds [] = K_ONEOF_EXTRA /\
  impl_request w5_sig w5_args w5_vds [] true = Ok [(10, TObj [(41, TInt 1%Z)])] /\
  spec_request w5_sig w5_args w5_vds [] = Err 0.
Proof. vm_compute. repeat split; reflexivity. Qed.

Lemma refuted_var_decl :
  (wf_case w6_sig w6_args w6_vds [] = true /\ static_ok w6_sig w6_args w6_vds = true /\
   known_class w6_sig w6_args w6_vds [] = K_VAR_DECL /\
   impl_request w6_sig w6_args w6_vds [] true = Ok [(10, TNull)] /\
   spec_request w6_sig w6_args w6_vds [] = Err 0) /\
  (wf_case w6b_sig w6_args w6b_vds w6b_vars = true /\ static_ok w6b_sig w6_args w6b_vds = true /\
   known_class w6b_sig w6_args w6b_vds w6b_vars = K_VAR_DECL /\
   impl_request w6b_sig w6_args w6b_vds w6b_vars true = Ok [(10, TList [TInt 1%Z; TNull])] /\
   spec_request w6b_sig w6_args w6b_vds w6b_vars = Err 0).
Proof. vm_compute. repeat split; reflexivity. Qed.

(* non-vacuity: a request with a nested input object, defaults at field and
   variable level, a variable inside a list, an omitted variable on a field with
   a default, explicit null — in no known class, statically valid, accepted. *)
Definition nv_nested := RObj 50 (FCons 51 RInt None (FCons 52 RInt (Some (XInt 9, TInt 9)) FNil)).
Definition nv_inp :=
  RObj 30 (FCons 31 RInt None
          (FCons 32 (ROpt RInt) (Some (XInt 7, TInt 7))
          (FCons 33 (ROpt (RVec (ROpt RInt))) None
          (FCons 34 (RMaybe RInt) None
          (FCons 35 (ROpt nv_nested) None
          (FCons 36 (ROpt (REnum 20 [21; 22])) None FNil)))))).
Definition nv_sig := FCons 10 (ROpt nv_inp) None (FCons 12 RInt (Some (XInt 5, TInt 5)) FNil).
(* query($u: Int, $w: Int = 4, $c: Color) { f(a: {x: 1, y: $u, z: [2, $w, $u], n: {p: 3}, c: $c, m: null}) }  c = "GREEN" *)
Definition nv_args :=
  [(10, IObj [(31, IInt 1); (32, IVar 11); (33, IList [IInt 2; IVar 13; IVar 11]);
              (35, IObj [(51, IInt 3)]); (36, IVar 14); (34, INull)])].
Definition nv_vds : list vdef :=
  [(11, ROpt RInt, None); (13, ROpt RInt, Some (XInt 4)); (14, ROpt (REnum 20 [21; 22]), None)].
Definition nv_vars := [(14, XStr true 22)].

Lemma nonvacuous :
  wf_case nv_sig nv_args nv_vds nv_vars = true /\ static_ok nv_sig nv_args nv_vds = true /\
  known_class nv_sig nv_args nv_vds nv_vars = 0 /\
  impl_request nv_sig nv_args nv_vds nv_vars true =
  Ok [(10, TObj [(31, TInt 1%Z); (32, TInt 7%Z); (33, TList [TInt 2%Z; TInt 4%Z; TNull]); (34, TNull);
                 (35, TObj [(51, TInt 3%Z); (52, TInt 9%Z)]); (36, TEnum 22)]);
      (12, TInt 5%Z)].
Proof. vm_compute. repeat split; reflexivity. Qed.

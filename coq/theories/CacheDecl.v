(* C20, second stream: the cache hints WRITTEN in the derive attributes of the
   harness's derive-built schema (a hand-written table, kept next to the
   attributes in harness/src/bin/c20.rs) against the registry the macros
   produced (dumped from the real Registry).  The visitor theorems of Cache.v
   are about the registry; this check ties the registry to the declarations,
   so that a macro path that drops or alters a hint is a violation. *)
From AG Require Import Base Cache.
Open Scope N_scope.

Definition field_cc_ok (fs : list (name * mfield)) (d : name * cc) : bool :=
  match assoc (fst d) fs with
  | Some f => cc_eqb (mf_cc f) (snd d)
  | None => false
  end.

Definition decl_ok (sc : schema) (d : name * cc * list (name * cc)) : bool :=
  let '(t, oc, fcs) := d in
  match assoc t (s_types sc) with
  | Some (MObject c fs) => cc_eqb c oc && forallb (field_cc_ok fs) fcs
  | _ => false
  end.

Definition check_decl (c : schema * list (name * cc * list (name * cc))) : N :=
  let '(sc, decls) := c in
  if forallb (decl_ok sc) decls then V_OK else V_VIOLATION.

(* the check accepts exactly the registries that carry every declared hint *)
Lemma check_decl_sound sc decls :
  check_decl (sc, decls) = V_OK ->
  forall t oc fcs, In (t, oc, fcs) decls ->
    exists c fs, assoc t (s_types sc) = Some (MObject c fs) /\ cc_eqb c oc = true /\
                 forall f fc, In (f, fc) fcs ->
                   exists mf, assoc f fs = Some mf /\ cc_eqb (mf_cc mf) fc = true.
Proof.
  unfold check_decl. destruct (forallb (decl_ok sc) decls) eqn:E; [|discriminate].
  intros _ t oc fcs Hin. rewrite forallb_forall in E. specialize (E _ Hin).
  unfold decl_ok in E. destruct (assoc t (s_types sc)) as [[c fs| | |]|] eqn:A; try discriminate.
  apply andb_prop in E. destruct E as [E1 E2]. exists c, fs. split; [reflexivity|]. split; [exact E1|].
  intros f fc Hf. rewrite forallb_forall in E2. specialize (E2 _ Hf). unfold field_cc_ok in E2. cbn [fst snd] in E2.
  destruct (assoc f fs) as [mf|]; [|discriminate]. exists mf. split; [reflexivity|exact E2].
Qed.

(* CursorProofs.v — lemmas about Cursor.v (no model definitions here). *)
From AG Require Import Cursor.
From AGgen Require Import CursorGen.
Open Scope Z_scope.

(* the hand-written model follows the translated tables *)
Lemma c32_tables :
  query_with_order_gen = [1; 2; 3; 4] /\ opaque_engine_gen = 1 /\ opaque_ser_error_gen = 1 /\
  Forall (fun p => 0 < snd p) cursor_int_types_gen.
Proof. repeat split; try reflexivity. repeat constructor. Qed.

(* ------------------------------------------------------------- equalities -- *)
Lemma str_eqb_eq a b : str_eqb a b = true <-> a = b.
Proof.
  unfold str_eqb, list_eqb. revert b.
  induction a as [|x a IH]; intros [|y b]; cbn [forallb2]; try (split; [discriminate|discriminate]); try tauto.
  rewrite andb_true_iff, N.eqb_eq, IH. split; [intros [-> ->]; reflexivity|intros H; inversion H; auto].
Qed.

Lemma str_eqb_refl a : str_eqb a a = true.
Proof. apply str_eqb_eq. reflexivity. Qed.

Lemma bytes_eqb_eq a b : bytes_eqb a b = true <-> a = b.
Proof. apply str_eqb_eq. Qed.

Lemma int_ty_eqb_refl t : int_ty_eqb t t = true.
Proof. unfold int_ty_eqb. rewrite eqb_reflx, Z.eqb_refl. reflexivity. Qed.

Lemma cval_eqb_refl v : cval_eqb v v = true.
Proof.
  destruct v; cbn [cval_eqb]; rewrite ?int_ty_eqb_refl, ?Z.eqb_refl, ?eqb_reflx, ?N.eqb_refl, ?str_eqb_refl; reflexivity.
Qed.

Lemma cval_eqb_eq a b : cval_eqb a b = true <-> a = b.
Proof.
  split; [|intros ->; apply cval_eqb_refl].
  destruct a as [[s1 b1] x| | | |], b as [[s2 b2] y| | | |]; cbn [cval_eqb]; try discriminate.
  - unfold int_ty_eqb; cbn [it_signed it_bits]. rewrite !andb_true_iff, eqb_true_iff, !Z.eqb_eq.
    intros [[-> ->] ->]. reflexivity.
  - rewrite eqb_true_iff. intros ->. reflexivity.
  - rewrite N.eqb_eq. intros ->. reflexivity.
  - rewrite str_eqb_eq. intros ->. reflexivity.
  - rewrite str_eqb_eq. intros ->. reflexivity.
Qed.

(* ------------------------------------------------------------- decimal ----- *)
Lemma cp_digit_digit_cp d : 0 <= d < 10 -> cp_digit (digit_cp d) = Some d.
Proof.
  intros H. unfold cp_digit, digit_cp. rewrite Z2N.id by lia.
  destruct (Z.leb_spec 48 (48 + d)); [|lia]. destruct (Z.leb_spec (48 + d) 57); [|lia].
  cbn [andb]. f_equal. lia.
Qed.

Lemma cp_digit_some c d : cp_digit c = Some d -> d = Z.of_N c - 48 /\ 0 <= d < 10.
Proof.
  unfold cp_digit. destruct (Z.leb_spec 48 (Z.of_N c)); cbn [andb]; [|discriminate].
  destruct (Z.leb_spec (Z.of_N c) 57); [|discriminate]. intros H1. inversion H1. lia.
Qed.

Lemma pr_digits_S f n acc :
  pr_digits (S f) n acc =
  if n <? 10 then digit_cp (n mod 10) :: acc else pr_digits f (n / 10) (digit_cp (n mod 10) :: acc).
Proof. reflexivity. Qed.

Lemma pr_digits_app f : forall n acc, pr_digits f n acc = pr_digits f n [] ++ acc.
Proof.
  induction f as [|f IH]; intros n acc; [reflexivity|].
  rewrite !pr_digits_S. destruct (n <? 10); [reflexivity|].
  rewrite (IH (n / 10) (_ :: acc)), (IH (n / 10) [_]), <- app_assoc. reflexivity.
Qed.

Lemma parse_digits_app x : forall a y,
  parse_digits a (x ++ y) =
  match parse_digits a x with Some a' => parse_digits a' y | None => None end.
Proof.
  induction x as [|c x IH]; intros a y; [reflexivity|].
  cbn [app parse_digits]. destruct (cp_digit c); [apply IH|reflexivity].
Qed.

Lemma parse_pr f : forall n, 0 <= n < 2 ^ Z.of_nat f -> parse_digits 0 (pr_digits f n []) = Some n.
Proof.
  induction f as [|f IH]; intros n H.
  - cbn in H. assert (n = 0) by lia. subst. reflexivity.
  - rewrite pr_digits_S. destruct (Z.ltb_spec n 10) as [L|L].
    + cbn [parse_digits]. rewrite Z.mod_small by lia. rewrite cp_digit_digit_cp by lia.
      f_equal.
    + rewrite pr_digits_app, parse_digits_app.
      rewrite Nat2Z.inj_succ, Z.pow_succ_r in H by lia.
      rewrite IH.
      * cbn [parse_digits]. rewrite cp_digit_digit_cp by (apply Z.mod_pos_bound; lia).
        f_equal. pose proof (Z.div_mod n 10). lia.
      * split; [apply Z.div_pos; lia|]. apply Z.div_lt_upper_bound; lia.
Qed.

Lemma parse_print_nat n : 0 <= n -> parse_digits 0 (print_nat n) = Some n.
Proof.
  intros H. unfold print_nat. apply parse_pr. split; [exact H|].
  rewrite Nat2Z.inj_succ, Z2Nat.id by apply Z.log2_nonneg.
  destruct (Z.eq_dec n 0) as [->|N0]; [reflexivity|].
  apply Z.log2_spec. lia.
Qed.

Lemma all_digits_pr f : forall n acc, 0 <= n -> all_digits acc = true -> all_digits (pr_digits f n acc) = true.
Proof.
  induction f as [|f IH]; intros n acc Hn Ha; [exact Ha|].
  rewrite pr_digits_S.
  assert (D : all_digits (digit_cp (n mod 10) :: acc) = true).
  { unfold all_digits in *. cbn [forallb]. rewrite cp_digit_digit_cp by (apply Z.mod_pos_bound; lia). exact Ha. }
  destruct (n <? 10); [exact D|]. apply IH; [apply Z.div_pos; lia|exact D].
Qed.

Lemma pr_nonempty f n acc : pr_digits (S f) n acc <> [].
Proof.
  rewrite pr_digits_S. destruct (n <? 10); [discriminate|].
  rewrite pr_digits_app. intros H. apply app_eq_nil in H. destruct H; discriminate.
Qed.

Lemma print_nat_shape n : 0 <= n ->
  exists c r, print_nat n = c :: r /\ (c =? C_PLUS)%N = false /\ (c =? C_MINUS)%N = false.
Proof.
  intros H. pose proof (all_digits_pr (S (Z.to_nat (Z.log2 n))) n [] H eq_refl) as A.
  pose proof (pr_nonempty (Z.to_nat (Z.log2 n)) n []) as NE.
  fold (print_nat n) in A, NE. destruct (print_nat n) as [|c r]; [congruence|].
  exists c, r. split; [reflexivity|].
  unfold all_digits in A. cbn [forallb] in A. apply andb_true_iff in A. destruct A as [A _].
  destruct (cp_digit c) as [d|] eqn:E; [|discriminate].
  apply cp_digit_some in E. unfold C_PLUS, C_MINUS.
  split; apply N.eqb_neq; lia.
Qed.

Lemma it_lo_le_0 t : 0 <= it_bits t -> it_lo t <= 0.
Proof.
  intros. unfold it_lo. destruct (it_signed t); [|lia].
  pose proof (Z.pow_nonneg 2 (it_bits t - 1)). lia.
Qed.

(* the central round trip: every integer type, every value of the type *)
Lemma int_roundtrip t z : in_range t z = true -> parse_int t (print_int z) = Some z.
Proof.
  intros R. unfold print_int. destruct (Z.ltb_spec z 0) as [L|L].
  - assert (S : it_signed t = true).
    { unfold in_range, it_lo in R. destruct (it_signed t); [reflexivity|].
      apply andb_true_iff in R. destruct R as [R _]. apply Z.leb_le in R. lia. }
    destruct (print_nat_shape (- z)) as (c & r & E & _ & _); [lia|].
    unfold parse_int. rewrite E. cbn [is_nil]. rewrite andb_false_r.
    change ((C_MINUS =? C_PLUS)%N) with false. change ((C_MINUS =? C_MINUS)%N) with true.
    rewrite S. cbn [andb]. rewrite <- E, parse_print_nat by lia. cbn [option_map chk].
    rewrite Z.opp_involutive, R. reflexivity.
  - destruct (print_nat_shape z L) as (c & r & E & P & M).
    unfold parse_int. rewrite E, P, M. cbn [orb andb]. rewrite <- E, parse_print_nat by lia.
    cbn [chk]. rewrite R. reflexivity.
Qed.

(* printed integers are canonical: sign only when negative, digits only *)
Lemma print_int_digits z : 0 <= z -> all_digits (print_int z) = true.
Proof.
  intros H. unfold print_int. destruct (Z.ltb_spec z 0); [lia|].
  apply all_digits_pr; [exact H|reflexivity].
Qed.

(* Horner accumulation = positional value *)
Lemma parse_digits_value s : forall a,
  parse_digits a s = if all_digits s then Some (a * 10 ^ Z.of_nat (length s) + value_r s) else None.
Proof.
  induction s as [|c s IH]; intros a.
  - cbn. f_equal. lia.
  - cbn [parse_digits all_digits forallb value_r length]. fold (all_digits s).
    destruct (cp_digit c) as [d|] eqn:E; [|reflexivity].
    apply cp_digit_some in E. destruct E as [-> _]. cbn [andb]. rewrite IH.
    destruct (all_digits s); [|reflexivity]. f_equal.
    rewrite Nat2Z.inj_succ, Z.pow_succ_r by lia. ring.
Qed.

Lemma cp_digit_plus : cp_digit C_PLUS = None. Proof. reflexivity. Qed.
Lemma cp_digit_minus : cp_digit C_MINUS = None. Proof. reflexivity. Qed.

(* the parser accepts exactly the decimal language, with the positional value *)
Lemma parse_int_spec t s : parse_int t s = spec_parse_int t s.
Proof.
  unfold parse_int, spec_parse_int. destruct s as [|c r]; [reflexivity|].
  destruct (N.eqb_spec c C_PLUS) as [->|NP].
  - cbn [orb]. destruct r as [|c' r']; [reflexivity|]. cbn [is_nil andb negb].
    rewrite parse_digits_value. destruct (all_digits (c' :: r')); [|reflexivity].
    cbn [chk]. rewrite Z.mul_0_l, Z.add_0_l. reflexivity.
  - cbn [orb]. destruct (N.eqb_spec c C_MINUS) as [->|NM].
    + destruct r as [|c' r']; [cbn; destruct (it_signed t); reflexivity|]. cbn [is_nil andb negb].
      destruct (it_signed t); cbn [andb].
      * rewrite parse_digits_value. destruct (all_digits (c' :: r')); [|reflexivity].
        cbn [option_map chk]. rewrite Z.mul_0_l, Z.add_0_l. reflexivity.
      * cbn [parse_digits]. rewrite cp_digit_minus. reflexivity.
    + cbn [andb negb is_nil]. rewrite parse_digits_value.
      destruct (all_digits (c :: r)); [|reflexivity].
      cbn [chk]. rewrite Z.mul_0_l, Z.add_0_l. reflexivity.
Qed.

(* what is accepted is in range (no wrap-around) *)
Lemma parse_int_range t s z : parse_int t s = Some z -> in_range t z = true.
Proof.
  unfold parse_int. destruct s as [|c r]; [discriminate|].
  assert (C : forall o, chk t o = Some z -> in_range t z = true).
  { intros [y|]; cbn [chk]; [|discriminate]. destruct (in_range t y) eqn:E; [|discriminate].
    intros H; inversion H; subst; exact E. }
  repeat match goal with |- context [if ?b then _ else _] => destruct b end; try discriminate; apply C.
Qed.

(* --------------------------------------------------- all simple cursors ---- *)
Lemma cursor_roundtrip v : wf_cval v = true -> decode_cursor (kind_of v) (encode_cursor v) = Some v.
Proof.
  destruct v as [t z|b|c|s|s]; cbn [wf_cval kind_of encode_cursor decode_cursor]; intros W; try reflexivity.
  - rewrite int_roundtrip by exact W. reflexivity.
  - destruct b; reflexivity.
Qed.

Lemma decode_cursor_spec k s : decode_cursor k s = spec_decode k s.
Proof.
  destruct k; cbn [decode_cursor spec_decode]; try reflexivity.
  - rewrite parse_int_spec. reflexivity.
  - destruct s as [|c [|c' r]]; reflexivity.
Qed.

(* decoding is injective on what it accepts up to the printed form: a decoded
   value re-encodes to a string that decodes to the same value *)
Lemma decode_kind k s v : decode_cursor k s = Some v -> kind_of v = k /\ wf_cval v = true.
Proof.
  destruct k; cbn [decode_cursor].
  - destruct (parse_int t s) eqn:E; cbn [option_map]; [|discriminate].
    intros H; inversion H; subst. cbn. split; [reflexivity|]. eapply parse_int_range; eauto.
  - destruct (str_eqb s S_TRUE); [intros H; inversion H; auto|].
    destruct (str_eqb s S_FALSE); [intros H; inversion H; auto|discriminate].
  - destruct s as [|c [|c' r]]; try discriminate. intros H; inversion H; auto.
  - intros H; inversion H; auto.
  - intros H; inversion H; auto.
Qed.

Lemma decode_encode_decode k s v :
  decode_cursor k s = Some v -> decode_cursor k (encode_cursor v) = Some v.
Proof.
  intros H. destruct (decode_kind _ _ _ H) as [<- W]. apply cursor_roundtrip, W.
Qed.

(* ------------------------------------------------------------- base64url --- *)
Open Scope N_scope.

Ltac ndiv := zify; Z.to_euclidean_division_equations; lia.

Ltac ncases :=
  repeat match goal with
         | |- context [N.ltb ?a ?b] => destruct (N.ltb_spec a b)
         | |- context [N.leb ?a ?b] => destruct (N.leb_spec a b)
         | |- context [N.eqb ?a ?b] => destruct (N.eqb_spec a b)
         | H : context [N.ltb ?a ?b] |- _ => destruct (N.ltb_spec a b)
         | H : context [N.leb ?a ?b] |- _ => destruct (N.leb_spec a b)
         | H : context [N.eqb ?a ?b] |- _ => destruct (N.eqb_spec a b)
         end.

Lemma b64_val_char v : v < 64 -> b64_val (b64_char v) = Some v.
Proof.
  intros H. unfold b64_val, b64_char. ncases; cbn [andb]; try (f_equal; lia); try lia.
Qed.

Lemma b64_char_val c v : b64_val c = Some v -> v < 64 /\ b64_char v = c.
Proof.
  unfold b64_val, b64_char. intros H.
  ncases; cbn [andb] in H; try discriminate; inversion H; subst; ncases; split; try lia.
Qed.

Lemma map_opt_val_char l : Forall (fun v => v < 64) l -> map_opt b64_val (map b64_char l) = Some l.
Proof.
  induction 1 as [|v l Hv _ IH]; [reflexivity|].
  cbn [map map_opt]. rewrite b64_val_char by exact Hv. rewrite IH. reflexivity.
Qed.

Lemma map_opt_char_val s : forall vs, map_opt b64_val s = Some vs ->
  Forall (fun v => v < 64) vs /\ map b64_char vs = s.
Proof.
  induction s as [|c s IH]; intros vs H; cbn [map_opt] in H.
  - inversion H. split; [constructor|reflexivity].
  - destruct (b64_val c) as [v|] eqn:E; [|discriminate].
    destruct (map_opt b64_val s) as [vs'|]; [|discriminate]. inversion H; subst.
    destruct (IH vs' eq_refl) as [F M]. apply b64_char_val in E. destruct E as [L C].
    split; [constructor; assumption|]. cbn [map]. rewrite C, M. reflexivity.
Qed.

Lemma map_opt_none c s : In c s -> b64_val c = None -> map_opt b64_val s = None.
Proof.
  induction s as [|x s IH]; intros I E; [destruct I|].
  cbn [map_opt]. destruct I as [->|I].
  - rewrite E. reflexivity.
  - destruct (b64_val x); [|reflexivity]. rewrite (IH I E). reflexivity.
Qed.

Lemma list_ind3 {A} (P : list A -> Prop) :
  P [] -> (forall a, P [a]) -> (forall a b, P [a; b]) ->
  (forall a b c r, P r -> P (a :: b :: c :: r)) -> forall l, P l.
Proof.
  intros H0 H1 H2 H3. fix IH 1. intros [|a [|b [|c r]]]; [exact H0|apply H1|apply H2|apply H3, IH].
Qed.

Lemma list_ind4 {A} (P : list A -> Prop) :
  P [] -> (forall a, P [a]) -> (forall a b, P [a; b]) -> (forall a b c, P [a; b; c]) ->
  (forall a b c d r, P r -> P (a :: b :: c :: d :: r)) -> forall l, P l.
Proof.
  intros H0 H1 H2 H3 H4. fix IH 1. intros [|a [|b [|c [|d r]]]]; [exact H0|apply H1|apply H2|apply H3|apply H4, IH].
Qed.

Lemma b64_enc_vals_3 a b c r :
  b64_enc_vals (a :: b :: c :: r) =
  a / 4 :: (a mod 4) * 16 + b / 16 :: (b mod 16) * 4 + c / 64 :: c mod 64 :: b64_enc_vals r.
Proof. reflexivity. Qed.

Lemma b64_dec_vals_4 w x y z r :
  b64_dec_vals (w :: x :: y :: z :: r) =
  match b64_dec_vals r with
  | Some bs => Some (w * 4 + x / 16 :: (x mod 16) * 16 + y / 4 :: (y mod 4) * 64 + z :: bs)
  | None => None
  end.
Proof. reflexivity. Qed.

Lemma wf_bytes_cons b l : wf_bytes (b :: l) = true <-> b < 256 /\ wf_bytes l = true.
Proof. unfold wf_bytes. cbn [forallb]. rewrite andb_true_iff, N.ltb_lt. tauto. Qed.

Lemma enc_vals_lt l : wf_bytes l = true -> Forall (fun v => v < 64) (b64_enc_vals l).
Proof.
  induction l as [| a | a b | a b c r IH] using list_ind3; intros W.
  - constructor.
  - apply wf_bytes_cons in W. destruct W as [A _]. cbn [b64_enc_vals]. repeat constructor; ndiv.
  - apply wf_bytes_cons in W. destruct W as [A W]. apply wf_bytes_cons in W. destruct W as [B _].
    cbn [b64_enc_vals]. repeat constructor; ndiv.
  - apply wf_bytes_cons in W. destruct W as [A W]. apply wf_bytes_cons in W. destruct W as [B W].
    apply wf_bytes_cons in W. destruct W as [C W]. rewrite b64_enc_vals_3.
    repeat (constructor; [ndiv|]). apply IH, W.
Qed.

Lemma dec_enc_vals l : wf_bytes l = true -> b64_dec_vals (b64_enc_vals l) = Some l.
Proof.
  induction l as [| a | a b | a b c r IH] using list_ind3; intros W.
  - reflexivity.
  - apply wf_bytes_cons in W. destruct W as [A _]. cbn [b64_enc_vals b64_dec_vals].
    replace ((a mod 4 * 16) mod 16 =? 0) with true by (symmetry; apply N.eqb_eq; ndiv).
    do 2 f_equal. ndiv.
  - apply wf_bytes_cons in W. destruct W as [A W]. apply wf_bytes_cons in W. destruct W as [B _].
    cbn [b64_enc_vals b64_dec_vals].
    replace ((b mod 16 * 4) mod 4 =? 0) with true by (symmetry; apply N.eqb_eq; ndiv).
    f_equal. f_equal; [ndiv|]. f_equal. ndiv.
  - apply wf_bytes_cons in W. destruct W as [A W]. apply wf_bytes_cons in W. destruct W as [B W].
    apply wf_bytes_cons in W. destruct W as [C W]. rewrite b64_enc_vals_3, b64_dec_vals_4, IH by exact W.
    f_equal. f_equal; [ndiv|]. f_equal; [ndiv|]. f_equal. ndiv.
Qed.

Lemma enc_dec_vals vs : forall bs, Forall (fun v => v < 64) vs -> b64_dec_vals vs = Some bs ->
  wf_bytes bs = true /\ b64_enc_vals bs = vs.
Proof.
  induction vs as [| w | w x | w x y | w x y z r IH] using list_ind4; intros bs F H.
  - inversion H. split; reflexivity.
  - discriminate.
  - cbn [b64_dec_vals] in H. destruct (N.eqb_spec (x mod 16) 0) as [E|]; [|discriminate].
    inversion H; subst. inversion F as [|? ? Fw F1]; subst. inversion F1 as [|? ? Fx _]; subst.
    split.
    + apply wf_bytes_cons. split; [ndiv|reflexivity].
    + cbn [b64_enc_vals]. f_equal; [ndiv|]. f_equal. ndiv.
  - cbn [b64_dec_vals] in H. destruct (N.eqb_spec (y mod 4) 0) as [E|]; [|discriminate].
    inversion H; subst. inversion F as [|? ? Fw F1]; subst. inversion F1 as [|? ? Fx F2]; subst.
    inversion F2 as [|? ? Fy _]; subst.
    split.
    + apply wf_bytes_cons. split; [ndiv|]. apply wf_bytes_cons. split; [ndiv|reflexivity].
    + cbn [b64_enc_vals]. f_equal; [ndiv|]. f_equal; [ndiv|]. f_equal. ndiv.
  - rewrite b64_dec_vals_4 in H. destruct (b64_dec_vals r) as [bs'|] eqn:E; [|discriminate].
    inversion H; subst. inversion F as [|? ? Fw F1]; subst. inversion F1 as [|? ? Fx F2]; subst.
    inversion F2 as [|? ? Fy F3]; subst. inversion F3 as [|? ? Fz F4]; subst.
    destruct (IH bs' F4 eq_refl) as [W EN].
    split.
    + apply wf_bytes_cons. split; [ndiv|]. apply wf_bytes_cons. split; [ndiv|].
      apply wf_bytes_cons. split; [ndiv|exact W].
    + rewrite b64_enc_vals_3, EN. f_equal; [ndiv|]. f_equal; [ndiv|]. f_equal; [ndiv|]. f_equal. ndiv.
Qed.

Lemma b64_roundtrip bs : wf_bytes bs = true -> b64_decode (b64_encode bs) = Some bs.
Proof.
  intros W. unfold b64_decode, b64_encode.
  rewrite map_opt_val_char by (apply enc_vals_lt, W). apply dec_enc_vals, W.
Qed.

Lemma b64_decode_inv s bs : b64_decode s = Some bs -> wf_bytes bs = true /\ b64_encode bs = s.
Proof.
  unfold b64_decode, b64_encode. destruct (map_opt b64_val s) as [vs|] eqn:E; [|discriminate].
  intros H. apply map_opt_char_val in E. destruct E as [F M].
  destruct (enc_dec_vals vs bs F H) as [W EN]. split; [exact W|]. rewrite EN. exact M.
Qed.

Lemma b64_decode_iff s bs : b64_decode s = Some bs <-> (wf_bytes bs = true /\ b64_encode bs = s).
Proof.
  split; [apply b64_decode_inv|]. intros [W <-]. apply b64_roundtrip, W.
Qed.

Lemma b64_encode_inj a b : wf_bytes a = true -> wf_bytes b = true -> b64_encode a = b64_encode b -> a = b.
Proof.
  intros Wa Wb E. pose proof (b64_roundtrip a Wa) as Ra. rewrite E, (b64_roundtrip b Wb) in Ra.
  inversion Ra. reflexivity.
Qed.

Lemma b64_reject_symbol s c : In c s -> b64_val c = None -> b64_decode s = None.
Proof. intros I E. unfold b64_decode. rewrite (map_opt_none c s I E). reflexivity. Qed.

Lemma b64_alphabet c : b64_val c <> None <->
  (65 <= c <= 90 \/ 97 <= c <= 122 \/ 48 <= c <= 57 \/ c = 45 \/ c = 95).
Proof.
  unfold b64_val. ncases; cbn [andb]; split; intros HH; try congruence; try lia; try discriminate.
Qed.

(* '=' (padding) is not in the alphabet *)
Lemma b64_reject_padding s : In 61 s -> b64_decode s = None.
Proof. intros I. apply (b64_reject_symbol s 61 I). reflexivity. Qed.

Lemma b64_reject_length s : (N.of_nat (length s)) mod 4 = 1 -> b64_decode s = None.
Proof.
  unfold b64_decode. destruct (map_opt b64_val s) as [vs|] eqn:E; [|reflexivity].
  apply map_opt_char_val in E. destruct E as [_ M]. rewrite <- M, map_length. clear.
  induction vs as [| w | w x | w x y | w x y z r IH] using list_ind4; cbn [length]; intros H.
  - discriminate.
  - reflexivity.
  - discriminate.
  - discriminate.
  - rewrite b64_dec_vals_4, IH; [reflexivity|].
    replace (N.of_nat (S (S (S (S (length r)))))) with (N.of_nat (length r) + 1 * 4) in H by lia.
    rewrite N.mod_add in H by discriminate. exact H.
Qed.

(* OpaqueCursor: the base64 layer is lossless, so the cursor round-trips
   exactly when the JSON layer does *)
Section Opaque.
  Context {T : Type}.
  Variable ser : T -> option (list N).
  Variable de : list N -> option T.
  Definition ser_bytes (v : T) : list N := match ser v with Some b => b | None => [] end.

  Lemma opaque_decode_encode v : wf_bytes (ser_bytes v) = true ->
    opaque_decode de (opaque_encode ser v) = de (ser_bytes v).
  Proof.
    intros W. unfold opaque_decode, opaque_encode. fold (ser_bytes v). rewrite b64_roundtrip by exact W. reflexivity.
  Qed.

  Lemma opaque_roundtrip_iff v : wf_bytes (ser_bytes v) = true ->
    (opaque_decode de (opaque_encode ser v) = Some v <-> de (ser_bytes v) = Some v).
  Proof. intros W. rewrite opaque_decode_encode by exact W. tauto. Qed.

  Lemma opaque_roundtrip v b : ser v = Some b -> wf_bytes b = true -> de b = Some v ->
    opaque_decode de (opaque_encode ser v) = Some v.
  Proof.
    intros S W D. apply opaque_roundtrip_iff; unfold ser_bytes; rewrite S; assumption.
  Qed.

  (* a string that is not base64url-no-pad is rejected whatever the JSON layer *)
  Lemma opaque_reject s : b64_decode s = None -> opaque_decode de s = None.
  Proof. intros H. unfold opaque_decode. rewrite H. reflexivity. Qed.

  (* known classes, from the observed behaviour of serde_json *)
  Definition J_NULL : list N := [110; 117; 108; 108].
  Lemma opaque_nonfinite v : ser v = Some J_NULL -> de J_NULL = None ->
    opaque_encode ser v = [98; 110; 86; 115; 98; 65] /\ opaque_decode de (opaque_encode ser v) = None.
  Proof.
    intros S D. split; [unfold opaque_encode; rewrite S; reflexivity|].
    rewrite opaque_decode_encode; unfold ser_bytes; rewrite S; [exact D|reflexivity].
  Qed.
  Lemma opaque_unserializable v : ser v = None -> de [] = None ->
    opaque_encode ser v = [] /\ opaque_decode de (opaque_encode ser v) = None.
  Proof.
    intros S D. split; [unfold opaque_encode; rewrite S; reflexivity|].
    rewrite opaque_decode_encode; unfold ser_bytes; rewrite S; [exact D|reflexivity].
  Qed.
  Lemma opaque_lossy v v' b : ser v = Some b -> wf_bytes b = true -> de b = Some v' -> v' <> v ->
    opaque_decode de (opaque_encode ser v) <> Some v.
  Proof.
    intros S W D NE. rewrite opaque_decode_encode; unfold ser_bytes; rewrite S; [|exact W].
    rewrite D. intros H. inversion H. contradiction.
  Qed.
End Opaque.

Open Scope Z_scope.

(* float cursors: the assumed law of Rust's Display/FromStr on f32/f64 *)
Section Float.
  Variable F : Type.
  Variable to_string : F -> str.
  Variable parse : str -> option F.
  Variable is_nan : F -> bool.
  Hypothesis parse_to_string : forall x, is_nan x = false -> parse (to_string x) = Some x.
  Lemma float_cursor_roundtrip x : is_nan x = false -> parse (to_string x) = Some x.
  Proof. apply parse_to_string. Qed.
End Float.

(* ------------------------------------------------------------ query_with --- *)
Section Query.
  Context {C R : Type}.
  Variable dec : str -> option C.
  Variable f : option C -> option C -> option Z -> option Z -> outcome R.

  Lemma query_with_guard after before first last :
    args_ok dec after before first last = false ->
    exists c, (c = E_FIRST \/ c = E_LAST \/ c = E_BEFORE \/ c = E_AFTER) /\
              fst (query_with_dec dec after before first last) = QErr c.
  Proof.
    unfold args_ok, query_with_dec, decodable.
    destruct (negative first); [intros _; exists E_FIRST; auto|].
    destruct (negative last); [intros _; exists E_LAST; auto|].
    cbn [negb andb].
    destruct before as [b|]; [destruct (dec b) as [bv|]|];
      (destruct after as [a|]; [destruct (dec a) as [av|]|]); cbn [andb fst]; try discriminate; intros _;
      eauto 6.
  Qed.

  Lemma query_with_pass after before first last :
    args_ok dec after before first last = true ->
    fst (query_with_dec dec after before first last) =
    QCall (dec_opt dec after) (dec_opt dec before) first last.
  Proof.
    unfold args_ok, query_with_dec, decodable, dec_opt.
    destruct (negative first); [discriminate|]. destruct (negative last); [discriminate|].
    cbn [negb andb].
    destruct before as [b|]; [destruct (dec b) as [bv|]|];
      (destruct after as [a|]; [destruct (dec a) as [av|]|]); cbn [andb fst]; try discriminate; reflexivity.
  Qed.

  (* no cursor is even decoded when first or last is negative; every decoded
     string is one of the two arguments, before first *)
  Lemma query_with_trace after before first last :
    snd (query_with_dec dec after before first last) =
    if negative first || negative last then []
    else match before with
         | Some b => b :: match dec b, after with Some _, Some a => [a] | _, _ => [] end
         | None => match after with Some a => [a] | None => [] end
         end.
  Proof.
    unfold query_with_dec.
    destruct (negative first); [reflexivity|]. destruct (negative last); [reflexivity|]. cbn [orb].
    destruct before as [b|]; [destruct (dec b) as [bv|]|];
      (destruct after as [a|]; [destruct (dec a) as [av|]|]); reflexivity.
  Qed.
End Query.

Lemma query_with_guard_run {C R} (dec : str -> option C) after before first last :
  args_ok dec after before first last = false ->
  exists c, forall f : option C -> option C -> option Z -> option Z -> outcome R,
      query_with dec f after before first last = Err c.
Proof.
  intros H. destruct (query_with_guard dec after before first last H) as (c & _ & E).
  exists c. intros f. unfold query_with. rewrite E. reflexivity.
Qed.

Lemma query_with_pass_run {C R} (dec : str -> option C) after before first last :
  args_ok dec after before first last = true ->
  forall f : option C -> option C -> option Z -> option Z -> outcome R,
    query_with dec f after before first last = f (dec_opt dec after) (dec_opt dec before) first last.
Proof.
  intros H f. unfold query_with. rewrite (query_with_pass dec after before first last H). reflexivity.
Qed.

Lemma negative_spec o : negative o = true <-> exists z, o = Some z /\ z < 0.
Proof.
  destruct o as [z|]; cbn [negative].
  - rewrite Z.ltb_lt. split; [eauto|intros (z' & E & L); inversion E; subst; exact L].
  - split; [discriminate|intros (z & E & _); discriminate].
Qed.

Lemma args_ok_false {C} (dec : str -> option C) after before first last :
  args_ok dec after before first last = false <->
  ((exists z, first = Some z /\ z < 0) \/ (exists z, last = Some z /\ z < 0) \/
   (exists s, before = Some s /\ dec s = None) \/ (exists s, after = Some s /\ dec s = None)).
Proof.
  unfold args_ok. rewrite !andb_false_iff, !negb_false_iff, !negative_spec.
  assert (D : forall o, decodable dec o = false <-> exists s, o = Some s /\ dec s = None).
  { intros [s|]; cbn [decodable].
    - destruct (dec s) eqn:E; split; try discriminate; eauto.
      intros (s' & E' & N); inversion E'; subst; congruence.
    - split; [discriminate|intros (s & E & _); discriminate]. }
  rewrite !D. tauto.
Qed.

(* a client that sends back cursors the server handed out gets them decoded
   to the original values *)
Lemma query_with_encoded {R} (a b : option cval) k first last
      (f : option cval -> option cval -> option Z -> option Z -> outcome R) :
  negative first = false -> negative last = false ->
  (forall v, a = Some v -> kind_of v = k /\ wf_cval v = true) ->
  (forall v, b = Some v -> kind_of v = k /\ wf_cval v = true) ->
  query_with (decode_cursor k) f (option_map encode_cursor a) (option_map encode_cursor b) first last =
  f a b first last.
Proof.
  intros NF NL Ha Hb.
  assert (Da : forall o, (forall v, o = Some v -> kind_of v = k /\ wf_cval v = true) ->
                         decodable (decode_cursor k) (option_map encode_cursor o) = true /\
                         dec_opt (decode_cursor k) (option_map encode_cursor o) = o).
  { intros [v|] H; cbn [option_map decodable dec_opt]; [|auto].
    destruct (H v eq_refl) as [<- W]. rewrite cursor_roundtrip by exact W. auto. }
  destruct (Da a Ha) as [A1 A2]. destruct (Da b Hb) as [B1 B2].
  rewrite query_with_pass_run.
  - rewrite A2, B2. reflexivity.
  - unfold args_ok. rewrite NF, NL, A1, B1. reflexivity.
Qed.

(* ---------------------------------------------------------- page_info ------ *)
Lemma hd_error_map {A B} (g : A -> B) l : hd_error (map g l) = option_map g (hd_error l).
Proof. destruct l; reflexivity. Qed.

Lemma last_map {A B} (g : A -> B) l : forall x, last (map g l) (g x) = g (last l x).
Proof. induction l as [|y l IH]; intros x; [reflexivity|]. cbn [map last]. destruct l; [reflexivity|apply IH]. Qed.

Lemma last_error_map {A B} (g : A -> B) l : last_error (map g l) = option_map g (last_error l).
Proof. destruct l as [|x l]; [reflexivity|]. cbn [map last_error option_map]. rewrite last_map. reflexivity. Qed.

Lemma last_in {A} (l : list A) x : In (last l x) (x :: l).
Proof.
  induction l as [|y l IH]; [left; reflexivity|]. cbn [last].
  destruct l as [|c l']; [right; left; reflexivity|].
  destruct IH as [E|I]; [left; exact E|right; right; exact I].
Qed.

Lemma page_info_cursors edges :
  pi_start (conn_page_info edges) = hd_error (conn_edge_cursors edges) /\
  pi_end (conn_page_info edges) = last_error (conn_edge_cursors edges).
Proof.
  unfold conn_page_info, conn_edge_cursors. cbn [pi_start pi_end].
  rewrite hd_error_map, last_error_map. auto.
Qed.

Lemma page_info_decodes edges v :
  forallb wf_cval edges = true ->
  (hd_error edges = Some v ->
   exists s, pi_start (conn_page_info edges) = Some s /\ decode_cursor (kind_of v) s = Some v) /\
  (last_error edges = Some v ->
   exists s, pi_end (conn_page_info edges) = Some s /\ decode_cursor (kind_of v) s = Some v).
Proof.
  intros W. unfold conn_page_info; cbn [pi_start pi_end].
  assert (I : forall x, In x edges -> wf_cval x = true) by (apply forallb_forall; exact W).
  split; intros H; rewrite H; cbn [option_map]; eexists; (split; [reflexivity|]); apply cursor_roundtrip, I.
  - destruct edges; inversion H; subst. left; reflexivity.
  - destruct edges as [|x l]; inversion H; subst. apply last_in.
Qed.

Lemma page_info_empty : conn_page_info [] = {| pi_start := None; pi_end := None |}.
Proof. reflexivity. Qed.

(* ------------------------------------------- the per-case verdicts agree ---- *)
Lemma check_enc_ok v : check_enc (v, encode_cursor v) = 0%N.
Proof.
  unfold check_enc. rewrite str_eqb_refl.
  destruct (wf_cval v) eqn:W; cbn [negb orb].
  - rewrite cursor_roundtrip by exact W. cbn [ocval_eqb option_eqb]. rewrite cval_eqb_refl. reflexivity.
  - reflexivity.
Qed.

Lemma ocval_eqb_refl o : ocval_eqb o o = true.
Proof. destruct o; cbn; [apply cval_eqb_refl|reflexivity]. Qed.

Lemma check_dec_ok k s : check_dec (k, s, decode_cursor k s) = 0%N.
Proof.
  unfold check_dec. rewrite <- decode_cursor_spec, !ocval_eqb_refl. reflexivity.
Qed.

Lemma bytes_eqb_refl b : bytes_eqb b b = true.
Proof. apply bytes_eqb_eq. reflexivity. Qed.

Lemma check_b64e_ok b : wf_bytes b = true -> check_b64e (b, b64_encode b) = 0%N.
Proof.
  intros W. unfold check_b64e. rewrite str_eqb_refl, b64_roundtrip by exact W.
  rewrite bytes_eqb_refl. reflexivity.
Qed.

Lemma check_b64d_ok s : check_b64d (s, b64_decode s) = 0%N.
Proof.
  unfold check_b64d. destruct (b64_decode s) as [b|] eqn:E.
  - apply b64_decode_inv in E. destruct E as [W <-]. cbn [option_eqb]. rewrite bytes_eqb_refl, W, str_eqb_refl. reflexivity.
  - reflexivity.
Qed.

(* non-vacuity: concrete values of the wide types and a non-trivial call *)
Definition T_I128 : int_ty := {| it_signed := true; it_bits := 128 |}.
Definition T_U128 : int_ty := {| it_signed := false; it_bits := 128 |}.
Definition T_I32 : int_ty := {| it_signed := true; it_bits := 32 |}.

Lemma c32_nonvacuous :
  in_range T_I128 (- 2 ^ 127) = true /\
  print_int (- 2 ^ 127) = map (fun c => Z.to_N c)
    [45;49;55;48;49;52;49;49;56;51;52;54;48;52;54;57;50;51;49;55;51;49;54;56;55;51;48;51;55;49;53;56;56;52;49;48;53;55;50;56] /\
  parse_int T_U128 (print_int (2 ^ 128 - 1)) = Some (2 ^ 128 - 1) /\
  parse_int T_U128 (print_int (2 ^ 128)) = None /\
  parse_int T_I32 [45; 49]%N = Some (-1) /\
  b64_encode [110; 117; 108; 108]%N = [98; 110; 86; 115; 98; 65]%N /\
  b64_decode [65; 66]%N = None /\
  (forall f : option cval -> option cval -> option Z -> option Z -> outcome N,
      query_with (decode_cursor (KInt T_I32)) f (Some [49; 50]%N) None (Some 3) None =
      f (Some (CInt T_I32 12)) None (Some 3) None) /\
  (forall f : option cval -> option cval -> option Z -> option Z -> outcome N,
      query_with (decode_cursor (KInt T_I32)) f (Some [120]%N) None (Some 3) None = Err E_AFTER).
Proof. repeat split; vm_compute; reflexivity. Qed.

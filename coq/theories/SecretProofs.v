(* SecretProofs.v — C21: lemmas and proofs about Secret.v (no model definitions). *)
From AG Require Import Secret.

(* ---------------------------------------------------------- induction -- *)
Section value_ind'.
  Variable P : value -> Prop.
  Hypothesis Hnull : P VNull.
  Hypothesis Hint : forall z, P (VInt z).
  Hypothesis Hfloat : forall b, P (VFloat b).
  Hypothesis Hstr : forall s, P (VStr s).
  Hypothesis Hbool : forall b, P (VBool b).
  Hypothesis Henum : forall n, P (VEnum n).
  Hypothesis Hlist : forall l, Forall P l -> P (VList l).
  Hypothesis Hobj : forall kv, Forall (fun p => P (snd p)) kv -> P (VObj kv).
  Hypothesis Hvar : forall n, P (VVar n).

  Fixpoint value_ind' (v : value) : P v :=
    match v with
    | VNull => Hnull
    | VInt z => Hint z
    | VFloat b => Hfloat b
    | VStr s => Hstr s
    | VBool b => Hbool b
    | VEnum n => Henum n
    | VList l =>
        Hlist l ((fix go (l : list value) : Forall P l :=
                    match l with
                    | [] => Forall_nil P
                    | x :: l' => Forall_cons x (value_ind' x) (go l')
                    end) l)
    | VObj kv =>
        Hobj kv ((fix go (l : list (name * value)) : Forall (fun p => P (snd p)) l :=
                    match l with
                    | [] => Forall_nil _
                    | x :: l' => Forall_cons x (value_ind' (snd x)) (go l')
                    end) kv)
    | VVar n => Hvar n
    end.
End value_ind'.

(* --------------------------------------------------------------- all2 -- *)
Lemma all2_eq {A} (f : A -> A -> bool) l1 : forall l2,
    Forall (fun a => forall b, f a b = true -> a = b) l1 ->
    all2 f l1 l2 = true -> l1 = l2.
Proof.
  induction l1 as [|a l1 IH]; intros [|b l2] HF H; simpl in H; try discriminate; [reflexivity|].
  apply andb_true_iff in H as [H1 H2]. inversion HF as [|? ? Ha Hl]; subst.
  f_equal; [apply Ha; exact H1 | apply IH; assumption].
Qed.

Lemma all2_map_eq {A B C} (f : A -> B -> bool) (g : A -> C) (h : B -> C) l1 : forall l2,
    Forall (fun a => forall b, f a b = true -> g a = h b) l1 ->
    all2 f l1 l2 = true -> map g l1 = map h l2.
Proof.
  induction l1 as [|a l1 IH]; intros [|b l2] HF H; simpl in H; try discriminate; [reflexivity|].
  apply andb_true_iff in H as [H1 H2]. inversion HF as [|? ? Ha Hl]; subst.
  simpl. f_equal; [apply Ha; exact H1 | apply IH; assumption].
Qed.

Lemma all2_forallb {A B} (f : A -> B -> bool) (g : A -> bool) (h : B -> bool) l1 : forall l2,
    Forall (fun a => forall b, f a b = true -> g a = h b) l1 ->
    all2 f l1 l2 = true -> forallb g l1 = forallb h l2.
Proof.
  induction l1 as [|a l1 IH]; intros [|b l2] HF H; simpl in H; try discriminate; [reflexivity|].
  apply andb_true_iff in H as [H1 H2]. inversion HF as [|? ? Ha Hl]; subst.
  simpl. f_equal; [apply Ha; exact H1 | apply IH; assumption].
Qed.

Lemma all2_map_l {A B A' B'} (f : A' -> B' -> bool) (g : A -> A') (h : B -> B') l1 : forall l2,
    all2 f (map g l1) (map h l2) = all2 (fun a b => f (g a) (h b)) l1 l2.
Proof.
  induction l1 as [|a l1 IH]; intros [|b l2]; simpl; try reflexivity. rewrite IH. reflexivity.
Qed.

Lemma all2_impl {A B} (f f' : A -> B -> bool) l1 : forall l2,
    Forall (fun a => forall b, f a b = true -> f' a b = true) l1 ->
    all2 f l1 l2 = true -> all2 f' l1 l2 = true.
Proof.
  induction l1 as [|a l1 IH]; intros [|b l2] HF H; simpl in *; try discriminate; [reflexivity|].
  apply andb_true_iff in H as [H1 H2]. inversion HF as [|? ? Ha Hl]; subst.
  rewrite (Ha _ H1), (IH _ Hl H2). reflexivity.
Qed.

Lemma all2_nil_iff {A B} (f : A -> B -> bool) l1 l2 :
    all2 f l1 l2 = true -> (l1 = [] <-> l2 = []).
Proof. destruct l1, l2; simpl; intros H; try discriminate; split; intros; try discriminate; reflexivity. Qed.

Lemma all2_refl {A} (f : A -> A -> bool) l : Forall (fun a => f a a = true) l -> all2 f l l = true.
Proof. induction 1; simpl; [reflexivity|]. rewrite H, IHForall. reflexivity. Qed.

Lemma str_eqb_eq a b : str_eqb a b = true -> a = b.
Proof.
  unfold str_eqb. apply all2_eq. apply Forall_forall. intros x _ y H. apply N.eqb_eq. exact H.
Qed.

Lemma str_eqb_refl a : str_eqb a a = true.
Proof. unfold str_eqb. apply all2_refl. apply Forall_forall. intros x _. apply N.eqb_refl. Qed.

Lemma option_name_eq (a b : option name) : option_eqb name_eqb a b = true -> a = b.
Proof.
  destruct a, b; simpl; intros H; try discriminate; [|reflexivity].
  apply name_eqb_eq in H. subst. reflexivity.
Qed.

Lemma existsb_false_Forall {A} (f : A -> bool) l : existsb f l = false -> Forall (fun x => f x = false) l.
Proof.
  induction l as [|x l IH]; simpl; intros H; [constructor|].
  apply orb_false_iff in H as [H1 H2]. constructor; auto.
Qed.

Lemma Forall_existsb_false {A} (f : A -> bool) l : Forall (fun x => f x = false) l -> existsb f l = false.
Proof. induction 1; simpl; [reflexivity|]. rewrite H, IHForall. reflexivity. Qed.

Lemma map_ext_Forall {A B} (f g : A -> B) l : Forall (fun x => f x = g x) l -> map f l = map g l.
Proof. induction 1; simpl; [reflexivity|]. rewrite H, IHForall. reflexivity. Qed.

Lemma Forall_and {A} (P Q : A -> Prop) l : Forall P l -> Forall Q l -> Forall (fun x => P x /\ Q x) l.
Proof. induction 1; intros HQ; inversion HQ; subst; constructor; auto. Qed.

(* ---------------------------------------------------------- value_eqb -- *)
Lemma value_eqb_eq : forall a b, value_eqb a b = true -> a = b.
Proof.
  induction a using value_ind'; intros b' H0; destruct b'; simpl in H0; try discriminate.
  - reflexivity.
  - apply Z.eqb_eq in H0. subst. reflexivity.
  - apply N.eqb_eq in H0. subst. reflexivity.
  - apply str_eqb_eq in H0. subst. reflexivity.
  - apply Bool.eqb_prop in H0. subst. reflexivity.
  - apply N.eqb_eq in H0. subst. reflexivity.
  - f_equal. apply (all2_eq value_eqb); assumption.
  - f_equal. revert H0. apply all2_eq.
    eapply Forall_impl; [|exact H]. intros [k1 x1] IH [k2 x2] HH. simpl in *.
    apply andb_true_iff in HH as [Hk Hx]. apply N.eqb_eq in Hk. subst.
    f_equal. apply IH. exact Hx.
  - apply N.eqb_eq in H0. subst. reflexivity.
Qed.

Section Proofs.
  Variable nm : name -> str.
  Variable fl : N -> str.
  Variable S : schema.

  Notation display := (display nm fl).
  Notation siv := (siv nm fl S).
  Notation mask := (mask nm fl S).
  Notation hs := (hs S).
  Notation leaky := (leaky S).
  Notation simc := (simc S).
  Notation simv := (simv S).
  Notation fmeta := (fmeta S).
  Notation input_fields := (input_fields S).

  (* unfolding equations *)
  Lemma mask_eq m v :
    mask m v =
    if is_secret m then L.secret else
    match v with
    | VList l => L.lbrack ++ join L.comma (map (mask m) l) ++ L.rbrack
    | VObj kv =>
        L.lbrace ++ join L.comma (map (fun p => match p with (k, x) =>
                                         nm k ++ L.colon ++ mask (fmeta m k) x end) kv)
                 ++ L.rbrace
    | _ => display v
    end.
  Proof. destruct v; reflexivity. Qed.

  Lemma siv_eq m v :
    siv m v =
    if is_secret m then L.secret else
    match v with
    | VObj kv =>
        match input_fields m with
        | Some fs =>
            L.lbrace ++ join L.comma (map (fun p => match p with (k, x) =>
                                             nm k ++ L.colon ++ siv (assoc k fs) x end) kv)
                     ++ L.rbrace
        | None => display v
        end
    | _ => display v
    end.
  Proof. destruct v; reflexivity. Qed.

  Lemma hs_eq m v :
    hs m v =
    if is_secret m then true else
    match v with
    | VList l => existsb (hs m) l
    | VObj kv => existsb (fun p => match p with (k, x) => hs (fmeta m k) x end) kv
    | _ => false
    end.
  Proof. destruct v; reflexivity. Qed.

  Lemma leaky_eq m v :
    leaky m v =
    if is_secret m then false else
    match v with
    | VList l => existsb (hs m) l
    | VObj kv => existsb (fun p => match p with (k, x) => leaky (fmeta m k) x end) kv
    | _ => false
    end.
  Proof. destruct v; reflexivity. Qed.

  Lemma simc_eq m a b :
    simc m a b =
    if is_secret m then true else
    match a with
    | VList l1 => match b with VList l2 => all2 (simc m) l1 l2 | _ => false end
    | VObj k1 =>
        match b with
        | VObj k2 => all2 (fun p q => match p, q with (ka, xa), (kb, xb) =>
                                        name_eqb ka kb && simc (fmeta m ka) xa xb end) k1 k2
        | _ => false
        end
    | _ => value_eqb a b
    end.
  Proof. destruct a; reflexivity. Qed.

  Lemma simv_eq v1 v2 m a b :
    simv v1 v2 m a b =
    if is_secret m then Bool.eqb (closed v1 a) (closed v2 b) else
    match a with
    | VVar p =>
        match b with
        | VVar q =>
            name_eqb p q &&
            match assoc p v1, assoc p v2 with
            | Some x, Some y => simc m x y
            | None, None => true
            | _, _ => false
            end
        | _ => false
        end
    | VList l1 => match b with VList l2 => all2 (simv v1 v2 m) l1 l2 | _ => false end
    | VObj k1 =>
        match b with
        | VObj k2 => all2 (fun p q => match p, q with (ka, xa), (kb, xb) =>
                                        name_eqb ka kb && simv v1 v2 (fmeta m ka) xa xb end) k1 k2
        | _ => false
        end
    | _ => value_eqb a b
    end.
  Proof. destruct a; reflexivity. Qed.

  Lemma display_list l : display (VList l) = L.lbrack ++ join L.comma (map display l) ++ L.rbrack.
  Proof. reflexivity. Qed.

  Lemma display_obj kv :
    display (VObj kv) =
    L.lbrace ++ join L.comma (map (fun p => match p with (k, x) => nm k ++ L.colon ++ display x end) kv)
             ++ L.rbrace.
  Proof. reflexivity. Qed.

  (* ------------------------------------------------ no secret: Display -- *)
  Lemma mask_display : forall v m, hs m v = false -> mask m v = display v.
  Proof.
    induction v using value_ind'; intros m Hh; rewrite mask_eq; rewrite hs_eq in Hh;
      destruct (is_secret m); try discriminate; try reflexivity.
    - rewrite display_list. do 3 f_equal.
      apply existsb_false_Forall in Hh. apply map_ext_Forall.
      apply Forall_and with (1 := H) in Hh. eapply Forall_impl; [|exact Hh].
      intros x [IH Hx]. apply IH. exact Hx.
    - rewrite display_obj. do 3 f_equal.
      apply existsb_false_Forall in Hh. apply map_ext_Forall.
      apply Forall_and with (1 := H) in Hh. eapply Forall_impl; [|exact Hh].
      intros [k x] [IH Hx]. simpl in *. rewrite (IH _ Hx). reflexivity.
  Qed.

  Lemma hs_none : forall v, hs None v = false.
  Proof.
    induction v using value_ind'; rewrite hs_eq; cbn [is_secret]; try reflexivity.
    - apply Forall_existsb_false. exact H.
    - apply Forall_existsb_false. eapply Forall_impl; [|exact H].
      intros [k x] IH. simpl in IH. exact IH.
  Qed.

  Lemma mask_none v : mask None v = display v.
  Proof. apply mask_display. apply hs_none. Qed.

  Lemma siv_none v : siv None v = display v.
  Proof. destruct v; reflexivity. Qed.

  (* ---------------------------- no secret inside a list: impl = reference -- *)
  Lemma siv_mask : forall v m, leaky m v = false -> siv m v = mask m v.
  Proof.
    induction v using value_ind'; intros m Hl; rewrite siv_eq, mask_eq; rewrite leaky_eq in Hl;
      destruct (is_secret m) eqn:Hs; try reflexivity.
    - (* list *)
      rewrite display_list. do 3 f_equal.
      apply existsb_false_Forall in Hl. apply map_ext_Forall.
      eapply Forall_impl; [|exact Hl]. intros x Hx. symmetry. apply mask_display. exact Hx.
    - (* object *)
      destruct (input_fields m) as [fs|] eqn:Hif.
      + do 3 f_equal. apply existsb_false_Forall in Hl. apply map_ext_Forall.
        apply Forall_and with (1 := H) in Hl. eapply Forall_impl; [|exact Hl].
        intros [k x] [IH Hx]. simpl in *.
        assert (Hm : fmeta m k = assoc k fs) by (unfold Secret.fmeta; rewrite Hif; reflexivity).
        rewrite Hm in *. rewrite (IH _ Hx). reflexivity.
      + rewrite display_obj. do 3 f_equal. apply map_ext_Forall.
        apply Forall_forall. intros [k x] _.
        assert (Hm : fmeta m k = None) by (unfold Secret.fmeta; rewrite Hif; reflexivity).
        rewrite Hm, mask_none. reflexivity.
  Qed.

  (* ------------------------------------------- reference: non-interference -- *)
  Lemma simc_secret m a b : is_secret m = true -> simc m a b = true.
  Proof. intros H. rewrite simc_eq, H. reflexivity. Qed.

  Lemma simc_mask : forall a m b, simc m a b = true -> mask m a = mask m b.
  Proof.
    induction a using value_ind'; intros m b' Hsim; rewrite simc_eq in Hsim; rewrite (mask_eq m), (mask_eq m b');
      destruct (is_secret m); try reflexivity;
      try (apply value_eqb_eq in Hsim; subst b'; reflexivity).
    - destruct b'; try discriminate. do 3 f_equal.
      revert Hsim. apply all2_map_eq. eapply Forall_impl; [|exact H]. intros x IH y Hxy. apply IH. exact Hxy.
    - destruct b'; try discriminate. do 3 f_equal.
      revert Hsim. apply all2_map_eq. eapply Forall_impl; [|exact H].
      intros [k x] IH [k' y] Hxy. simpl in *.
      apply andb_true_iff in Hxy as [Hk Hx]. apply name_eqb_eq in Hk. subst k'.
      rewrite (IH _ _ Hx). reflexivity.
  Qed.

  Section Vars.
    Variables v1 v2 : vars_t.

    Lemma closed_scalar (vars : vars_t) a :
      match a with VVar _ | VList _ | VObj _ => False | _ => True end -> closed vars a = true.
    Proof. destruct a; simpl; intros H; try contradiction; reflexivity. Qed.

    Lemma simv_closed : forall a m b, simv v1 v2 m a b = true -> closed v1 a = closed v2 b.
    Proof.
      induction a using value_ind'; intros m b' Hsim; rewrite simv_eq in Hsim;
        (destruct (is_secret m); [apply Bool.eqb_prop in Hsim; exact Hsim|]);
        try (apply value_eqb_eq in Hsim; subst b'; reflexivity).
      - destruct b'; try discriminate. simpl.
        revert Hsim. apply all2_forallb. eapply Forall_impl; [|exact H]. intros x IH y Hxy. eapply IH. exact Hxy.
      - destruct b'; try discriminate. simpl.
        revert Hsim. apply all2_forallb. eapply Forall_impl; [|exact H].
        intros [k x] IH [k' y] Hxy. simpl in *.
        apply andb_true_iff in Hxy as [_ Hx]. eapply IH. exact Hx.
      - destruct b'; try discriminate. simpl.
        apply andb_true_iff in Hsim as [Hn Hv]. apply name_eqb_eq in Hn. subst.
        destruct (assoc n0 v1), (assoc n0 v2); try discriminate; reflexivity.
    Qed.

    Lemma simv_subst : forall a m b, simv v1 v2 m a b = true -> simc m (subst v1 a) (subst v2 b) = true.
    Proof.
      induction a using value_ind'; intros m b' Hsim; rewrite simv_eq in Hsim;
        (destruct (is_secret m) eqn:Hs; [apply simc_secret; exact Hs|]);
        try (pose proof (value_eqb_eq _ _ Hsim) as E; subst b'; rewrite simc_eq, Hs; exact Hsim).
      - destruct b'; try discriminate. cbn [subst]. rewrite simc_eq, Hs.
        rewrite all2_map_l. revert Hsim. apply all2_impl.
        eapply Forall_impl; [|exact H]. intros x IH y Hxy. apply IH. exact Hxy.
      - destruct b'; try discriminate. cbn [subst]. rewrite simc_eq, Hs.
        rewrite all2_map_l. revert Hsim. apply all2_impl.
        eapply Forall_impl; [|exact H]. intros [k x] IH [k' y] Hxy. simpl in *.
        apply andb_true_iff in Hxy as [Hk Hx]. rewrite Hk. simpl. apply IH. exact Hx.
      - destruct b'; try discriminate. cbn [subst].
        apply andb_true_iff in Hsim as [Hn Hv]. apply name_eqb_eq in Hn. subst.
        destruct (assoc n0 v1), (assoc n0 v2); try discriminate; [exact Hv|].
        rewrite simc_eq, Hs. cbn [value_eqb]. apply N.eqb_refl.
    Qed.

    Lemma simv_mask m a b :
      simv v1 v2 m a b = true -> mask m (resolve v1 a) = mask m (resolve v2 b).
    Proof.
      intros H. unfold resolve. rewrite (simv_closed _ _ _ H).
      destruct (closed v2 b); [|reflexivity]. apply simc_mask. apply simv_subst. exact H.
    Qed.
  End Vars.
End Proofs.

(* ------------------------------------------------------------ selections -- *)
Section Sel.
  Variable nm : name -> str.
  Variable fl : N -> str.
  Variable S : schema.

  Notation impl_sel := (impl_sel nm fl S).
  Notation ideal_sel := (ideal_sel nm fl S).
  Notation siv := (siv nm fl S).
  Notation mask := (mask nm fl S).

  Lemma impl_sel_field vars p al n args ds sub :
    impl_sel vars p (SField al n args ds sub) =
    alias_str nm al ++ nm n ++
    args_str (map (fun kv => match kv with (k, a) =>
                     nm k ++ L.colon ++ siv (arg_meta p n k) (resolve vars a) end) args) ++
    sub_str sub (map (impl_sel vars (field_type S p n)) sub).
  Proof. reflexivity. Qed.

  Lemma ideal_sel_field vars p al n args ds sub :
    ideal_sel vars p (SField al n args ds sub) =
    alias_str nm al ++ nm n ++
    args_str (map (fun kv => match kv with (k, a) =>
                     nm k ++ L.colon ++ mask (arg_meta p n k) (resolve vars a) end) args) ++
    sub_str sub (map (ideal_sel vars (field_type S p n)) sub).
  Proof. reflexivity. Qed.

  Lemma impl_sel_inline vars p c ds sub :
    impl_sel vars p (SInline c ds sub) =
    L.dots ++ cond_str nm c ++
    selset (map (impl_sel vars (match c with Some c => type_named S c | None => None end)) sub).
  Proof. reflexivity. Qed.

  Lemma ideal_sel_inline vars p c ds sub :
    ideal_sel vars p (SInline c ds sub) =
    L.dots ++ cond_str nm c ++ selset (map (ideal_sel vars (spec_parent S p c)) sub).
  Proof. reflexivity. Qed.

  Lemma bad_sel_field vars cl lost p al n args ds sub :
    bad_sel S vars cl lost p (SField al n args ds sub) =
    existsb (fun kv => match kv with (k, a) =>
               if lost then cl && hs S (arg_meta p n k) (resolve vars a)
               else leaky S (arg_meta p n k) (resolve vars a) end) args ||
    existsb (bad_sel S vars cl lost (field_type S p n)) sub.
  Proof. reflexivity. Qed.

  Lemma bad_sel_inline vars cl lost p c ds sub :
    bad_sel S vars cl lost p (SInline c ds sub) =
    existsb (bad_sel S vars cl (match c with Some _ => false | None => true end) (spec_parent S p c)) sub.
  Proof. reflexivity. Qed.

  (* outside the known classes the implementation prints what the reference prints *)
  Lemma impl_ideal_sel vars : forall s lost p,
      bad_sel S vars true lost p s = false ->
      impl_sel vars (if lost then None else p) s = ideal_sel vars p s.
  Proof.
    induction s using selection_ind'; intros lost p Hb.
    - rewrite impl_sel_field, ideal_sel_field. rewrite bad_sel_field in Hb.
      apply orb_false_iff in Hb as [Ha Hs].
      do 2 f_equal. f_equal.
      + f_equal. apply existsb_false_Forall in Ha. apply map_ext_Forall.
        eapply Forall_impl; [|exact Ha]. intros [k a] Hk. do 2 f_equal.
        destruct lost.
        * simpl in Hk. change (arg_meta None nm0 k) with (@None minput).
          rewrite siv_none. symmetry. apply mask_display. exact Hk.
        * apply siv_mask. exact Hk.
      + assert (Hft : field_type S (if lost then None else p) nm0 = if lost then None else field_type S p nm0)
          by (destruct lost; reflexivity).
        rewrite Hft. f_equal.
        apply existsb_false_Forall in Hs. apply map_ext_Forall.
        apply Forall_and with (1 := H) in Hs. eapply Forall_impl; [|exact Hs].
        intros x [IH Hx]. apply IH. exact Hx.
    - reflexivity.
    - rewrite impl_sel_inline, ideal_sel_inline. rewrite bad_sel_inline in Hb.
      do 3 f_equal.
      apply existsb_false_Forall in Hb. apply map_ext_Forall.
      apply Forall_and with (1 := H) in Hb. eapply Forall_impl; [|exact Hb].
      intros x [IH Hx]. specialize (IH _ _ Hx). destruct cond; exact IH.
  Qed.

  (* the reference printer does not depend on what is supplied at secret positions *)
  Lemma sim_ideal_sel v1 v2 : forall a p b,
      sim_sel S v1 v2 p a b = true -> ideal_sel v1 p a = ideal_sel v2 p b.
  Proof.
    induction a using selection_ind'; intros p b Hsim; destruct b; try discriminate.
    - cbn [sim_sel] in Hsim.
      apply andb_true_iff in Hsim as [Hsim Hsub]. apply andb_true_iff in Hsim as [Hsim Hargs].
      apply andb_true_iff in Hsim as [Hal Hn].
      apply option_name_eq in Hal. apply name_eqb_eq in Hn. subst.
      rewrite !ideal_sel_field.
      assert (Ea : map (fun kv => match kv with (k, a) =>
                          nm k ++ L.colon ++ mask (arg_meta p nm1 k) (resolve v1 a) end) args =
                   map (fun kv => match kv with (k, a) =>
                          nm k ++ L.colon ++ mask (arg_meta p nm1 k) (resolve v2 a) end) args0).
      { revert Hargs. apply all2_map_eq. apply Forall_forall. intros [k1 a1] _ [k2 a2] Hk.
        apply andb_true_iff in Hk as [Hk Hv]. apply name_eqb_eq in Hk. subst.
        rewrite (simv_mask nm fl S v1 v2 _ _ _ Hv). reflexivity. }
      assert (Es : map (ideal_sel v1 (field_type S p nm1)) sels = map (ideal_sel v2 (field_type S p nm1)) sels0).
      { revert Hsub. apply all2_map_eq. eapply Forall_impl; [|exact H]. intros x IH y Hxy. apply IH. exact Hxy. }
      rewrite Ea, Es. do 3 f_equal.
      destruct sels, sels0; simpl in Hsub; try discriminate; reflexivity.
    - cbn [sim_sel] in Hsim. apply name_eqb_eq in Hsim. subst. reflexivity.
    - cbn [sim_sel] in Hsim. apply andb_true_iff in Hsim as [Hc Hsub].
      apply option_name_eq in Hc. subst. rewrite !ideal_sel_inline. do 3 f_equal.
      revert Hsub. apply all2_map_eq. eapply Forall_impl; [|exact H]. intros x IH y Hxy. apply IH. exact Hxy.
  Qed.

  Lemma sim_ideal_sels v1 v2 p l1 l2 :
    all2 (sim_sel S v1 v2 p) l1 l2 = true -> map (ideal_sel v1 p) l1 = map (ideal_sel v2 p) l2.
  Proof.
    apply all2_map_eq. apply Forall_forall. intros x _ y H. apply sim_ideal_sel. exact H.
  Qed.

  Lemma impl_ideal_sels vars p l :
    existsb (bad_sel S vars true false p) l = false -> map (impl_sel vars p) l = map (ideal_sel vars p) l.
  Proof.
    intros H. apply existsb_false_Forall in H. apply map_ext_Forall.
    eapply Forall_impl; [|exact H]. intros x Hx. apply (impl_ideal_sel vars x false p Hx).
  Qed.

  (* ------------------------------------------------------------ documents -- *)
  Lemma known_class_0 d vars :
    known_class S d vars = 0%N -> bad_doc S vars true d = false /\ bad_default S d = false.
  Proof.
    unfold known_class. destruct (bad_doc S vars false d); [discriminate|].
    destruct (bad_doc S vars true d); [discriminate|].
    destruct (bad_default S d); [discriminate|]. auto.
  Qed.

  Lemma concat_map_ext {A} (f g : A -> str) l : Forall (fun x => f x = g x) l -> concat (map f l) = concat (map g l).
  Proof. intros H. rewrite (map_ext_Forall _ _ _ H). reflexivity. Qed.

  Theorem impl_ideal_doc d vars :
    known_class S d vars = 0%N -> impl_doc nm fl S vars d = ideal_doc nm fl S vars d.
  Proof.
    intros Hk. apply known_class_0 in Hk as [Hb Hd]. unfold bad_doc in Hb.
    apply orb_false_iff in Hb as [Hf Ho]. unfold impl_doc, ideal_doc. f_equal.
    - apply concat_map_ext. apply existsb_false_Forall in Hf. eapply Forall_impl; [|exact Hf].
      intros nf Hnf. unfold impl_frag, ideal_frag. rewrite (impl_ideal_sels _ _ _ Hnf). reflexivity.
    - apply concat_map_ext. apply existsb_false_Forall in Ho. unfold bad_default in Hd.
      apply existsb_false_Forall in Hd. apply Forall_and with (1 := Ho) in Hd.
      eapply Forall_impl; [|exact Hd]. intros o [Hos Hov].
      unfold impl_op, ideal_op. rewrite (impl_ideal_sels _ _ _ Hos). f_equal.
      unfold header_str. destruct (op_name o); [|reflexivity].
      assert (Em : map (vardef_str nm (impl_default nm fl)) (op_vars o) =
                   map (vardef_str nm (ideal_default nm fl S d o)) (op_vars o)).
      { apply existsb_false_Forall in Hov. apply map_ext_Forall.
        eapply Forall_impl; [|exact Hov]. intros vd Hvd. unfold vardef_str. do 3 f_equal.
        unfold impl_default, ideal_default. cbv beta in Hvd.
        destruct (vd_default vd) as [x|] eqn:E; [|reflexivity]. rewrite Hvd. reflexivity. }
      rewrite Em. reflexivity.
  Qed.

  Lemma optype_eqb_eq a b : optype_eqb a b = true -> a = b.
  Proof. destruct a, b; simpl; intros; try discriminate; reflexivity. Qed.

  Lemma sim_vardef_str d1 d2 o1 o2 a b :
    sim_vardef S d1 d2 o1 o2 a b = true ->
    vardef_str nm (ideal_default nm fl S d1 o1) a = vardef_str nm (ideal_default nm fl S d2 o2) b.
  Proof.
    unfold sim_vardef. intros H. apply andb_true_iff in H as [H Hd]. apply andb_true_iff in H as [Hn Ht].
    apply name_eqb_eq in Hn. apply str_eqb_eq in Ht. unfold vardef_str. rewrite Hn, Ht. do 3 f_equal.
    unfold ideal_default. rewrite <- Hn. unfold sim_default in Hd. rewrite <- Hn in Hd.
    destruct (vd_default a) as [x|], (vd_default b) as [y|]; try discriminate; [|reflexivity].
    apply andb_true_iff in Hd as [Hs Hv]. apply Bool.eqb_prop in Hs. rewrite <- Hs.
    destruct (dflt_secret S (uses_op S d1 o1 (vd_name a)) x); [reflexivity|].
    apply value_eqb_eq in Hv. subst. reflexivity.
  Qed.

  Theorem sim_ideal_doc d1 v1 d2 v2 :
    sim_doc S d1 v1 d2 v2 = true -> ideal_doc nm fl S v1 d1 = ideal_doc nm fl S v2 d2.
  Proof.
    unfold sim_doc. intros H. apply andb_true_iff in H as [Hf Ho]. unfold ideal_doc. f_equal.
    - f_equal. revert Hf. apply all2_map_eq. apply Forall_forall. intros a _ b Hab.
      unfold sim_frag in Hab. apply andb_true_iff in Hab as [Hab Hs]. apply andb_true_iff in Hab as [Hn Hc].
      apply name_eqb_eq in Hn. apply name_eqb_eq in Hc. unfold ideal_frag. rewrite <- Hn, <- Hc.
      rewrite (sim_ideal_sels _ _ _ _ _ Hs). reflexivity.
    - f_equal. revert Ho. apply all2_map_eq. apply Forall_forall. intros a _ b Hab.
      unfold sim_op in Hab. apply andb_true_iff in Hab as [Hab Hs]. apply andb_true_iff in Hab as [Hab Hv].
      apply andb_true_iff in Hab as [Hn Ht]. apply option_name_eq in Hn. apply optype_eqb_eq in Ht.
      unfold ideal_op. rewrite <- Ht. rewrite (sim_ideal_sels _ _ _ _ _ Hs). f_equal.
      unfold header_str. rewrite <- Hn, <- Ht. destruct (op_name a); [|reflexivity]. do 3 f_equal.
      assert (Em : map (vardef_str nm (ideal_default nm fl S d1 a)) (op_vars a) =
                   map (vardef_str nm (ideal_default nm fl S d2 b)) (op_vars b)).
      { revert Hv. apply all2_map_eq. apply Forall_forall. intros x _ y Hxy. apply sim_vardef_str. exact Hxy. }
      rewrite Em. destruct (op_vars a), (op_vars b); simpl in Hv; try discriminate; reflexivity.
  Qed.

  (* C21: non-interference of the implementation model outside the known classes *)
  Theorem c21_noninterference d1 v1 d2 v2 :
    sim_doc S d1 v1 d2 v2 = true ->
    known_class S d1 v1 = 0%N -> known_class S d2 v2 = 0%N ->
    impl_doc nm fl S v1 d1 = impl_doc nm fl S v2 d2.
  Proof.
    intros Hs K1 K2. rewrite (impl_ideal_doc _ _ K1), (impl_ideal_doc _ _ K2). apply sim_ideal_doc. exact Hs.
  Qed.
End Sel.

Theorem c21_check_complete nm fl S d1 v1 d2 v2 :
  sim_doc S d1 v1 d2 v2 = true ->
  known_class S d1 v1 = 0%N -> known_class S d2 v2 = 0%N ->
  str_eqb (impl_doc nm fl S v1 d1) (impl_doc nm fl S v2 d2) = true.
Proof.
  intros Hs K1 K2. rewrite (c21_noninterference nm fl S d1 v1 d2 v2 Hs K1 K2). apply str_eqb_refl.
Qed.

(* ------------------------------------------------------------ witnesses -- *)
(* names: 10 Query, 11 login, 12 user, 13 pw, 14 String, 15 Int, 16 Cred,
   17 many, 18 ins, 19 Q, 20 p, 21 auth, 22 cred, 23 me, 24 User, 25 check,
   26 F, 27 c *)
Definition w_nm (n : name) : str := [n].
Definition w_fl (b : N) : str := [].

Definition w_pw : name * minput := (13%N, {| iv_ty := 14%N; iv_secret := true |}).
Definition w_user : name * minput := (12%N, {| iv_ty := 14%N; iv_secret := false |}).

Definition w_schema : schema :=
  {| s_types :=
       [(10%N, MObject [(11%N, {| mf_ty := 15%N; mf_args := [w_user; w_pw] |});
                        (17%N, {| mf_ty := 15%N; mf_args := [(18%N, {| iv_ty := 16%N; iv_secret := false |})] |});
                        (21%N, {| mf_ty := 15%N; mf_args := [(22%N, {| iv_ty := 16%N; iv_secret := false |})] |});
                        (23%N, {| mf_ty := 24%N; mf_args := [] |})]);
        (24%N, MObject [(25%N, {| mf_ty := 15%N; mf_args := [w_pw] |})]);
        (16%N, MInput [w_user; w_pw]);
        (14%N, MOther); (15%N, MOther)];
     s_query := 10%N; s_mutation := None; s_subscription := None |}.

Definition w_op (name : option name) (vars : list vardef) (sels : list selection) : document :=
  {| doc_ops := [{| op_name := name; op_ty := OpQuery; op_vars := vars; op_dirs := []; op_sels := sels |}];
     doc_frags := [] |}.

Definition sA : value := VStr [65%N].
Definition sB : value := VStr [66%N].

(* { many(ins: [{user: "u", pw: X}]) } *)
Definition w_list (x : value) : document :=
  w_op None [] [SField None 17%N [(18%N, VList [VObj [(12%N, VStr [117%N]); (13%N, x)]])] [] []].

(* { ... { login(pw: X) } } *)
Definition w_untyped (x : value) : document :=
  w_op None [] [SInline None [] [SField None 11%N [(13%N, x)] [] []]].

(* query Q($p: String = X) { login(pw: $p) } *)
Definition w_default (x : value) : document :=
  w_op (Some 19%N) [{| vd_name := 20%N; vd_ty := [83%N]; vd_default := Some x |}]
       [SField None 11%N [(13%N, VVar 20%N)] [] []].

Lemma differ a b : str_eqb a b = false -> a <> b.
Proof. intros H E. rewrite E, str_eqb_refl in H. discriminate. Qed.

Theorem c21_list_refuted :
  exists nm fl S d1 v1 d2 v2,
    sim_doc S d1 v1 d2 v2 = true /\ known_class S d1 v1 = 1%N /\
    impl_doc nm fl S v1 d1 <> impl_doc nm fl S v2 d2.
Proof.
  exists w_nm, w_fl, w_schema, (w_list sA), [], (w_list sB), [].
  split; [vm_compute; reflexivity|]. split; [vm_compute; reflexivity|].
  apply differ. vm_compute. reflexivity.
Qed.

Theorem c21_untyped_inline_refuted :
  exists nm fl S d1 v1 d2 v2,
    sim_doc S d1 v1 d2 v2 = true /\ known_class S d1 v1 = 2%N /\
    impl_doc nm fl S v1 d1 <> impl_doc nm fl S v2 d2.
Proof.
  exists w_nm, w_fl, w_schema, (w_untyped sA), [], (w_untyped sB), [].
  split; [vm_compute; reflexivity|]. split; [vm_compute; reflexivity|].
  apply differ. vm_compute. reflexivity.
Qed.

Theorem c21_var_default_refuted :
  exists nm fl S d1 v1 d2 v2,
    sim_doc S d1 v1 d2 v2 = true /\ known_class S d1 v1 = 3%N /\
    impl_doc nm fl S v1 d1 <> impl_doc nm fl S v2 d2.
Proof.
  exists w_nm, w_fl, w_schema, (w_default sA), [], (w_default sB), [].
  split; [vm_compute; reflexivity|]. split; [vm_compute; reflexivity|].
  apply differ. vm_compute. reflexivity.
Qed.

(* non-vacuity: a pair outside the known classes whose secrets differ in a
   literal argument, a variable value, a nested input object (literal and
   through a variable), under an inline fragment with type condition, and in
   a named fragment.
   query Q($p: String, $c: Cred) { login(user: "u", pw: X) login(pw: $p)
     auth(cred: {user: "u", pw: X}) auth(cred: $c)
     ... on Query { login(pw: X) } me { ...F } }
   fragment F on User { check(pw: X) }         variables {p: X, c: {user: "u", pw: X}} *)
Definition w_ok (x : value) : document :=
  {| doc_ops :=
       [{| op_name := Some 19%N; op_ty := OpQuery;
           op_vars := [{| vd_name := 20%N; vd_ty := [83%N]; vd_default := None |};
                       {| vd_name := 27%N; vd_ty := [67%N]; vd_default := None |}];
           op_dirs := [];
           op_sels :=
             [SField None 11%N [(12%N, VStr [117%N]); (13%N, x)] [] [];
              SField None 11%N [(13%N, VVar 20%N)] [] [];
              SField None 21%N [(22%N, VObj [(12%N, VStr [117%N]); (13%N, x)])] [] [];
              SField None 21%N [(22%N, VVar 27%N)] [] [];
              SInline (Some 10%N) [] [SField None 11%N [(13%N, x)] [] []];
              SField None 23%N [] [] [SSpread 26%N []]] |}];
     doc_frags := [(26%N, {| fr_cond := 24%N; fr_dirs := []; fr_sels := [SField None 25%N [(13%N, x)] [] []] |})] |}.

Definition w_ok_vars (x : value) : vars_t :=
  [(20%N, x); (27%N, VObj [(12%N, VStr [117%N]); (13%N, x)])].

Theorem c21_nonvacuous :
  sim_doc w_schema (w_ok sA) (w_ok_vars sA) (w_ok sB) (w_ok_vars sB) = true /\
  known_class w_schema (w_ok sA) (w_ok_vars sA) = 0%N /\
  known_class w_schema (w_ok sB) (w_ok_vars sB) = 0%N /\
  w_ok sA <> w_ok sB /\ w_ok_vars sA <> w_ok_vars sB /\
  impl_doc w_nm w_fl w_schema (w_ok_vars sA) (w_ok sA) = impl_doc w_nm w_fl w_schema (w_ok_vars sB) (w_ok sB).
Proof.
  split; [vm_compute; reflexivity|]. split; [vm_compute; reflexivity|]. split; [vm_compute; reflexivity|].
  split; [intro H; discriminate H|]. split; [intro H; discriminate H|]. vm_compute. reflexivity.
Qed.

(* ------------------- the known classes do not depend on the secrets either -- *)
Lemma all2_existsb {A B} (f : A -> B -> bool) (g : A -> bool) (h : B -> bool) l1 : forall l2,
    Forall (fun a => forall b, f a b = true -> g a = h b) l1 ->
    all2 f l1 l2 = true -> existsb g l1 = existsb h l2.
Proof.
  induction l1 as [|a l1 IH]; intros [|b l2] HF H; simpl in H; try discriminate; [reflexivity|].
  apply andb_true_iff in H as [H1 H2]. inversion HF as [|? ? Ha Hl]; subst.
  simpl. f_equal; [apply Ha; exact H1 | apply IH; assumption].
Qed.

Section Invariance.
  Variable S : schema.

  Lemma simc_hs : forall a m b, simc S m a b = true -> hs S m a = hs S m b.
  Proof.
    induction a using value_ind'; intros m b' Hsim; rewrite simc_eq in Hsim; rewrite (hs_eq S m), (hs_eq S m b');
      destruct (is_secret m); try reflexivity;
      try (apply value_eqb_eq in Hsim; subst b'; reflexivity).
    - destruct b'; try discriminate.
      revert Hsim. apply all2_existsb. eapply Forall_impl; [|exact H]. intros x IH y Hxy. apply IH. exact Hxy.
    - destruct b'; try discriminate.
      revert Hsim. apply all2_existsb. eapply Forall_impl; [|exact H].
      intros [k x] IH [k' y] Hxy. simpl in *.
      apply andb_true_iff in Hxy as [Hk Hx]. apply name_eqb_eq in Hk. subst k'. apply IH. exact Hx.
  Qed.

  Lemma simc_leaky : forall a m b, simc S m a b = true -> leaky S m a = leaky S m b.
  Proof.
    induction a using value_ind'; intros m b' Hsim; rewrite simc_eq in Hsim;
      rewrite (leaky_eq S m), (leaky_eq S m b');
      destruct (is_secret m); try reflexivity;
      try (apply value_eqb_eq in Hsim; subst b'; reflexivity).
    - destruct b'; try discriminate.
      revert Hsim. apply all2_existsb. apply Forall_forall. intros x _ y Hxy. apply simc_hs. exact Hxy.
    - destruct b'; try discriminate.
      revert Hsim. apply all2_existsb. eapply Forall_impl; [|exact H].
      intros [k x] IH [k' y] Hxy. simpl in *.
      apply andb_true_iff in Hxy as [Hk Hx]. apply name_eqb_eq in Hk. subst k'. apply IH. exact Hx.
  Qed.

  Lemma simv_resolve v1 v2 m a b :
    simv S v1 v2 m a b = true -> simc S m (resolve v1 a) (resolve v2 b) = true.
  Proof.
    intros H. unfold resolve. rewrite (simv_closed S v1 v2 _ _ _ H).
    destruct (closed v2 b); [apply simv_subst; exact H|].
    rewrite simc_eq. destruct (is_secret m); reflexivity.
  Qed.

  Lemma sim_bad_sel v1 v2 cl : forall a lost p b,
      sim_sel S v1 v2 p a b = true -> bad_sel S v1 cl lost p a = bad_sel S v2 cl lost p b.
  Proof.
    induction a using selection_ind'; intros lost p b Hsim; destruct b; try discriminate.
    - cbn [sim_sel] in Hsim.
      apply andb_true_iff in Hsim as [Hsim Hsub]. apply andb_true_iff in Hsim as [Hsim Hargs].
      apply andb_true_iff in Hsim as [Hal Hn]. apply name_eqb_eq in Hn. subst.
      rewrite !bad_sel_field. f_equal.
      + revert Hargs. apply all2_existsb. apply Forall_forall. intros [k1 a1] _ [k2 a2] Hk.
        apply andb_true_iff in Hk as [Hk Hv]. apply name_eqb_eq in Hk. subst.
        apply simv_resolve in Hv. rewrite (simc_hs _ _ _ Hv), (simc_leaky _ _ _ Hv). reflexivity.
      + revert Hsub. apply all2_existsb. eapply Forall_impl; [|exact H]. intros x IH y Hxy. apply IH. exact Hxy.
    - reflexivity.
    - cbn [sim_sel] in Hsim. apply andb_true_iff in Hsim as [Hc Hsub].
      apply option_name_eq in Hc. subst. rewrite !bad_sel_inline.
      revert Hsub. apply all2_existsb. eapply Forall_impl; [|exact H]. intros x IH y Hxy. apply IH. exact Hxy.
  Qed.

  Lemma sim_bad_sels v1 v2 cl lost p l1 l2 :
    all2 (sim_sel S v1 v2 p) l1 l2 = true ->
    existsb (bad_sel S v1 cl lost p) l1 = existsb (bad_sel S v2 cl lost p) l2.
  Proof.
    apply all2_existsb. apply Forall_forall. intros x _ y H. apply sim_bad_sel. exact H.
  Qed.

  Lemma sim_bad_doc d1 v1 d2 v2 cl :
    sim_doc S d1 v1 d2 v2 = true -> bad_doc S v1 cl d1 = bad_doc S v2 cl d2.
  Proof.
    unfold sim_doc. intros H. apply andb_true_iff in H as [Hf Ho]. unfold bad_doc. f_equal.
    - revert Hf. apply all2_existsb. apply Forall_forall. intros a _ b Hab.
      unfold sim_frag in Hab. apply andb_true_iff in Hab as [Hab Hs]. apply andb_true_iff in Hab as [Hn Hc].
      apply name_eqb_eq in Hc. rewrite <- Hc. apply sim_bad_sels. exact Hs.
    - revert Ho. apply all2_existsb. apply Forall_forall. intros a _ b Hab.
      unfold sim_op in Hab. apply andb_true_iff in Hab as [Hab Hs]. apply andb_true_iff in Hab as [Hab Hv].
      apply andb_true_iff in Hab as [Hn Ht]. apply optype_eqb_eq in Ht. rewrite <- Ht.
      apply sim_bad_sels. exact Hs.
  Qed.

  Lemma sim_bad_default d1 v1 d2 v2 :
    sim_doc S d1 v1 d2 v2 = true -> bad_default S d1 = bad_default S d2.
  Proof.
    unfold sim_doc. intros H. apply andb_true_iff in H as [_ Ho]. unfold bad_default.
    revert Ho. apply all2_existsb. apply Forall_forall. intros a _ b Hab.
    unfold sim_op in Hab. apply andb_true_iff in Hab as [Hab Hs]. apply andb_true_iff in Hab as [Hab Hv].
    apply andb_true_iff in Hab as [Hn Ht]. apply option_name_eq in Hn. rewrite <- Hn.
    destruct (op_name a); [|reflexivity].
    revert Hv. apply all2_existsb. apply Forall_forall. intros x _ y Hxy.
    unfold sim_vardef in Hxy. apply andb_true_iff in Hxy as [_ Hd]. unfold sim_default in Hd.
    destruct (vd_default x), (vd_default y); try discriminate; [|reflexivity].
    apply andb_true_iff in Hd as [He _]. apply Bool.eqb_prop in He. exact He.
  Qed.

  Theorem sim_known_class d1 v1 d2 v2 :
    sim_doc S d1 v1 d2 v2 = true -> known_class S d1 v1 = known_class S d2 v2.
  Proof.
    intros H. unfold known_class.
    rewrite (sim_bad_doc _ _ _ _ false H), (sim_bad_doc _ _ _ _ true H), (sim_bad_default _ _ _ _ H).
    reflexivity.
  Qed.
End Invariance.

Theorem c21_noninterference_strong nm fl S d1 v1 d2 v2 :
  sim_doc S d1 v1 d2 v2 = true -> known_class S d1 v1 = 0%N ->
  impl_doc nm fl S v1 d1 = impl_doc nm fl S v2 d2.
Proof.
  intros Hs K1. apply c21_noninterference; [exact Hs|exact K1|].
  rewrite <- (sim_known_class S _ _ _ _ Hs). exact K1.
Qed.

(* DLCache.v — C29: model of the DataLoader cache API
   (src/dataloader/mod.rs: load_many run to completion, feed_many, clear,
   clear_one, enable_cache, enable_all_cache, get_cached_values) over the three
   cache storages of src/dataloader/cache.rs (NoCacheImpl, HashMapCacheImpl,
   LruCacheImpl = lru::LruCache), and the reference cache it is compared with:
   one recency-ordered map with an optional capacity.  Executable, no proofs. *)
From AG Require Export Base.
Open Scope N_scope.

(* keys, values and key TYPES (the TypeId an operation is instantiated at)
   travel as numbers; [key] and [tid] are Base's [name] so that the shared
   [assoc]/[mem] apply without any coercion *)
Notation key := name (only parsing).
Notation val := N (only parsing).
Notation tid := name (only parsing).

Inductive kind := KNo | KHash | KLru (cap : nat).

(* the loader's answer to the one call a load may make; the pairs are in the
   iteration order of the returned map (= the order do_load inserts them) *)
Inductive lresp := LOk (vals : list (key * val)) | LErr (code : N).

Inductive op :=
| OLoad (t : tid) (keys : list key) (r : lresp)
| OFeed (t : tid) (kvs : list (key * val))
| OClear (t : tid)
| OClearOne (t : tid) (k : key)
| OEnableAll (b : bool)
| OEnable (t : tid) (b : bool)
| OCached (t : tid).

Inductive lres := ROk (r : list (key * option val)) | RErr (code : N).

(* what a caller observes of one operation *)
Inductive obs :=
| BUnit
| BPanic
| BLoad (called : option (list key)) (r : lres)  (* keys given to the loader (sorted), result at the sorted requested keys *)
| BCached (kvs : list (key * val))               (* sorted by key *)
| BOther (n : N).                                (* harness only: hang, several loader calls, foreign key in the result *)

(* ------------------------------------------------------------ utilities -- *)
Fixpoint remove_key (k : key) (l : list (key * val)) : list (key * val) :=
  match l with
  | [] => []
  | (k', v) :: l' => if N.eqb k k' then remove_key k l' else (k', v) :: remove_key k l'
  end.

(* sorted insertion without duplicates; canon = the set as a sorted list *)
Fixpoint ins (k : key) (l : list key) : list key :=
  match l with
  | [] => [k]
  | x :: l' => if N.ltb k x then k :: l else if N.eqb k x then l else x :: ins k l'
  end.
Definition canon (l : list key) : list key := fold_right ins [] l.

Definition canon_kv (l : list (key * val)) : list (key * val) :=
  flat_map (fun k => match assoc k l with Some v => [(k, v)] | None => [] end) (canon (map fst l)).

Definition upd {A} (f : tid -> A) (t : tid) (a : A) : tid -> A :=
  fun t' => if N.eqb t' t then a else f t'.

(* ------------------------------------------------------- impl: storages -- *)
Inductive icache :=
| INo
| IHash (l : list (key * val))               (* std HashMap: order carries no meaning *)
| ILru (cap : nat) (l : list (key * val)).   (* lru::LruCache: most recently used first *)

(* HashMap::insert: replace in place, else add *)
Fixpoint hm_insert (k : key) (v : val) (l : list (key * val)) : list (key * val) :=
  match l with
  | [] => [(k, v)]
  | (k', v') :: l' => if N.eqb k k' then (k, v) :: l' else (k', v') :: hm_insert k v l'
  end.

(* lru::LruCache::put (capturing_put / replace_or_create_node): an existing
   key is updated and moved to the front; a new key reuses the node of the
   least recently used entry when len = cap, else gets a new node *)
Definition lru_put (cap : nat) (k : key) (v : val) (l : list (key * val)) : list (key * val) :=
  match assoc k l with
  | Some _ => (k, v) :: remove_key k l
  | None => if Nat.eqb (length l) cap then (k, v) :: removelast l else (k, v) :: l
  end.

(* lru::LruCache::get: detach + attach at the front *)
Definition lru_get (k : key) (l : list (key * val)) : option val * list (key * val) :=
  match assoc k l with
  | Some v => (Some v, (k, v) :: remove_key k l)
  | None => (None, l)
  end.

(* CacheFactory::create; LruCache: NonZeroUsize::new(cap).unwrap() *)
Definition ic_create (kd : kind) : outcome icache :=
  match kd with
  | KNo => Ok INo
  | KHash => Ok (IHash [])
  | KLru O => Panic
  | KLru c => Ok (ILru c [])
  end.

Definition ic_get (k : key) (c : icache) : option val * icache :=
  match c with
  | INo => (None, INo)
  | IHash l => (assoc k l, IHash l)
  | ILru cap l => let (r, l') := lru_get k l in (r, ILru cap l')
  end.

Definition ic_insert (k : key) (v : val) (c : icache) : icache :=
  match c with
  | INo => INo
  | IHash l => IHash (hm_insert k v l)
  | ILru cap l => ILru cap (lru_put cap k v l)
  end.

Definition ic_remove (k : key) (c : icache) : icache :=
  match c with
  | INo => INo
  | IHash l => IHash (remove_key k l)
  | ILru cap l => ILru cap (remove_key k l)
  end.

Definition ic_clear (c : icache) : icache :=
  match c with
  | INo => INo
  | IHash _ => IHash []
  | ILru cap _ => ILru cap []
  end.

Definition ic_iter (c : icache) : list (key * val) :=
  match c with
  | INo => []
  | IHash l => l
  | ILru _ l => l
  end.

Definition ic_insert_all (vals : list (key * val)) (c : icache) : icache :=
  fold_left (fun c kv => ic_insert (fst kv) (snd kv) c) vals c.

(* ------------------------------------------------------ impl: DataLoader -- *)
(* Requests<K,T> between two operations: keys and pending are empty (every
   operation runs to completion), so only the storage and the flag remain. *)
Record entry := { e_cache : icache; e_dis : bool }.

(* DataLoaderInner.requests : TypeId -> Box<Requests>, DataLoader.disable_cache *)
Record istate := { i_ent : tid -> option entry; i_alldis : bool }.

Definition i_init : istate := {| i_ent := fun _ => None; i_alldis := false |}.

(* entry_async(tid).or_insert_with(|| Requests::new(&cache_factory)) *)
Definition get_or_create (kd : kind) (st : istate) (t : tid) : outcome entry :=
  match i_ent st t with
  | Some e => Ok e
  | None => bindo (ic_create kd) (fun c => Ok {| e_cache := c; e_dis := false |})
  end.

Definition with_entry (kd : kind) (st : istate) (t : tid) (f : entry -> entry * obs) : istate * obs :=
  match get_or_create kd st t with
  | Ok e => let (e', o) := f e in
            ({| i_ent := upd (i_ent st) t (Some e'); i_alldis := i_alldis st |}, o)
  | _ => (st, BPanic)
  end.

(* load_many, cache enabled: `for key in keys { match cache_storage.get(&key) .. }`;
   use_cache_values is a map (latest insert found first), keys_set a set *)
Fixpoint scan (keys : list key) (c : icache) (use : list (key * val)) (need : list key)
  : icache * list (key * val) * list key :=
  match keys with
  | [] => (c, use, need)
  | k :: ks =>
      match ic_get k c with
      | (Some v, c') => scan ks c' ((k, v) :: use) need
      | (None, c') => scan ks c' use (need ++ [k])
      end
  end.

(* load_many + the spawned task (immediate load or timer, take) + do_load *)
Definition iload (alldis : bool) (e : entry) (keys : list key) (r : lresp) : entry * obs :=
  let dis := e_dis e || alldis in
  let '(c1, use, need) := if dis then (e_cache e, [], keys) else scan keys (e_cache e) [] [] in
  let mk c := {| e_cache := c; e_dis := e_dis e |} in
  match need with
  | [] => (mk c1, BLoad None (ROk (map (fun k => (k, assoc k use)) (canon keys))))
  | _ =>
      match r with
      | LErr code => (mk c1, BLoad (Some (canon need)) (RErr code))
      | LOk vals =>
          let c2 := if dis then c1 else ic_insert_all vals c1 in
          (mk c2,
           BLoad (Some (canon need))
                 (ROk (map (fun k => (k, match (if mem k need then assoc k vals else None) with
                                         | Some v => Some v
                                         | None => assoc k use
                                         end)) (canon keys))))
      end
  end.

(* q = true: today's enable_cache (`get_async(&tid).await.unwrap()`);
   q = false: enable_cache creating the entry like every other operation *)
Definition istep (q : bool) (kd : kind) (st : istate) (o : op) : istate * obs :=
  match o with
  | OLoad t keys r => with_entry kd st t (fun e => iload (i_alldis st) e keys r)
  | OFeed t kvs =>
      with_entry kd st t (fun e => ({| e_cache := ic_insert_all kvs (e_cache e); e_dis := e_dis e |}, BUnit))
  | OClear t =>
      with_entry kd st t (fun e => ({| e_cache := ic_clear (e_cache e); e_dis := e_dis e |}, BUnit))
  | OClearOne t k =>
      with_entry kd st t (fun e => ({| e_cache := ic_remove k (e_cache e); e_dis := e_dis e |}, BUnit))
  | OEnableAll b => ({| i_ent := i_ent st; i_alldis := negb b |}, BUnit)
  | OEnable t b =>
      match i_ent st t with
      | Some e => ({| i_ent := upd (i_ent st) t (Some {| e_cache := e_cache e; e_dis := negb b |});
                      i_alldis := i_alldis st |}, BUnit)
      | None =>
          if q then (st, BPanic)
          else with_entry kd st t (fun e => ({| e_cache := e_cache e; e_dis := negb b |}, BUnit))
      end
  | OCached t =>
      (st, match i_ent st t with
           | None => BCached []
           | Some e => BCached (canon_kv (ic_iter (e_cache e)))
           end)
  end.

Fixpoint irun (q : bool) (kd : kind) (st : istate) (ops : list op) : list obs :=
  match ops with
  | [] => []
  | o :: r => let (st', b) := istep q kd st o in b :: irun q kd st' r
  end.

Definition run_impl (q : bool) (kd : kind) (ops : list op) : list obs := irun q kd i_init ops.

(* ----------------------------------------------------------------- spec -- *)
(* The documented cache: one map kept in recency order (most recent first)
   that holds at most [cap] entries.  NoCache holds nothing (capacity 0),
   HashMapCache is unbounded, LruCache c holds c.  A key type that was never
   used has an empty, enabled cache; nothing panics. *)
Definition cap_of (kd : kind) : option nat :=
  match kd with KNo => Some O | KHash => None | KLru c => Some c end.

Definition trim (cap : option nat) (l : list (key * val)) : list (key * val) :=
  match cap with Some c => firstn c l | None => l end.

Definition s_put (cap : option nat) (k : key) (v : val) (l : list (key * val)) : list (key * val) :=
  trim cap ((k, v) :: remove_key k l).

Definition s_touch (k : key) (l : list (key * val)) : list (key * val) :=
  match assoc k l with Some v => (k, v) :: remove_key k l | None => l end.

Definition s_put_all (cap : option nat) (vals : list (key * val)) (l : list (key * val)) :=
  fold_left (fun l kv => s_put cap (fst kv) (snd kv) l) vals l.

Definition holds (l : list (key * val)) (k : key) : bool :=
  match assoc k l with Some _ => true | None => false end.

Record sstate := { s_cache : tid -> list (key * val); s_en : tid -> bool; s_all : bool }.

Definition s_init : sstate := {| s_cache := fun _ => []; s_en := fun _ => true; s_all := true |}.

Definition sstep (kd : kind) (sp : sstate) (o : op) : sstate * obs :=
  let cap := cap_of kd in
  let set t l := {| s_cache := upd (s_cache sp) t l; s_en := s_en sp; s_all := s_all sp |} in
  match o with
  | OLoad t keys r =>
      let en := s_all sp && s_en sp t in
      let l0 := s_cache sp t in
      let hit k := en && holds l0 k in
      let need := filter (fun k => negb (hit k)) keys in
      (* every hit counts as a use of the entry, in request order *)
      let l1 := fold_left (fun l k => s_touch k l) (filter hit keys) l0 in
      match need with
      | [] => (set t l1, BLoad None (ROk (map (fun k => (k, assoc k l0)) (canon keys))))
      | _ =>
          match r with
          | LErr code => (set t l1, BLoad (Some (canon need)) (RErr code))
          | LOk vals =>
              (set t (if en then s_put_all cap vals l1 else l1),
               BLoad (Some (canon need))
                     (ROk (map (fun k => (k, if hit k then assoc k l0 else assoc k vals)) (canon keys))))
          end
      end
  | OFeed t kvs => (set t (s_put_all cap kvs (s_cache sp t)), BUnit)
  | OClear t => (set t [], BUnit)
  | OClearOne t k => (set t (remove_key k (s_cache sp t)), BUnit)
  | OEnableAll b => ({| s_cache := s_cache sp; s_en := s_en sp; s_all := b |}, BUnit)
  | OEnable t b => ({| s_cache := s_cache sp; s_en := upd (s_en sp) t b; s_all := s_all sp |}, BUnit)
  | OCached t => (sp, BCached (canon_kv (s_cache sp t)))
  end.

Fixpoint srun (kd : kind) (sp : sstate) (ops : list op) : list obs :=
  match ops with
  | [] => []
  | o :: r => let (sp', b) := sstep kd sp o in b :: srun kd sp' r
  end.

Definition run_spec (kd : kind) (ops : list op) : list obs := srun kd s_init ops.

(* configurations the property speaks about: LruCache of capacity >= 1 *)
Definition wf_kind (kd : kind) : bool :=
  match kd with KLru O => false | _ => true end.

(* known class 1: enable_cache::<K> on a key type no earlier operation
   (load, feed, clear, clear_one) was instantiated at *)
Definition uses (o : op) : option tid :=
  match o with
  | OLoad t _ _ | OFeed t _ | OClear t | OClearOne t _ => Some t
  | _ => None
  end.

Fixpoint kc_from (used : list tid) (ops : list op) : bool :=
  match ops with
  | [] => false
  | o :: r =>
      match o with
      | OEnable t _ => if mem t used then kc_from used r else true
      | _ => kc_from (match uses o with Some t => t :: used | None => used end) r
      end
  end.

Definition known_class (ops : list op) : bool := kc_from [] ops.

(* ------------------------------------------------------------- verdicts -- *)
Definition oeqb {A} (f : A -> A -> bool) := option_eqb f.
Definition kv_eqb (a b : key * val) : bool := N.eqb (fst a) (fst b) && N.eqb (snd a) (snd b).
Definition kov_eqb (a b : key * option val) : bool := N.eqb (fst a) (fst b) && oeqb N.eqb (snd a) (snd b).

Definition lres_eqb (a b : lres) : bool :=
  match a, b with
  | ROk x, ROk y => list_eqb kov_eqb x y
  | RErr x, RErr y => N.eqb x y
  | _, _ => false
  end.

Definition obs_eqb (a b : obs) : bool :=
  match a, b with
  | BUnit, BUnit => true
  | BPanic, BPanic => true
  | BLoad c r, BLoad c' r' => oeqb (list_eqb N.eqb) c c' && lres_eqb r r'
  | BCached x, BCached y => list_eqb kv_eqb x y
  | BOther x, BOther y => N.eqb x y
  | _, _ => false
  end.

Definition is_panic (b : obs) : bool := match b with BPanic => true | _ => false end.

(* One history: the operations with what the real loader answered.  The
   model's flag is read off the run: today's code panics somewhere inside the
   known class, corrected code never does. *)
Definition check_case (c : kind * list (op * obs)) : N :=
  let (kd, l) := c in
  let ops := map fst l in
  let impl := map snd l in
  let q := existsb is_panic impl in
  let m := run_impl q kd ops in
  let s := run_spec kd ops in
  verdict (list_eqb obs_eqb impl m) (list_eqb obs_eqb m s) (list_eqb obs_eqb impl s)
          (if q && known_class ops then 1 else 0).

(* LruCache::new(0): outside the property; only model = code is checked *)
Definition check_cfg (c : kind * list (op * obs)) : N :=
  let (kd, l) := c in
  if list_eqb obs_eqb (map snd l) (run_impl true kd (map fst l)) then 0 else 3.

(* LimitsCheck.v — C10/C11: whole-request decision model (order of the
   pre-execution checks), reference decision, cost model, per-case verdicts. *)
From AG Require Export Limits.
Open Scope N_scope.

(* number of selection visits of a spread-free document (__typename is a leaf
   for the visitor even if it carries a selection set) *)
Fixpoint pvisits (s : selection) : N :=
  match s with
  | SField _ nm _ _ sub =>
      if is_typename nm then 1 else 1 + fold_right (fun x acc => pvisits x + acc) 0 sub
  | SSpread _ _ => 1
  | SInline _ _ sub => 1 + fold_right (fun x acc => pvisits x + acc) 0 sub
  end.
Definition pvisits_list (l : list selection) : N :=
  fold_right (fun x acc => pvisits x + acc) 0 l.

Record limits := {
  l_rec : N;               (* SchemaBuilder::limit_recursive_depth (default 32) *)
  l_dirs : option N;       (* limit_directives *)
  l_cx : option N;         (* limit_complexity *)
  l_depth : option N }.    (* limit_depth *)

(* decisions, as numbers so that they can be compared with the harness' *)
Definition D_ACCEPT : N := 0.
Definition D_NEST : N := 1.     (* "The recursion depth of the query cannot be greater than" *)
Definition D_DIRS : N := 2.     (* "The number of directives on the field" *)
Definition D_CX : N := 3.       (* "Query is too complex." *)
Definition D_DEPTH : N := 4.    (* "Query is nested too deep." *)
Definition D_OTHER : N := 5.    (* any other pre-execution error *)

Definition exceeds (lim : option N) (v : N) : bool :=
  match lim with Some l => l <? v | None => false end.

Section Request.
  Variable Sch : schema.
  Variable d : document.
  Variable vars : list (name * value).
  Variable n : nat.
  Let frags := doc_frags d.

  (* fold an outcome-valued measure over the operations *)
  Fixpoint over_ops {A} (f : operation -> outcome A) (comb : A -> A -> A) (z : A)
           (ops : list operation) : outcome A :=
    match ops with
    | [] => Ok z
    | o :: r => bindo (f o) (fun a => bindo (over_ops f comb z r) (fun b => Ok (comb a b)))
    end.

  Definition has_root (o : operation) : bool :=
    match root_of Sch (op_ty o) with Some _ => true | None => false end.

  (* ---- implementation measures ---- *)
  Definition i_depth : outcome N :=
    over_ops (fun o => if has_root o then depth_list frags n (op_sels o) else Ok 0) N.max 0 (doc_ops d).
  Definition i_cx (push : bool) : outcome (N * bool) :=
    over_ops (fun o => match root_of Sch (op_ty o) with
                       | Some r => cx_list frags Sch vars (op_vars o) push n (Some r) (op_sels o)
                       | None => Ok (0, true)   (* "Schema is not configured for ..." *)
                       end)
             (fun a b => (fst a + fst b, snd a || snd b)) (0, false) (doc_ops d).
  Definition i_nest : outcome N :=
    over_ops (fun o => nest_list frags n (op_sels o)) N.max 0 (doc_ops d).
  Definition i_dirs : outcome N :=
    over_ops (fun o => dirs_list frags n (op_sels o)) N.max 0 (doc_ops d).
  (* the walkers stop at the first failing operation *)
  Fixpoint walk_ops (f : list selection -> outcome (N * bool)) (ops : list operation) : outcome (N * bool) :=
    match ops with
    | [] => Ok (0, false)
    | o :: r => bindo (f (op_sels o)) (fun a =>
                if snd a then Ok a
                else bindo (walk_ops f r) (fun b => Ok (fst a + fst b, snd b)))
    end.
  Definition i_rec (lim : limits) : outcome (N * bool) :=
    walk_ops (rec_list frags n (l_rec lim) 0) (doc_ops d).
  Definition i_dirwalk (lim : limits) : outcome (N * bool) :=
    match l_dirs lim with
    | Some l => walk_ops (dir_list frags n l) (doc_ops d)
    | None => Ok (0, false)
    end.
  (* validation visits: strict = one Normal-mode pass over every fragment
     definition and operation + one Inline-mode pass over the operations;
     fast = the Inline-mode pass only *)
  Definition normal_pass : N :=
    fold_right (fun fr acc => pvisits_list (fr_sels (snd fr)) + acc) 0 frags +
    fold_right (fun o acc => (if has_root o then pvisits_list (op_sels o) else 0) + acc) 0 (doc_ops d).
  Definition inline_pass : outcome N :=
    over_ops (fun o => if has_root o then visits_list frags n (op_sels o) else Ok 0) N.add 0 (doc_ops d).

  (* prepare_request + check_rules: recursion depth, directives, then
     validation; complexity limit, depth limit, then rule errors *)
  Definition impl_decision (lim : limits) : outcome N :=
    bindo (i_rec lim) (fun r =>
    if snd r then Ok D_NEST else
    bindo (i_dirwalk lim) (fun dw =>
    if snd dw then Ok D_DIRS else
    bindo (i_cx false) (fun c =>
    bindo i_depth (fun dp =>
    if exceeds (l_cx lim) (fst c) then Ok D_CX
    else if exceeds (l_depth lim) dp then Ok D_DEPTH
    else if snd c then Ok D_OTHER
    else Ok D_ACCEPT)))).

  (* ---- reference: plain measures of the inlined document ---- *)
  Definition inlined : outcome (list (list selection)) :=
    over_ops (fun o => bindo (inline_list frags n (op_sels o)) (fun l => Ok [l]))
             (@app _) [] (doc_ops d).

  Definition ref_nest (ls : list (list selection)) : N :=
    fold_right (fun l acc => N.max (pnest_list l) acc) 0 ls.
  Definition ref_dirs (ls : list (list selection)) : N :=
    fold_right (fun l acc => N.max (pdirs_list l) acc) 0 ls.
  Definition ref_depth : outcome N :=
    over_ops (fun o => if has_root o then
                         bindo (inline_list frags n (op_sels o)) (fun l => Ok (pdepth_list l))
                       else Ok 0) N.max 0 (doc_ops d).

  (* rejected by a limit exactly when a reference measure exceeds it *)
  Definition spec_limit_reject (lim : limits) : outcome bool :=
    bindo inlined (fun ls =>
    bindo (i_cx true) (fun c =>
    bindo ref_depth (fun dp =>
    Ok ((l_rec lim <? ref_nest ls) || exceeds (l_dirs lim) (ref_dirs ls) ||
        exceeds (l_cx lim) (fst c) || exceeds (l_depth lim) dp)))).

  Definition is_limit_reject (dec : N) : bool :=
    (dec =? D_NEST) || (dec =? D_DIRS) || (dec =? D_CX) || (dec =? D_DEPTH).

  (* known class (C10): some spread's fragment has a type condition that is
     not the enclosing type, so custom complexity rules are looked up on the
     wrong type *)
  Definition spreads_match : bool :=
    forallb (fun o => match root_of Sch (op_ty o) with
                      | Some r => sm_list frags Sch n (Some r) (op_sels o)
                      | None => true
                      end) (doc_ops d).
End Request.

(* What the harness observed for one request. *)
Record obs := {
  o_decision : N;            (* D_* *)
  o_resolvers : N;           (* resolver invocations *)
  o_analyzer : option (N * N);   (* (complexity, depth) from the Analyzer extension *)
  o_visits : N * N * N }.    (* validation, recursion walker, directive walker *)

Definition opt_nn_eqb (a b : option (N * N)) : bool :=
  match a, b with
  | Some (x1, y1), Some (x2, y2) => (x1 =? x2) && (y1 =? y2)
  | None, None => true
  | _, _ => false
  end.

(* C10 verdict.  An "other" error observed (validation rules we do not model)
   is compatible with a model decision of accept/other. *)
Definition check_c10 (Sch : schema) (d : document) (vars : list (name * value))
           (lim : limits) (n : nat) (o : obs) : N :=
  match impl_decision Sch d vars n lim, spec_limit_reject Sch d vars n lim,
        i_cx Sch d vars n false, i_depth Sch d n with
  | Ok m, Ok sr, Ok c, Ok dp =>
      let dec_ok (x : N) := Bool.eqb (is_limit_reject x) sr in
      let same_dec := (o_decision o =? m) ||
                      ((o_decision o =? D_OTHER) && (m =? D_ACCEPT)) in
      let no_resolver := negb (is_limit_reject (o_decision o)) || (o_resolvers o =? 0) in
      let analyzer_ok := match o_analyzer o with
                         | Some (ac, ad) => (ac =? fst c) && (ad =? dp)
                         | None => true
                         end in
      verdict (same_dec && analyzer_ok && no_resolver) (dec_ok m)
              (dec_ok (o_decision o) && no_resolver)
              (if spreads_match Sch d n then 0 else 1)
  | _, _, _, _ => 9   (* out of fuel: reported as an unexpected code *)
  end.

(* C11 cost model.  size = selections written in the document. *)
Definition doc_size (d : document) : N :=
  fold_right (fun fr acc => psize_list (fr_sels (snd fr)) + acc) 0 (doc_frags d) +
  fold_right (fun o acc => psize_list (op_sels o) + acc) 0 (doc_ops d).

Definition work_bound (size : N) : N := 4 * (size + 1) * (size + 1).

Definition model_visits (Sch : schema) (d : document) (n : nat) (lim : limits) (fast : bool)
  : outcome (N * N * N) :=
  bindo (i_rec d n lim) (fun r =>
  if snd r then Ok (0, fst r, 0) else
  bindo (i_dirwalk d n lim) (fun dw =>
  if snd dw then Ok (0, fst r, fst dw) else
  bindo (inline_pass Sch d n) (fun ip =>
  Ok ((if fast then ip else normal_pass Sch d + ip), fst r, fst dw)))).

(* [exact] = false when the walkers stopped early in a document with several
   operations (their iteration order over the operations is a hash order) *)
Definition check_c11 (Sch : schema) (d : document) (n : nat) (lim : limits) (fast : bool)
           (o : obs) : N :=
  match model_visits Sch d n lim fast with
  | Ok (mv, mr, md) =>
      let '(ov, orr, od) := o_visits o in
      let multi := match doc_ops d with _ :: _ :: _ => true | _ => false end in
      let stopped := (o_decision o =? D_NEST) || (o_decision o =? D_DIRS) in
      let same := if multi && stopped then true
                  else (ov =? mv) && (orr =? mr) && (od =? md) in
      let within (a b c : N) := a + b + c <=? work_bound (doc_size d) in
      verdict same (within mv mr md) (within ov orr od)
              1 (* the only way past the bound in the model is fragment fan-out *)
  | _ => 9
  end.

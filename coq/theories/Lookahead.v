(* Lookahead.v — C22: model of the look-ahead / selection-field views that a
   resolver is given, of the pruning that precedes execution, and of the set of
   sub-fields the executor resolves beneath a field.  Executable definitions
   only (no proofs); the proofs are in LookaheadProofs.v.

   Modelled code (async-graphql):
     src/schema.rs      remove_skipped_selection / is_skipped, the two calls in
                        prepare_request (fragments, then the chosen operation)
     src/look_ahead.rs  filter, Lookahead::field / exists / selection_fields
     src/context.rs     var_value, resolve_input_value_inner, get_param_value
                        (up to InputType::parse), SelectionField::{name, alias,
                        arguments, directives, selection_set}, SelectionFieldsIter
     src/resolver_utils/container.rs   Fields::add_set (which selections become
                        field futures for a root of static type T and runtime
                        type O), collect_all_fields of derived interfaces/unions *)
From AG Require Export Base Doc.

Definition is_typename (n : name) : bool := name_eqb n N_typename.

Definition o2opt {A} (o : outcome A) : option A :=
  match o with Ok a => Some a | _ => None end.

(* A field node of the (pruned) document: what `&'a Field` points to. *)
Record fieldn := mkF {
  f_alias : option name;
  f_name : name;
  f_args : list (name * value);
  f_dirs : list directive;
  f_sels : list selection }.

Definition E_UNDEF_VAR : N := 1.       (* "Variable x is not defined." *)
Definition E_UNKNOWN_FRAGMENT : N := 2. (* "Unknown fragment" in add_set *)

(* ------------------------------------------------- resolve_input_value ---- *)
Section RIV.
  Variable vars : list (name * value).   (* request variables, as sent *)
  Variable vdefs : list vardef.          (* variable definitions of the operation *)

  Fixpoint find_vdef (n : name) (l : list vardef) : option vardef :=
    match l with
    | [] => None
    | d :: l' => if name_eqb n (vd_name d) then Some d else find_vdef n l'
    end.

  (* ContextBase::var_value: the variable must be declared; the request value
     wins over the declared default; an omitted variable stays None. *)
  Definition var_value (n : name) : outcome (option value) :=
    match find_vdef n vdefs with
    | None => Err E_UNDEF_VAR
    | Some d => Ok (match assoc (vd_name d) vars with
                    | Some v => Some v
                    | None => vd_default d
                    end)
    end.

  Definition or_null (o : option value) : value :=
    match o with Some v => v | None => VNull end.

  (* ContextBase::resolve_input_value_inner *)
  Fixpoint riv (v : value) : outcome (option value) :=
    match v with
    | VVar n => var_value n
    | VList l =>
        bindo ((fix go (l : list value) : outcome (list value) :=
                  match l with
                  | [] => Ok []
                  | x :: l' => bindo (riv x) (fun ox =>
                               bindo (go l') (fun r => Ok (or_null ox :: r)))
                  end) l)
              (fun r => Ok (Some (VList r)))
    | VObj l =>
        bindo ((fix go (l : list (name * value)) : outcome (list (name * value)) :=
                  match l with
                  | [] => Ok []
                  | (k, x) :: l' => bindo (riv x) (fun ox =>
                                    bindo (go l') (fun r =>
                                    Ok (match ox with Some y => (k, y) :: r | None => r end)))
                  end) l)
              (fun r => Ok (Some (VObj r)))
    | _ => Ok (Some v)
    end.

  (* SelectionField::arguments — omitted variables drop the argument *)
  Fixpoint view_args (args : list (name * value)) : outcome (list (name * value)) :=
    match args with
    | [] => Ok []
    | (n, v) :: r => bindo (riv v) (fun ov =>
                     bindo (view_args r) (fun l =>
                     Ok (match ov with Some x => (n, x) :: l | None => l end)))
    end.

  (* SelectionField::directives *)
  Fixpoint view_dirs (ds : list directive) : outcome (list (name * list (name * value))) :=
    match ds with
    | [] => Ok []
    | d :: r => bindo (view_args (d_args d)) (fun a =>
                bindo (view_dirs r) (fun l => Ok ((d_name d, a) :: l)))
    end.

  (* ContextBase::get_param_value up to InputType::parse: the first argument
     with that name, resolved; None when absent or an omitted variable. *)
  Definition param_raw (n : name) (args : list (name * value)) : outcome (option value) :=
    match assoc n args with
    | Some v => riv v
    | None => Ok None
    end.
End RIV.

(* ------------------------------------------- remove_skipped_selection ---- *)
Section Prune.
  Variable vars : list (name * value).

  (* into_const_with(variables.get).unwrap_or_default() then bool::parse
     .unwrap_or_default(): only a Boolean counts, everything else is false;
     a variable is looked up in the REQUEST variables only. *)
  Definition cond_value (v : value) : bool :=
    match v with
    | VBool b => b
    | VVar n => match assoc n vars with Some (VBool b) => b | _ => false end
    | _ => false
    end.

  Fixpoint is_skipped (dirs : list directive) : bool :=
    match dirs with
    | [] => false
    | d :: r =>
        if name_eqb (d_name d) N_skip then
          match assoc N_if (d_args d) with
          | Some c => if cond_value c then true else is_skipped r
          | None => is_skipped r
          end
        else if name_eqb (d_name d) N_include then
          match assoc N_if (d_args d) with
          | Some c => if cond_value c then is_skipped r else true
          | None => is_skipped r
          end
        else is_skipped r
    end.

  Definition sel_dirs (s : selection) : list directive :=
    match s with
    | SField _ _ _ d _ => d
    | SSpread _ d => d
    | SInline _ d _ => d
    end.

  Definition keep_dir (d : directive) : bool :=
    negb (name_eqb (d_name d) N_skip || name_eqb (d_name d) N_include).
  Definition strip (dirs : list directive) : list directive := filter keep_dir dirs.

  Definition unskipped (l : list selection) : list selection :=
    filter (fun s => negb (is_skipped (sel_dirs s))) l.

  (* remove_skipped_selection on one selection set: retain the unskipped
     selections, strip their skip/include directives, recurse into fields and
     inline fragments (named fragments are pruned at their definition). *)
  Fixpoint prune_sel (s : selection) : selection :=
    match s with
    | SField a nm args d sub =>
        SField a nm args (strip d)
          ((fix pl (l : list selection) : list selection :=
              match l with
              | [] => []
              | x :: r => if is_skipped (sel_dirs x) then pl r else prune_sel x :: pl r
              end) sub)
    | SSpread nm d => SSpread nm (strip d)
    | SInline c d sub =>
        SInline c (strip d)
          ((fix pl (l : list selection) : list selection :=
              match l with
              | [] => []
              | x :: r => if is_skipped (sel_dirs x) then pl r else prune_sel x :: pl r
              end) sub)
    end.

  Fixpoint prune_list (l : list selection) : list selection :=
    match l with
    | [] => []
    | x :: r => if is_skipped (sel_dirs x) then prune_list r else prune_sel x :: prune_list r
    end.

  Definition prune_frag (fr : fragment) : fragment :=
    {| fr_cond := fr_cond fr; fr_dirs := fr_dirs fr; fr_sels := prune_list (fr_sels fr) |}.

  Definition prune_frags (frags : list (name * fragment)) : list (name * fragment) :=
    map (fun p => (fst p, prune_frag (snd p))) frags.

  Definition prune_field (f : fieldn) : fieldn :=
    mkF (f_alias f) (f_name f) (f_args f) (strip (f_dirs f)) (prune_list (f_sels f)).
End Prune.

(* ------------------------------------------- add_set type conditions ---- *)
Definition implements (impls : list (name * list name)) (o c : name) : bool :=
  match assoc o impls with Some l => mem c l | None => false end.

(* root has static type st and runtime type rt.  [None] = no type condition. *)
Definition applies_concrete (impls : list (name * list name)) (rt : name) (cond : option name) : bool :=
  match cond with
  | Some c => name_eqb rt c || implements impls rt c
  | None => false
  end.
Definition applies_static (st : name) (cond : option name) : bool :=
  match cond with
  | Some c => name_eqb st c
  | None => true
  end.

(* Fields::add_set as written: the condition names the runtime object type or
   an interface it implements (registry.implements) -> collect_all_fields on
   the concrete object (static type becomes rt); otherwise no condition, or
   the condition names the static type -> same root; otherwise dropped (a
   union condition met on a concrete object root is dropped: property C01). *)
Definition cond_today (impls : list (name * list name)) (st rt : name) (c : option name) : option name :=
  if applies_concrete impls rt c then Some rt
  else if applies_static st c then Some st
  else None.

(* the GraphQL rule (DoesFragmentTypeApply): the runtime type is the condition,
   implements it, or is a member of the union it names.  Accepted by the check
   as well, so that correcting the C01 deviation is not reported here. *)
Definition cond_spec (impls unions : list (name * list name)) (st rt : name) (c : option name) : option name :=
  match c with
  | None => Some st
  | Some c' =>
      if name_eqb rt c' || implements impls rt c' ||
         match assoc c' unions with Some l => mem rt l | None => false end
      then Some rt else None
  end.

(* --------------------------------------------------------------- views ---- *)
Section Views.
  Variable frags : list (name * fragment).

  (* SelectionFieldsIter: the fields of a selection set in document order,
     descending into inline fragments and (known) named fragments; type
     conditions and directives are not looked at. *)
  Fixpoint flat_sel (n : nat) (s : selection) {struct n} : outcome (list fieldn) :=
    match n with
    | O => OutOfFuel
    | S n' =>
      match s with
      | SField a nm args d sub => Ok [mkF a nm args d sub]
      | SSpread nm _ =>
          match assoc nm frags with
          | Some fr => flat_list n' (fr_sels fr)
          | None => Ok []
          end
      | SInline _ _ sub => flat_list n' sub
      end
    end
  with flat_list (n : nat) (l : list selection) {struct n} : outcome (list fieldn) :=
    match l with
    | [] => Ok []
    | x :: r =>
      match n with
      | O => OutOfFuel
      | S n' => bindo (flat_sel n' x) (fun a => bindo (flat_list n' r) (fun b => Ok (a ++ b)))
      end
    end.

  (* look_ahead.rs filter *)
  Fixpoint filter_sel (n : nat) (nm : name) (s : selection) {struct n} : outcome (list fieldn) :=
    match n with
    | O => OutOfFuel
    | S n' =>
      match s with
      | SField a fnm args d sub => Ok (if name_eqb fnm nm then [mkF a fnm args d sub] else [])
      | SSpread fr_nm _ =>
          match assoc fr_nm frags with
          | Some fr => filter_list n' nm (fr_sels fr)
          | None => Ok []
          end
      | SInline _ _ sub => filter_list n' nm sub
      end
    end
  with filter_list (n : nat) (nm : name) (l : list selection) {struct n} : outcome (list fieldn) :=
    match l with
    | [] => Ok []
    | x :: r =>
      match n with
      | O => OutOfFuel
      | S n' => bindo (filter_sel n' nm x) (fun a => bindo (filter_list n' nm r) (fun b => Ok (a ++ b)))
      end
    end.

  (* Lookahead::field on a look-ahead that covers [fields] *)
  Fixpoint la_field (n : nat) (nm : name) (fields : list fieldn) : outcome (list fieldn) :=
    match fields with
    | [] => Ok []
    | f :: r => bindo (filter_list n nm (f_sels f)) (fun a =>
                bindo (la_field n nm r) (fun b => Ok (a ++ b)))
    end.

  (* ctx.look_ahead().field(n1).field(n2)... *)
  Fixpoint la_chain (n : nat) (chain : list name) (fields : list fieldn) : outcome (list fieldn) :=
    match chain with
    | [] => Ok fields
    | nm :: r => bindo (la_field n nm fields) (la_chain n r)
    end.

  (* Lookahead::exists *)
  Definition la_exists (fields : list fieldn) : bool :=
    match fields with [] => false | _ => true end.

  (* ---- Fields::add_set: which fields become futures -------------------- *)
  (* [cond st rt c]: for a root of static type st (T::type_name()) and runtime
     type rt (introspection_type_name()), is a fragment with type condition c
     followed, and with which static type.  The theorems hold for EVERY such
     function; the two instances used by the check are below. *)
  Variable cond : name -> name -> option name -> option name.

  Fixpoint collect_sel (n : nat) (st rt : name) (s : selection) {struct n} : outcome (list fieldn) :=
    match n with
    | O => OutOfFuel
    | S n' =>
      match s with
      | SField a nm args d sub => Ok [mkF a nm args d sub]
      | SSpread nm _ =>
          match assoc nm frags with
          | None => Err E_UNKNOWN_FRAGMENT
          | Some fr =>
              match cond st rt (Some (fr_cond fr)) with
              | Some st' => collect_list n' st' rt (fr_sels fr)
              | None => Ok []
              end
          end
      | SInline c _ sub =>
          match cond st rt c with
          | Some st' => collect_list n' st' rt sub
          | None => Ok []
          end
      end
    end
  with collect_list (n : nat) (st rt : name) (l : list selection) {struct n} : outcome (list fieldn) :=
    match l with
    | [] => Ok []
    | x :: r =>
      match n with
      | O => OutOfFuel
      | S n' => bindo (collect_sel n' st rt x) (fun a => bindo (collect_list n' st rt r) (fun b => Ok (a ++ b)))
      end
    end.

  (* `__typename` is answered by add_set itself; every other collected field
     is handed to resolve_field, i.e. to a resolver. *)
  Definition resolvable (fs : list fieldn) : list fieldn :=
    filter (fun f => negb (is_typename (f_name f))) fs.
End Views.

(* -------------------------------------------- specification (original) ---- *)
(* Written on the ORIGINAL document: the fields of a selection set that are
   reachable through selections whose own @skip/@include directives do not
   remove them, following fragments.  Directive conditions are evaluated the
   way the implementation evaluates them (request variables only): the views
   are specified relative to the implementation's own pruning. *)
Section Spec.
  Variable vars : list (name * value).
  Variable frags : list (name * fragment).   (* original fragments *)

  Fixpoint sflat_sel (n : nat) (s : selection) {struct n} : outcome (list fieldn) :=
    match n with
    | O => OutOfFuel
    | S n' =>
      match s with
      | SField a nm args d sub => Ok [mkF a nm args d sub]
      | SSpread nm _ =>
          match assoc nm frags with
          | Some fr => sflat_list n' (unskipped vars (fr_sels fr))
          | None => Ok []
          end
      | SInline _ _ sub => sflat_list n' (unskipped vars sub)
      end
    end
  with sflat_list (n : nat) (l : list selection) {struct n} : outcome (list fieldn) :=
    (* [l] is already restricted to the unskipped selections *)
    match l with
    | [] => Ok []
    | x :: r =>
      match n with
      | O => OutOfFuel
      | S n' => bindo (sflat_sel n' x) (fun a => bindo (sflat_list n' r) (fun b => Ok (a ++ b)))
      end
    end.

  Definition spec_fields (n : nat) (l : list selection) : outcome (list fieldn) :=
    sflat_list n (unskipped vars l).

  Variable cond : name -> name -> option name -> option name.

  Fixpoint scollect_sel (n : nat) (st rt : name) (s : selection) {struct n} : outcome (list fieldn) :=
    match n with
    | O => OutOfFuel
    | S n' =>
      match s with
      | SField a nm args d sub => Ok [mkF a nm args d sub]
      | SSpread nm _ =>
          match assoc nm frags with
          | None => Err E_UNKNOWN_FRAGMENT
          | Some fr =>
              match cond st rt (Some (fr_cond fr)) with
              | Some st' => scollect_list n' st' rt (unskipped vars (fr_sels fr))
              | None => Ok []
              end
          end
      | SInline c _ sub =>
          match cond st rt c with
          | Some st' => scollect_list n' st' rt (unskipped vars sub)
          | None => Ok []
          end
      end
    end
  with scollect_list (n : nat) (st rt : name) (l : list selection) {struct n} : outcome (list fieldn) :=
    match l with
    | [] => Ok []
    | x :: r =>
      match n with
      | O => OutOfFuel
      | S n' => bindo (scollect_sel n' st rt x) (fun a => bindo (scollect_list n' st rt r) (fun b => Ok (a ++ b)))
      end
    end.
End Spec.

(* --------------------------------------------------- recorded artefacts ---- *)
(* What a resolver records about a field through SelectionField. *)
Inductive sview :=
| SV (alias : option name) (nm : name)
     (args : option (list (name * value)))                 (* arguments(), None = Err *)
     (dirs : option (list (name * list (name * value))))    (* directives() *)
     (sub : list sview).                                    (* selection_set() *)

Definition sv_alias (v : sview) := match v with SV a _ _ _ _ => a end.
Definition sv_name (v : sview) := match v with SV _ n _ _ _ => n end.
Definition sv_args (v : sview) := match v with SV _ _ a _ _ => a end.
Definition sv_sub (v : sview) := match v with SV _ _ _ _ s => s end.

(* one element of Lookahead::selection_fields() *)
Definition pentry := (option name * name * option (list (name * value)))%type.

(* one resolver invocation: container type, its view of itself, the arguments
   it received, the non-empty look-ahead probe answers, and per returned
   object (runtime type) the resolver invocations directly beneath it. *)
Inductive tnode :=
| TN (container : name) (view : sview) (recv : list (name * option value))
     (probes : list (list name * list pentry))
     (groups : list (name * list tnode)).

Definition tn_container t := match t with TN c _ _ _ _ => c end.
Definition tn_view t := match t with TN _ v _ _ _ => v end.
Definition tn_recv t := match t with TN _ _ r _ _ => r end.
Definition tn_probes t := match t with TN _ _ _ p _ => p end.
Definition tn_groups t := match t with TN _ _ _ _ g => g end.

Record lschema := {
  ls_query : name;
  ls_mutation : name;
  ls_ftype : list ((name * name) * name);      (* (type, field) -> named return type *)
  ls_impl : list (name * list name);           (* registry.implements *)
  ls_unions : list (name * list name);         (* possible types of every union *)
  ls_args : list ((name * name) * list (name * option value));
     (* declared arguments; None = raw (MaybeUndefined<Any>), Some d = typed with schema default d *)
  ls_voc_all : list name;
  ls_voc_comp : list name;
  ls_voc_last : list name }.

Definition pair_eqb (a b : name * name) : bool := name_eqb (fst a) (fst b) && name_eqb (snd a) (snd b).
Fixpoint assoc2 {A} (k : name * name) (l : list ((name * name) * A)) : option A :=
  match l with
  | [] => None
  | (k', v) :: r => if pair_eqb k k' then Some v else assoc2 k r
  end.

(* ------------------------------------------------------ boolean equality ---- *)
Fixpoint value_eqb (a b : value) {struct a} : bool :=
  match a, b with
  | VNull, VNull => true
  | VInt x, VInt y => Z.eqb x y
  | VFloat x, VFloat y => N.eqb x y
  | VStr x, VStr y => list_eqb N.eqb x y
  | VBool x, VBool y => Bool.eqb x y
  | VEnum x, VEnum y => name_eqb x y
  | VVar x, VVar y => name_eqb x y
  | VList x, VList y =>
      (fix go (x y : list value) : bool :=
         match x, y with
         | [], [] => true
         | a :: x', b :: y' => value_eqb a b && go x' y'
         | _, _ => false
         end) x y
  | VObj x, VObj y =>
      (fix go (x y : list (name * value)) : bool :=
         match x, y with
         | [], [] => true
         | (k, a) :: x', (k', b) :: y' => name_eqb k k' && value_eqb a b && go x' y'
         | _, _ => false
         end) x y
  | _, _ => false
  end.

Definition args_eqb (a b : list (name * value)) : bool :=
  list_eqb (fun p q => name_eqb (fst p) (fst q) && value_eqb (snd p) (snd q)) a b.
Definition oargs_eqb := option_eqb args_eqb.
Definition dirs_eqb (a b : list (name * list (name * value))) : bool :=
  list_eqb (fun p q => name_eqb (fst p) (fst q) && args_eqb (snd p) (snd q)) a b.

Fixpoint sview_eqb (a b : sview) {struct a} : bool :=
  match a, b with
  | SV al n ar d s, SV al' n' ar' d' s' =>
      option_eqb name_eqb al al' && name_eqb n n' && oargs_eqb ar ar' && option_eqb dirs_eqb d d' &&
      (fix go (x y : list sview) : bool :=
         match x, y with
         | [], [] => true
         | a :: x', b :: y' => sview_eqb a b && go x' y'
         | _, _ => false
         end) s s'
  end.

Definition pentry_eqb (a b : pentry) : bool :=
  let '(al, n, ar) := a in
  let '(al', n', ar') := b in
  option_eqb name_eqb al al' && name_eqb n n' && oargs_eqb ar ar'.

Definition probes_eqb (a b : list (list name * list pentry)) : bool :=
  list_eqb (fun p q => list_eqb name_eqb (fst p) (fst q) && list_eqb pentry_eqb (snd p) (snd q)) a b.

Definition recv_eqb (a b : list (name * option value)) : bool :=
  list_eqb (fun p q => name_eqb (fst p) (fst q) && option_eqb value_eqb (snd p) (snd q)) a b.

Fixpoint tnode_eqb (a b : tnode) {struct a} : bool :=
  match a, b with
  | TN c v r p g, TN c' v' r' p' g' =>
      name_eqb c c' && sview_eqb v v' && recv_eqb r r' && probes_eqb p p' &&
      (fix gg (x y : list (name * list tnode)) : bool :=
         match x, y with
         | [], [] => true
         | (o, ch) :: x', (o', ch') :: y' =>
             name_eqb o o' &&
             (fix cc (u w : list tnode) : bool :=
                match u, w with
                | [], [] => true
                | s :: u', t :: w' => tnode_eqb s t && cc u' w'
                | _, _ => false
                end) ch ch' && gg x' y'
         | _, _ => false
         end) g g'
  end.

(* ------------------------------------------ the model's own trace tree ---- *)
Definition dummy_view : sview := SV None 0%N None None [].
Definition dummy_node : tnode := TN 0%N dummy_view [] [] [].

Section Trace.
  Variable S : lschema.
  Variable vars : list (name * value).
  Variable vdefs : list vardef.
  Variable frags : list (name * fragment).   (* the fragments the executor holds *)
  Variable cond : name -> name -> option name -> option name.

  (* the recursive view a resolver records from ctx.field() *)
  Fixpoint view_of (n : nat) (f : fieldn) {struct n} : outcome sview :=
    match n with
    | O => OutOfFuel
    | Datatypes.S n' =>
        bindo (flat_list frags n' (f_sels f)) (fun fs =>
        bindo ((fix go (l : list fieldn) : outcome (list sview) :=
                  match l with
                  | [] => Ok []
                  | x :: r => bindo (view_of n' x) (fun a => bindo (go r) (fun b => Ok (a :: b)))
                  end) fs) (fun subs =>
        Ok (SV (f_alias f) (f_name f) (o2opt (view_args vars vdefs (f_args f)))
               (o2opt (view_dirs vars vdefs (f_dirs f))) subs)))
    end.

  Definition pentry_of (g : fieldn) : pentry :=
    (f_alias g, f_name g, o2opt (view_args vars vdefs (f_args g))).

  Definition chains : list (list name) :=
    map (fun a => [a]) (ls_voc_all S) ++
    flat_map (fun c => map (fun a => [c; a]) (ls_voc_all S)) (ls_voc_comp S) ++
    flat_map (fun c => flat_map (fun c2 => map (fun a => [c; c2; a]) (ls_voc_last S)) (ls_voc_comp S)) (ls_voc_comp S).

  Fixpoint probes_of (n : nat) (f : fieldn) (chs : list (list name)) : outcome (list (list name * list pentry)) :=
    match chs with
    | [] => Ok []
    | ch :: r =>
        bindo (la_chain frags n ch [f]) (fun fs =>
        bindo (probes_of n f r) (fun l =>
        Ok (match fs with [] => l | _ => (ch, map pentry_of fs) :: l end)))
    end.

  (* what the resolver receives for each declared argument *)
  Definition recv_of (cont : name) (f : fieldn) : list (name * option value) :=
    match assoc2 (cont, f_name f) (ls_args S) with
    | None => []
    | Some decl =>
        map (fun d => (fst d,
                       match assoc (fst d) (f_args f) with
                       | None => snd d
                       | Some v => match riv vars vdefs v with Ok ov => ov | _ => None end
                       end)) decl
    end.

  Definition ret_type (cont : name) (f : fieldn) : name :=
    match assoc2 (cont, f_name f) (ls_ftype S) with Some t => t | None => 0%N end.

  (* The model's invocation tree for field [f] resolved on an object of type
     [cont]; the runtime types of the returned objects (and their number) are
     read off the recorded tree [orc], everything else is computed. *)
  Fixpoint model_node (n : nat) (cont : name) (f : fieldn) (orc : tnode) {struct n} : outcome tnode :=
    match n with
    | O => OutOfFuel
    | Datatypes.S n' =>
        bindo (view_of n' f) (fun v =>
        bindo (probes_of n' f chains) (fun pr =>
        bindo ((fix gg (gl : list (name * list tnode)) : outcome (list (name * list tnode)) :=
                  match gl with
                  | [] => Ok []
                  | (o, ch) :: r =>
                      bindo (collect_list frags cond n' (ret_type cont f) o (f_sels f)) (fun fs =>
                      bindo ((fix zip (fs : list fieldn) (ch : list tnode) : outcome (list tnode) :=
                                match fs with
                                | [] => Ok []
                                | c :: fs' => bindo (model_node n' o c (hd dummy_node ch)) (fun t =>
                                              bindo (zip fs' (tl ch)) (fun r => Ok (t :: r)))
                                end) (resolvable fs) ch) (fun ch' =>
                      bindo (gg r) (fun r' => Ok ((o, ch') :: r'))))
                  end) (tn_groups orc)) (fun gs =>
        Ok (TN cont v (recv_of cont f) pr gs))))
    end.

  (* the root selection set is resolved on the operation's root object
     (T = O = root); mutations run serially over the same add_set result *)
  Definition model_roots (n : nat) (root : name) (sels : list selection) (orc : list tnode) : outcome (list tnode) :=
    bindo (collect_list frags cond n root root sels) (fun fs =>
      (fix zip (fs : list fieldn) (ch : list tnode) : outcome (list tnode) :=
         match fs with
         | [] => Ok []
         | c :: fs' => bindo (model_node n root c (hd dummy_node ch)) (fun t =>
                       bindo (zip fs' (tl ch)) (fun r => Ok (t :: r)))
         end) (resolvable fs) orc).
End Trace.

(* ---------------------------------------- the property on recorded data ---- *)
(* For a recorded (or model-made) invocation tree: every resolver invocation
   [c] directly beneath [t]
     (a) is listed by t's selection view: c's own view is one of t's sub-views
         (same alias, name, arguments and, recursively, the same sub-views);
     (b) is found by look_ahead().field(name): the probe [name] was answered
         with a list that contains (alias, name, arguments) of c;
     (c) received, for every argument its view lists, exactly that value. *)
Definition probe_lookup (ch : list name) (p : list (list name * list pentry)) : list pentry :=
  match find (fun e => list_eqb name_eqb (fst e) ch) p with
  | Some e => snd e
  | None => []
  end.

Definition recv_agrees (v : sview) (recv : list (name * option value)) : bool :=
  match sv_args v with
  | None => false
  | Some l => forallb (fun p => match assoc (fst p) recv with
                                | Some (Some x) => value_eqb (snd p) x
                                | _ => false
                                end) l
  end.

Definition child_ok (t c : tnode) : bool :=
  existsb (sview_eqb (tn_view c)) (sv_sub (tn_view t)) &&
  existsb (pentry_eqb (sv_alias (tn_view c), sv_name (tn_view c), sv_args (tn_view c)))
          (probe_lookup [sv_name (tn_view c)] (tn_probes t)) &&
  recv_agrees (tn_view c) (tn_recv c).

Fixpoint spec_node (t : tnode) {struct t} : bool :=
  match t with
  | TN _ _ _ _ g =>
      (fix gg (x : list (name * list tnode)) : bool :=
         match x with
         | [] => true
         | (_, ch) :: x' =>
             (fix cc (u : list tnode) : bool :=
                match u with
                | [] => true
                | c :: u' => child_ok t c && spec_node c && cc u'
                end) ch && gg x'
         end) g
  end.

(* root-level resolvers have no enclosing resolver; only (c) and recursion *)
Definition spec_roots (l : list tnode) : bool :=
  forallb (fun c => recv_agrees (tn_view c) (tn_recv c) && spec_node c) l.

(* "leaving out fields removed by @skip/@include", and "every resolved
   sub-field is listed": walking the ORIGINAL document with directives
   evaluated on the fly.  The recorded view of an invocation must be the view
   of the unskipped part of its field, and the invocations recorded beneath it
   (per returned object) must be, in order, a subsequence of the unskipped
   fields of its selection set — matched by their complete own views, without
   any assumption on how the executor treats type conditions. *)
Section SpecWalk.
  Variable vars : list (name * value).
  Variable vdefs : list vardef.
  Variable frags : list (name * fragment).   (* ORIGINAL fragments *)

  Fixpoint sview_of (n : nat) (f : fieldn) {struct n} : outcome sview :=
    match n with
    | O => OutOfFuel
    | Datatypes.S n' =>
        bindo (spec_fields vars frags n' (f_sels f)) (fun fs =>
        bindo ((fix go (l : list fieldn) : outcome (list sview) :=
                  match l with
                  | [] => Ok []
                  | x :: r => bindo (sview_of n' x) (fun a => bindo (go r) (fun b => Ok (a :: b)))
                  end) fs) (fun subs =>
        Ok (SV (f_alias f) (f_name f) (o2opt (view_args vars vdefs (f_args f)))
               (o2opt (view_dirs vars vdefs (strip (f_dirs f)))) subs)))
    end.

  Definition view_is (n : nat) (f : fieldn) (v : sview) : bool :=
    match sview_of n f with Ok w => sview_eqb w v | _ => false end.

  (* children [ch] (in order) against candidate fields [fs] (in order) *)
  Fixpoint swalk (n : nat) (f : fieldn) (t : tnode) {struct n} : bool :=
    match n with
    | O => false
    | Datatypes.S n' =>
        view_is n' f (tn_view t) &&
        match spec_fields vars frags n' (f_sels f) with
        | Ok fs =>
            forallb (fun g : name * list tnode =>
              (fix sub (ch : list tnode) (fs : list fieldn) {struct fs} : bool :=
                 match ch with
                 | [] => true
                 | c :: ch' =>
                     match fs with
                     | [] => false
                     | x :: fs' =>
                         if negb (is_typename (f_name x)) && view_is n' x (tn_view c)
                         then swalk n' x c && sub ch' fs'
                         else sub ch fs'
                     end
                 end) (snd g) fs) (tn_groups t)
        | _ => false
        end
    end.

  Definition swalk_roots (n : nat) (sels : list selection) (roots : list tnode) : bool :=
    match spec_fields vars frags n sels with
    | Ok fs =>
        (fix sub (ch : list tnode) (fs : list fieldn) {struct fs} : bool :=
           match ch with
           | [] => true
           | c :: ch' =>
               match fs with
               | [] => false
               | x :: fs' =>
                   if negb (is_typename (f_name x)) && view_is n x (tn_view c)
                   then swalk n x c && sub ch' fs'
                   else sub ch fs'
               end
           end) roots fs
    | _ => false
    end.
End SpecWalk.

(* -------------------------------------------------------------- verdict ---- *)
(* prepare_request: the operation named in the request, or the only one *)
Definition pick_op (d : document) (opn : option name) : option operation :=
  match opn with
  | Some n => find (fun o => option_eqb name_eqb (op_name o) (Some n)) (doc_ops d)
  | None => match doc_ops d with [o] => Some o | _ => None end
  end.

Fixpoint selection_eqb (a b : selection) {struct a} : bool :=
  let dirs_eq := list_eqb (fun p q => name_eqb (d_name p) (d_name q) && args_eqb (d_args p) (d_args q)) in
  match a, b with
  | SField al n ar d s, SField al' n' ar' d' s' =>
      option_eqb name_eqb al al' && name_eqb n n' && args_eqb ar ar' && dirs_eq d d' &&
      (fix go (x y : list selection) : bool :=
         match x, y with
         | [], [] => true
         | a :: x', b :: y' => selection_eqb a b && go x' y'
         | _, _ => false
         end) s s'
  | SSpread n d, SSpread n' d' => name_eqb n n' && dirs_eq d d'
  | SInline c d s, SInline c' d' s' =>
      option_eqb name_eqb c c' && dirs_eq d d' &&
      (fix go (x y : list selection) : bool :=
         match x, y with
         | [], [] => true
         | a :: x', b :: y' => selection_eqb a b && go x' y'
         | _, _ => false
         end) s s'
  | _, _ => false
  end.

Definition frags_eqb (a b : list (name * fragment)) : bool :=
  list_eqb (fun p q => name_eqb (fst p) (fst q) && name_eqb (fr_cond (snd p)) (fr_cond (snd q)) &&
                       list_eqb selection_eqb (fr_sels (snd p)) (fr_sels (snd q))) a b.

Definition roots_eqb (a b : list tnode) : bool := list_eqb tnode_eqb a b.

(* One case: [pruned] is the operation selection set and fragment table that
   QueryEnv held (None if no resolver ran), [roots] the recorded invocation
   forest, [exists_ok] whether Lookahead::exists agreed with
   selection_fields().is_empty() on every probe. *)
Definition check_c22 (S : lschema) (d : document) (opn : option name) (vars : list (name * value))
           (pruned : option (list selection * list (name * fragment)))
           (roots : list tnode) (exists_ok : bool) (n : nat) : N :=
  match pick_op d opn with
  | None => 9%N   (* the harness only sends executed requests *)
  | Some op =>
      let sels' := prune_list vars (op_sels op) in
      let frags' := prune_frags vars (doc_frags d) in
      let prune_ok := match pruned with
                      | Some (ps, pf) => list_eqb selection_eqb ps sels' && frags_eqb pf frags'
                      | None => true
                      end in
      let root := match op_ty op with OpMutation => ls_mutation S | _ => ls_query S end in
      let matches m := match m with Ok mr => roots_eqb mr roots | _ => false end in
      let m1 := model_roots S vars (op_vars op) frags' (cond_today (ls_impl S)) n root sels' roots in
      let m2 := model_roots S vars (op_vars op) frags' (cond_spec (ls_impl S) (ls_unions S)) n root sels' roots in
      (* the executor's type-condition rule: as written today, or the GraphQL rule *)
      let m := if matches m1 then m1 else if matches m2 then m2 else m1 in
      let impl_eq_model := matches m && prune_ok && exists_ok in
      let spec_of r := spec_roots r && swalk_roots vars (op_vars op) (doc_frags d) n (op_sels op) r in
      let model_ok := match m with Ok mr => spec_of mr | _ => false end in
      let impl_ok := spec_of roots && exists_ok in
      verdict impl_eq_model model_ok impl_ok 0%N
  end.

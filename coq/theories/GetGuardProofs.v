(* GetGuardProofs.v — C35 lemmas (no model definitions). *)
From AG Require Import GetGuard.
Open Scope N_scope.

(* a guard on the path: no mutation resolver runs, whatever the request *)
Lemma guarded_no_mutation : forall i d opname,
    get_guard i = true -> mutation_runs (handle_get i d opname) = 0.
Proof.
  intros i d opname Hg. unfold handle_get. destruct (select_op d opname) as [o|]; [|reflexivity].
  unfold guarded_execute. rewrite Hg. destruct (op_ty o); reflexivity.
Qed.

(* ... and the whole property holds *)
Lemma guarded_spec : forall i d opname,
    get_guard i = true -> spec_ok d opname (handle_get i d opname) = true.
Proof.
  intros i d opname Hg. unfold spec_ok. rewrite (guarded_no_mutation _ _ _ Hg). cbn [N.eqb andb].
  unfold selects_mutation, handle_get. destruct (select_op d opname) as [o|]; [|reflexivity].
  unfold guarded_execute. rewrite Hg. destruct (op_ty o); reflexivity.
Qed.

(* a guard does not change what queries do *)
Lemma guard_keeps_queries : forall g g' o,
    op_ty o = OpQuery -> guarded_execute g o = guarded_execute g' o.
Proof. intros g g' o H. unfold guarded_execute. now rewrite H. Qed.

(* no guard: every selected mutation with a root field runs its resolvers *)
Lemma unguarded_runs : forall i d opname o,
    get_guard i = false -> select_op d opname = Some o -> op_ty o = OpMutation ->
    handle_get i d opname = GRan 0 (root_fields (op_sels o)).
Proof.
  intros i d opname o Hg Hs Ht. unfold handle_get. rewrite Hs. unfold guarded_execute. now rewrite Ht, Hg.
Qed.

(* the verdict of the correspondence files: outside the known class the model
   satisfies the specification *)
Lemma check_complete : forall i d opname,
    known_class i d opname = 0 -> spec_ok d opname (handle_get i d opname) = true.
Proof.
  intros i d opname Hk. unfold known_class in Hk.
  destruct (get_guard i) eqn:Hg; [now apply guarded_spec|]. cbn [negb andb] in Hk.
  destruct (selects_mutation d opname) eqn:Hm; [discriminate|].
  unfold spec_ok. rewrite Hm. cbn [negb orb]. rewrite andb_true_r.
  unfold selects_mutation in Hm. unfold handle_get.
  destruct (select_op d opname) as [o|]; [|reflexivity].
  unfold guarded_execute. destruct (op_ty o); try reflexivity. discriminate.
Qed.

(* witnesses: `mutation { m }` and a mixed document selected by name *)
Definition mut_doc : document :=
  {| doc_ops := [{| op_name := None; op_ty := OpMutation; op_vars := []; op_dirs := [];
                    op_sels := [SField None 9 [] [] []] |}];
     doc_frags := [] |}.
Definition mixed_doc : document :=
  {| doc_ops := [{| op_name := Some 20; op_ty := OpQuery; op_vars := []; op_dirs := [];
                    op_sels := [SField None 8 [] [] []] |};
                 {| op_name := Some 21; op_ty := OpMutation; op_vars := []; op_dirs := [];
                    op_sels := [SField None 9 [] [] []; SField (Some 30) 9 [] [] []] |}];
     doc_frags := [] |}.

(* for each integration without a guard, GET executes mutations *)
Lemma unguarded_refuted : forall i,
    get_guard i = false ->
    mutation_runs (handle_get i mut_doc None) = 1 /\
    mutation_runs (handle_get i mixed_doc (Some 21)) = 2 /\
    spec_ok mut_doc None (handle_get i mut_doc None) = false /\
    known_class i mut_doc None = 1.
Proof.
  intros i Hg. unfold known_class, spec_ok, handle_get, guarded_execute. rewrite Hg.
  repeat split; reflexivity.
Qed.

(* non-vacuity: the same requests under a guard, and a query through any path *)
Lemma nonvacuous : forall i,
    handle_get i mixed_doc (Some 20) = GRan 1 0 /\
    (get_guard i = true -> handle_get i mixed_doc (Some 21) = GError) /\
    handle_get i mixed_doc None = GError.
Proof.
  intro i. unfold handle_get, guarded_execute. cbn. repeat split. intros ->. reflexivity.
Qed.

(* GetGuardProofs.v — C35 lemmas (no model definitions). *)
From Coq Require Import String Ascii.
From AG Require Import GetGuard.
Open Scope N_scope.

(* readable byte strings for witnesses *)
Definition b (s : string) : bytes := map N_of_ascii (list_ascii_of_string s).

(* ------------------------------------------------------------ byte lists -- *)
Lemma bytes_eqb_eq : forall x y, bytes_eqb x y = true <-> x = y.
Proof.
  unfold bytes_eqb, list_eqb. induction x as [|c x IH]; destruct y as [|c' y]; cbn [forallb2];
    try (split; [discriminate|discriminate]); [tauto|].
  rewrite andb_true_iff, N.eqb_eq, IH. split; [intros [-> ->]; reflexivity|intros H; injection H; auto].
Qed.

Lemma bytes_eqb_refl : forall x, bytes_eqb x x = true.
Proof. intro x. now apply bytes_eqb_eq. Qed.

Lemma bytes_eqb_sym : forall x y, bytes_eqb x y = bytes_eqb y x.
Proof.
  intros x y. destruct (bytes_eqb x y) eqn:E.
  - apply bytes_eqb_eq in E. subst. symmetry. apply bytes_eqb_refl.
  - destruct (bytes_eqb y x) eqn:E'; [|reflexivity]. apply bytes_eqb_eq in E'. subst.
    rewrite bytes_eqb_refl in E. discriminate.
Qed.

Lemma is_key_In : forall keys k, is_key keys k = true <-> In k keys.
Proof.
  intros keys k. unfold is_key. rewrite existsb_exists. split.
  - intros [x [Hin He]]. apply bytes_eqb_eq in He. now subst.
  - intro H. exists k. split; [exact H|apply bytes_eqb_refl].
Qed.

(* ------------------------------------------------ the decoder is verbatim -- *)
(* the key tables read from the source keep the four fields apart: a key of
   the operation name is no key of a field tested before it *)
Definition opname_keys_apart : bool :=
  forallb (fun k => negb (is_key query_keys_pqs_gen k)) opname_keys_pqs_gen.

Lemma opname_keys_apart_ok : opname_keys_apart = true.
Proof. vm_compute. reflexivity. Qed.

Lemma pqs_field_opname : forall k, pqs_field k = Some FOpName <-> is_key opname_keys_pqs_gen k = true.
Proof.
  intro k. unfold pqs_field. split.
  - destruct (is_key query_keys_pqs_gen k); [discriminate|].
    destruct (is_key opname_keys_pqs_gen k); [reflexivity|].
    destruct (is_key variables_keys_pqs_gen k); [discriminate|].
    destruct (is_key extensions_keys_pqs_gen k); discriminate.
  - intro H. rewrite H.
    destruct (is_key query_keys_pqs_gen k) eqn:Q; [|reflexivity].
    exfalso. pose proof opname_keys_apart_ok as A. unfold opname_keys_apart in A.
    rewrite forallb_forall in A. apply is_key_In in H. specialize (A k H). rewrite Q in A. discriminate.
Qed.

Lemma put_s_op : forall s f v s', put s f v = Some s' ->
    match f with
    | FOpName => s_op s = None /\ s_op s' = Some v
    | _ => s_op s' = s_op s
    end.
Proof.
  intros [sq so sv se] f v s'. destruct f; cbn [put s_query s_op s_vars s_ext]; intro H.
  - destruct sq; [discriminate H|]. injection H as <-. reflexivity.
  - destruct so; [discriminate H|]. injection H as <-. split; reflexivity.
  - destruct sv; [discriminate H|]. injection H as <-. reflexivity.
  - destruct se; [discriminate H|]. injection H as <-. reflexivity.
Qed.

(* the slot of the operation name ends up holding the value of the (only) pair
   whose key is a key of the operation name, unchanged; it stays empty exactly
   when there is no such pair *)
Lemma fill_s_op : forall ps s s',
    fill pqs_field ps s = Some s' ->
    s_op s' = match s_op s with Some v => Some v | None => first_value opname_keys_pqs_gen ps end.
Proof.
  induction ps as [|[k v] r IH]; intros s s' H; cbn [fill first_value] in *.
  - injection H as <-. destruct (s_op s); reflexivity.
  - destruct (pqs_field k) as [f|] eqn:F.
    + destruct (put s f v) as [s1|] eqn:P; [|discriminate].
      apply put_s_op in P. specialize (IH _ _ H).
      destruct (is_key opname_keys_pqs_gen k) eqn:K.
      * apply pqs_field_opname in K. rewrite K in F. injection F as <-.
        simpl in P. destruct P as [P0 P1]. rewrite P0. rewrite IH, P1. reflexivity.
      * assert (f <> FOpName) as NF.
        { intros ->. apply pqs_field_opname in F. rewrite F in K. discriminate. }
        assert (s_op s1 = s_op s) as E by (destruct f; [exact P|exfalso; now apply NF|exact P|exact P]).
        rewrite IH, E. reflexivity.
    + destruct (is_key opname_keys_pqs_gen k) eqn:K.
      * apply pqs_field_opname in K. rewrite K in F. discriminate.
      * exact (IH _ _ H).
Qed.

Lemma decode_pqs_verbatim : forall ps q on,
    decode_pqs_pairs ps = DReq q on -> on = first_value opname_keys_pqs_gen ps.
Proof.
  intros ps q on. unfold decode_pqs_pairs. destruct (fill pqs_field ps no_slots) as [s|] eqn:F; [|discriminate].
  intro H. injection H as _ <-. now rewrite (fill_s_op _ _ _ F).
Qed.

Lemma decode_rocket_verbatim : forall ps q on,
    decode_rocket_pairs ps = DReq q on -> on = first_value [opname_key_rocket_gen] ps.
Proof.
  intros ps q on. unfold decode_rocket_pairs. destruct (first_value [key_query] ps); [|discriminate].
  intro H. now injection H as _ <-.
Qed.

(* every decoder: the decoded operation name is the wire parameter's value,
   byte for byte; None only when the parameter is absent *)
Lemma decode_pairs_verbatim : forall i ps q on,
    decode_pairs i ps = DReq q on -> on = first_value (opname_keys i) ps.
Proof.
  intros i ps q on. unfold decode_pairs, opname_keys. destruct (get_decoder_gen i).
  - apply decode_pqs_verbatim.
  - apply decode_rocket_verbatim.
Qed.

Lemma decode_verbatim : forall i raw q on,
    decode i raw = DReq q on -> on = spec_opname i raw.
Proof. intros i raw q on. unfold decode, spec_opname. apply decode_pairs_verbatim. Qed.

Lemma first_value_present : forall keys ps k v,
    first_value keys ps = None -> In (k, v) ps -> is_key keys k = false.
Proof.
  induction ps as [|[k' v'] r IH]; intros k v H Hin; [contradiction|]. cbn [first_value] in H.
  destruct (is_key keys k') eqn:K; [discriminate|]. destruct Hin as [E|Hin]; [injection E as <- <-; exact K|].
  exact (IH _ _ H Hin).
Qed.

Lemma first_value_In : forall keys ps v, first_value keys ps = Some v -> exists k, In (k, v) ps /\ is_key keys k = true.
Proof.
  induction ps as [|[k' v'] r IH]; intros v H; [discriminate|]. cbn [first_value] in H.
  destruct (is_key keys k') eqn:K.
  - injection H as <-. exists k'. split; [now left|exact K].
  - destruct (IH _ H) as [k [Hin Hk]]. exists k. split; [now right|exact Hk].
Qed.

(* an operation-name parameter on the wire is never dropped: whatever its
   value (the empty string included) the decoded request carries a name *)
Lemma decode_keeps_name : forall i ps q on k v,
    decode_pairs i ps = DReq q on -> In (k, v) ps -> is_key (opname_keys i) k = true -> on <> None.
Proof.
  intros i ps q on k v D Hin Hk ->. apply decode_pairs_verbatim in D. symmetry in D.
  rewrite (first_value_present _ _ _ _ D Hin) in Hk. discriminate.
Qed.

(* the only operation-name parameter is empty: the decoded name is Some "" *)
Lemma decode_empty_name : forall i ps q on k,
    decode_pairs i ps = DReq q on -> In (k, []) ps -> is_key (opname_keys i) k = true ->
    (forall k' v', In (k', v') ps -> is_key (opname_keys i) k' = true -> v' = []) ->
    on = Some [].
Proof.
  intros i ps q on k D Hin Hk Hall. pose proof (decode_keeps_name _ _ _ _ _ _ D Hin Hk) as NN.
  apply decode_pairs_verbatim in D. destruct on as [s|]; [|exfalso; now apply NN]. symmetry in D.
  destruct (first_value_In _ _ _ D) as [k' [Hin' Hk']]. now rewrite (Hall _ _ Hin' Hk').
Qed.

(* --------------------------------------------------- operation selection -- *)
Lemma spec_get_operation_eq : forall d tab on, spec_get_operation d tab on = select_op d tab on.
Proof.
  intros d tab [s|]; [|reflexivity]. unfold spec_get_operation, select_op.
  induction (doc_ops d) as [|o r IH]; [reflexivity|]. cbn [find]. rewrite IH. unfold op_named. cbv beta.
  destruct (op_name o) as [id|]; [|reflexivity]. destruct (assoc id tab) as [s'|]; [|reflexivity].
  now rewrite (bytes_eqb_sym s' s).
Qed.

(* a name selects only a NAMED operation spelled exactly like it *)
Lemma select_named : forall d tab s o,
    select_op d tab (Some s) = Some o -> In o (doc_ops d) /\ exists id, op_name o = Some id /\ assoc id tab = Some s.
Proof.
  intros d tab s o H. cbn [select_op] in H. apply find_some in H. destruct H as [Hin H]. split; [exact Hin|].
  unfold op_named in H. destruct (op_name o) as [id|]; [|discriminate]. exists id. split; [reflexivity|].
  destruct (assoc id tab) as [s'|]; [|discriminate]. apply bytes_eqb_eq in H. now subst.
Qed.

Lemma select_unspelled : forall d tab s,
    (forall id s', assoc id tab = Some s' -> s' <> s) -> select_op d tab (Some s) = None.
Proof.
  intros d tab s H. destruct (select_op d tab (Some s)) as [o|] eqn:E; [|reflexivity].
  apply select_named in E. destruct E as [_ [id [_ A]]]. exfalso. exact (H _ _ A eq_refl).
Qed.

(* GraphQL names are not empty: the empty name selects nothing, be the
   document a single named, a single anonymous or several operations *)
Lemma select_empty_name : forall d tab,
    (forall id s', assoc id tab = Some s' -> s' <> []) -> select_op d tab (Some []) = None.
Proof. intros d tab H. now apply select_unspelled. Qed.

Lemma select_anonymous : forall d tab s o,
    doc_ops d = [o] -> op_name o = None -> select_op d tab (Some s) = None.
Proof.
  intros d tab s o Hd Hn. cbn [select_op]. rewrite Hd. cbn [find]. unfold op_named. now rewrite Hn.
Qed.

(* the single-operation shortcut applies only when the name is absent *)
Lemma select_absent : forall d tab o, select_op d tab None = Some o <-> doc_ops d = [o].
Proof.
  intros d tab o. cbn [select_op]. destruct (doc_ops d) as [|o1 [|o2 r]]; split; intro H; try discriminate; injection H as ->; reflexivity.
Qed.

(* --------------------------------------------------- model against spec -- *)
Lemma designates_model : forall i raw doc tab q on,
    decode i raw = DReq q on -> designates_mutation i raw doc tab = model_selects_mutation i raw doc tab.
Proof.
  intros i raw doc tab q on D. unfold designates_mutation, model_selects_mutation. rewrite D.
  destruct doc as [d|]; [|reflexivity]. now rewrite spec_get_operation_eq, <- (decode_verbatim _ _ _ _ D).
Qed.

(* a guard on the path: no mutation resolver runs, whatever the request *)
Lemma guarded_no_mutation : forall i raw doc tab,
    get_guard i = true -> mutation_runs (snd (handle_get i raw doc tab)) = 0.
Proof.
  intros i raw doc tab Hg. unfold handle_get. destruct (decode i raw) as [|q on]; [reflexivity|]. cbn [snd].
  unfold execute_req. destruct doc as [d|]; [|reflexivity]. destruct (select_op d tab on) as [o|]; [|reflexivity].
  unfold guarded_execute. rewrite Hg. destruct (op_ty o); reflexivity.
Qed.

(* ... and the whole property holds *)
Lemma guarded_spec : forall i raw doc tab,
    get_guard i = true -> spec_ok i raw doc tab (snd (handle_get i raw doc tab)) = true.
Proof.
  intros i raw doc tab Hg. unfold spec_ok. rewrite (guarded_no_mutation _ _ _ _ Hg). cbn [N.eqb andb].
  unfold handle_get. destruct (decode i raw) as [|q on] eqn:D; [cbn [snd is_error]; apply orb_true_r|]. cbn [snd].
  rewrite (designates_model _ _ _ _ _ _ D). unfold model_selects_mutation, execute_req. rewrite D.
  destruct doc as [d|]; [|reflexivity]. destruct (select_op d tab on) as [o|]; [|reflexivity].
  unfold guarded_execute. rewrite Hg. destruct (op_ty o); reflexivity.
Qed.

(* a guard does not change what queries do *)
Lemma guard_keeps_queries : forall g g' o,
    op_ty o = OpQuery -> guarded_execute g o = guarded_execute g' o.
Proof. intros g g' o H. unfold guarded_execute. now rewrite H. Qed.

(* no guard: every selected mutation runs its resolvers *)
Lemma unguarded_runs : forall i raw d tab q on o,
    get_guard i = false -> decode i raw = DReq q on -> select_op d tab on = Some o -> op_ty o = OpMutation ->
    handle_get i raw (Some d) tab = (DReq q on, GRan 0 (root_fields (op_sels o))).
Proof.
  intros i raw d tab q on o Hg D Hs Ht. unfold handle_get, execute_req. rewrite D, Hs. unfold guarded_execute.
  now rewrite Ht, Hg.
Qed.

(* outside the known class the model satisfies the specification *)
Lemma check_complete : forall i raw doc tab,
    known_class i raw doc tab = 0 -> spec_ok i raw doc tab (snd (handle_get i raw doc tab)) = true.
Proof.
  intros i raw doc tab Hk. unfold known_class in Hk.
  destruct (get_guard i) eqn:Hg; [now apply guarded_spec|]. cbn [negb andb] in Hk.
  destruct (model_selects_mutation i raw doc tab) eqn:Hm; [discriminate|].
  unfold spec_ok, handle_get. destruct (decode i raw) as [|q on] eqn:D;
    [cbn [snd mutation_runs is_error N.eqb andb]; apply orb_true_r|]. cbn [snd].
  rewrite (designates_model _ _ _ _ _ _ D), Hm. cbn [negb orb]. rewrite andb_true_r.
  unfold model_selects_mutation in Hm. rewrite D in Hm. unfold execute_req.
  destruct doc as [d|]; [|reflexivity]. destruct (select_op d tab on) as [o|]; [|reflexivity].
  unfold guarded_execute. destruct (op_ty o); try reflexivity. discriminate.
Qed.

(* inside it the model itself executes the mutation operation (so the model
   fails the specification there): the class excuses nothing else *)
Lemma known_sound : forall i raw doc tab,
    known_class i raw doc tab <> 0 ->
    (exists k, snd (handle_get i raw doc tab) = GRan 0 k) /\
    spec_ok i raw doc tab (snd (handle_get i raw doc tab)) = false.
Proof.
  intros i raw doc tab Hk. unfold known_class in Hk.
  destruct (get_guard i) eqn:Hg; [exfalso; apply Hk; reflexivity|]. cbn [negb andb] in Hk.
  destruct (model_selects_mutation i raw doc tab) eqn:Hm; [|exfalso; apply Hk; reflexivity].
  unfold spec_ok, handle_get. pose proof Hm as Hm'. unfold model_selects_mutation in Hm.
  destruct (decode i raw) as [|q on] eqn:D; [discriminate Hm|]. cbn [snd].
  rewrite (designates_model _ _ _ _ _ _ D), Hm'. unfold execute_req.
  destruct doc as [d|]; [|discriminate Hm]. destruct (select_op d tab on) as [o|]; [|discriminate Hm].
  unfold guarded_execute. rewrite Hg. destruct (op_ty o); try discriminate Hm.
  split; [eexists; reflexivity|]. cbn [is_error negb orb]. apply andb_false_r.
Qed.

Lemma model_error_not_known : forall i raw doc tab,
    snd (handle_get i raw doc tab) = GError -> known_class i raw doc tab = 0.
Proof.
  intros i raw doc tab H. destruct (N.eq_dec (known_class i raw doc tab) 0) as [E|E]; [exact E|].
  apply known_sound in E. destruct E as [[k E] _]. rewrite H in E. discriminate.
Qed.

(* the verdict never excuses a departure from the model on an input where the
   model satisfies the specification: only 0 (agrees), 3 (differs, harmless) or
   4 (differs and breaks the property) are possible there *)
Lemma no_excuse : forall i raw doc tab impl_d impl_r,
    spec_ok i raw doc tab (snd (handle_get i raw doc tab)) = true ->
    check_case i raw doc tab impl_d impl_r = 0 \/
    check_case i raw doc tab impl_d impl_r = 3 \/
    check_case i raw doc tab impl_d impl_r = 4.
Proof.
  intros i raw doc tab impl_d impl_r H. unfold check_case.
  destruct (get_guard_local_gen i); [now left|].
  assert (known_class i raw doc tab = 0) as K.
  { destruct (N.eq_dec (known_class i raw doc tab) 0) as [E|E]; [exact E|].
    apply known_sound in E. destruct E as [_ E]. rewrite H in E. discriminate. }
  destruct (handle_get i raw doc tab) as [md mr]. cbn [snd] in H. cbv beta iota. rewrite H, K. unfold verdict.
  destruct (dreq_eqb impl_d md && gresult_eqb impl_r mr); [now left|].
  destruct (spec_ok i raw doc tab impl_r); [right; now left|right; now right].
Qed.

(* the model answers with an error and a mutation resolver ran: verdict 4 *)
Lemma violation_verdict : forall i raw doc tab impl_d impl_r,
    get_guard_local_gen i = false ->
    snd (handle_get i raw doc tab) = GError -> mutation_runs impl_r <> 0 ->
    check_case i raw doc tab impl_d impl_r = 4.
Proof.
  intros i raw doc tab impl_d impl_r Hl H Hr. unfold check_case. rewrite Hl.
  rewrite (model_error_not_known _ _ _ _ H).
  destruct (handle_get i raw doc tab) as [md mr]. cbn [snd] in H. subst mr. cbv beta iota.
  destruct impl_r as [|qr m]; [exfalso; apply Hr; reflexivity|]. cbn [mutation_runs] in Hr.
  cbn [gresult_eqb]. rewrite andb_false_r.
  assert (spec_ok i raw doc tab (GRan qr m) = false) as S.
  { unfold spec_ok. cbn [mutation_runs]. apply N.eqb_neq in Hr. now rewrite Hr. }
  rewrite S. unfold verdict. destruct (spec_ok i raw doc tab GError); reflexivity.
Qed.

(* an empty operation name is answered with an error by every integration,
   guarded or not, whatever the document *)
Lemma empty_name_is_error : forall i raw doc tab q,
    decode i raw = DReq q (Some []) ->
    (forall id s', assoc id tab = Some s' -> s' <> []) ->
    handle_get i raw doc tab = (DReq q (Some []), GError).
Proof.
  intros i raw doc tab q D Hn. unfold handle_get, execute_req. rewrite D.
  destruct doc as [d|]; [|reflexivity]. now rewrite (select_empty_name _ _ Hn).
Qed.

(* ------------------------------------------------------------- witnesses -- *)
(* `mutation { m }`, `mutation M { m }` and a mixed document selected by name *)
Definition mut_doc : document :=
  {| doc_ops := [{| op_name := None; op_ty := OpMutation; op_vars := []; op_dirs := [];
                    op_sels := [SField None 9 [] [] []] |}];
     doc_frags := [] |}.
Definition named_mut_doc : document :=
  {| doc_ops := [{| op_name := Some 22; op_ty := OpMutation; op_vars := []; op_dirs := [];
                    op_sels := [SField None 9 [] [] []] |}];
     doc_frags := [] |}.
Definition named_mut_tab : nametab := [(22, b "M")].
Definition mixed_doc : document :=
  {| doc_ops := [{| op_name := Some 20; op_ty := OpQuery; op_vars := []; op_dirs := [];
                    op_sels := [SField None 8 [] [] []] |};
                 {| op_name := Some 21; op_ty := OpMutation; op_vars := []; op_dirs := [];
                    op_sels := [SField None 9 [] [] []; SField (Some 30) 9 [] [] []] |}];
     doc_frags := [] |}.
Definition mixed_tab : nametab := [(20, b "A"); (21, b "B")].

Definition raw_mut : bytes := b "query=mutation%20%7B%20m%20%7D".
Definition raw_mixed_q : bytes := b "query=query%20A%20%7B%20q%20%7D%20mutation%20B%20%7B%20m%20b%3A%20m%20%7D".
(* the operation name under the first wire key the integration's decoder reads *)
Definition raw_mixed (i : integ) (nm : string) : bytes :=
  raw_mixed_q ++ [c_amp] ++ hd [] (opname_keys i) ++ [c_eq] ++ b nm.
Definition raw_named_mut (i : integ) (nm : string) : bytes :=
  b "query=mutation+M+%7B+m+%7D&" ++ hd [] (opname_keys i) ++ [c_eq] ++ b nm.

Ltac by_decoder i :=
  unfold raw_mixed, raw_named_mut, known_class, spec_ok, designates_mutation, spec_opname, model_selects_mutation,
    handle_get, decode, decode_pairs, opname_keys;
  destruct (get_decoder_gen i).

(* for each integration without a guard, GET executes mutations *)
Lemma unguarded_refuted : forall i,
    get_guard i = false ->
    mutation_runs (snd (handle_get i raw_mut (Some mut_doc) [])) = 1 /\
    mutation_runs (snd (handle_get i (raw_mixed i "B") (Some mixed_doc) mixed_tab)) = 2 /\
    spec_ok i raw_mut (Some mut_doc) [] (snd (handle_get i raw_mut (Some mut_doc) [])) = false /\
    known_class i raw_mut (Some mut_doc) [] = 1.
Proof.
  intros i Hg. by_decoder i; rewrite Hg; vm_compute; repeat split; reflexivity.
Qed.

(* non-vacuity: a query selected by name runs through any path; under a guard
   the mutation is refused; no name on a mixed document is an error *)
Lemma nonvacuous : forall i,
    snd (handle_get i (raw_mixed i "A") (Some mixed_doc) mixed_tab) = GRan 1 0 /\
    (get_guard i = true -> snd (handle_get i (raw_mixed i "B") (Some mixed_doc) mixed_tab) = GError) /\
    snd (handle_get i raw_mixed_q (Some mixed_doc) mixed_tab) = GError /\
    known_class i (raw_mixed i "A") (Some mixed_doc) mixed_tab = 0.
Proof.
  intro i. repeat split.
  - by_decoder i; vm_compute; reflexivity.
  - intro Hg. by_decoder i; rewrite Hg; vm_compute; reflexivity.
  - by_decoder i; vm_compute; reflexivity.
  - by_decoder i; rewrite andb_comm; vm_compute; reflexivity.
Qed.

(* the sub-case of the property that holds on every integration today:
   GET `mutation M { m }` with an empty / blank / non-matching operation name is
   decoded with that very name, answered with an error, lies in no known class,
   and a mutation resolver running there is verdict 4 *)
Lemma named_mutation_wrong_name : forall i,
    handle_get i (raw_named_mut i "") (Some named_mut_doc) named_mut_tab = (DReq (b "mutation M { m }") (Some []), GError) /\
    handle_get i (raw_named_mut i "+") (Some named_mut_doc) named_mut_tab = (DReq (b "mutation M { m }") (Some [c_sp]), GError) /\
    handle_get i (raw_named_mut i "%4D%20") (Some named_mut_doc) named_mut_tab = (DReq (b "mutation M { m }") (Some (b "M ")), GError) /\
    handle_get i (raw_named_mut i "m") (Some named_mut_doc) named_mut_tab = (DReq (b "mutation M { m }") (Some (b "m")), GError) /\
    known_class i (raw_named_mut i "") (Some named_mut_doc) named_mut_tab = 0 /\
    (get_guard i = false ->
     handle_get i (raw_named_mut i "%4D") (Some named_mut_doc) named_mut_tab = (DReq (b "mutation M { m }") (Some (b "M")), GRan 0 1)).
Proof.
  intro i. repeat split; try (by_decoder i; vm_compute; reflexivity).
  - by_decoder i; rewrite andb_comm; vm_compute; reflexivity.
  - intro Hg. by_decoder i; rewrite Hg; vm_compute; reflexivity.
Qed.

Lemma empty_name_run_is_violation : forall i impl_d q m,
    get_guard_local_gen i = false -> m <> 0 ->
    check_case i (raw_named_mut i "") (Some named_mut_doc) named_mut_tab impl_d (GRan q m) = 4.
Proof.
  intros i impl_d q m Hl Hm. apply violation_verdict; [exact Hl| |exact Hm].
  destruct (named_mutation_wrong_name i) as [H _]. now rewrite H.
Qed.

(* same with an anonymous mutation: the empty name never falls back to the
   single-operation shortcut *)
Lemma anonymous_mutation_empty_name : forall i,
    handle_get i (raw_mut ++ [c_amp] ++ hd [] (opname_keys i) ++ [c_eq]) (Some mut_doc) [] =
    (DReq (b "mutation { m }") (Some []), GError).
Proof. intro i. by_decoder i; vm_compute; reflexivity. Qed.

(* wire forms: percent-encoded keys, '+', a stray '%', empty pieces, a key
   without '=', duplicates *)
Example wire_forms :
    parse_pairs (b "&&query=%7Bq%7D&operation%4Eame=a%2Bb+c%&x&=y&") =
      [(b "query", b "{q}"); (b "operationName", b "a+b c%"); (b "x", []); ([], b "y")] /\
    decode_pqs_pairs (parse_pairs (b "query=%7Bq%7D&operationName=&operation_name=A")) = DErr /\
    decode_pqs_pairs (parse_pairs (b "operationName=A&operationName=A")) = DErr /\
    decode_pqs_pairs (parse_pairs (b "operation_name=")) = DReq [] (Some []) /\
    decode_pqs_pairs (parse_pairs (b "query=a&operationname=A&OperationName=B")) = DReq (b "a") None /\
    decode_rocket_pairs (parse_pairs (b "query=a&operationName=&operationName=B")) = DReq (b "a") (Some []) /\
    decode_rocket_pairs (parse_pairs (b "operationName=B")) = DErr.
Proof. vm_compute. repeat split; reflexivity. Qed.

(* Limits.v — C10 / C11: the depth and complexity visitors (Inline mode of
   validation::visitor::visit), the recursion-depth and directive-count
   walkers of schema.rs, the order in which limits are tested, and the cost
   model (number of selection visits).  Specification = plain measures on the
   document in which every fragment spread is replaced by the inline fragment
   it denotes. *)
From AG Require Export Base Doc.
Open Scope N_scope.

(* ------------------------------------------------------------ registry --- *)
(* Complexity rules a field can declare (#[graphql(complexity = "...")]):
   the harness registers exactly these shapes. *)
Inductive crule :=
| CDefault                         (* no rule: 1 + children *)
| CConst (k : N)                   (* complexity = k *)
| CChildMul (k : N)                (* k * child_complexity *)
| CChildAdd (k : N)                (* k + child_complexity *)
| CArgMul (arg : name) (dflt : option Z).  (* arg * child_complexity, arg : Int (default) *)

Record mfield := { mf_ty : name; mf_rule : crule }.

Inductive mtype :=
| MObject (fields : list (name * mfield))
| MInterface (fields : list (name * mfield))
| MOther.

Record schema := {
  s_types : list (name * mtype);
  s_query : name;
  s_mutation : option name;
  s_subscription : option name }.

Definition field_by_name (t : mtype) (n : name) : option mfield :=
  match t with
  | MObject f => assoc n f
  | MInterface f => assoc n f
  | MOther => None
  end.

Definition root_of (S : schema) (t : optype) : option name :=
  match t with
  | OpQuery => Some (s_query S)
  | OpMutation => s_mutation S
  | OpSubscription => s_subscription S
  end.

Definition is_typename (nm : name) : bool := name_eqb nm N_typename.

(* ------------------------------------------------ plain (spread-free) ----- *)
(* Measures of a document without spreads; a spread contributes nothing.
   These are the reference measures once [inline] has removed every spread. *)
Fixpoint pdepth (s : selection) : N :=
  match s with
  | SField _ nm _ _ sub =>
      if is_typename nm then 0
      else 1 + fold_right (fun x acc => N.max (pdepth x) acc) 0 sub
  | SSpread _ _ => 0
  | SInline _ _ sub => fold_right (fun x acc => N.max (pdepth x) acc) 0 sub
  end.
Definition pdepth_list (l : list selection) : N :=
  fold_right (fun x acc => N.max (pdepth x) acc) 0 l.

Fixpoint psize (s : selection) : N :=
  match s with
  | SField _ _ _ _ sub => 1 + fold_right (fun x acc => psize x + acc) 0 sub
  | SSpread _ _ => 1
  | SInline _ _ sub => 1 + fold_right (fun x acc => psize x + acc) 0 sub
  end.
Definition psize_list (l : list selection) : N :=
  fold_right (fun x acc => psize x + acc) 0 l.

(* selection-set nesting: the level of the deepest selection set, the
   operation's own set being level 0 *)
Fixpoint pnest (s : selection) : N :=
  match s with
  | SField _ _ _ _ sub =>
      match sub with
      | [] => 0
      | _ => 1 + fold_right (fun x acc => N.max (pnest x) acc) 0 sub
      end
  | SSpread _ _ => 0
  | SInline _ _ sub => 1 + fold_right (fun x acc => N.max (pnest x) acc) 0 sub
  end.
Definition pnest_list (l : list selection) : N :=
  fold_right (fun x acc => N.max (pnest x) acc) 0 l.

(* largest number of directives on one field *)
Fixpoint pdirs (s : selection) : N :=
  match s with
  | SField _ _ _ dirs sub =>
      N.max (N.of_nat (length dirs)) (fold_right (fun x acc => N.max (pdirs x) acc) 0 sub)
  | SSpread _ _ => 0
  | SInline _ _ sub => fold_right (fun x acc => N.max (pdirs x) acc) 0 sub
  end.
Definition pdirs_list (l : list selection) : N :=
  fold_right (fun x acc => N.max (pdirs x) acc) 0 l.

(* ------------------------------------------------------------- inline ----- *)
Section Frags.
  Variable frags : list (name * fragment).

  (* replace every spread by the inline fragment it denotes (unknown
     fragments denote nothing and stay as inert spreads) *)
  Fixpoint inline_sel (n : nat) (s : selection) {struct n} : outcome selection :=
    match n with
    | O => OutOfFuel
    | S n' =>
      match s with
      | SField al nm args dirs sub =>
          bindo (inline_list n' sub) (fun sub' => Ok (SField al nm args dirs sub'))
      | SSpread nm dirs =>
          match assoc nm frags with
          | Some fr => bindo (inline_list n' (fr_sels fr))
                             (fun sub' => Ok (SInline (Some (fr_cond fr)) dirs sub'))
          | None => Ok (SSpread nm dirs)
          end
      | SInline c dirs sub =>
          bindo (inline_list n' sub) (fun sub' => Ok (SInline c dirs sub'))
      end
    end
  with inline_list (n : nat) (l : list selection) {struct n} : outcome (list selection) :=
    match l with
    | [] => Ok []
    | x :: r =>
      match n with
      | O => OutOfFuel
      | S n' => bindo (inline_sel n' x) (fun x' =>
                bindo (inline_list n' r) (fun r' => Ok (x' :: r')))
      end
    end.

  (* ------------------------------------------------- impl: DepthCalculate -- *)
  Fixpoint depth_sel (n : nat) (s : selection) {struct n} : outcome N :=
    match n with
    | O => OutOfFuel
    | S n' =>
      match s with
      | SField _ nm _ _ sub =>
          if is_typename nm then Ok 0
          else bindo (depth_list n' sub) (fun d => Ok (1 + d))
      | SSpread nm _ =>
          match assoc nm frags with
          | Some fr => depth_list n' (fr_sels fr)
          | None => Ok 0
          end
      | SInline _ _ sub => depth_list n' sub
      end
    end
  with depth_list (n : nat) (l : list selection) {struct n} : outcome N :=
    match l with
    | [] => Ok 0
    | x :: r =>
      match n with
      | O => OutOfFuel
      | S n' => bindo (depth_sel n' x) (fun a =>
                bindo (depth_list n' r) (fun b => Ok (N.max a b)))
      end
    end.

  (* ------------------------------------- impl: visits of an Inline-mode pass *)
  Fixpoint visits_sel (n : nat) (s : selection) {struct n} : outcome N :=
    match n with
    | O => OutOfFuel
    | S n' =>
      match s with
      | SField _ nm _ _ sub =>
          (* visit_field is skipped for __typename; its (empty) set is not walked *)
          if is_typename nm then Ok 1
          else bindo (visits_list n' sub) (fun d => Ok (1 + d))
      | SSpread nm _ =>
          match assoc nm frags with
          | Some fr => bindo (visits_list n' (fr_sels fr)) (fun d => Ok (1 + d))
          | None => Ok 1
          end
      | SInline _ _ sub => bindo (visits_list n' sub) (fun d => Ok (1 + d))
      end
    end
  with visits_list (n : nat) (l : list selection) {struct n} : outcome N :=
    match l with
    | [] => Ok 0
    | x :: r =>
      match n with
      | O => OutOfFuel
      | S n' => bindo (visits_sel n' x) (fun a =>
                bindo (visits_list n' r) (fun b => Ok (a + b)))
      end
    end.

  (* ------------------------------- impl: check_recursive_depth (schema.rs) --
     depth-first, left to right, stops at the first selection set whose level
     exceeds [maxd].  Result: (number of selections looked at, exceeded). *)
  (* the selection set a selection opens (None: it opens none) *)
  Definition opens (x : selection) : option (list selection) :=
    match x with
    | SField _ _ _ _ [] => None
    | SField _ _ _ _ sub => Some sub
    | SSpread nm _ => match assoc nm frags with
                      | Some fr => Some (fr_sels fr)
                      | None => None
                      end
    | SInline _ _ sub => Some sub
    end.

  (* [lvl] is the level of the set that contains the selection; entering a
     set at level lvl+1 fails when lvl+1 > maxd *)
  Fixpoint rec_sel (n : nat) (maxd lvl : N) (x : selection) {struct n} : outcome (N * bool) :=
    match n with
    | O => OutOfFuel
    | S n' =>
      match opens x with
      | None => Ok (1, false)
      | Some sub =>
          if maxd <? lvl + 1 then Ok (1, true)
          else bindo (rec_list n' maxd (lvl + 1) sub) (fun a => Ok (1 + fst a, snd a))
      end
    end
  with rec_list (n : nat) (maxd lvl : N) (l : list selection) {struct n} : outcome (N * bool) :=
    match l with
    | [] => Ok (0, false)
    | x :: r =>
      match n with
      | O => OutOfFuel
      | S n' =>
        bindo (rec_sel n' maxd lvl x) (fun a =>
          if snd a then Ok a
          else bindo (rec_list n' maxd lvl r) (fun b => Ok (fst a + fst b, snd b)))
      end
    end.

  (* impl: nesting level reached when nothing stops the walk *)
  Fixpoint nest_sel (n : nat) (s : selection) {struct n} : outcome N :=
    match n with
    | O => OutOfFuel
    | S n' =>
      match s with
      | SField _ _ _ _ [] => Ok 0
      | SField _ _ _ _ sub => bindo (nest_list n' sub) (fun d => Ok (1 + d))
      | SSpread nm _ =>
          match assoc nm frags with
          | Some fr => bindo (nest_list n' (fr_sels fr)) (fun d => Ok (1 + d))
          | None => Ok 0
          end
      | SInline _ _ sub => bindo (nest_list n' sub) (fun d => Ok (1 + d))
      end
    end
  with nest_list (n : nat) (l : list selection) {struct n} : outcome N :=
    match l with
    | [] => Ok 0
    | x :: r =>
      match n with
      | O => OutOfFuel
      | S n' => bindo (nest_sel n' x) (fun a =>
                bindo (nest_list n' r) (fun b => Ok (N.max a b)))
      end
    end.

  (* ----------------------------------- impl: check_max_directives (schema.rs) *)
  Fixpoint dir_sel (n : nat) (lim : N) (x : selection) {struct n} : outcome (N * bool) :=
    match n with
    | O => OutOfFuel
    | S n' =>
      match x with
      | SField _ _ _ dirs sub =>
          if lim <? N.of_nat (length dirs) then Ok (1, true)
          else bindo (dir_list n' lim sub) (fun a => Ok (1 + fst a, snd a))
      | SSpread nm _ =>
          match assoc nm frags with
          | Some fr => bindo (dir_list n' lim (fr_sels fr)) (fun a => Ok (1 + fst a, snd a))
          | None => Ok (1, false)
          end
      | SInline _ _ sub => bindo (dir_list n' lim sub) (fun a => Ok (1 + fst a, snd a))
      end
    end
  with dir_list (n : nat) (lim : N) (l : list selection) {struct n} : outcome (N * bool) :=
    match l with
    | [] => Ok (0, false)
    | x :: r =>
      match n with
      | O => OutOfFuel
      | S n' =>
        bindo (dir_sel n' lim x) (fun a =>
          if snd a then Ok a
          else bindo (dir_list n' lim r) (fun b => Ok (fst a + fst b, snd b)))
      end
    end.

  Fixpoint dirs_sel (n : nat) (s : selection) {struct n} : outcome N :=
    match n with
    | O => OutOfFuel
    | S n' =>
      match s with
      | SField _ _ _ dirs sub =>
          bindo (dirs_list n' sub) (fun d => Ok (N.max (N.of_nat (length dirs)) d))
      | SSpread nm _ =>
          match assoc nm frags with
          | Some fr => dirs_list n' (fr_sels fr)
          | None => Ok 0
          end
      | SInline _ _ sub => dirs_list n' sub
      end
    end
  with dirs_list (n : nat) (l : list selection) {struct n} : outcome N :=
    match l with
    | [] => Ok 0
    | x :: r =>
      match n with
      | O => OutOfFuel
      | S n' => bindo (dirs_sel n' x) (fun a =>
                bindo (dirs_list n' r) (fun b => Ok (N.max a b)))
      end
    end.

  (* --------------------------------------------- impl: ComplexityCalculate --- *)
  Section Complexity.
    Variable Sch : schema.
    Variable vars : list (name * value).       (* request variables *)
    Variable vdefs : list vardef.              (* of the operation being visited *)
    (* [push_spread] = false: what visit_fragment_spread does (the fragment's
       type condition is NOT pushed on the type stack); true: the reference. *)
    Variable push_spread : bool.

    (* VisitorContext::param_value::<i32/usize> on the field's argument *)
    Definition arg_value (args : list (name * value)) (a : name) (dflt : option Z) : option Z :=
      match assoc a args with
      | None => dflt
      | Some (VInt z) => Some z
      | Some (VVar v) =>
          if mem v (map vd_name vdefs) then
            match assoc v vars with
            | Some (VInt z) => Some z
            | Some _ => None
            | None => match assoc v (map (fun d => (vd_name d, vd_default d)) vdefs) with
                      | Some (Some (VInt z)) => Some z
                      | _ => None
                      end
            end
          else None
      | Some _ => None
      end.

    Definition tyof (cur : option name) : option mtype :=
      match cur with Some c => assoc c (s_types Sch) | None => None end.

    (* type pushed for a field: registry.concrete_type_by_name(field.ty) *)
    Definition field_ty (cur : option name) (nm : name) : option name :=
      match tyof cur with
      | Some t => match field_by_name t nm with
                  | Some f => Some (mf_ty f)
                  | None => None
                  end
      | None => None
      end.

    (* (complexity, a rule reported an error) *)
    Definition apply_rule (cur : option name) (nm : name) (args : list (name * value))
               (child : N) : N * bool :=
      match tyof cur with
      | Some (MObject fields) =>
          match assoc nm fields with
          | Some f =>
              match mf_rule f with
              | CDefault => (1 + child, false)
              | CConst k => (k, false)
              | CChildMul k => (k * child, false)
              | CChildAdd k => (k + child, false)
              | CArgMul a d =>
                  match arg_value args a d with
                  | Some z => if (z <? 0)%Z then (0, true) else (Z.to_N z * child, false)
                  | None => (0, true)
                  end
              end
          | None => (1 + child, false)
          end
      | _ => (1 + child, false)
      end.

    (* The type stack is read only at its top and one below the top right
       after a push, so it is modelled by the name on top ([cur]). *)
    Fixpoint cx_sel (n : nat) (cur : option name) (s : selection) {struct n} : outcome (N * bool) :=
      match n with
      | O => OutOfFuel
      | S n' =>
        match s with
        | SField _ nm args _ sub =>
            if is_typename nm then Ok (0, false)
            else
              bindo (cx_list n' (field_ty cur nm) sub) (fun c =>
                let r := apply_rule cur nm args (fst c) in
                Ok (fst r, snd c || snd r))
        | SSpread nm _ =>
            match assoc nm frags with
            | Some fr => cx_list n' (if push_spread then Some (fr_cond fr) else cur) (fr_sels fr)
            | None => Ok (0, false)
            end
        | SInline (Some c) _ sub => cx_list n' (Some c) sub
        | SInline None _ sub => cx_list n' cur sub
        end
      end
    with cx_list (n : nat) (cur : option name) (l : list selection) {struct n} : outcome (N * bool) :=
      match l with
      | [] => Ok (0, false)
      | x :: r =>
        match n with
        | O => OutOfFuel
        | S n' => bindo (cx_sel n' cur x) (fun a =>
                  bindo (cx_list n' cur r) (fun b => Ok (fst a + fst b, snd a || snd b)))
        end
      end.

    (* every spread met by the walk names a fragment whose type condition is
       the type already on top of the stack *)
    Fixpoint sm_sel (n : nat) (cur : option name) (s : selection) {struct n} : bool :=
      match n with
      | O => false
      | S n' =>
        match s with
        | SField _ nm _ _ sub => is_typename nm || sm_list n' (field_ty cur nm) sub
        | SSpread nm _ =>
            match assoc nm frags with
            | Some fr =>
                match cur with
                | Some c => name_eqb c (fr_cond fr) && sm_list n' cur (fr_sels fr)
                | None => false
                end
            | None => true
            end
        | SInline (Some c) _ sub => sm_list n' (Some c) sub
        | SInline None _ sub => sm_list n' cur sub
        end
      end
    with sm_list (n : nat) (cur : option name) (l : list selection) {struct n} : bool :=
      match l with
      | [] => true
      | x :: r => match n with O => false | S n' => sm_sel n' cur x && sm_list n' cur r end
      end.
  End Complexity.
End Frags.

(* ValueTextProofs.v — lemmas and proofs for C15 (no model definitions). *)
From AG Require Import ValueText.
From Coq Require Decimal DecimalZ DecimalFacts.
Open Scope N_scope.

(* ------------------------------------------------------------ strings ---- *)
(* One character: reading what write_quoted prints for it gives it back.
   Case analysis on the translated escape table and \u format. *)
Lemma quote_char_read c t acc :
  bad_ctrl c = false -> read_chars (quote_char c ++ t) acc = read_chars t (c :: acc).
Proof.
  intro H. unfold quote_char, bad_ctrl in *. unfold quoted_table_gen in *. cbn [nassoc] in *.
  destruct (c =? 13) eqn:E1; [apply N.eqb_eq in E1; subst; reflexivity|].
  destruct (c =? 10) eqn:E2; [apply N.eqb_eq in E2; subst; reflexivity|].
  destruct (c =? 9) eqn:E3; [apply N.eqb_eq in E3; subst; reflexivity|].
  destruct (c =? 34) eqn:E4; [apply N.eqb_eq in E4; subst; reflexivity|].
  destruct (c =? 92) eqn:E5; [apply N.eqb_eq in E5; subst; reflexivity|].
  destruct (is_control c) eqn:EC.
  - cbn [andb] in H. rewrite andb_true_r in H. apply N.leb_gt in H. apply N.eqb_neq in E3.
    assert (D : c = 0 \/ c = 1 \/ c = 2 \/ c = 3 \/ c = 4 \/ c = 5 \/ c = 6 \/ c = 7 \/ c = 8) by lia.
    destruct D as [-> | [-> | [-> | [-> | [-> | [-> | [-> | [-> | ->]]]]]]]]; reflexivity.
  - cbn [app read_chars]. rewrite E4, E5, E2, E1, E3. cbn [orb].
    unfold is_control in EC. apply orb_false_iff in EC. destruct EC as [EC _].
    apply N.leb_gt in EC. assert (L : (32 <=? c) = true) by (apply N.leb_le; lia).
    rewrite L. reflexivity.
Qed.

Lemma read_quoted : forall s acc rest,
  existsb bad_ctrl s = false ->
  read_chars (flat_map quote_char s ++ 34 :: rest) acc = Some (rev acc ++ s, rest).
Proof.
  induction s as [|c s IH]; intros acc rest H.
  - cbn. rewrite app_nil_r. reflexivity.
  - cbn [existsb] in H. apply orb_false_iff in H. destruct H as [Hc Hs].
    cbn [flat_map]. rewrite <- app_assoc, (quote_char_read c _ acc Hc), (IH (c :: acc) rest Hs).
    cbn [rev]. rewrite <- app_assoc. reflexivity.
Qed.

Lemma quote_char_head c : exists x r, quote_char c = x :: r /\ (x =? 34) = false.
Proof.
  unfold quote_char, quoted_table_gen. cbn [nassoc].
  destruct (c =? 13); [eexists _, _; split; reflexivity|].
  destruct (c =? 10); [eexists _, _; split; reflexivity|].
  destruct (c =? 9); [eexists _, _; split; reflexivity|].
  destruct (c =? 34) eqn:E4; [eexists _, _; split; reflexivity|].
  destruct (c =? 92); [eexists _, _; split; reflexivity|].
  destruct (is_control c).
  - unfold print_u, quoted_u_prefix_gen. cbn [app]. eexists _, _; split; reflexivity.
  - eexists _, _; split; [reflexivity|exact E4].
Qed.

Lemma pstring_quoted s rest :
  existsb bad_ctrl s = false ->
  starts_with [34] rest = None ->
  pstring (flat_map quote_char s ++ 34 :: rest) = Some (CStr s, rest).
Proof.
  intros H R. unfold pstring.
  assert (B : starts_with [34; 34] (flat_map quote_char s ++ 34 :: rest) = None).
  { destruct s as [|c s].
    - cbn [flat_map app]. cbn [starts_with]. change (34 =? 34) with true. cbn iota.
      cbn [starts_with] in R. destruct rest as [|b r]; [reflexivity|].
      destruct (34 =? b); [discriminate|reflexivity].
    - cbn [flat_map]. destruct (quote_char_head c) as [x [r [E X]]]. rewrite E. cbn [app starts_with].
      rewrite N.eqb_sym, X. reflexivity. }
  rewrite B, (read_quoted s [] rest H). reflexivity.
Qed.

Lemma pval_string kw rf n s rest :
  existsb bad_ctrl s = false ->
  starts_with [34] rest = None ->
  pval kw rf (S n) (write_quoted s ++ rest) = Some (CStr s, rest).
Proof.
  intros H R. unfold write_quoted. cbn [app pval skip_ign is_ws]. cbn.
  rewrite <- app_assoc. cbn [app]. apply pstring_quoted; assumption.
Qed.

Lemma string_refuted :
  exists s, read_spec (display (CStr s)) = Some (CStr [39]) /\ s = [27] /\ existsb bad_ctrl s = true.
Proof. exists [27]. vm_compute. repeat split. Qed.

(* every control character outside the class reads back (finite check) *)
Lemma controls_outside_class :
  forallb (fun k => let c := N.of_nat k in
                    negb (is_control c) || bad_ctrl c ||
                    match read_spec (display (CStr [c])) with Some (CStr [c']) => c' =? c | _ => false end)
          (seq 0 160) = true.
Proof. vm_compute. reflexivity. Qed.

(* ----------------------------------------------------------- integers ---- *)
Lemma span_digits u rest :
  match rest with c :: _ => is_digit c | [] => false end = false ->
  span is_digit (print_uint u ++ rest) = (print_uint u, rest).
Proof.
  intro H. induction u; cbn [print_uint app span];
    try (change (is_digit _) with true; cbn iota; rewrite IHu; reflexivity).
  destruct rest as [|c t]; [reflexivity|]. cbn [span]. rewrite H. reflexivity.
Qed.

Lemma uint_of_print u : uint_of_digits (print_uint u) = u.
Proof. induction u; cbn [print_uint uint_of_digits]; try (rewrite IHu; reflexivity). reflexivity. Qed.

Lemma nzhead_no_D0 d : match Decimal.nzhead d with Decimal.D0 _ => False | _ => True end.
Proof. induction d; cbn; auto. Qed.

Lemma unorm_shape d :
  Decimal.unorm d = Decimal.D0 Decimal.Nil \/
  match Decimal.unorm d with Decimal.D0 _ => False | Decimal.Nil => False | _ => True end.
Proof.
  unfold Decimal.unorm. pose proof (nzhead_no_D0 d) as H.
  destruct (Decimal.nzhead d); auto; contradiction.
Qed.

(* the digits of an integer: non-empty, no leading zero unless "0" *)
Definition good_digits (u : Decimal.uint) : Prop :=
  u = Decimal.D0 Decimal.Nil \/ match u with Decimal.D0 _ => False | Decimal.Nil => False | _ => True end.

Lemma to_int_shape z :
  match Z.to_int z with Decimal.Pos u => good_digits u | Decimal.Neg u => good_digits u end.
Proof.
  pose proof (DecimalZ.to_of (Z.to_int z)) as H. rewrite DecimalZ.of_to in H.
  destruct (Z.to_int z) as [u|u] eqn:E; cbn [Decimal.norm] in H.
  - injection H as H. rewrite H. apply unorm_shape.
  - pose proof (nzhead_no_D0 u) as N0.
    destruct (Decimal.nzhead u) eqn:EN; try discriminate; try contradiction;
      injection H as H; rewrite H; right; exact I.
Qed.

Lemma pnumber_digits rf (neg : bool) u rest :
  good_digits u -> follow_bad rest = false ->
  pnumber rf ((if neg then [45] else []) ++ print_uint u ++ rest) =
  Some (CInt (Z.of_int (if neg then Decimal.Neg u else Decimal.Pos u)), rest).
Proof.
  intros G F.
  assert (FD : match rest with c :: _ => is_digit c | [] => false end = false).
  { destruct rest as [|c t]; [reflexivity|]. cbn in F. apply orb_false_iff in F. destruct F as [F _].
    apply orb_false_iff in F. tauto. }
  assert (RF : read_frac rest = Some ([], rest)).
  { destruct rest as [|c t]; [reflexivity|]. cbn in F. apply orb_false_iff in F. destruct F as [_ F].
    cbn [read_frac]. rewrite F. reflexivity. }
  assert (RE : read_exp rest = Some ([], rest)).
  { destruct rest as [|c t]; [reflexivity|]. cbn in F. apply orb_false_iff in F. destruct F as [F _].
    apply orb_false_iff in F. destruct F as [F _]. cbn [read_exp].
    destruct (c =? 101) eqn:E1; [apply N.eqb_eq in E1; subst; discriminate|].
    destruct (c =? 69) eqn:E2; [apply N.eqb_eq in E2; subst; discriminate|]. reflexivity. }
  assert (SG : read_sign ((if neg then [45] else []) ++ print_uint u ++ rest) = (neg, print_uint u ++ rest)).
  { destruct neg; [reflexivity|]. cbn [app].
    destruct G as [-> | G]; [reflexivity|]. destruct u; try contradiction; reflexivity. }
  unfold pnumber. rewrite SG, (span_digits u rest FD).
  destruct G as [-> | G].
  - cbn [print_uint]. change ((48 =? 48) && negb true) with false. cbn iota.
    rewrite RF, RE, F. reflexivity.
  - destruct u; try contradiction; cbn [print_uint];
      match goal with |- context [(?d =? 48) && _] => change (d =? 48) with false end;
      cbn [andb]; rewrite RF, RE, F;
      match goal with |- context [uint_of_digits (?c :: print_uint ?u)] =>
        change (c :: print_uint u) with (print_uint ltac:(first
          [ match c with 49%N => exact (Decimal.D1 u) end | match c with 50%N => exact (Decimal.D2 u) end
          | match c with 51%N => exact (Decimal.D3 u) end | match c with 52%N => exact (Decimal.D4 u) end
          | match c with 53%N => exact (Decimal.D5 u) end | match c with 54%N => exact (Decimal.D6 u) end
          | match c with 55%N => exact (Decimal.D7 u) end | match c with 56%N => exact (Decimal.D8 u) end
          | match c with 57%N => exact (Decimal.D9 u) end ])) end;
      rewrite uint_of_print; reflexivity.
Qed.

Lemma pnumber_int rf z rest :
  follow_bad rest = false -> pnumber rf (print_Z z ++ rest) = Some (CInt z, rest).
Proof.
  intro F. unfold print_Z. pose proof (to_int_shape z) as G. pose proof (DecimalZ.of_to z) as OT.
  destruct (Z.to_int z) as [u|u].
  - rewrite <- OT. exact (pnumber_digits rf false u rest G F).
  - rewrite <- OT. change (45 :: print_uint u) with ([45] ++ print_uint u). rewrite <- app_assoc.
    exact (pnumber_digits rf true u rest G F).
Qed.

Lemma print_Z_head z : exists c t, print_Z z = c :: t /\ ((c =? 45) || is_digit c) = true /\
  is_ws c = false /\ (c =? 35) = false /\ (c =? 91) = false /\ (c =? 123) = false /\ (c =? 34) = false /\
  is_name_start c = false.
Proof.
  unfold print_Z. pose proof (to_int_shape z) as G.
  destruct (Z.to_int z) as [u|u].
  - destruct G as [-> | G]; [eexists _, _; repeat split|].
    destruct u; try contradiction; eexists _, _; repeat split.
  - eexists _, _; repeat split.
Qed.

Lemma pval_int kw rf n z rest :
  follow_bad rest = false -> pval kw rf (S n) (print_Z z ++ rest) = Some (CInt z, rest).
Proof.
  intro F. destruct (print_Z_head z) as [c [t [E [A [W [C [L [O [Q NS]]]]]]]]].
  pose proof (pnumber_int rf z rest F) as P. rewrite E in *. cbn [app pval skip_ign].
  rewrite W, C, L, O, Q, NS, A. exact P.
Qed.

(* --------------------------------------------------------------- JSON ---- *)
Lemma str_eqb_eq a b : str_eqb a b = true <-> a = b.
Proof.
  unfold str_eqb, list_eqb. revert b. induction a as [|x a IH]; intros [|y b]; cbn [forallb2];
    try (split; [discriminate|discriminate]); [tauto|].
  rewrite andb_true_iff, N.eqb_eq, IH. split; [intros [-> ->]; reflexivity|intro E; inversion E; auto].
Qed.

Lemma str_eqb_refl a : str_eqb a a = true.
Proof. apply str_eqb_eq. reflexivity. Qed.

Lemma str_eqb_false a b : str_eqb a b = false <-> a <> b.
Proof.
  split.
  - intros H E. apply str_eqb_eq in E. congruence.
  - intro H. destruct (str_eqb a b) eqn:E; [apply str_eqb_eq in E; contradiction|reflexivity].
Qed.

Section CvalInd.
  Variable P : cval -> Prop.
  Hypothesis Hnull : P CNull.
  Hypothesis Hint : forall z, P (CInt z).
  Hypothesis Hfloat : forall t, P (CFloat t).
  Hypothesis Hstr : forall s, P (CStr s).
  Hypothesis Hbool : forall b, P (CBool b).
  Hypothesis Henum : forall n, P (CEnum n).
  Hypothesis Hlist : forall l, Forall P l -> P (CList l).
  Hypothesis Hobj : forall l, Forall (fun kv => P (snd kv)) l -> P (CObj l).

  Fixpoint cval_ind' (v : cval) : P v :=
    match v with
    | CNull => Hnull
    | CInt z => Hint z
    | CFloat t => Hfloat t
    | CStr s => Hstr s
    | CBool b => Hbool b
    | CEnum n => Henum n
    | CList l =>
        Hlist l ((fix go (l : list cval) : Forall P l :=
                    match l with
                    | [] => Forall_nil _
                    | x :: r => Forall_cons x (cval_ind' x) (go r)
                    end) l)
    | CObj l =>
        Hobj l ((fix go (l : list (str * cval)) : Forall (fun kv => P (snd kv)) l :=
                   match l with
                   | [] => Forall_nil _
                   | (k, x) :: r => Forall_cons (k, x) (cval_ind' x) (go r)
                   end) l)
    end.
End CvalInd.

Lemma sassoc_map {A B} (g : A -> B) k (l : list (str * A)) :
  sassoc k (map (fun kv => (fst kv, g (snd kv))) l) = option_map g (sassoc k l).
Proof.
  induction l as [|[k' a] l IH]; [reflexivity|]. cbn [map sassoc fst snd].
  destruct (str_eqb k k'); [reflexivity|exact IH].
Qed.

Lemma map_insert_fresh {A} k (v : A) m : sassoc k m = None -> map_insert k v m = m ++ [(k, v)].
Proof.
  induction m as [|[k' v'] m IH]; intro H; [reflexivity|]. cbn [sassoc] in H. cbn [map_insert].
  destruct (str_eqb k k'); [discriminate|]. rewrite (IH H). reflexivity.
Qed.

Lemma sassoc_snoc {A} k k2 (v : A) m :
  sassoc k m = None -> str_eqb k k2 = false -> sassoc k (m ++ [(k2, v)]) = None.
Proof.
  induction m as [|[k' v'] m IH]; intros H E; cbn [app sassoc] in *.
  - rewrite E. reflexivity.
  - destruct (str_eqb k k'); [discriminate|]. apply IH; assumption.
Qed.

Lemma sassoc_none_neq {A} k (l : list (str * A)) k2 a :
  sassoc k l = None -> In (k2, a) l -> str_eqb k k2 = false.
Proof.
  induction l as [|[k' v'] l IH]; intros H I; [destruct I|]. cbn [sassoc] in H.
  destruct (str_eqb k k') eqn:E; [discriminate|]. destruct I as [I|I]; [inversion I; subst; exact E|].
  apply IH; assumption.
Qed.

Lemma sassoc_in_nodup {A} (l : list (str * A)) k a :
  nodup_keys l = true -> In (k, a) l -> sassoc k l = Some a.
Proof.
  induction l as [|[k0 a0] l IH]; intros N I; [destruct I|]. cbn [nodup_keys] in N. cbn [sassoc].
  destruct (sassoc k0 l) eqn:S0; [discriminate|].
  destruct I as [I|I].
  - inversion I; subst. rewrite str_eqb_refl. reflexivity.
  - pose proof (sassoc_none_neq k0 l k a S0 I) as E.
    destruct (str_eqb k k0) eqn:E2.
    + apply str_eqb_eq in E2. subst. rewrite str_eqb_refl in E. discriminate.
    + apply IH; assumption.
Qed.

(* Deserialize's map.insert loop over distinct keys rebuilds the list *)
Lemma fold_insert (g : json -> cval) : forall (l : list (str * json)) acc,
  nodup_keys l = true ->
  (forall k a, In (k, a) l -> sassoc k acc = None) ->
  fold_left (fun m kv => map_insert (fst kv) (g (snd kv)) m) l acc =
  acc ++ map (fun kv => (fst kv, g (snd kv))) l.
Proof.
  induction l as [|[k a] l IH]; intros acc N F; [cbn; rewrite app_nil_r; reflexivity|].
  cbn [nodup_keys] in N. destruct (sassoc k l) eqn:S0; [discriminate|].
  cbn [fold_left map fst snd].
  rewrite (map_insert_fresh k (g a) acc (F k a (or_introl eq_refl))).
  rewrite IH; [rewrite <- app_assoc; reflexivity|exact N|].
  intros k2 a2 I. apply sassoc_snoc; [apply (F k2 a2); right; exact I|].
  pose proof (sassoc_none_neq k l k2 a2 S0 I) as E.
  destruct (str_eqb k2 k) eqn:E2; [|reflexivity].
  apply str_eqb_eq in E2. subst. rewrite str_eqb_refl in E. discriminate.
Qed.

Lemma nodup_keys_map {A B} (g : A -> B) (l : list (str * A)) :
  nodup_keys (map (fun kv => (fst kv, g (snd kv))) l) = nodup_keys l.
Proof.
  induction l as [|[k a] l IH]; [reflexivity|]. cbn [map nodup_keys fst snd].
  rewrite sassoc_map. destruct (sassoc k l); [reflexivity|exact IH].
Qed.

(* Serialize then Deserialize over the serde_json data model *)
Lemma json_tree_roundtrip v :
  wf v = true -> from_json (fun t => t) (to_json v) = enum_to_str v.
Proof.
  induction v using cval_ind'; intro W; try reflexivity.
  - cbn [to_json from_json enum_to_str]. f_equal. rewrite map_map.
    cbn [wf] in W. induction l as [|x l IHl]; [reflexivity|].
    cbn [forallb] in W. apply andb_true_iff in W. destruct W as [W1 W2].
    inversion H; subst. cbn [map]. f_equal; [auto|apply IHl; assumption].
  - cbn [to_json from_json enum_to_str]. f_equal.
    cbn [wf] in W. apply andb_true_iff in W. destruct W as [W1 W2].
    rewrite fold_insert; [|rewrite nodup_keys_map; exact W2|reflexivity].
    cbn [app]. rewrite map_map. cbn [fst snd].
    clear W2. induction l as [|[k x] l IHl]; [reflexivity|].
    cbn [forallb fst snd] in W1. apply andb_true_iff in W1. destruct W1 as [W1 W3].
    apply andb_true_iff in W1. destruct W1 as [_ W1].
    inversion H; subst. cbn [map fst snd]. f_equal; [f_equal; auto|apply IHl; assumption].
Qed.

(* ConstValue's equality holds between a value and its JSON image *)
Lemma veq_enum_to_str v : wf v = true -> veq false v (enum_to_str v) = true.
Proof.
  induction v using cval_ind'; intro W; cbn [enum_to_str veq].
  - reflexivity.
  - apply Z.eqb_refl.
  - apply str_eqb_refl.
  - apply str_eqb_refl.
  - destruct b; reflexivity.
  - cbn. apply str_eqb_refl.
  - cbn [wf] in W. induction l as [|x l IHl]; [reflexivity|].
    cbn [forallb] in W. apply andb_true_iff in W. destruct W as [W1 W2].
    inversion H; subst. cbn [map]. rewrite (H2 W1). cbn [andb]. apply IHl; assumption.
  - cbn [wf] in W. apply andb_true_iff in W. destruct W as [W1 W2].
    rewrite map_length, Nat.eqb_refl. cbn [andb].
    assert (G : forall x', (forall k a, In (k, a) x' -> In (k, a) l) ->
                (fix go (x : list (str * cval)) : bool :=
                   match x with
                   | [] => true
                   | (k, a) :: x'0 =>
                       match sassoc k (map (fun kv => (fst kv, enum_to_str (snd kv))) l) with
                       | Some b => veq false a b
                       | None => false
                       end && go x'0
                   end) x' = true).
    { induction x' as [|[k a] x' IHx]; intro Sub; [reflexivity|].
      rewrite sassoc_map, (sassoc_in_nodup l k a W2 (Sub k a (or_introl eq_refl))). cbn [option_map].
      assert (Pa : veq false a (enum_to_str a) = true).
      { pose proof (Sub k a (or_introl eq_refl)) as I.
        rewrite Forall_forall in H. apply (H (k, a) I).
        rewrite forallb_forall in W1. specialize (W1 (k, a) I). cbn [fst snd] in W1.
        apply andb_true_iff in W1. tauto. }
      rewrite Pa. cbn [andb]. apply IHx. intros k2 a2 I. apply Sub. right. exact I. }
    apply G. auto.
Qed.

Lemma json_roundtrip v :
  wf v = true -> veq false v (from_json (fun t => t) (to_json v)) = true.
Proof. intro W. rewrite (json_tree_roundtrip v W). apply veq_enum_to_str. exact W. Qed.

Lemma enum_prefix_refuted :
  let v := CList [CEnum [110; 117; 108; 108; 97; 98; 108; 101]] in
  wf v = true /\ read_spec (display v) = Some v /\
  read_impl [] (display v) = Some (CList [CNull; CEnum [97; 98; 108; 101]]) /\
  read_impl [] (display (CEnum [110; 117; 108; 108; 97; 98; 108; 101])) = None.
Proof. vm_compute. repeat split. Qed.

(* non-vacuity: a nested well-formed value outside every class, through both
   round trips, evaluated inside Coq *)
Lemma value_nonvacuous :
  let v := CObj [([97], CList [CInt (-42); CFloat [49; 46; 53]; CStr [34; 92; 9; 8; 233; 128512]; CEnum [82; 69; 68]]);
                 ([98], CObj [([99], CBool true); ([100], CNull)])] in
  wf v = true /\ has_bad_ctrl v = false /\ has_kw_enum v = false /\
  read_spec (display v) = Some v /\ read_impl [] (display v) = Some v /\
  veq false v (from_json (fun t => t) (to_json v)) = true.
Proof. vm_compute. repeat split. Qed.

(* ValueTextProofs.v — lemmas and proofs for C15 (no model definitions). *)
From AG Require Import ValueText.
From Coq Require Decimal DecimalZ DecimalFacts.
Open Scope N_scope.

(* ------------------------------------------------------------ strings ---- *)
(* One character: reading what write_quoted prints for it gives it back.
   Case analysis on the translated escape table and \u format. *)
Lemma quote_char_read c t acc :
  bad_ctrl c = false -> read_chars (quote_char c ++ t) acc = read_chars t (c :: acc).
Proof.
  intro H. unfold quote_char, bad_ctrl in *. unfold quoted_table_gen in *. cbn [nassoc] in *.
  destruct (c =? 13) eqn:E1; [apply N.eqb_eq in E1; subst; reflexivity|].
  destruct (c =? 10) eqn:E2; [apply N.eqb_eq in E2; subst; reflexivity|].
  destruct (c =? 9) eqn:E3; [apply N.eqb_eq in E3; subst; reflexivity|].
  destruct (c =? 34) eqn:E4; [apply N.eqb_eq in E4; subst; reflexivity|].
  destruct (c =? 92) eqn:E5; [apply N.eqb_eq in E5; subst; reflexivity|].
  destruct (is_control c) eqn:EC.
  - cbn [andb] in H. rewrite andb_true_r in H. apply N.leb_gt in H. apply N.eqb_neq in E3.
    assert (D : c = 0 \/ c = 1 \/ c = 2 \/ c = 3 \/ c = 4 \/ c = 5 \/ c = 6 \/ c = 7 \/ c = 8) by lia.
    destruct D as [-> | [-> | [-> | [-> | [-> | [-> | [-> | [-> | ->]]]]]]]]; reflexivity.
  - cbn [app read_chars]. rewrite E4, E5, E2, E1, E3. cbn [orb].
    unfold is_control in EC. apply orb_false_iff in EC. destruct EC as [EC _].
    apply N.leb_gt in EC. assert (L : (32 <=? c) = true) by (apply N.leb_le; lia).
    rewrite L. reflexivity.
Qed.

Lemma read_quoted : forall s acc rest,
  existsb bad_ctrl s = false ->
  read_chars (flat_map quote_char s ++ 34 :: rest) acc = Some (rev acc ++ s, rest).
Proof.
  induction s as [|c s IH]; intros acc rest H.
  - cbn. rewrite app_nil_r. reflexivity.
  - cbn [existsb] in H. apply orb_false_iff in H. destruct H as [Hc Hs].
    cbn [flat_map]. rewrite <- app_assoc, (quote_char_read c _ acc Hc), (IH (c :: acc) rest Hs).
    cbn [rev]. rewrite <- app_assoc. reflexivity.
Qed.

Lemma quote_char_head c : exists x r, quote_char c = x :: r /\ (x =? 34) = false.
Proof.
  unfold quote_char, quoted_table_gen. cbn [nassoc].
  destruct (c =? 13); [eexists _, _; split; reflexivity|].
  destruct (c =? 10); [eexists _, _; split; reflexivity|].
  destruct (c =? 9); [eexists _, _; split; reflexivity|].
  destruct (c =? 34) eqn:E4; [eexists _, _; split; reflexivity|].
  destruct (c =? 92); [eexists _, _; split; reflexivity|].
  destruct (is_control c).
  - unfold print_u, quoted_u_prefix_gen. cbn [app]. eexists _, _; split; reflexivity.
  - eexists _, _; split; [reflexivity|exact E4].
Qed.

Lemma pstring_quoted s rest :
  existsb bad_ctrl s = false ->
  starts_with [34] rest = None ->
  pstring (flat_map quote_char s ++ 34 :: rest) = Some (CStr s, rest).
Proof.
  intros H R. unfold pstring.
  assert (B : starts_with [34; 34] (flat_map quote_char s ++ 34 :: rest) = None).
  { destruct s as [|c s].
    - cbn [flat_map app]. cbn [starts_with]. change (34 =? 34) with true. cbn iota.
      cbn [starts_with] in R. destruct rest as [|b r]; [reflexivity|].
      destruct (34 =? b); [discriminate|reflexivity].
    - cbn [flat_map]. destruct (quote_char_head c) as [x [r [E X]]]. rewrite E. cbn [app starts_with].
      rewrite N.eqb_sym, X. reflexivity. }
  rewrite B, (read_quoted s [] rest H). reflexivity.
Qed.

Lemma pval_string kw rf n s rest :
  existsb bad_ctrl s = false ->
  starts_with [34] rest = None ->
  pval kw rf (S n) (write_quoted s ++ rest) = Some (CStr s, rest).
Proof.
  intros H R. unfold write_quoted. cbn [app pval skip_ign is_ws]. cbn.
  rewrite <- app_assoc. cbn [app]. apply pstring_quoted; assumption.
Qed.

Lemma string_refuted :
  exists s, read_spec (display (CStr s)) = Some (CStr [39]) /\ s = [27] /\ existsb bad_ctrl s = true.
Proof. exists [27]. vm_compute. repeat split. Qed.

(* every control character outside the class reads back (finite check) *)
Lemma controls_outside_class :
  forallb (fun k => let c := N.of_nat k in
                    negb (is_control c) || bad_ctrl c ||
                    match read_spec (display (CStr [c])) with Some (CStr [c']) => c' =? c | _ => false end)
          (seq 0 160) = true.
Proof. vm_compute. reflexivity. Qed.

(* ----------------------------------------------------------- integers ---- *)
Lemma span_digits u rest :
  match rest with c :: _ => is_digit c | [] => false end = false ->
  span is_digit (print_uint u ++ rest) = (print_uint u, rest).
Proof.
  intro H. induction u; cbn [print_uint app span];
    try (change (is_digit _) with true; cbn iota; rewrite IHu; reflexivity).
  destruct rest as [|c t]; [reflexivity|]. cbn [span]. rewrite H. reflexivity.
Qed.

Lemma uint_of_print u : uint_of_digits (print_uint u) = u.
Proof. induction u; cbn [print_uint uint_of_digits]; try (rewrite IHu; reflexivity). reflexivity. Qed.

Lemma nzhead_no_D0 d : match Decimal.nzhead d with Decimal.D0 _ => False | _ => True end.
Proof. induction d; cbn; auto. Qed.

Lemma unorm_shape d :
  Decimal.unorm d = Decimal.D0 Decimal.Nil \/
  match Decimal.unorm d with Decimal.D0 _ => False | Decimal.Nil => False | _ => True end.
Proof.
  unfold Decimal.unorm. pose proof (nzhead_no_D0 d) as H.
  destruct (Decimal.nzhead d); auto; contradiction.
Qed.

(* the digits of an integer: non-empty, no leading zero unless "0" *)
Definition good_digits (u : Decimal.uint) : Prop :=
  u = Decimal.D0 Decimal.Nil \/ match u with Decimal.D0 _ => False | Decimal.Nil => False | _ => True end.

Lemma to_int_shape z :
  match Z.to_int z with Decimal.Pos u => good_digits u | Decimal.Neg u => good_digits u end.
Proof.
  pose proof (DecimalZ.to_of (Z.to_int z)) as H. rewrite DecimalZ.of_to in H.
  destruct (Z.to_int z) as [u|u] eqn:E; cbn [Decimal.norm] in H.
  - injection H as H. rewrite H. apply unorm_shape.
  - pose proof (nzhead_no_D0 u) as N0.
    destruct (Decimal.nzhead u) eqn:EN; try discriminate; try contradiction;
      injection H as H; rewrite H; right; exact I.
Qed.

Lemma pnumber_digits rf (neg : bool) u rest :
  good_digits u -> follow_bad rest = false ->
  pnumber rf ((if neg then [45] else []) ++ print_uint u ++ rest) =
  Some (CInt (Z.of_int (if neg then Decimal.Neg u else Decimal.Pos u)), rest).
Proof.
  intros G F.
  assert (FD : match rest with c :: _ => is_digit c | [] => false end = false).
  { destruct rest as [|c t]; [reflexivity|]. cbn in F. apply orb_false_iff in F. destruct F as [F _].
    apply orb_false_iff in F. tauto. }
  assert (RF : read_frac rest = Some ([], rest)).
  { destruct rest as [|c t]; [reflexivity|]. cbn in F. apply orb_false_iff in F. destruct F as [_ F].
    cbn [read_frac]. rewrite F. reflexivity. }
  assert (RE : read_exp rest = Some ([], rest)).
  { destruct rest as [|c t]; [reflexivity|]. cbn in F. apply orb_false_iff in F. destruct F as [F _].
    apply orb_false_iff in F. destruct F as [F _]. cbn [read_exp].
    destruct (c =? 101) eqn:E1; [apply N.eqb_eq in E1; subst; discriminate|].
    destruct (c =? 69) eqn:E2; [apply N.eqb_eq in E2; subst; discriminate|]. reflexivity. }
  assert (SG : read_sign ((if neg then [45] else []) ++ print_uint u ++ rest) = (neg, print_uint u ++ rest)).
  { destruct neg; [reflexivity|]. cbn [app].
    destruct G as [-> | G]; [reflexivity|]. destruct u; try contradiction; reflexivity. }
  unfold pnumber. rewrite SG, (span_digits u rest FD).
  destruct G as [-> | G].
  - cbn [print_uint]. change ((48 =? 48) && negb true) with false. cbn iota.
    rewrite RF, RE, F. reflexivity.
  - destruct u; try contradiction; cbn [print_uint];
      match goal with |- context [(?d =? 48) && _] => change (d =? 48) with false end;
      cbn [andb]; rewrite RF, RE, F;
      match goal with |- context [uint_of_digits (?c :: print_uint ?u)] =>
        change (c :: print_uint u) with (print_uint ltac:(first
          [ match c with 49%N => exact (Decimal.D1 u) end | match c with 50%N => exact (Decimal.D2 u) end
          | match c with 51%N => exact (Decimal.D3 u) end | match c with 52%N => exact (Decimal.D4 u) end
          | match c with 53%N => exact (Decimal.D5 u) end | match c with 54%N => exact (Decimal.D6 u) end
          | match c with 55%N => exact (Decimal.D7 u) end | match c with 56%N => exact (Decimal.D8 u) end
          | match c with 57%N => exact (Decimal.D9 u) end ])) end;
      rewrite uint_of_print; reflexivity.
Qed.

Lemma pnumber_int rf z rest :
  follow_bad rest = false -> pnumber rf (print_Z z ++ rest) = Some (CInt z, rest).
Proof.
  intro F. unfold print_Z. pose proof (to_int_shape z) as G. pose proof (DecimalZ.of_to z) as OT.
  destruct (Z.to_int z) as [u|u].
  - rewrite <- OT. exact (pnumber_digits rf false u rest G F).
  - rewrite <- OT. change (45 :: print_uint u) with ([45] ++ print_uint u). rewrite <- app_assoc.
    exact (pnumber_digits rf true u rest G F).
Qed.

Lemma print_Z_head z : exists c t, print_Z z = c :: t /\ ((c =? 45) || is_digit c) = true /\
  is_ws c = false /\ (c =? 35) = false /\ (c =? 91) = false /\ (c =? 123) = false /\ (c =? 34) = false /\
  is_name_start c = false.
Proof.
  unfold print_Z. pose proof (to_int_shape z) as G.
  destruct (Z.to_int z) as [u|u].
  - destruct G as [-> | G]; [eexists _, _; repeat split|].
    destruct u; try contradiction; eexists _, _; repeat split.
  - eexists _, _; repeat split.
Qed.

Lemma pval_int kw rf n z rest :
  follow_bad rest = false -> pval kw rf (S n) (print_Z z ++ rest) = Some (CInt z, rest).
Proof.
  intro F. destruct (print_Z_head z) as [c [t [E [A [W [C [L [O [Q NS]]]]]]]]].
  pose proof (pnumber_int rf z rest F) as P. rewrite E in *. cbn [app pval skip_ign].
  rewrite W, C, L, O, Q, NS, A. exact P.
Qed.

(* Validation.v — C09: strict validation.
   (1) SPEC: [spec_valid], written from GraphQL (Oct 2021) section 5, the oracle of the
       differential run against the real strict validator;
   (2) MODEL of the places where the composition of the 22 strict rules goes wrong:
       - the VisitorCons dispatch of the input-value callbacks (flag taken from
         the translated method lists, VisitorGen.v),
       - VariableInAllowedPosition + visit_input_value + MetaTypeName::is_subtype,
       - OverlappingFieldsCanBeMerged (FindConflicts),
       - ArgumentsOfCorrectType / is_valid_input_value (values after variable
         substitution);
       every other strict rule is represented in [impl_strict] by the
       corresponding SPEC clause (their tie to the code is the differential run only).
   No proofs here. *)
From AG Require Export Base Doc.
From AGgen Require Export VisitorGen.
From Coq Require String.
Open Scope N_scope.

(* ------------------------------------------------------------- registry --- *)
Inductive ty := TNamed (n : name) | TList (t : ty) | TNonNull (t : ty).

Fixpoint ty_base (t : ty) : name :=
  match t with TNamed n => n | TList t => ty_base t | TNonNull t => ty_base t end.

Fixpoint ty_eqb (a b : ty) : bool :=
  match a, b with
  | TNamed x, TNamed y => name_eqb x y
  | TList x, TList y => ty_eqb x y
  | TNonNull x, TNonNull y => ty_eqb x y
  | _, _ => false
  end.

(* MetaInputValue: type and presence of a default value *)
Record minput := { mi_ty : ty; mi_default : bool }.
Record mfield := { mf_ty : ty; mf_args : list (name * minput) }.

(* scalar kinds: which is_valid function the registry holds *)
Definition K_INT : N := 0.      (* Number with is_i64 *)
Definition K_FLOAT : N := 1.    (* any Number *)
Definition K_STRING : N := 2.
Definition K_BOOL : N := 3.
Definition K_ID : N := 4.       (* integer Number or String *)
Definition K_ANY : N := 5.      (* is_valid = None *)
Definition K_UPLOAD : N := 6.   (* the Upload scalar (String) *)

Inductive mtype :=
| MScalar (kind : N)
| MObject (fields : list (name * mfield))
| MInterface (fields : list (name * mfield)) (possible : list name)
| MUnion (possible : list name)
| MEnum (values : list (name * str))           (* value name, and its spelling *)
| MInput (fields : list (name * minput)) (oneof : bool).

(* __DirectiveLocation of executable documents *)
Definition L_QUERY : N := 0.
Definition L_MUTATION : N := 1.
Definition L_SUBSCRIPTION : N := 2.
Definition L_FIELD : N := 3.
Definition L_FRAGMENT_DEFINITION : N := 4.
Definition L_FRAGMENT_SPREAD : N := 5.
Definition L_INLINE_FRAGMENT : N := 6.

Record mdirective := { md_locs : list N; md_args : list (name * minput); md_repeatable : bool }.

Record schema := {
  s_types : list (name * mtype);
  s_tnames : list (str * name);          (* spelling of every type name (variable types are text) *)
  s_query : name;
  s_mutation : option name;
  s_subscription : option name;
  s_directives : list (name * mdirective) }.

Section All2.
  Context {A B : Type} (f : A -> B -> bool).
  Fixpoint all2 (l1 : list A) (l2 : list B) : bool :=
    match l1, l2 with
    | [], [] => true
    | a :: l1', b :: l2' => f a b && all2 l1' l2'
    | _, _ => false
    end.
End All2.

Definition str_eqb (a b : str) : bool := all2 N.eqb a b.

Fixpoint assoc_str {A} (k : str) (l : list (str * A)) : option A :=
  match l with
  | [] => None
  | (k', v) :: r => if str_eqb k k' then Some v else assoc_str k r
  end.

(* MetaTypeName::create on the text of a variable type: trailing '!' = non-null,
   '[' ... ']' = list, anything else a name.  None: the named type is unknown. *)
Fixpoint parse_ty (fuel : nat) (tn : list (str * name)) (s : str) {struct fuel} : option ty :=
  match fuel with
  | O => None
  | S f =>
    match rev s with
    | 33 :: r => option_map TNonNull (parse_ty f tn (rev r))
    | 93 :: r => match rev r with
                 | 91 :: m => option_map TList (parse_ty f tn m)
                 | _ => None
                 end
    | _ => option_map TNamed (assoc_str s tn)
    end
  end.

Fixpoint value_eqb (a b : value) : bool :=
  match a, b with
  | VNull, VNull => true
  | VInt x, VInt y => Z.eqb x y
  | VFloat x, VFloat y => N.eqb x y
  | VStr x, VStr y => str_eqb x y
  | VBool x, VBool y => Bool.eqb x y
  | VEnum x, VEnum y => N.eqb x y
  | VList x, VList y => all2 value_eqb x y
  | VObj x, VObj y =>
      all2 (fun p q => match p, q with (k1, v1), (k2, v2) => N.eqb k1 k2 && value_eqb v1 v2 end) x y
  | VVar x, VVar y => N.eqb x y
  | _, _ => false
  end.

Fixpoint nodup_names (l : list name) : bool :=
  match l with [] => true | x :: r => negb (mem x r) && nodup_names r end.

Fixpoint forall_pairs {A} (f : A -> A -> bool) (l : list A) : bool :=
  match l with [] => true | a :: r => forallb (f a) r && forall_pairs f r end.

Definition is_typename (nm : name) : bool := name_eqb nm N_typename.

Inductive scope := ScOp (n : option name) | ScFrag (n : name).
Definition scope_eqb (a b : scope) : bool :=
  match a, b with
  | ScOp x, ScOp y => option_eqb name_eqb x y
  | ScFrag x, ScFrag y => name_eqb x y
  | _, _ => false
  end.
Fixpoint smem (s : scope) (l : list scope) : bool :=
  match l with [] => false | x :: r => scope_eqb s x || smem s r end.

Section Schema.
  Variable Sch : schema.
  Let types := s_types Sch.

  Definition lookup (n : name) : option mtype := assoc n types.
  Definition known (n : name) : option name := match lookup n with Some _ => Some n | None => None end.

  Definition fields_of (t : mtype) : option (list (name * mfield)) :=
    match t with MObject f => Some f | MInterface f _ => Some f | _ => None end.
  Definition field_def (pt : name) (nm : name) : option mfield :=
    match lookup pt with
    | Some t => match fields_of t with Some f => assoc nm f | None => None end
    | None => None
    end.
  Definition is_composite (n : name) : bool :=
    match lookup n with Some (MObject _) | Some (MInterface _ _) | Some (MUnion _) => true | _ => false end.
  Definition is_object (n : name) : bool :=
    match lookup n with Some (MObject _) => true | _ => false end.
  Definition is_leaf (n : name) : bool :=
    match lookup n with Some (MScalar _) | Some (MEnum _) => true | _ => false end.
  Definition is_input (n : name) : bool :=
    match lookup n with Some (MScalar _) | Some (MEnum _) | Some (MInput _ _) => true | _ => false end.
  Definition possible (n : name) : list name :=
    match lookup n with
    | Some (MObject _) => [n]
    | Some (MInterface _ p) => p
    | Some (MUnion p) => p
    | _ => []
    end.
  (* spec 5.5.2.3: the possible types of the two must intersect *)
  Definition spread_possible (parent cond : name) : bool :=
    existsb (fun x => mem x (possible cond)) (possible parent).

  Definition root_of (t : optype) : option name :=
    match t with
    | OpQuery => Some (s_query Sch)
    | OpMutation => s_mutation Sch
    | OpSubscription => s_subscription Sch
    end.

  Definition string_name : option name :=
    match filter (fun p => match snd p with MScalar k => k =? K_STRING | _ => false end) types with
    | (n, _) :: _ => Some n
    | [] => None
    end.

  Definition var_ty (vd : vardef) : option ty := parse_ty (S (length (vd_ty vd))) (s_tnames Sch) (vd_ty vd).

  (* =================================================================== SPEC == *)
  (* ---- 5.6 values: a literal of the document against an input type -------- *)
  Definition scalar_lit_ok (k : N) (v : value) : bool :=
    if k =? K_INT then match v with VInt z => (Z.leb (-2147483648) z && Z.leb z 2147483647)%Z | _ => false end
    else if k =? K_FLOAT then match v with VInt _ | VFloat _ => true | _ => false end
    else if k =? K_STRING then match v with VStr _ => true | _ => false end
    else if k =? K_BOOL then match v with VBool _ => true | _ => false end
    else if k =? K_ID then match v with VInt _ | VStr _ => true | _ => false end
    else if k =? K_UPLOAD then match v with VStr _ => true | _ => false end
    else true.

  Fixpoint spec_value_ok (v : value) {struct v} : ty -> bool :=
    fix on_ty (t : ty) {struct t} : bool :=
      match v with
      | VVar _ => true        (* position checked by 5.8.5 *)
      | _ =>
        match t with
        | TNonNull t' => match v with VNull => false | _ => on_ty t' end
        | TList t' =>
            match v with
            | VNull => true
            | VList l => (fix all (l : list value) : bool :=
                            match l with [] => true | x :: r => spec_value_ok x t' && all r end) l
            | _ => on_ty t'
            end
        | TNamed n =>
            match v with
            | VNull => true
            | _ =>
              match lookup n with
              | Some (MScalar k) => scalar_lit_ok k v
              | Some (MEnum vals) => match v with VEnum e => match assoc e vals with Some _ => true | None => false end
                                             | _ => false end
              | Some (MInput fields oneof) =>
                  match v with
                  | VObj kvs =>
                      nodup_names (map fst kvs) &&
                      (fix allf (kvs : list (name * value)) : bool :=
                         match kvs with
                         | [] => true
                         | (k, x) :: r =>
                             match assoc k fields with
                             | Some f => spec_value_ok x (mi_ty f)
                             | None => false
                             end && allf r
                         end) kvs &&
                      forallb (fun p => match mi_ty (snd p) with
                                        | TNonNull _ => mi_default (snd p) || mem (fst p) (map fst kvs)
                                        | _ => true
                                        end) fields &&
                      (if oneof then match kvs with [(_, VNull)] => false | [_] => true | _ => false end else true)
                  | _ => false
                  end
              | _ => false
              end
            end
        end
      end.

  (* ---- arguments of a field / directive (5.4.1, 5.4.2, 5.4.2.1, 5.6.1) ----- *)
  Definition args_names_ok (defs : list (name * minput)) (args : list (name * value)) : bool :=
    forallb (fun a => match assoc (fst a) defs with Some _ => true | None => false end) args &&
    nodup_names (map fst args) &&
    forallb (fun p => match mi_ty (snd p) with
                      | TNonNull _ => mi_default (snd p) || mem (fst p) (map fst args)
                      | _ => true
                      end) defs.
  Definition spec_args_values_ok (defs : list (name * minput)) (args : list (name * value)) : bool :=
    forallb (fun a => match assoc (fst a) defs with
                      | Some d => spec_value_ok (snd a) (mi_ty d)
                      | None => true
                      end) args.

  (* ---- directives (5.7.1-5.7.3) ------------------------------------------- *)
  Definition dirs_ok (loc : N) (dirs : list directive) : bool :=
    forallb (fun d => match assoc (d_name d) (s_directives Sch) with
                      | Some md => existsb (N.eqb loc) (md_locs md) && args_names_ok (md_args md) (d_args d)
                      | None => false
                      end) dirs &&
    forall_pairs (fun a b => negb (name_eqb (d_name a) (d_name b)) ||
                             match assoc (d_name a) (s_directives Sch) with
                             | Some md => md_repeatable md
                             | None => true
                             end) dirs.
  Definition spec_dirs_values_ok (dirs : list directive) : bool :=
    forallb (fun d => match assoc (d_name d) (s_directives Sch) with
                      | Some md => spec_args_values_ok (md_args md) (d_args d)
                      | None => true
                      end) dirs.

  (* ---- the typed walk (5.3.1, 5.3.3, 5.4, 5.5.1.2, 5.5.1.3, 5.5.2.1, 5.5.2.3, 5.7) --
     [pt]: the enclosing composite type, None when it is unknown (then the
     clause that made it unknown has already failed).  [frs]: the fragments. *)
  Variable frs : list (name * fragment).

  (* [tnq]: visit_selection does not visit a `__typename` field at all (no rule sees
     its arguments, directives or selection set); false in the specification *)
  Variable tnq : bool.
  Fixpoint sel_ok (pt : option name) (s : selection) {struct s} : bool :=
    match s with
    | SField _ nm args dirs sub =>
        if is_typename nm then
          tnq || (dirs_ok L_FIELD dirs && match args, sub with [], [] => true | _, _ => false end)
        else
        dirs_ok L_FIELD dirs &&
          match pt with
          | None => true
          | Some p =>
              match field_def p nm with
              | None => false
              | Some fd =>
                  args_names_ok (mf_args fd) args &&
                  let b := ty_base (mf_ty fd) in
                  (if is_leaf b then match sub with [] => true | _ => false end
                   else match sub with [] => false | _ => true end) &&
                  forallb (sel_ok (known b)) sub
              end
          end
    | SSpread f dirs =>
        dirs_ok L_FRAGMENT_SPREAD dirs &&
        match assoc f frs with
        | None => false
        | Some fr => match pt with
                     | Some p => negb (is_composite (fr_cond fr)) || spread_possible p (fr_cond fr)
                     | None => true
                     end
        end
    | SInline c dirs sub =>
        dirs_ok L_INLINE_FRAGMENT dirs &&
        match sub with [] => false | _ => true end &&
        match c with
        | None => forallb (sel_ok pt) sub
        | Some c => is_composite c &&
                    match pt with Some p => spread_possible p c | None => true end &&
                    forallb (sel_ok (Some c)) sub
        end
    end.

  (* literal values of the walk (5.6.1), kept apart because the implementation
     model replaces exactly this clause *)
  Fixpoint sel_values_ok (pt : option name) (s : selection) {struct s} : bool :=
    match s with
    | SField _ nm args dirs sub =>
        spec_dirs_values_ok dirs &&
        if is_typename nm then true
        else match pt with
             | None => true
             | Some p => match field_def p nm with
                         | None => true
                         | Some fd => spec_args_values_ok (mf_args fd) args &&
                                      forallb (sel_values_ok (known (ty_base (mf_ty fd)))) sub
                         end
             end
    | SSpread _ dirs => spec_dirs_values_ok dirs
    | SInline c dirs sub =>
        spec_dirs_values_ok dirs &&
        forallb (sel_values_ok (match c with Some c => known c | None => pt end)) sub
    end.

  (* ---- fragments: used, acyclic (5.5.1.4, 5.5.2.2) -------------------------- *)
  Fixpoint spreads_sel (s : selection) : list name :=
    match s with
    | SField _ _ _ _ sub => flat_map spreads_sel sub
    | SSpread f _ => [f]
    | SInline _ _ sub => flat_map spreads_sel sub
    end.
  Definition spreads_of (l : list selection) : list name := flat_map spreads_sel l.
  Definition frag_spreads (f : name) : list name :=
    match assoc f frs with Some fr => spreads_of (fr_sels fr) | None => [] end.

  (* fragments reachable from a set, by iterating "add what they spread" *)
  Fixpoint reach (n : nat) (seen : list name) : list name :=
    match n with
    | O => seen
    | S n' => reach n' (fold_left (fun acc f => if mem f acc then acc else acc ++ [f])
                                  (flat_map frag_spreads seen) seen)
    end.
  Definition reach_from (l : list selection) : list name :=
    reach (length frs) (fold_left (fun acc f => if mem f acc then acc else acc ++ [f]) (spreads_of l) []).

  Definition acyclic : bool :=
    forallb (fun p => negb (mem (fst p) (reach (length frs)
                                   (fold_left (fun acc f => if mem f acc then acc else acc ++ [f])
                                              (frag_spreads (fst p)) [])))) frs.

  (* ---- variables (5.8.1 - 5.8.4) -------------------------------------------- *)
  Fixpoint vars_of_value (v : value) : list name :=
    match v with
    | VVar x => [x]
    | VList l => flat_map vars_of_value l
    | VObj kvs => flat_map (fun p => vars_of_value (snd p)) kvs
    | _ => []
    end.
  Definition vars_of_dirs (dirs : list directive) : list name :=
    flat_map (fun d => flat_map (fun a => vars_of_value (snd a)) (d_args d)) dirs.
  Fixpoint vars_of_sel (s : selection) : list name :=
    match s with
    | SField _ nm args dirs sub =>
        if tnq && is_typename nm then [] else
        flat_map (fun a => vars_of_value (snd a)) args ++ vars_of_dirs dirs ++ flat_map vars_of_sel sub
    | SSpread _ dirs => vars_of_dirs dirs
    | SInline _ dirs sub => vars_of_dirs dirs ++ flat_map vars_of_sel sub
    end.
  Definition op_used_vars (o : operation) : list name :=
    vars_of_dirs (op_dirs o) ++ flat_map vars_of_sel (op_sels o) ++
    flat_map (fun f => match assoc f frs with
                       | Some fr => vars_of_dirs (fr_dirs fr) ++ flat_map vars_of_sel (fr_sels fr)
                       | None => []
                       end) (reach_from (op_sels o)).

  Definition vardefs_ok (o : operation) : bool :=
    nodup_names (map vd_name (op_vars o)) &&
    forallb (fun vd => match var_ty vd with
                       | Some t => is_input (ty_base t) &&
                                   match vd_default vd with Some dv => spec_value_ok dv t | None => true end
                       | None => false
                       end) (op_vars o) &&
    let used := op_used_vars o in
    forallb (fun x => mem x (map vd_name (op_vars o))) used &&
    forallb (fun vd => mem (vd_name vd) used) (op_vars o).

  (* async-graphql's documented restriction: Upload variables only on mutations *)
  Definition upload_ok (o : operation) : bool :=
    match op_ty o with
    | OpMutation => true
    | _ => forallb (fun vd => match var_ty vd with
                              | Some t => match lookup (ty_base t) with
                                          | Some (MScalar k) => negb (k =? K_UPLOAD)
                                          | _ => true
                                          end
                              | None => true
                              end) (op_vars o)
    end.

  (* ---- 5.8.5 all variable usages are allowed -------------------------------- *)
  (* AreTypesCompatible(variableType, locationType) *)
  Fixpoint types_compatible (vt lt : ty) : bool :=
    match lt with
    | TNonNull lt' => match vt with TNonNull vt' => types_compatible vt' lt' | _ => false end
    | _ =>
      match vt with
      | TNonNull vt' => types_compatible vt' lt
      | _ =>
        match lt, vt with
        | TList lt', TList vt' => types_compatible vt' lt'
        | TNamed a, TNamed b => name_eqb a b
        | _, _ => false
        end
      end
    end.

  (* IsVariableUsageAllowed; [dflt] the variable's default value, [loc_default]
     whether the argument / input field has a default *)
  Definition usage_allowed (vt : ty) (dflt : option value) (lt : ty) (loc_default : bool) : bool :=
    match lt, vt with
    | TNonNull lt', TNonNull _ => types_compatible vt lt
    | TNonNull lt', _ =>
        let has_nonnull_default := match dflt with Some VNull | None => false | Some _ => true end in
        (has_nonnull_default || loc_default) && types_compatible vt lt'
    | _, _ => types_compatible vt lt
    end.

  (* variable occurrences of a literal with the type and default flag of their location *)
  Fixpoint var_locs (v : value) {struct v} : ty -> bool -> list (name * ty * bool) :=
    fun t dfl =>
    match v with
    | VVar x => [(x, t, dfl)]
    | VList l =>
        match (match t with TNonNull t' => t' | _ => t end) with
        | TList et => (fix go (l : list value) := match l with [] => [] | x :: r => var_locs x et false ++ go r end) l
        | _ => []
        end
    | VObj kvs =>
        match (match t with TNonNull t' => t' | _ => t end) with
        | TNamed n =>
            match lookup n with
            | Some (MInput fields _) =>
                (fix go (kvs : list (name * value)) :=
                   match kvs with
                   | [] => []
                   | (k, x) :: r => match assoc k fields with
                                    | Some f => var_locs x (mi_ty f) (mi_default f)
                                    | None => []
                                    end ++ go r
                   end) kvs
            | _ => []
            end
        | _ => []
        end
    | _ => []
    end.
  Definition arg_locs (defs : list (name * minput)) (args : list (name * value)) : list (name * ty * bool) :=
    flat_map (fun a => match assoc (fst a) defs with
                       | Some d => var_locs (snd a) (mi_ty d) (mi_default d)
                       | None => []
                       end) args.
  Definition dirs_locs (dirs : list directive) : list (name * ty * bool) :=
    flat_map (fun d => match assoc (d_name d) (s_directives Sch) with
                       | Some md => arg_locs (md_args md) (d_args d)
                       | None => []
                       end) dirs.
  Fixpoint sel_locs (pt : option name) (s : selection) {struct s} : list (name * ty * bool) :=
    match s with
    | SField _ nm args dirs sub =>
        dirs_locs dirs ++
        if is_typename nm then []
        else match pt with
             | None => []
             | Some p => match field_def p nm with
                         | None => []
                         | Some fd => arg_locs (mf_args fd) args ++
                                      flat_map (sel_locs (known (ty_base (mf_ty fd)))) sub
                         end
             end
    | SSpread _ dirs => dirs_locs dirs
    | SInline c dirs sub =>
        dirs_locs dirs ++ flat_map (sel_locs (match c with Some c => known c | None => pt end)) sub
    end.
  Definition op_locs (o : operation) : list (name * ty * bool) :=
    dirs_locs (op_dirs o) ++
    flat_map (sel_locs (match root_of (op_ty o) with Some r => known r | None => None end)) (op_sels o) ++
    flat_map (fun f => match assoc f frs with
                       | Some fr => dirs_locs (fr_dirs fr) ++ flat_map (sel_locs (known (fr_cond fr))) (fr_sels fr)
                       | None => []
                       end) (reach_from (op_sels o)).
  Definition find_vardef (x : name) (vds : list vardef) : option vardef :=
    find (fun vd => name_eqb (vd_name vd) x) vds.
  Definition spec_varpos_ok (o : operation) : bool :=
    forallb (fun u => match u with
                      | (x, lt, ldf) =>
                          match find_vardef x (op_vars o) with
                          | Some vd => match var_ty vd with
                                       | Some vt => usage_allowed vt (vd_default vd) lt ldf
                                       | None => true
                                       end
                          | None => true
                          end
                      end) (op_locs o).

  (* ---- 5.3.2 field selection merging ---------------------------------------- *)
  (* every spread replaced by the inline fragment it denotes *)
  Fixpoint inline_sel (n : nat) (s : selection) {struct n} : outcome selection :=
    match n with
    | O => OutOfFuel
    | S n' =>
      match s with
      | SField al nm args dirs sub => bindo (inline_list n' sub) (fun sub' => Ok (SField al nm args dirs sub'))
      | SSpread f dirs =>
          match assoc f frs with
          | Some fr => bindo (inline_list n' (fr_sels fr)) (fun sub' => Ok (SInline (Some (fr_cond fr)) dirs sub'))
          | None => Ok (SSpread f dirs)
          end
      | SInline c dirs sub => bindo (inline_list n' sub) (fun sub' => Ok (SInline c dirs sub'))
      end
    end
  with inline_list (n : nat) (l : list selection) {struct n} : outcome (list selection) :=
    match l with
    | [] => Ok []
    | x :: r =>
      match n with
      | O => OutOfFuel
      | S n' => bindo (inline_sel n' x) (fun x' => bindo (inline_list n' r) (fun r' => Ok (x' :: r')))
      end
    end.

  (* a field occurrence of a (spread-free) selection set with its parent type *)
  Record focc := { fo_parent : name; fo_key : name; fo_name : name;
                   fo_args : list (name * value); fo_sels : list selection }.
  Fixpoint flat (pt : name) (s : selection) {struct s} : list focc :=
    match s with
    | SField al nm args _ sub =>
        [{| fo_parent := pt; fo_key := match al with Some a => a | None => nm end; fo_name := nm;
            fo_args := args; fo_sels := sub |}]
    | SSpread _ _ => []
    | SInline c _ sub => flat_map (flat (match c with Some c => c | None => pt end)) sub
    end.
  Definition fo_ty (a : focc) : option ty :=
    if is_typename (fo_name a) then option_map (fun s => TNonNull (TNamed s)) string_name
    else option_map mf_ty (field_def (fo_parent a) (fo_name a)).
  Definition fo_sub (a : focc) : list focc :=
    match fo_ty a with Some t => flat_map (flat (ty_base t)) (fo_sels a) | None => [] end.

  Definition args_identical (a b : list (name * value)) : bool :=
    (length a =? length b)%nat &&
    forallb (fun p => match assoc (fst p) b with Some v => value_eqb (snd p) v | None => false end) a.

  (* SameResponseShape on the types; then on the sub-selections *)
  Fixpoint shape_ty (a b : ty) : option (name * name) :=
    match a, b with
    | TNonNull a', TNonNull b' => shape_ty a' b'
    | TNonNull _, _ | _, TNonNull _ => None
    | TList a', TList b' => shape_ty a' b'
    | TList _, _ | _, TList _ => None
    | TNamed x, TNamed y => Some (x, y)
    end.
  Fixpoint same_shape (n : nat) (a b : focc) {struct n} : bool :=
    match n with
    | O => false
    | S n' =>
      match fo_ty a, fo_ty b with
      | Some ta, Some tb =>
          match shape_ty ta tb with
          | None => false
          | Some (x, y) =>
              if is_leaf x || is_leaf y then name_eqb x y
              else forall_pairs (fun p q => negb (name_eqb (fo_key p) (fo_key q)) || same_shape n' p q)
                                (fo_sub a ++ fo_sub b)
          end
      | _, _ => true     (* unknown field: 5.3.1 has failed *)
      end
    end.
  Fixpoint can_merge (n : nat) (fs : list focc) {struct n} : bool :=
    match n with
    | O => false
    | S n' =>
      forall_pairs (fun a b =>
        negb (name_eqb (fo_key a) (fo_key b)) ||
        (same_shape n' a b &&
         (if name_eqb (fo_parent a) (fo_parent b) || negb (is_object (fo_parent a)) || negb (is_object (fo_parent b))
          then name_eqb (fo_name a) (fo_name b) && args_identical (fo_args a) (fo_args b) &&
               args_identical (fo_args b) (fo_args a) &&
               can_merge n' (fo_sub a ++ fo_sub b)
          else true))) fs
    end.
  (* every selection set of a (spread-free) selection list, with its parent type *)
  Fixpoint sets_merge_ok (n : nat) (pt : name) (s : selection) {struct s} : bool :=
    match s with
    | SField _ nm _ _ sub =>
        if is_typename nm then true
        else match field_def pt nm with
             | Some fd => let b := ty_base (mf_ty fd) in
                          can_merge n (flat_map (flat b) sub) && forallb (sets_merge_ok n b) sub
             | None => true
             end
    | SSpread _ _ => true
    | SInline c _ sub =>
        let p := match c with Some c => c | None => pt end in
        can_merge n (flat_map (flat p) sub) && forallb (sets_merge_ok n p) sub
    end.
  Definition spec_merge_set (n : nat) (pt : name) (sels : list selection) : bool :=
    match inline_list n sels with
    | Ok l => can_merge n (flat_map (flat pt) l) && forallb (sets_merge_ok n pt) l
    | _ => false
    end.

  (* ================================================================ MODEL == *)
  (* ---- OverlappingFieldsCanBeMerged: FindConflicts::find / add_output -------- *)
  Record ofield := { of_name : name; of_args : list (name * value) }.
  Definition okey := (option name * name)%type.
  Definition okey_eqb (a b : okey) : bool :=
    option_eqb name_eqb (fst a) (fst b) && name_eqb (snd a) (snd b).
  Definition oentry := (okey * ofield)%type.

  (* the sequence of add_output calls of one FindConflicts run; [vis] = visited *)
  Fixpoint fc_collect (n : nat) (on_type : option name) (sels : list selection) (vis : list name)
           {struct n} : outcome (list oentry * list name) :=
    match sels with
    | [] => Ok ([], vis)
    | s :: r =>
      match n with
      | O => OutOfFuel
      | S n' =>
        bindo (match s with
               | SField al nm args _ _ =>
                   Ok ([((on_type, match al with Some a => a | None => nm end),
                         {| of_name := nm; of_args := args |})], vis)
               | SInline c _ sub => fc_collect n' c sub vis
               | SSpread f _ =>
                   match assoc f frs with
                   | Some fr => if mem f vis then Ok ([], vis)
                                else fc_collect n' (Some (fr_cond fr)) (fr_sels fr) (f :: vis)
                   | None => Ok ([], vis)
                   end
               end)
              (fun r1 => bindo (fc_collect n' on_type r (snd r1))
                               (fun r2 => Ok (fst r1 ++ fst r2, snd r2)))
      end
    end.

  (* add_output: the comparison with the entry already stored under the key *)
  Definition of_agree (p f : ofield) : bool :=
    name_eqb (of_name p) (of_name f) &&
    (length (of_args p) =? length (of_args f))%nat &&
    forallb (fun a => match assoc (fst a) (of_args f) with
                      | Some v => value_eqb (snd a) v
                      | None => false
                      end) (of_args p).
  Fixpoint olookup (k : okey) (m : list oentry) : option ofield :=
    match m with
    | [] => None
    | (k', f) :: r => if okey_eqb k k' then Some f else olookup k r
    end.
  Fixpoint fc_scan (outputs : list oentry) (es : list oentry) : bool :=
    match es with
    | [] => true
    | (k, f) :: r =>
        match olookup k outputs with
        | Some p => of_agree p f && fc_scan outputs r
        | None => fc_scan ((k, f) :: outputs) r
        end
    end.
  Definition fc_set_ok (n : nat) (sels : list selection) : outcome bool :=
    bindo (fc_collect n None sels []) (fun r => Ok (fc_scan [] (fst r))).

  (* enter_selection_set fires for every non-empty selection set reached in
     Normal mode (spreads are not followed by the visitor; __typename fields
     are not visited) *)
  Fixpoint sets_of (s : selection) : list (list selection) :=
    match s with
    | SField _ nm _ _ sub => if is_typename nm then [] else
                             match sub with [] => [] | _ => sub :: flat_map sets_of sub end
    | SSpread _ _ => []
    | SInline _ _ sub => match sub with [] => [] | _ => sub :: flat_map sets_of sub end
    end.
  Definition sets_of_list (l : list selection) : list (list selection) :=
    match l with [] => [] | _ => l :: flat_map sets_of l end.
  Fixpoint all_ok (l : list (outcome bool)) : outcome bool :=
    match l with
    | [] => Ok true
    | x :: r => bindo x (fun a => bindo (all_ok r) (fun b => Ok (a && b)))
    end.
  Definition impl_overlap_sets (n : nat) (l : list selection) : outcome bool :=
    all_ok (map (fc_set_ok n) (sets_of_list l)).

  (* ---- is_valid_input_value on a const value --------------------------------- *)
  Definition scalar_const_ok (k : N) (v : value) : bool :=
    if k =? K_INT then match v with VInt _ => true | _ => false end
    else if k =? K_FLOAT then match v with VInt _ | VFloat _ => true | _ => false end
    else if k =? K_STRING then match v with VStr _ => true | _ => false end
    else if k =? K_BOOL then match v with VBool _ => true | _ => false end
    else if k =? K_ID then match v with VInt _ | VStr _ => true | _ => false end
    else if k =? K_UPLOAD then match v with VStr _ => true | _ => false end
    else true.

  Fixpoint impl_value_ok (v : value) {struct v} : ty -> bool :=
    fix on_ty (t : ty) {struct t} : bool :=
      match t with
      | TNonNull t' => match v with VNull => false | _ => on_ty t' end
      | TList t' =>
          match v with
          | VList l => (fix all (l : list value) : bool :=
                          match l with [] => true | x :: r => impl_value_ok x t' && all r end) l
          | VNull => true
          | _ => on_ty t'
          end
      | TNamed n =>
          match v with
          | VNull => true
          | _ =>
            match lookup n with
            | Some (MScalar k) => scalar_const_ok k v
            | Some (MEnum vals) =>
                match v with
                | VEnum e => match assoc e vals with Some _ => true | None => false end
                | VStr s => existsb (fun p => str_eqb s (snd (snd p))) (map (fun p => (fst p, p)) vals)
                | _ => false
                end
            | Some (MInput fields oneof) =>
                match v with
                | VObj kvs =>
                    (if oneof then match kvs with [(_, VNull)] => false | [_] => true | _ => false end else true) &&
                    (fix allf (kvs0 : list (name * value)) : bool :=
                       match kvs0 with
                       | [] => true
                       | (k, x) :: r =>
                           match assoc k fields with
                           | Some f => impl_value_ok x (mi_ty f)
                           | None => false           (* unknown field *)
                           end && allf r
                       end) kvs &&
                    forallb (fun p => mem (fst p) (map fst kvs) ||
                                      match mi_ty (snd p) with
                                      | TNonNull _ => mi_default (snd p)
                                      | _ => true
                                      end) fields
                | _ => true                             (* `_ => None` *)
                end
            | _ => true
            end
          end
      end.

  (* Value::into_const_with: None when a variable has no supplied value *)
  Variable vars : list (name * value).
  Fixpoint closed (use_vars : bool) (v : value) : bool :=
    match v with
    | VVar x => use_vars && match assoc x vars with Some _ => true | None => false end
    | VList l => forallb (closed use_vars) l
    | VObj kvs => forallb (fun p => closed use_vars (snd p)) kvs
    | _ => true
    end.
  Fixpoint subst (v : value) : value :=
    match v with
    | VVar x => match assoc x vars with Some c => c | None => VNull end
    | VList l => VList (map subst l)
    | VObj kvs => VObj (map (fun p => (fst p, subst (snd p))) kvs)
    | x => x
    end.
  (* ArgumentsOfCorrectType::enter_argument *)
  Definition impl_args_values_ok (use_vars : bool) (defs : list (name * minput)) (args : list (name * value)) : bool :=
    forallb (fun a => match assoc (fst a) defs with
                      | Some d => if closed use_vars (snd a) then impl_value_ok (subst (snd a)) (mi_ty d) else true
                      | None => true
                      end) args.
  Definition impl_dirs_values_ok (use_vars : bool) (dirs : list directive) : bool :=
    forallb (fun d => match assoc (d_name d) (s_directives Sch) with
                      | Some md => impl_args_values_ok use_vars (md_args md) (d_args d)
                      | None => true
                      end) dirs.
  Fixpoint impl_sel_values_ok (uv : bool) (pt : option name) (s : selection) {struct s} : bool :=
    match s with
    | SField _ nm args dirs sub =>
        if is_typename nm then true     (* visit_field is not called *)
        else impl_dirs_values_ok uv dirs &&
             match pt with
             | None => true
             | Some p => match field_def p nm with
                         | None => true
                         | Some fd => impl_args_values_ok uv (mf_args fd) args &&
                                      forallb (impl_sel_values_ok uv (known (ty_base (mf_ty fd)))) sub
                         end
             end
    | SSpread _ dirs => impl_dirs_values_ok uv dirs
    | SInline c dirs sub =>
        impl_dirs_values_ok uv dirs &&
        forallb (impl_sel_values_ok uv (match c with Some c => known c | None => pt end)) sub
    end.

  (* ---- VariableInAllowedPosition -------------------------------------------- *)
  (* visit_input_value: the enter_input_value events (expected type, value) *)
  Fixpoint iv_events (v : value) {struct v} : option ty -> list (option ty * value) :=
    fun t =>
    (t, v) ::
    match v with
    | VList l =>
        match t with
        | Some t0 =>
            match (match t0 with TNonNull t' => t' | _ => t0 end) with
            | TList et => (fix go (l : list value) := match l with [] => [] | x :: r => iv_events x (Some et) ++ go r end) l
            | _ => []
            end
        | None => []
        end
    | VObj kvs =>
        match t with
        | Some t0 =>
            match (match t0 with TNonNull t' => t' | _ => t0 end) with
            | TNamed n =>
                match lookup n with
                | Some (MInput fields _) =>
                    (fix go (kvs : list (name * value)) :=
                       match kvs with
                       | [] => []
                       | (k, x) :: r => match assoc k fields with
                                        | Some f => iv_events x (Some (mi_ty f))
                                        | None => []
                                        end ++ go r
                       end) kvs
                | _ => []
                end
            | _ => []
            end
        | None => []
        end
    | _ => []
    end.

  (* does VisitorCons hand the callback to its components? *)
  Variable forward_input_value : bool.

  (* VariableInAllowedPosition::enter_input_value, reached through VisitorCons *)
  Definition viap_record (ev : option ty * value) : list (name * ty) :=
    if forward_input_value then
      match ev with
      | (Some t, VVar x) => [(x, t)]
      | _ => []
      end
    else [].
  Definition args_usages (defs : option (list (name * minput))) (args : list (name * value)) : list (name * ty) :=
    flat_map (fun a =>
      let expected := match defs with
                      | Some ds => option_map mi_ty (assoc (fst a) ds)
                      | None => None
                      end in
      flat_map viap_record (iv_events (snd a) expected)) args.
  Definition dirs_usages (dirs : list directive) : list (name * ty) :=
    flat_map (fun d => args_usages (option_map md_args (assoc (d_name d) (s_directives Sch))) (d_args d)) dirs.
  Fixpoint sel_usages (cur : option name) (s : selection) {struct s} : list (name * ty) :=
    match s with
    | SField _ nm args dirs sub =>
        if is_typename nm then []
        else
          let fd := match cur with Some p => field_def p nm | None => None end in
          args_usages (option_map mf_args fd) args ++ dirs_usages dirs ++
          flat_map (sel_usages (match fd with Some f => known (ty_base (mf_ty f)) | None => None end)) sub
    | SSpread _ dirs => dirs_usages dirs
    | SInline c dirs sub =>
        dirs_usages dirs ++ flat_map (sel_usages (match c with Some c => known c | None => cur end)) sub
    end.

  (* MetaTypeName::is_subtype(self = location type, sub = variable type) *)
  Fixpoint is_subtype (lt vt : ty) : bool :=
    match lt with
    | TNonNull lt' => match vt with TNonNull vt' => is_subtype lt' vt' | _ => false end
    | TNamed a =>
        (fix strip (vt : ty) : bool :=
           match vt with
           | TNonNull vt' => strip vt'
           | TNamed b => name_eqb a b
           | TList _ => false
           end) vt
    | TList lt' => match vt with TList vt' => is_subtype lt' vt' | _ => false end
    end.
  (* collect_incorrect_usages: one usage against the definition *)
  Definition impl_usage_ok (vd : vardef) (lt : ty) : bool :=
    match var_ty vd with
    | Some vt =>
        let expected := match vt, vd_default vd with
                        | TNonNull _, _ => vt
                        | _, Some _ => TNonNull vt       (* "{}!" *)
                        | _, None => vt
                        end in
        is_subtype lt expected
    | None => true   (* unknown type: MetaTypeName::create of an unknown name never matches; reported elsewhere *)
    end.
End Schema.

(* ------------------------------------------------------------- document --- *)
Section Doc.
  Variable Sch : schema.
  Variable d : document.
  Variable vars : list (name * value).
  Variable opname : option name.     (* Request::operation_name *)
  Variable fuel : nat.
  Let frs := doc_frags d.

  Definition op_root (o : operation) : option name :=
    match root_of Sch (op_ty o) with Some r => known Sch r | None => None end.

  (* --- the clauses shared by SPEC and MODEL --- *)
  Definition ops_names_ok : bool :=
    nodup_names (flat_map (fun o => match op_name o with Some n => [n] | None => [] end) (doc_ops d)) &&
    match doc_ops d with
    | [] => false
    | [_] => true
    | l => forallb (fun o => match op_name o with Some _ => true | None => false end) l
    end &&
    nodup_names (map fst frs).

  Definition op_base_ok (tnq : bool) (o : operation) : bool :=
    match root_of Sch (op_ty o) with Some _ => true | None => false end &&
    dirs_ok Sch (match op_ty o with OpQuery => L_QUERY | OpMutation => L_MUTATION | OpSubscription => L_SUBSCRIPTION end)
            (op_dirs o) &&
    match op_sels o with [] => false | _ => true end &&
    forallb (sel_ok Sch frs tnq (op_root o)) (op_sels o) &&
    vardefs_ok Sch frs tnq o && upload_ok Sch o.

  Definition frag_base_ok (tnq : bool) (p : name * fragment) : bool :=
    let fr := snd p in
    is_composite Sch (fr_cond fr) &&
    dirs_ok Sch L_FRAGMENT_DEFINITION (fr_dirs fr) &&
    match fr_sels fr with [] => false | _ => true end &&
    forallb (sel_ok Sch frs tnq (Some (fr_cond fr))) (fr_sels fr).

  Definition frags_used : bool :=
    let r := flat_map (fun o => reach_from frs (op_sels o)) (doc_ops d) in
    forallb (fun p => mem (fst p) r) frs.

  Definition base_ok (tnq : bool) : bool :=
    ops_names_ok && forallb (op_base_ok tnq) (doc_ops d) && forallb (frag_base_ok tnq) frs &&
    frags_used && acyclic frs.

  (* --- SPEC-only clauses --- *)
  Definition spec_values : bool :=
    forallb (fun o => spec_dirs_values_ok Sch (op_dirs o) &&
                      forallb (sel_values_ok Sch (op_root o)) (op_sels o)) (doc_ops d) &&
    forallb (fun p => spec_dirs_values_ok Sch (fr_dirs (snd p)) &&
                      forallb (sel_values_ok Sch (known Sch (fr_cond (snd p)))) (fr_sels (snd p))) frs.
  Definition spec_varpos : bool := forallb (spec_varpos_ok Sch frs) (doc_ops d).
  Definition spec_merge : bool :=
    forallb (fun o => match root_of Sch (op_ty o) with
                      | Some r => spec_merge_set Sch frs fuel r (op_sels o)
                      | None => true
                      end) (doc_ops d) &&
    forallb (fun p => spec_merge_set Sch frs fuel (fr_cond (snd p)) (fr_sels (snd p))) frs.
  (* 5.2.3.1: a subscription has exactly one root field (after expanding fragments), not __typename-like introspection *)
  Definition spec_subscription : bool :=
    forallb (fun o => match op_ty o, root_of Sch (op_ty o) with
                      | OpSubscription, Some r =>
                          match inline_list frs fuel (op_sels o) with
                          | Ok l => match flat_map (flat r) l with
                                    | [] => false
                                    | a :: rest => negb (is_typename (fo_name a)) &&
                                                   forallb (fun b => name_eqb (fo_key a) (fo_key b)) rest
                                    end
                          | _ => false
                          end
                      | _, _ => true
                      end) (doc_ops d).

  Definition spec_valid : bool :=
    base_ok false && spec_values && spec_varpos && spec_merge && spec_subscription.

  (* --- MODEL clauses --- *)
  Definition unselected (o : operation) : bool :=
    match opname, op_name o with
    | Some s, Some c => negb (name_eqb s c)
    | _, _ => false
    end.
  Definition impl_values : bool :=
    forallb (fun o => let uv := negb (unselected o) in
                      match root_of Sch (op_ty o) with
                      | Some _ => impl_dirs_values_ok Sch vars uv (op_dirs o) &&
                                  forallb (impl_sel_values_ok Sch vars uv (op_root o)) (op_sels o)
                      | None => true
                      end) (doc_ops d) &&
    (* fragment definitions are visited before any operation: in_unselected_operation = false *)
    forallb (fun p => impl_dirs_values_ok Sch vars true (fr_dirs (snd p)) &&
                      forallb (impl_sel_values_ok Sch vars true (known Sch (fr_cond (snd p)))) (fr_sels (snd p))) frs.

  Definition impl_overlap : outcome bool :=
    all_ok (map (fun o => match root_of Sch (op_ty o) with
                          | Some _ => impl_overlap_sets frs fuel (op_sels o)
                          | None => Ok true
                          end) (doc_ops d) ++
            map (fun p => impl_overlap_sets frs fuel (fr_sels (snd p))) frs).

  (* VariableInAllowedPosition: per-scope tables, then collect_incorrect_usages *)
  Variable fwd : bool.
  Definition scope_usages (s : scope) : list (name * ty) :=
    match s with
    | ScOp n =>
        flat_map (fun o => if option_eqb name_eqb (op_name o) n then
                             match root_of Sch (op_ty o) with
                             | Some _ => dirs_usages Sch fwd (op_dirs o) ++
                                         flat_map (sel_usages Sch fwd (op_root o)) (op_sels o)
                             | None => []
                             end
                           else []) (doc_ops d)
    | ScFrag f =>
        match assoc f frs with
        | Some fr => dirs_usages Sch fwd (fr_dirs fr) ++
                     flat_map (sel_usages Sch fwd (known Sch (fr_cond fr))) (fr_sels fr)
        | None => []
        end
    end.
  Definition scope_spreads (s : scope) : list name :=
    match s with
    | ScOp n => flat_map (fun o => if option_eqb name_eqb (op_name o) n then
                                     match root_of Sch (op_ty o) with
                                     | Some _ => spreads_of (op_sels o)
                                     | None => []
                                     end
                                   else []) (doc_ops d)
    | ScFrag f => frag_spreads frs f
    end.
  (* returns (visited, number of errors) *)
  Fixpoint ciu (n : nat) (vds : list vardef) (from : scope) (vis : list scope) {struct n}
    : outcome (list scope * N) :=
    match n with
    | O => OutOfFuel
    | S n' =>
      if smem from vis then Ok (vis, 0)
      else
        let errs := N.of_nat (length (filter (fun u => match find_vardef (fst u) vds with
                                                        | Some vd => negb (impl_usage_ok Sch vd (snd u))
                                                        | None => false
                                                        end) (scope_usages from))) in
        (fix go (sp : list name) (vis : list scope) (acc : N) {struct sp} : outcome (list scope * N) :=
           match sp with
           | [] => Ok (vis, acc)
           | f :: r => bindo (ciu n' vds (ScFrag f) vis) (fun x => go r (fst x) (acc + snd x))
           end) (scope_spreads from) (from :: vis) errs
    end.
  (* exit_document: only operations with at least one variable definition have an entry in variable_defs *)
  Definition impl_varpos : outcome bool :=
    all_ok (map (fun o => match op_vars o, root_of Sch (op_ty o) with
                          | [], _ => Ok true
                          | _, None => Ok true
                          | vds, Some _ => bindo (ciu fuel vds (ScOp (op_name o)) []) (fun r => Ok (snd r =? 0))
                          end) (doc_ops d)).

  Definition impl_strict : outcome bool :=
    bindo impl_overlap (fun ov =>
    bindo impl_varpos (fun vp =>
    Ok (base_ok true && impl_values && vp && ov))).

  (* which modelled clause makes MODEL and SPEC differ (0: none) *)
  Definition known_class : N :=
    match impl_varpos, impl_overlap with
    | Ok vp, Ok ov =>
        if negb (Bool.eqb vp spec_varpos) then 1
        else if negb (Bool.eqb ov spec_merge) then 2
        else if negb (Bool.eqb impl_values spec_values) then 3
        else if negb spec_subscription then 4
        else if negb (Bool.eqb (base_ok true) (base_ok false)) then 5
        else 0
    | _, _ => 0
    end.
End Doc.

(* does the composite visitor forward what visit_input_value calls?  (from the
   translated method lists) *)
Definition smem_str (s : String.string) (l : list String.string) : bool :=
  existsb (String.eqb s) l.
Definition forwards_input_value_gen : bool :=
  forallb (fun m => smem_str m visitor_cons_methods_gen) input_value_callbacks_gen.
Definition strict_has (r : String.string) : bool := smem_str r strict_rules_gen.
Module StrLits.
  Import String.
  Local Open Scope string_scope.
  Definition viap : string := "VariableInAllowedPosition".
  Definition overlap : string := "OverlappingFieldsCanBeMerged".
  Definition args_correct : string := "ArgumentsOfCorrectType".
  Definition enter_iv : string := "enter_input_value".
  Definition exit_iv : string := "exit_input_value".
End StrLits.
Definition viap_rule_name : String.string := StrLits.viap.

(* ------------------------------------------------------------ per case --- *)
(* impl: 0 accepted (validation returned Ok); 1 rejected by validation with at
   least one located error and no resolver call; 2 rejected without a located
   error; 3 rejected but a resolver ran *)
Definition check_c09 (Sch : schema) (d : document) (vars : list (name * value)) (opname : option name)
           (fuel : nat) (impl : N) : N :=
  let fwd := forwards_input_value_gen && strict_has viap_rule_name in
  let sv := spec_valid Sch d fuel in
  match impl_strict Sch d vars opname fuel fwd with
  | Ok m =>
      let well := (impl =? 0) || (impl =? 1) in
      let acc := impl =? 0 in
      verdict (well && Bool.eqb acc m) (Bool.eqb m sv) (well && Bool.eqb acc sv)
              (known_class Sch d vars opname fuel fwd)
  | _ => 9   (* model out of fuel *)
  end.

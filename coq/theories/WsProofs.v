(* WsProofs.v — C25: the session model of Ws.v satisfies the protocol monitor
   for every sequence of events, polls and stream choices. *)
From AG Require Import Ws.
Open Scope N_scope.

Notation Q := quirks_today.

Lemma set_inbox_same m : set_inbox m (m_inbox m) = m.
Proof. destruct m; reflexivity. Qed.

(* ------------------------------------------------- fields recv leaves -- *)
Definition frame (m m' : mon) : Prop :=
  m_inbox m' = m_inbox m /\ m_chans m' = m_chans m /\ m_next m' = m_next m /\
  m_init_ans m' = m_init_ans m /\ m_pingfail m' = m_pingfail m /\ m_timer m' = m_timer m /\
  m_fin m' = m_fin m /\ m_closed m' = m_closed m /\ m_initdone m' = m_initdone m /\
  m_acked m' = m_acked m.

Lemma frame_refl m : frame m m.
Proof. unfold frame; tauto. Qed.

Lemma frame_trans a b c : frame a b -> frame b c -> frame a c.
Proof. unfold frame; intros; intuition congruence. Qed.

Ltac five := split; [|split; [|split; [|split]]].

Ltac split_match :=
  repeat match goal with
         | |- context [match ?x with _ => _ end] => destruct x eqn:?
         end.

Lemma recv_frame pr q m c : frame m (recv pr q m c).
Proof. unfold recv, frame. split_match; cbn; tauto. Qed.

Lemma fold_recv_frame pr q cs : forall m, frame m (fold_left (recv pr q) cs m).
Proof.
  induction cs as [|c cs IH]; intro m; cbn [fold_left]; [apply frame_refl|].
  eapply frame_trans; [apply recv_frame | apply IH].
Qed.

(* ------------------------------------------------------- simulation -- *)
Section Sim.
  Variable pr : proto.
  Variable ka : bool.

  (* monitor state vs. server state, the part the frame loop touches *)
  Definition RCs (m : mon) (s : srv) (st : list name) : Prop :=
    m_acked m = acked s /\ m_live m = streams s /\ m_stopped m = st /\ m_due m = None /\
    m_overrun m = false /\ m_inits m = negb (on_init s) /\ closed s = false.
  Definition RC m s := RCs m s [].

  Definition SI (s : srv) : Prop :=
    (init_fut s = true -> on_init s = false) /\
    (acked s = true -> on_init s = false /\ init_fut s = false).

  Definition idone (s : srv) : bool := negb (on_init s) && negb (init_fut s).

  Lemma close_bad r : r = RMsg (OClose 1002) -> exists d, close_class pr Q KBad r = Some d.
  Proof. intros ->. destruct pr; cbn; eauto. Qed.

  Lemma drain_sim : forall inb s tf k m s' tf' inb' k' early,
    RC m s -> SI s -> init_fut s = false ->
    drain pr s tf inb k = (s', tf', inb', k', early) ->
    exists cs, inb = cs ++ inb' /\ k' = (k + length cs)%nat /\ (tf' = true -> tf = true) /\
      let m' := fold_left (recv pr Q) cs m in
      acked s' = acked s /\
      match early with
      | None => RC m' s' /\ SI s' /\ idone s' = idone s
      | Some RPending => False
      | Some REnd =>
          (m_due m' = Some KTerm /\ m_overrun m' = false /\ closed s' = true) \/
          (RC m' s' /\ SI s' /\ idone s' = idone s /\ exists t, inb' = CEof :: t)
      | Some (RMsg (OComplete id)) => RCs m' s' [id] /\ SI s' /\ idone s' = idone s
      | Some (RMsg o) =>
          exists c d, m_due m' = Some c /\ m_overrun m' = false /\
                      close_class pr Q c (RMsg o) = Some d /\ closed s' = true
      end.
  Proof.
    induction inb as [|c inb IH]; intros s tf k m s' tf' inb' k' early HRC HSI Hif Hd.
    - cbn in Hd. inversion Hd; subst. exists []. cbn. five; auto; try lia.
    - pose proof HRC as HRC0. pose proof HSI as HSI0.
      destruct HRC as (Ha & Hl & Hst & Hdue & Hov & Hin & Hcl).
      destruct HSI as (HS1 & HS2).
      destruct c; cbn [drain] in Hd.
      + (* CInit *)
        destruct (on_init s) eqn:Eo.
        * inversion Hd; subst; clear Hd. exists [CInit]. cbn [app length fold_left].
          five; try reflexivity; try lia; try discriminate; try (cbn; assumption).
          unfold recv; rewrite Hdue, Hin; cbn. split; [|split].
          -- unfold RC, RCs; cbn. repeat split; auto.
          -- unfold SI; cbn. split; [auto|]. intro Hk. destruct (HS2 Hk) as [E _]. congruence.
          -- unfold idone; cbn. rewrite Eo, Hif. reflexivity.
        * inversion Hd; subst; clear Hd. exists [CInit]. cbn [app length fold_left].
          five; try reflexivity; try lia; try discriminate; try (cbn; assumption).
          unfold recv; rewrite Hdue, Hin; cbn.
          destruct pr; cbn; eexists _, _; repeat split; first [reflexivity | assumption].
      + (* CStart *)
        destruct (acked s) eqn:Ea.
        * assert (HRC1 : RC (recv pr Q m (CStart id inst)) (set_streams s (insert id inst (streams s)))).
          { unfold recv. rewrite Hdue, Ha. cbn [negb].
            unfold RC, RCs. destruct (assoc id (m_live m)); [destruct pr|]; cbn; rewrite Hl; repeat split; auto. }
          assert (HSI1 : SI (set_streams s (insert id inst (streams s)))) by exact HSI0.
          destruct (IH _ _ _ _ _ _ _ _ _ HRC1 HSI1 Hif Hd) as (cs & E1 & E2 & E3 & E4 & E5).
          exists (CStart id inst :: cs). cbn [app length fold_left].
          five; try (subst; reflexivity); try lia.
          -- intro H; apply E3 in H; discriminate.
          -- cbn in E4. congruence.
          -- exact E5.
        * inversion Hd; subst; clear Hd. exists [CStart id inst]. cbn [app length fold_left].
          five; try reflexivity; try lia; try discriminate; try (cbn; assumption).
          unfold recv; rewrite Hdue, Ha; cbn.
          destruct pr; cbn; eexists _, _; repeat split; first [reflexivity | assumption].
      + (* CStop *)
        destruct (assoc id (streams s)) eqn:Es.
        * inversion Hd; subst; clear Hd. exists [CStop id]. cbn [app length fold_left].
          five; try reflexivity; try lia; try discriminate; try (cbn; assumption).
          unfold recv; rewrite Hdue, Hl, Es; cbn. split; [|split].
          -- unfold RCs; cbn. rewrite Hst. repeat split; auto.
          -- exact HSI0.
          -- reflexivity.
        * assert (HRC1 : RC (recv pr Q m (CStop id)) s).
          { unfold recv. rewrite Hdue, Hl, Es. unfold RC, RCs; cbn. repeat split; auto. }
          destruct (IH _ _ _ _ _ _ _ _ _ HRC1 HSI0 Hif Hd) as (cs & E1 & E2 & E3 & E4 & E5).
          exists (CStop id :: cs). cbn [app length fold_left].
          five; try (subst; reflexivity); try lia.
          -- intro H; apply E3 in H; discriminate.
          -- exact E4.
          -- exact E5.
      + (* CTerminate *)
        inversion Hd; subst; clear Hd. exists [CTerminate]. cbn [app length fold_left].
        five; try reflexivity; try lia; try discriminate; try (cbn; assumption).
        left. unfold recv; rewrite Hdue; cbn. auto.
      + (* CPing *)
        inversion Hd; subst; clear Hd. exists [CPing]. cbn [app length fold_left].
        five; try reflexivity; try lia; try discriminate; try (cbn; assumption).
        unfold recv; rewrite Hdue; cbn. split; [|split].
        -- unfold RC, RCs; cbn. repeat split; auto.
        -- exact HSI0.
        -- reflexivity.
      + (* CPong *)
        assert (HRC1 : RC (recv pr Q m CPong) s).
        { unfold recv. rewrite Hdue. unfold RC, RCs; cbn. repeat split; auto. }
        destruct (IH _ _ _ _ _ _ _ _ _ HRC1 HSI0 Hif Hd) as (cs & E1 & E2 & E3 & E4 & E5).
        exists (CPong :: cs). cbn [app length fold_left].
        five; try (subst; reflexivity); try lia.
        -- intro H; apply E3 in H; discriminate.
        -- exact E4.
        -- exact E5.
      + (* CBad *)
        inversion Hd; subst; clear Hd. exists [CBad]. cbn [app length fold_left].
        five; try reflexivity; try lia; try discriminate; try (cbn; assumption); auto.
        unfold recv; rewrite Hdue; cbn.
        destruct pr; cbn; eexists _, _; repeat split; first [reflexivity | assumption].
      + (* CEof *)
        inversion Hd; subst; clear Hd. exists []. cbn [app length fold_left].
        five; try reflexivity; try lia; auto.
        right. split; [exact HRC0|]. split; [exact HSI0|]. split; [reflexivity|]. eauto.
  Qed.
  Definition Rel (m : mon) (s : srv) (e : env) : Prop :=
    RC m s /\ SI s /\ m_inbox m = inbox e /\ m_chans m = chans e /\ m_next m = next_inst e /\
    m_initdone m = idone s /\ (m_initdone m = false -> m_init_ans m = hd_error (init_q e)) /\
    (existsb negb (ping_q e) = true -> m_pingfail m = true) /\
    (timer_fired e = true -> m_timer m = true) /\ m_closed m = false /\ m_fin m = false.

  Definition Post (m' : mon) (s' : srv) (e' : env) (r : pres) : Prop :=
    m_fin m' = false /\ r <> REnd /\ m_closed m' = closed s' /\ (closed s' = false -> Rel m' s' e').

  Ltac post tac :=
    unfold Post; cbn;
    split; [first [assumption | reflexivity | congruence]
           |split; [discriminate
                   |split; [first [assumption | reflexivity | congruence] | tac]]].

  Lemma streams_sim m s e k c s' e' k' r :
    Rel m s e -> poll_streams pr s e k c = (s', e', k', r) ->
    k' = k /\ exists m', normal pr m r = Some m' /\ Post m' s' e' r.
  Proof.
    intros HR Hp. pose proof HR as HR0. unfold poll_streams in Hp.
    destruct HR as (HRC & HSI & Hib & Hch & Hnx & Hid & Hans & Hpg & Htm & Hcl & Hfin).
    pose proof HRC as (Ha & Hl & Hst & Hdue & Hov & Hin & Hcs).
    assert (Pend : forall s1 e1 k1 r1, (s, e, k, RPending) = (s1, e1, k1, r1) ->
                   k1 = k /\ exists m', normal pr m r1 = Some m' /\ Post m' s1 e1 r1).
    { intros s1 e1 k1 r1 E. inversion E; subst. split; [reflexivity|]. exists m. cbn.
      split; [reflexivity|]. post ltac:(intros _; assumption). }
    destruct (pick pr (chans e) (streams s) c) as [id|]; [|apply Pend; exact Hp].
    destruct (assoc id (streams s)) as [i|] eqn:Ei; [|apply Pend; exact Hp].
    destruct (assoc i (chans e)) as [[[|n b] en]|] eqn:Ec; [destruct en| |]; try (apply Pend; exact Hp).
    - (* the source stream ended: complete *)
      inversion Hp; subst; clear Hp. split; [reflexivity|].
      unfold normal. rewrite Hst. cbn [mem]. rewrite Hl, Ei, Hch, Ec.
      eexists; split; [reflexivity|]. post idtac.
      intros _. unfold Rel, RC, RCs; cbn. rewrite Hl. repeat split; auto.
    - (* an item *)
      inversion Hp; subst; clear Hp. split; [reflexivity|].
      assert (E : normal pr m (RMsg (data_msg pr id i n)) =
                  Some (mkMon (m_inbox m) (insert i (b, en) (m_chans m)) (m_next m) (m_init_ans m) (m_pingfail m)
                              (m_timer m) false false (m_inits m) (m_initdone m) (m_acked m) (m_live m)
                              (m_stopped m) None false (m_quirk m))).
      { unfold normal, data_msg. destruct pr; rewrite Hl, Ei, Hch, Ec, !N.eqb_refl; reflexivity. }
      eexists; split; [exact E|]. post idtac.
      intros _. unfold Rel, RC, RCs; cbn. rewrite Hch. repeat split; auto.
  Qed.

  Lemma futs_sim m s e k c s' e' k' r :
    Rel m s e -> poll_futs pr s e k c = (s', e', k', r) ->
    k' = k /\ exists m', normal pr m r = Some m' /\ Post m' s' e' r.
  Proof.
    intros HR Hp. pose proof HR as HR0. unfold poll_futs in Hp.
    destruct HR as (HRC & HSI & Hib & Hch & Hnx & Hid & Hans & Hpg & Htm & Hcl & Hfin).
    pose proof HRC as (Ha & Hl & Hst & Hdue & Hov & Hin & Hcs).
    pose proof HSI as (HS1 & HS2).
    assert (Pend : forall s1 e1 k1 r1, (s, e, k, RPending) = (s1, e1, k1, r1) ->
                   k1 = k /\ exists m', normal pr m r1 = Some m' /\ Post m' s1 e1 r1).
    { intros s1 e1 k1 r1 E. inversion E; subst. split; [reflexivity|]. exists m. cbn.
      split; [reflexivity|]. post ltac:(intros _; assumption). }
    destruct (init_fut s) eqn:Ef.
    - (* the init future is polled *)
      assert (Eo : on_init s = false) by auto.
      assert (Eack : acked s = false).
      { destruct (acked s) eqn:E; [|reflexivity]. destruct (HS2 eq_refl) as [_ F]. congruence. }
      assert (Eid : m_initdone m = false) by (rewrite Hid; unfold idone; rewrite Ef, Eo; reflexivity).
      specialize (Hans Eid).
      destruct (init_q e) as [|[|] qq] eqn:Eq; [apply Pend; exact Hp| |].
      + inversion Hp; subst; clear Hp. split; [reflexivity|].
        unfold normal. rewrite Hin, Eo, Eid, Ha, Eack, Hans. cbn.
        eexists; split; [reflexivity|]. post idtac.
        intros _. unfold Rel, RC, RCs, SI, idone; cbn. rewrite Eo. repeat split; auto; try discriminate.
      + inversion Hp; subst; clear Hp. split; [reflexivity|].
        unfold normal, fail_msg, init_rejected. destruct pr; rewrite Hin, Eo, Eid, Hans; cbn.
        * rewrite Bool.orb_true_r. eexists; split; [reflexivity|]. post discriminate.
        * rewrite Bool.orb_true_r. eexists; split; [reflexivity|]. post discriminate.
    - destruct (ping_fut s) eqn:Epf; [|eapply streams_sim; eauto].
      destruct (ping_q e) as [|[|] qq] eqn:Eq; [apply Pend; exact Hp| |].
      + inversion Hp; subst; clear Hp. split; [reflexivity|].
        exists m. cbn. split; [reflexivity|]. post idtac.
        intros _. unfold Rel, RC, RCs, SI, idone; cbn. rewrite Ef. repeat split; auto.
        * rewrite Hid; unfold idone; rewrite Ef; reflexivity.
        * intro H. apply Hpg. cbn. exact H.
      + inversion Hp; subst; clear Hp. split; [reflexivity|].
        assert (Hpf : m_pingfail m = true) by (apply Hpg; reflexivity).
        unfold normal, fail_msg. destruct pr; rewrite Hpf; cbn.
        * rewrite !Bool.orb_true_r. eexists; split; [reflexivity|]. post discriminate.
        * rewrite !Bool.orb_true_r. eexists; split; [reflexivity|]. post discriminate.
  Qed.
End Sim.

(* WsProofs.v — C25: the session model of Ws.v satisfies the protocol monitor
   for every sequence of events, polls and stream choices. *)
From AG Require Import Ws.
Open Scope N_scope.

Notation Q := quirks_today.

Lemma set_inbox_same m : set_inbox m (m_inbox m) = m.
Proof. destruct m; reflexivity. Qed.

(* ------------------------------------------------- fields recv leaves -- *)
Definition frame (m m' : mon) : Prop :=
  m_inbox m' = m_inbox m /\ m_chans m' = m_chans m /\ m_next m' = m_next m /\
  m_init_ans m' = m_init_ans m /\ m_pingfail m' = m_pingfail m /\ m_timer m' = m_timer m /\
  m_fin m' = m_fin m /\ m_closed m' = m_closed m /\ m_initdone m' = m_initdone m /\
  m_acked m' = m_acked m.

Lemma frame_refl m : frame m m.
Proof. unfold frame; tauto. Qed.

Lemma frame_trans a b c : frame a b -> frame b c -> frame a c.
Proof. unfold frame; intros; intuition congruence. Qed.

Ltac five := split; [|split; [|split; [|split]]].

Ltac split_match :=
  repeat match goal with
         | |- context [match ?x with _ => _ end] => destruct x eqn:?
         end.

Lemma recv_frame pr q m c : frame m (recv pr q m c).
Proof. unfold recv, frame. split_match; cbn; tauto. Qed.

Lemma fold_recv_frame pr q cs : forall m, frame m (fold_left (recv pr q) cs m).
Proof.
  induction cs as [|c cs IH]; intro m; cbn [fold_left]; [apply frame_refl|].
  eapply frame_trans; [apply recv_frame | apply IH].
Qed.

Lemma firstn_len_app {A} (a b : list A) : firstn (length a) (a ++ b) = a.
Proof. induction a; cbn; congruence. Qed.
Lemma skipn_len_app {A} (a b : list A) : skipn (length a) (a ++ b) = b.
Proof. induction a; cbn; congruence. Qed.
Lemma ltb_len_app {A} (a b : list A) : Nat.ltb (length (a ++ b)) (length a) = false.
Proof. apply Nat.ltb_ge. rewrite app_length. lia. Qed.

(* ------------------------------------------------------- simulation -- *)
Section Sim.
  Variable pr : proto.
  Variable ka : bool.

  (* monitor state vs. server state, the part the frame loop touches *)
  Definition RCs (m : mon) (s : srv) (st : list name) : Prop :=
    m_acked m = acked s /\ m_live m = streams s /\ m_stopped m = st /\ m_due m = None /\
    m_overrun m = false /\ m_inits m = negb (on_init s) /\ closed s = false.
  Definition RC m s := RCs m s [].

  Definition SI (s : srv) : Prop :=
    (init_fut s = true -> on_init s = false) /\
    (acked s = true -> on_init s = false /\ init_fut s = false).

  Definition idone (s : srv) : bool := negb (on_init s) && negb (init_fut s).

  Lemma close_bad r : r = RMsg (OClose 1002) -> exists d, close_class pr Q KBad r = Some d.
  Proof. intros ->. destruct pr; cbn; eauto. Qed.

  Lemma drain_sim : forall inb s tf k m s' tf' inb' k' early,
    RC m s -> SI s -> init_fut s = false ->
    drain pr s tf inb k = (s', tf', inb', k', early) ->
    exists cs, inb = cs ++ inb' /\ k' = (k + length cs)%nat /\ (tf' = true -> tf = true) /\
      let m' := fold_left (recv pr Q) cs m in
      acked s' = acked s /\
      match early with
      | None => RC m' s' /\ SI s' /\ idone s' = idone s
      | Some RPending => False
      | Some REnd =>
          (m_due m' = Some KTerm /\ m_overrun m' = false /\ closed s' = true) \/
          (RC m' s' /\ SI s' /\ idone s' = idone s /\ exists t, inb' = CEof :: t)
      | Some (RMsg (OComplete id)) => RCs m' s' [id] /\ SI s' /\ idone s' = idone s
      | Some (RMsg o) =>
          exists c d, m_due m' = Some c /\ m_overrun m' = false /\
                      close_class pr Q c (RMsg o) = Some d /\ closed s' = true
      end.
  Proof.
    induction inb as [|c inb IH]; intros s tf k m s' tf' inb' k' early HRC HSI Hif Hd.
    - cbn in Hd. inversion Hd; subst. exists []. cbn. five; auto; try lia.
    - pose proof HRC as HRC0. pose proof HSI as HSI0.
      destruct HRC as (Ha & Hl & Hst & Hdue & Hov & Hin & Hcl).
      destruct HSI as (HS1 & HS2).
      destruct c; cbn [drain] in Hd.
      + (* CInit *)
        destruct (on_init s) eqn:Eo.
        * inversion Hd; subst; clear Hd. exists [CInit]. cbn [app length fold_left].
          five; try reflexivity; try lia; try discriminate; try (cbn; assumption).
          unfold recv; rewrite Hdue, Hin; cbn. split; [|split].
          -- unfold RC, RCs; cbn. repeat split; auto.
          -- unfold SI; cbn. split; [auto|]. intro Hk. destruct (HS2 Hk) as [E _]. congruence.
          -- unfold idone; cbn. rewrite Eo, Hif. reflexivity.
        * inversion Hd; subst; clear Hd. exists [CInit]. cbn [app length fold_left].
          five; try reflexivity; try lia; try discriminate; try (cbn; assumption).
          unfold recv; rewrite Hdue, Hin; cbn.
          destruct pr; cbn; eexists _, _; repeat split; first [reflexivity | assumption].
      + (* CStart *)
        destruct (acked s) eqn:Ea.
        * assert (HRC1 : RC (recv pr Q m (CStart id inst)) (set_streams s (insert id inst (streams s)))).
          { unfold recv. rewrite Hdue, Ha. cbn [negb].
            unfold RC, RCs. destruct (assoc id (m_live m)); [destruct pr|]; cbn; rewrite Hl; repeat split; auto. }
          assert (HSI1 : SI (set_streams s (insert id inst (streams s)))) by exact HSI0.
          destruct (IH _ _ _ _ _ _ _ _ _ HRC1 HSI1 Hif Hd) as (cs & E1 & E2 & E3 & E4 & E5).
          exists (CStart id inst :: cs). cbn [app length fold_left].
          five; try (subst; reflexivity); try lia.
          -- intro H; apply E3 in H; discriminate.
          -- cbn in E4. congruence.
          -- exact E5.
        * inversion Hd; subst; clear Hd. exists [CStart id inst]. cbn [app length fold_left].
          five; try reflexivity; try lia; try discriminate; try (cbn; assumption).
          unfold recv; rewrite Hdue, Ha; cbn.
          destruct pr; cbn; eexists _, _; repeat split; first [reflexivity | assumption].
      + (* CStop *)
        destruct (assoc id (streams s)) eqn:Es.
        * inversion Hd; subst; clear Hd. exists [CStop id]. cbn [app length fold_left].
          five; try reflexivity; try lia; try discriminate; try (cbn; assumption).
          unfold recv; rewrite Hdue, Hl, Es; cbn. split; [|split].
          -- unfold RCs; cbn. rewrite Hst. repeat split; auto.
          -- exact HSI0.
          -- reflexivity.
        * assert (HRC1 : RC (recv pr Q m (CStop id)) s).
          { unfold recv. rewrite Hdue, Hl, Es. unfold RC, RCs; cbn. repeat split; auto. }
          destruct (IH _ _ _ _ _ _ _ _ _ HRC1 HSI0 Hif Hd) as (cs & E1 & E2 & E3 & E4 & E5).
          exists (CStop id :: cs). cbn [app length fold_left].
          five; try (subst; reflexivity); try lia.
          -- intro H; apply E3 in H; discriminate.
          -- exact E4.
          -- exact E5.
      + (* CTerminate *)
        inversion Hd; subst; clear Hd. exists [CTerminate]. cbn [app length fold_left].
        five; try reflexivity; try lia; try discriminate; try (cbn; assumption).
        left. unfold recv; rewrite Hdue; cbn. auto.
      + (* CPing *)
        inversion Hd; subst; clear Hd. exists [CPing]. cbn [app length fold_left].
        five; try reflexivity; try lia; try discriminate; try (cbn; assumption).
        unfold recv; rewrite Hdue; cbn. split; [|split].
        -- unfold RC, RCs; cbn. repeat split; auto.
        -- exact HSI0.
        -- reflexivity.
      + (* CPong *)
        assert (HRC1 : RC (recv pr Q m CPong) s).
        { unfold recv. rewrite Hdue. unfold RC, RCs; cbn. repeat split; auto. }
        destruct (IH _ _ _ _ _ _ _ _ _ HRC1 HSI0 Hif Hd) as (cs & E1 & E2 & E3 & E4 & E5).
        exists (CPong :: cs). cbn [app length fold_left].
        five; try (subst; reflexivity); try lia.
        -- intro H; apply E3 in H; discriminate.
        -- exact E4.
        -- exact E5.
      + (* CBad *)
        inversion Hd; subst; clear Hd. exists [CBad]. cbn [app length fold_left].
        five; try reflexivity; try lia; try discriminate; try (cbn; assumption); auto.
        unfold recv; rewrite Hdue; cbn.
        destruct pr; cbn; eexists _, _; repeat split; first [reflexivity | assumption].
      + (* CEof *)
        inversion Hd; subst; clear Hd. exists []. cbn [app length fold_left].
        five; try reflexivity; try lia; auto.
        right. split; [exact HRC0|]. split; [exact HSI0|]. split; [reflexivity|]. eauto.
  Qed.
  Definition Rel (m : mon) (s : srv) (e : env) : Prop :=
    RC m s /\ SI s /\ m_inbox m = inbox e /\ m_chans m = chans e /\ m_next m = next_inst e /\
    m_initdone m = idone s /\ (m_initdone m = false -> m_init_ans m = hd_error (init_q e)) /\
    (existsb negb (ping_q e) = true -> m_pingfail m = true) /\
    (timer_fired e = true -> m_timer m = true) /\ m_closed m = false /\ m_fin m = false.

  Definition Post (m' : mon) (s' : srv) (e' : env) (r : pres) : Prop :=
    m_fin m' = false /\ r <> REnd /\ m_closed m' = closed s' /\ (closed s' = false -> Rel m' s' e').

  Ltac post tac :=
    unfold Post; cbn;
    split; [first [assumption | reflexivity | congruence]
           |split; [discriminate
                   |split; [first [assumption | reflexivity | congruence] | tac]]].

  Ltac rel_split :=
    unfold Rel;
    split; [unfold RC, RCs; cbn; repeat split; auto
           |split; [|split; [|split; [|split; [|split; [|split; [|split; [|split; [|split]]]]]]]]];
    cbn; try assumption; auto; try (intro; discriminate);
    try (unfold SI; cbn; split; intros; try discriminate; repeat split; auto; fail).

  Lemma streams_sim m s e k c s' e' k' r :
    Rel m s e -> poll_streams pr s e k c = (s', e', k', r) ->
    k' = k /\ exists m', normal pr m r = Some m' /\ Post m' s' e' r.
  Proof.
    intros HR Hp. pose proof HR as HR0. unfold poll_streams in Hp.
    destruct HR as (HRC & HSI & Hib & Hch & Hnx & Hid & Hans & Hpg & Htm & Hcl & Hfin).
    pose proof HRC as (Ha & Hl & Hst & Hdue & Hov & Hin & Hcs).
    assert (Pend : forall s1 e1 k1 r1, (s, e, k, RPending) = (s1, e1, k1, r1) ->
                   k1 = k /\ exists m', normal pr m r1 = Some m' /\ Post m' s1 e1 r1).
    { intros s1 e1 k1 r1 E. inversion E; subst. split; [reflexivity|]. exists m. cbn.
      split; [reflexivity|]. post ltac:(intros _; assumption). }
    destruct (pick (chans e) (streams s) c) as [id|]; [|apply Pend; exact Hp].
    destruct (assoc id (streams s)) as [i|] eqn:Ei; [|apply Pend; exact Hp].
    destruct (assoc i (chans e)) as [[[|n b] en]|] eqn:Ec; [destruct en| |]; try (apply Pend; exact Hp).
    - (* the source stream ended: complete *)
      inversion Hp; subst; clear Hp. split; [reflexivity|].
      unfold normal. rewrite Hst. cbn [mem]. rewrite Hl, Ei, Hch, Ec.
      eexists; split; [reflexivity|]. post idtac.
      intros _. rel_split.
    - (* an item *)
      inversion Hp; subst; clear Hp. split; [reflexivity|].
      assert (E : normal pr m (RMsg (data_msg pr id i n)) =
                  Some (mkMon (m_inbox m) (insert i (b, en) (m_chans m)) (m_next m) (m_init_ans m) (m_pingfail m)
                              (m_timer m) false false (m_inits m) (m_initdone m) (m_acked m) (m_live m)
                              (m_stopped m) None false (m_quirk m))).
      { unfold normal, data_msg. destruct pr; rewrite Hl, Ei, Hch, Ec, !N.eqb_refl; reflexivity. }
      eexists; split; [exact E|]. post idtac.
      intros _. rel_split. congruence.
  Qed.

  Lemma futs_sim m s e k c s' e' k' r :
    Rel m s e -> poll_futs pr s e k c = (s', e', k', r) ->
    k' = k /\ exists m', normal pr m r = Some m' /\ Post m' s' e' r.
  Proof.
    intros HR Hp. pose proof HR as HR0. unfold poll_futs in Hp.
    destruct HR as (HRC & HSI & Hib & Hch & Hnx & Hid & Hans & Hpg & Htm & Hcl & Hfin).
    pose proof HRC as (Ha & Hl & Hst & Hdue & Hov & Hin & Hcs).
    pose proof HSI as (HS1 & HS2).
    assert (Pend : forall s1 e1 k1 r1, (s, e, k, RPending) = (s1, e1, k1, r1) ->
                   k1 = k /\ exists m', normal pr m r1 = Some m' /\ Post m' s1 e1 r1).
    { intros s1 e1 k1 r1 E. inversion E; subst. split; [reflexivity|]. exists m. cbn.
      split; [reflexivity|]. post ltac:(intros _; assumption). }
    destruct (init_fut s) eqn:Ef.
    - (* the init future is polled *)
      assert (Eo : on_init s = false) by auto.
      assert (Eack : acked s = false).
      { destruct (acked s) eqn:E; [|reflexivity]. destruct (HS2 eq_refl) as [_ F]. congruence. }
      assert (Eid : m_initdone m = false) by (rewrite Hid; unfold idone; rewrite Ef, Eo; reflexivity).
      specialize (Hans Eid).
      destruct (init_q e) as [|[|] qq] eqn:Eq; [apply Pend; exact Hp| |].
      + inversion Hp; subst; clear Hp. split; [reflexivity|].
        unfold normal. rewrite Hin, Eo, Eid, Ha, Eack, Hans. cbn.
        eexists; split; [reflexivity|]. post idtac.
        intros _. rel_split.
      + inversion Hp; subst; clear Hp. split; [reflexivity|].
        unfold normal, fail_msg, init_rejected. destruct pr; rewrite Hin, Eo, Eid, Hans; cbn.
        * rewrite ?Bool.orb_true_r; cbn. eexists; split; [reflexivity|]. post discriminate.
        * rewrite ?Bool.orb_true_r; cbn. eexists; split; [reflexivity|]. post discriminate.
    - destruct (ping_fut s) eqn:Epf; [|eapply streams_sim; eauto].
      destruct (ping_q e) as [|[|] qq] eqn:Eq; [apply Pend; exact Hp| |].
      + inversion Hp; subst; clear Hp. split; [reflexivity|].
        exists m. cbn. split; [reflexivity|]. post idtac.
        intros _. rel_split.
        * unfold SI; cbn. split; [discriminate|]. intro Hk. destruct (HS2 Hk). auto.
        * rewrite Hid; unfold idone; rewrite Ef; reflexivity.
      + inversion Hp; subst; clear Hp. split; [reflexivity|].
        assert (Hpf : m_pingfail m = true) by (apply Hpg; reflexivity).
        unfold normal, fail_msg. destruct pr; rewrite Hpf; cbn.
        * rewrite ?Bool.orb_true_r; cbn. eexists; split; [reflexivity|]. post discriminate.
        * rewrite ?Bool.orb_true_r; cbn. eexists; split; [reflexivity|]. post discriminate.
  Qed.
  Lemma mon_poll_zero m r :
    m_closed m = false -> m_overrun m = false -> m_due m = None ->
    mon_poll pr Q m 0 r = normal pr m r.
  Proof.
    intros H H0 H1. unfold mon_poll. rewrite H. cbn [length Nat.ltb Nat.leb firstn skipn fold_left].
    rewrite set_inbox_same, H0, H1. reflexivity.
  Qed.

  Definition Done (m' : mon) (s' : srv) (e' : env) (r : pres) : Prop :=
    m_fin m' = match r with REnd => true | _ => false end /\
    (r <> REnd -> m_closed m' = closed s' /\ (closed s' = false -> Rel m' s' e')).

  Lemma post_done m' s' e' r : Post m' s' e' r -> Done m' s' e' r.
  Proof.
    intros (H1 & H2 & H3 & H4). split.
    - destruct r; congruence.
    - intros _. split; assumption.
  Qed.

  Lemma poll_sim m s e c s' e' k r :
    Rel m s e -> poll pr ka s e c = (s', e', k, r) ->
    exists m', mon_poll pr Q m k r = Some m' /\ Done m' s' e' r.
  Proof.
    intros HR Hp. pose proof HR as HR0. unfold poll in Hp.
    destruct HR as (HRC & HSI & Hib & Hch & Hnx & Hid & Hans & Hpg & Htm & Hcl & Hfin).
    pose proof HRC as (Ha & Hl & Hst & Hdue & Hov & Hin & Hcs).
    rewrite Hcs in Hp.
    destruct (ka && timer_fired e) eqn:Et.
    - (* keep-alive expired *)
      apply Bool.andb_true_iff in Et. destruct Et as [_ Et]. specialize (Htm Et).
      inversion Hp; subst; clear Hp. rewrite mon_poll_zero by assumption.
      unfold normal. destruct pr; rewrite Htm; cbn; eexists; (split; [reflexivity|]);
        unfold Done; cbn; (split; [reflexivity|]); intros _; (split; [reflexivity|discriminate]).
    - destruct (negb (init_fut s) && negb (ping_fut s)) eqn:En.
      + destruct (drain pr s (timer_fired e) (inbox e) 0) as [[[[s1 tf] inb] k1] early] eqn:Ed.
        assert (Hif : init_fut s = false).
        { apply Bool.andb_true_iff in En. destruct En as [En _]. destruct (init_fut s); [discriminate|reflexivity]. }
        assert (HRC' : RC (set_inbox m inb) s) by exact HRC.
        destruct (drain_sim _ _ _ _ _ _ _ _ _ _ HRC' HSI Hif Ed) as (cs & E1 & E2 & E3 & E4 & E5).
        cbn in E2. subst k1.
        pose proof (fold_recv_frame pr Q cs (set_inbox m inb)) as Hfr.
        remember (fold_left (recv pr Q) cs (set_inbox m inb)) as m1 eqn:Em1.
        destruct Hfr as (F1 & F2 & F3 & F4 & F5 & F6 & F7 & F8 & F9 & F10). cbn in F1, F2, F3, F4, F5, F6, F7, F8, F9, F10.
        assert (Emp : forall r0, mon_poll pr Q m (length cs) r0 =
                  if m_overrun m1 then None
                  else match m_due m1 with
                       | Some c0 =>
                           match close_class pr Q c0 r0 with
                           | Some d =>
                               Some (mkMon (m_inbox m1) (m_chans m1) (m_next m1) (m_init_ans m1) (m_pingfail m1) (m_timer m1)
                                           match r0 with REnd => true | _ => false end
                                           true (m_inits m1) (m_initdone m1) (m_acked m1) (m_live m1) (m_stopped m1) None false
                                           (if d =? 0 then m_quirk m1 else note (m_quirk m1) d))
                           | None => None
                           end
                       | None => normal pr m1 r0
                       end).
        { intro r0. unfold mon_poll. rewrite Hcl, Hib, E1, ltb_len_app, firstn_len_app, skipn_len_app, <- Em1. reflexivity. }
        assert (HRel1 : RC m1 s1 -> SI s1 -> idone s1 = idone s ->
                        Rel m1 s1 (mkEnv inb (init_q e) (ping_q e) (chans e) tf (next_inst e))).
        { intros R1 R2 R3. unfold Rel. cbn.
          split; [exact R1|]. split; [exact R2|]. split; [exact F1|]. split; [congruence|]. split; [congruence|].
          split; [congruence|]. split; [intro H; rewrite F4; apply Hans; congruence|].
          split; [intro H; rewrite F5; auto|]. split; [intro H; rewrite F6; auto|]. split; congruence. }
        destruct early as [r0|].
        * inversion Hp; subst s' e' k r; clear Hp. rewrite Emp.
          destruct r0 as [| |o].
          -- contradiction.
          -- destruct E5 as [(D1 & D2 & D3)|(D1 & D2 & D3 & t & D4)].
             ++ rewrite D2, D1. replace (close_class pr Q KTerm REnd) with (Some 0) by (destruct pr; reflexivity).
                eexists; split; [reflexivity|]. split; [reflexivity|]. intro H; contradiction.
             ++ pose proof D1 as (_ & _ & _ & G1 & G2 & _). rewrite G2, G1.
                unfold normal. rewrite F1, D4. eexists; split; [reflexivity|].
                split; [reflexivity|]. intro H; contradiction.
          -- destruct o; try (destruct E5 as (c0 & d & D1 & D2 & D3 & D4); rewrite D2, D1, D3;
                               eexists; (split; [reflexivity|]); (split; [reflexivity|]);
                               intros _; cbn; (split; [congruence|]); rewrite D4; discriminate).
             (* complete after a client stop *)
             destruct E5 as (D1 & D2 & D3). pose proof D1 as (G0 & G3 & G4 & G1 & G2 & G5 & G6).
             rewrite G2, G1. unfold normal. rewrite G4. cbn [mem]. rewrite name_eqb_refl.
             eexists; split; [reflexivity|]. split; [reflexivity|]. intros _. cbn [m_closed].
             split; [congruence|]. intros _. cbn [remove_first]. rewrite name_eqb_refl.
             unfold Rel. cbn.
             split; [unfold RC, RCs; cbn; repeat split; auto|]. split; [exact D2|]. split; [exact F1|].
             split; [congruence|]. split; [congruence|].
             split; [congruence|]. split; [intro H; rewrite F4; apply Hans; congruence|].
             split; [intro H; rewrite F5; auto|]. split; [intro H; rewrite F6; auto|]. split; congruence.
        * destruct E5 as (D1 & D2 & D3).
          destruct (futs_sim _ _ _ _ _ _ _ _ _ (HRel1 D1 D2 D3) Hp) as (Ek & m' & N1 & N2).
          subst k. rewrite Emp. pose proof D1 as (_ & _ & _ & G1 & G2 & _). rewrite G2, G1.
          exists m'. split; [exact N1|]. apply post_done; exact N2.
      + destruct (futs_sim _ _ _ _ _ _ _ _ _ HR0 Hp) as (Ek & m' & N1 & N2).
        subst k. rewrite mon_poll_zero by assumption.
        exists m'. split; [exact N1|]. apply post_done; exact N2.
  Qed.
  Lemma mon_env_flags m ev :
    m_fin (mon_env ka m ev) = m_fin m /\ m_closed (mon_env ka m ev) = m_closed m.
  Proof.
    destruct ev; cbn; try (split; reflexivity).
    destruct (push_client (m_inbox m) (m_chans m) (m_next m) m0) as [[a b] c]. cbn. split; reflexivity.
  Qed.

  Lemma env_sim m s e ev : Rel m s e -> Rel (mon_env ka m ev) s (env_step ka e ev).
  Proof.
    intros HR.
    destruct HR as (HRC & HSI & Hib & Hch & Hnx & Hid & Hans & Hpg & Htm & Hcl & Hfin).
    destruct ev; cbn.
    - rewrite Hib, Hch, Hnx.
      destruct (push_client (inbox e) (chans e) (next_inst e) m0) as [[a b] c].
      unfold Rel; cbn. repeat (split; [assumption || reflexivity|]). assumption.
    - unfold Rel; cbn. split; [exact HRC|]. split; [exact HSI|]. repeat (split; [assumption|]).
      split; [|repeat (split; [assumption|]); assumption].
      intro H. specialize (Hans H). rewrite Hans. destruct (init_q e); reflexivity.
    - unfold Rel; cbn. split; [exact HRC|]. split; [exact HSI|]. repeat (split; [assumption|]).
      split; [|repeat (split; [assumption|]); assumption].
      rewrite existsb_app. cbn. rewrite Bool.orb_false_r. intro H.
      apply Bool.orb_true_iff in H. destruct H as [H|H]; [rewrite (Hpg H); reflexivity|].
      rewrite H. apply Bool.orb_true_r.
    - unfold Rel; cbn. rewrite Hch. split; [exact HRC|]. split; [exact HSI|].
      repeat (split; [assumption || reflexivity|]). assumption.
    - unfold Rel; cbn. rewrite Hch. split; [exact HRC|]. split; [exact HSI|].
      repeat (split; [assumption || reflexivity|]). assumption.
    - unfold Rel; cbn. split; [exact HRC|]. split; [exact HSI|]. repeat (split; [assumption|]).
      split; [|split; assumption].
      intro H. apply Bool.orb_true_iff in H. destruct H as [H|H]; [rewrite H; apply Bool.orb_true_r|].
      rewrite (Htm H). reflexivity.
  Qed.

  Definition Inv (m : mon) (y : sys) : Prop :=
    m_fin m = fin y /\
    (fin y = false -> m_closed m = closed (sv y) /\ (closed (sv y) = false -> Rel m (sv y) (en y))).

  Lemma step_sim m y a :
    Inv m y -> exists m', mon_step pr ka Q m a (snd (act pr ka y a)) = Some m' /\ Inv m' (fst (act pr ka y a)).
  Proof.
    intros (Hf & Hc). destruct a as [ev|c]; cbn [act].
    - cbn. eexists; split; [reflexivity|]. destruct (mon_env_flags m ev) as [F1 F2].
      split; cbn; [congruence|]. intro H. destruct (Hc H) as [C1 C2]. split; [congruence|].
      intro H2. apply env_sim. auto.
    - destruct (fin y) eqn:Ef.
      + cbn. rewrite Hf. eexists; split; [reflexivity|]. split; [congruence|]. intro H; congruence.
      + destruct (Hc eq_refl) as [C1 C2].
        destruct (poll pr ka (sv y) (en y) c) as [[[s e] k] r] eqn:Ep. cbn [fst snd mon_step]. rewrite Hf.
        destruct (closed (sv y)) eqn:Ec.
        * unfold poll in Ep. rewrite Ec in Ep. inversion Ep; subst. unfold mon_poll. rewrite C1.
          eexists; split; [reflexivity|]. split; [reflexivity|]. cbn. discriminate.
        * destruct (poll_sim _ _ _ _ _ _ _ _ (C2 eq_refl) Ep) as (m' & P1 & P2 & P3).
          exists m'. split; [exact P1|]. split; [exact P2|]. cbn.
          intro H. apply P3. intro E; subst r; discriminate.
  Qed.

  Lemma conforms_gen : forall acts m y,
    Inv m y -> exists m', mon_run pr ka Q m acts (run pr ka y acts) = Some m'.
  Proof.
    induction acts as [|a acts IH]; intros m y HI; cbn [run mon_run]; [eauto|].
    destruct (step_sim m y a HI) as (m1 & S1 & S2).
    destruct (act pr ka y a) as [y' o]. cbn [fst snd] in S1, S2. cbn [mon_run]. rewrite S1.
    apply IH. exact S2.
  Qed.

  Lemma inv0 : Inv mon0 sys0.
  Proof.
    unfold Inv, mon0, sys0; cbn. split; [reflexivity|]. intros _. split; [reflexivity|]. intros _.
    unfold Rel, RC, RCs, SI, idone; cbn. repeat split; auto; discriminate.
  Qed.

  Theorem conforms : forall acts, accepts pr ka Q acts (run pr ka sys0 acts) = true.
  Proof.
    intro acts. unfold accepts. destruct (conforms_gen acts mon0 sys0 inv0) as (m' & H). rewrite H. reflexivity.
  Qed.
End Sim.

(* ------------------------------------- strict monitor outside the classes -- *)
Lemma note_nz old k : old <> 0 -> note old k = old.
Proof. intro H. unfold note. destruct (old =? 0) eqn:E; [apply N.eqb_eq in E; contradiction|reflexivity]. Qed.

Lemma note_pos old k : k <> 0 -> note old k <> 0.
Proof. intro H. unfold note. destruct (old =? 0) eqn:E; [exact H|]. apply N.eqb_neq in E. exact E. Qed.

Lemma recv_quirk_mono pr q m c : m_quirk m <> 0 -> m_quirk (recv pr q m c) <> 0.
Proof.
  intro H. unfold recv. split_match; cbn; try assumption. apply note_pos. discriminate.
Qed.

Lemma fold_quirk_mono pr q cs : forall m, m_quirk m <> 0 -> m_quirk (fold_left (recv pr q) cs m) <> 0.
Proof.
  induction cs as [|c cs IH]; intros m H; cbn [fold_left]; [exact H|].
  apply IH. apply recv_quirk_mono. exact H.
Qed.

Lemma recv_strict pr m c :
  m_quirk (recv pr Q m c) = 0 -> recv pr quirks_none m c = recv pr Q m c.
Proof.
  unfold recv. destruct (m_due m); [reflexivity|]. destruct c; try reflexivity.
  destruct (negb (m_acked m)); [reflexivity|]. destruct (assoc id (m_live m)); [|reflexivity].
  destruct pr; [reflexivity|]. cbn. intro H. exfalso. revert H. apply note_pos. discriminate.
Qed.

Lemma fold_strict pr cs : forall m,
  m_quirk (fold_left (recv pr Q) cs m) = 0 ->
  fold_left (recv pr quirks_none) cs m = fold_left (recv pr Q) cs m.
Proof.
  induction cs as [|c cs IH]; intros m H; cbn [fold_left] in *; [reflexivity|].
  assert (H1 : m_quirk (recv pr Q m c) = 0).
  { destruct (N.eq_dec (m_quirk (recv pr Q m c)) 0) as [E|E]; [exact E|].
    exfalso. exact (fold_quirk_mono pr Q cs _ E H). }
  rewrite (recv_strict pr m c H1). apply IH. exact H.
Qed.

Lemma normal_quirk pr m r m' : normal pr m r = Some m' -> m_quirk m' = m_quirk m.
Proof.
  unfold normal. intro H. destruct r as [| |o]; [| |destruct o]; revert H; split_match; intro H;
    inversion H; subst; reflexivity.
Qed.

Lemma close_class_strict pr c r d :
  close_class pr Q c r = Some d -> d = 0 -> close_class pr quirks_none c r = Some 0.
Proof.
  intros H ->. revert H. unfold close_class. destruct pr, c, r as [| |o]; try destruct o; cbn; try congruence;
    split_match; cbn in *; congruence.
Qed.

Lemma mon_poll_strict pr m k r m' :
  mon_poll pr Q m k r = Some m' -> m_quirk m' = 0 -> mon_poll pr quirks_none m k r = Some m'.
Proof.
  unfold mon_poll. destruct (m_closed m); [auto|].
  destruct (Nat.ltb (length (m_inbox m)) k); [auto|].
  set (mi := set_inbox m (skipn k (m_inbox m))). set (cs := firstn k (m_inbox m)).
  intros H Hq.
  assert (H1 : m_quirk (fold_left (recv pr Q) cs mi) = 0).
  { destruct (m_overrun (fold_left (recv pr Q) cs mi)); [discriminate|].
    destruct (m_due (fold_left (recv pr Q) cs mi)) as [c0|].
    - destruct (close_class pr Q c0 r) as [d|]; [|discriminate]. inversion H; subst; clear H. cbn in Hq.
      destruct (d =? 0) eqn:Ed; [exact Hq|]. exfalso. revert Hq. apply note_pos. apply N.eqb_neq. exact Ed.
    - rewrite <- (normal_quirk _ _ _ _ H). exact Hq. }
  rewrite (fold_strict pr cs mi H1).
  destruct (m_overrun (fold_left (recv pr Q) cs mi)); [discriminate|].
  destruct (m_due (fold_left (recv pr Q) cs mi)) as [c0|]; [|exact H].
  destruct (close_class pr Q c0 r) as [d|] eqn:Ec; [|discriminate].
  assert (Ed : d = 0).
  { inversion H; subst; clear H. cbn in Hq. destruct (d =? 0) eqn:Ed; [apply N.eqb_eq; exact Ed|].
    exfalso. revert Hq. apply note_pos. apply N.eqb_neq. exact Ed. }
  rewrite (close_class_strict _ _ _ _ Ec Ed). subst d. exact H.
Qed.

Lemma mon_env_quirk ka m ev : m_quirk (mon_env ka m ev) = m_quirk m.
Proof.
  destruct ev; cbn; try reflexivity.
  destruct (push_client (m_inbox m) (m_chans m) (m_next m) m0) as [[a b] c]. reflexivity.
Qed.

Lemma mon_poll_quirk_mono pr q m k r m' :
  mon_poll pr q m k r = Some m' -> m_quirk m <> 0 -> m_quirk m' <> 0.
Proof.
  unfold mon_poll. destruct (m_closed m).
  - destruct k; [|discriminate]. destruct r; try discriminate. intro H; inversion H; subst. cbn. auto.
  - destruct (Nat.ltb (length (m_inbox m)) k); [discriminate|].
    set (mi := set_inbox m (skipn k (m_inbox m))). set (cs := firstn k (m_inbox m)).
    intros H Hq.
    assert (H1 : m_quirk (fold_left (recv pr q) cs mi) <> 0) by (apply fold_quirk_mono; exact Hq).
    destruct (m_overrun (fold_left (recv pr q) cs mi)); [discriminate|].
    destruct (m_due (fold_left (recv pr q) cs mi)) as [c0|].
    + destruct (close_class pr q c0 r) as [d|]; [|discriminate]. inversion H; subst; clear H. cbn.
      destruct (d =? 0); [exact H1|]. rewrite note_nz by exact H1. exact H1.
    + rewrite (normal_quirk _ _ _ _ H). exact H1.
Qed.

Lemma mon_step_quirk_mono pr ka q m a o m' :
  mon_step pr ka q m a o = Some m' -> m_quirk m <> 0 -> m_quirk m' <> 0.
Proof.
  unfold mon_step. destruct a, o; try discriminate.
  - intro H; inversion H; subst. rewrite mon_env_quirk. auto.
  - destruct (m_fin m); [discriminate|]. apply mon_poll_quirk_mono.
  - destruct (m_fin m); [|discriminate]. intro H; inversion H; subst; auto.
Qed.

Lemma mon_run_quirk_mono pr ka q : forall acts os m m',
  mon_run pr ka q m acts os = Some m' -> m_quirk m <> 0 -> m_quirk m' <> 0.
Proof.
  induction acts as [|a acts IH]; intros os m m' H Hq; destruct os as [|o os]; cbn in H; try discriminate.
  - inversion H; subst; exact Hq.
  - destruct (mon_step pr ka q m a o) as [m1|] eqn:E; [|discriminate].
    eapply IH; [exact H|]. eapply mon_step_quirk_mono; eauto.
Qed.

Lemma mon_run_strict pr ka : forall acts os m m',
  mon_run pr ka Q m acts os = Some m' -> m_quirk m' = 0 ->
  mon_run pr ka quirks_none m acts os = Some m'.
Proof.
  induction acts as [|a acts IH]; intros os m m' H Hq; destruct os as [|o os]; cbn in H |- *; try discriminate.
  - exact H.
  - destruct (mon_step pr ka Q m a o) as [m1|] eqn:E; [|discriminate].
    assert (H1 : m_quirk m1 = 0).
    { destruct (N.eq_dec (m_quirk m1) 0) as [E0|E0]; [exact E0|].
      exfalso. exact (mon_run_quirk_mono _ _ _ _ _ _ _ H E0 Hq). }
    assert (E' : mon_step pr ka quirks_none m a o = Some m1).
    { revert E. unfold mon_step. destruct a, o; auto.
      destruct (m_fin m); [auto|]. intro E. apply mon_poll_strict; assumption. }
    rewrite E'. apply IH; assumption.
Qed.

(* outside the known classes the session satisfies the protocols as written *)
Theorem strict_outside_known pr ka acts :
  known_class pr ka acts (run pr ka sys0 acts) = 0 ->
  accepts pr ka quirks_none acts (run pr ka sys0 acts) = true.
Proof.
  unfold known_class, accepts. intro H.
  destruct (conforms_gen pr ka acts mon0 sys0 inv0) as (m' & E).
  rewrite E in H. rewrite (mon_run_strict _ _ _ _ _ _ E H). reflexivity.
Qed.

(* --------------------------- what every accepted conversation satisfies -- *)
Lemma mon_run_app pr ka q : forall os1 acts os2 m m',
  mon_run pr ka q m acts (os1 ++ os2) = Some m' ->
  exists acts1 acts2 m1, acts = acts1 ++ acts2 /\
    mon_run pr ka q m acts1 os1 = Some m1 /\ mon_run pr ka q m1 acts2 os2 = Some m'.
Proof.
  induction os1 as [|o os1 IH]; intros acts os2 m m' H.
  - exists [], acts, m. repeat split; auto.
  - destruct acts as [|a acts]; cbn in H; [discriminate|].
    destruct (mon_step pr ka q m a o) as [m1|] eqn:E; [|discriminate].
    destruct (IH _ _ _ _ H) as (a1 & a2 & m2 & E1 & E2 & E3).
    exists (a :: a1), a2, m2. subst acts. cbn. rewrite E. auto.
Qed.

Definition terminal (r : pres) : bool :=
  match r with REnd => true | RMsg (OClose _) => true | RMsg (OConnErr _) => true | _ => false end.
Definition quiet (o : obs) : bool :=
  match o with ObsEnv => true | ObsSkip => true | ObsPoll O REnd => true | _ => false end.
Definition is_ack (o : obs) : bool :=
  match o with ObsPoll _ (RMsg OAck) => true | _ => false end.
Definition is_op (o : obs) : bool :=
  match o with
  | ObsPoll _ (RMsg (OData _ _ _)) | ObsPoll _ (RMsg (ONext _ _ _)) | ObsPoll _ (RMsg (OComplete _)) => true
  | _ => false
  end.

Lemma normal_terminal pr m r m' :
  normal pr m r = Some m' -> terminal r = true -> m_closed m' = true \/ m_fin m' = true.
Proof.
  unfold normal. intros H T. destruct r as [| |o]; [discriminate| |destruct o; try discriminate];
    revert H; split_match; intro H; inversion H; subst; cbn; auto.
Qed.

Lemma poll_terminal pr q m k r m' :
  mon_poll pr q m k r = Some m' -> terminal r = true -> m_closed m' = true \/ m_fin m' = true.
Proof.
  unfold mon_poll. destruct (m_closed m).
  - destruct k; [|discriminate]. destruct r; try discriminate. intro H; inversion H; subst; cbn; auto.
  - destruct (Nat.ltb (length (m_inbox m)) k); [discriminate|].
    destruct (m_overrun _); [discriminate|]. destruct (m_due _).
    + destruct (close_class pr q c r); [|discriminate]. intro H; inversion H; subst; cbn; auto.
    + apply normal_terminal.
Qed.

Lemma quiet_after pr ka q : forall acts os m m',
  mon_run pr ka q m acts os = Some m' -> m_closed m = true \/ m_fin m = true -> forallb quiet os = true.
Proof.
  induction acts as [|a acts IH]; intros os m m' H Hc; destruct os as [|o os]; cbn in H; try discriminate; [reflexivity|].
  destruct (mon_step pr ka q m a o) as [m1|] eqn:E; [|discriminate].
  cbn [forallb]. unfold mon_step in E. destruct a as [ev|c], o as [|k r|]; try discriminate.
  - inversion E; subst. cbn. apply (IH _ _ _ H). destruct (mon_env_flags ka m ev) as [F1 F2]. rewrite F1, F2. tauto.
  - destruct (m_fin m) eqn:Ef; [discriminate|]. destruct Hc as [Hc|Hc]; [|discriminate].
    unfold mon_poll in E. rewrite Hc in E. destruct k; [|discriminate]. destruct r; try discriminate.
    inversion E; subst. cbn. apply (IH _ _ _ H). cbn. auto.
  - destruct (m_fin m) eqn:Ef; [|discriminate]. inversion E; subst. cbn. apply (IH _ _ _ H). right; exact Ef.
Qed.

(* nothing is sent (and nothing is read) after a close frame, a
   connection_error or the end of the outgoing stream *)
Theorem silent_after_close pr ka acts pre k r post :
  run pr ka sys0 acts = pre ++ ObsPoll k r :: post -> terminal r = true -> forallb quiet post = true.
Proof.
  intros E T. destruct (conforms_gen pr ka acts mon0 sys0 inv0) as (m' & H). rewrite E in H.
  destruct (mon_run_app _ _ _ _ _ _ _ _ H) as (a1 & a2 & m1 & _ & _ & H2).
  destruct a2 as [|a a2]; cbn in H2; [discriminate|].
  destruct (mon_step pr ka Q m1 a (ObsPoll k r)) as [m2|] eqn:Es; [|discriminate].
  apply (quiet_after _ _ _ _ _ _ _ H2).
  unfold mon_step in Es. destruct a; [discriminate|]. destruct (m_fin m1); [discriminate|].
  eapply poll_terminal; eauto.
Qed.

(* ---- a single acknowledgement ---- *)
Lemma close_class_ack pr q c : close_class pr q c (RMsg OAck) = None.
Proof. destruct pr, c; reflexivity. Qed.

Lemma mon_env_acked ka m ev : m_acked (mon_env ka m ev) = m_acked m.
Proof.
  destruct ev; cbn; try reflexivity.
  destruct (push_client (m_inbox m) (m_chans m) (m_next m) m0) as [[a b] c]. reflexivity.
Qed.

Lemma normal_acked pr m r m' :
  normal pr m r = Some m' -> m_acked m = true -> m_acked m' = true /\ r <> RMsg OAck.
Proof.
  unfold normal. intros H A. rewrite A in H. cbn in H. rewrite ?Bool.andb_false_r in H. cbn in H.
  destruct r as [| |o]; [| |destruct o]; revert H; split_match; intro H; inversion H; subst; cbn;
    split; auto; discriminate.
Qed.

Lemma step_acked pr ka q m a o m' :
  mon_step pr ka q m a o = Some m' -> m_acked m = true -> m_acked m' = true /\ is_ack o = false.
Proof.
  unfold mon_step. destruct a as [ev|c], o as [|k r|]; try discriminate; intros H A.
  - inversion H; subst. rewrite mon_env_acked. auto.
  - destruct (m_fin m); [discriminate|]. unfold mon_poll in H. destruct (m_closed m).
    + destruct k; [|discriminate]. destruct r; try discriminate. inversion H; subst; cbn; auto.
    + destruct (Nat.ltb (length (m_inbox m)) k); [discriminate|].
      pose proof (fold_recv_frame pr q (firstn k (m_inbox m)) (set_inbox m (skipn k (m_inbox m)))) as F.
      destruct F as (_ & _ & _ & _ & _ & _ & _ & _ & _ & F). cbn in F. rewrite A in F.
      destruct (m_overrun _); [discriminate|]. destruct (m_due _).
      * destruct (close_class pr q c0 r) eqn:Ec; [|discriminate]. inversion H; subst; cbn. split; [exact F|].
        destruct r as [| |o]; try reflexivity. destruct o; try reflexivity. rewrite close_class_ack in Ec. discriminate.
      * destruct (normal_acked _ _ _ _ H F) as [N1 N2]. split; [exact N1|].
        destruct r as [| |o]; try reflexivity. destruct o; try reflexivity. congruence.
  - destruct (m_fin m); [|discriminate]. inversion H; subst. auto.
Qed.

Lemma normal_ack_sets pr m m' : normal pr m (RMsg OAck) = Some m' -> m_acked m' = true.
Proof. unfold normal. split_match; intro H; inversion H; subst; reflexivity. Qed.

Lemma step_ack_sets pr ka q m a o m' :
  mon_step pr ka q m a o = Some m' -> is_ack o = true -> m_acked m' = true.
Proof.
  unfold mon_step. destruct a as [ev|c], o as [|k r|]; try discriminate.
  destruct r as [| |o]; try discriminate. destruct o; try discriminate. intros H _.
  destruct (m_fin m); [discriminate|]. unfold mon_poll in H. destruct (m_closed m).
  - destruct k; discriminate.
  - destruct (Nat.ltb (length (m_inbox m)) k); [discriminate|].
    destruct (m_overrun _); [discriminate|]. destruct (m_due _).
    + rewrite close_class_ack in H. discriminate.
    + eapply normal_ack_sets; eauto.
Qed.

Lemma no_ack_after pr ka q : forall acts os m m',
  mon_run pr ka q m acts os = Some m' -> m_acked m = true -> existsb is_ack os = false.
Proof.
  induction acts as [|a acts IH]; intros os m m' H A; destruct os as [|o os]; cbn in H; try discriminate; [reflexivity|].
  destruct (mon_step pr ka q m a o) as [m1|] eqn:E; [|discriminate].
  destruct (step_acked _ _ _ _ _ _ _ E A) as [A1 A2]. cbn. rewrite A2. cbn. eapply IH; eauto.
Qed.

Lemma single_ack_post pr ka acts pre o post :
  run pr ka sys0 acts = pre ++ o :: post -> is_ack o = true -> existsb is_ack post = false.
Proof.
  intros E T. destruct (conforms_gen pr ka acts mon0 sys0 inv0) as (m' & H). rewrite E in H.
  destruct (mon_run_app _ _ _ _ _ _ _ _ H) as (a1 & a2 & m1 & _ & _ & H2).
  destruct a2 as [|a a2]; cbn in H2; [discriminate|].
  destruct (mon_step pr ka Q m1 a o) as [m2|] eqn:Es; [|discriminate].
  eapply no_ack_after; [exact H2|]. eapply step_ack_sets; eauto.
Qed.

(* connection_ack is sent at most once in a session *)
Theorem single_ack pr ka acts pre o post :
  run pr ka sys0 acts = pre ++ o :: post -> is_ack o = true ->
  existsb is_ack pre = false /\ existsb is_ack post = false.
Proof.
  intros E T. split; [|eapply single_ack_post; eauto].
  destruct (existsb is_ack pre) eqn:Ex; [|reflexivity]. exfalso.
  apply existsb_exists in Ex. destruct Ex as (o' & Hin & T').
  apply in_split in Hin. destruct Hin as (p1 & p2 & ->).
  rewrite <- app_assoc in E. cbn in E.
  pose proof (single_ack_post _ _ _ _ _ _ E T') as F.
  rewrite existsb_app in F. cbn in F. rewrite T in F. rewrite Bool.orb_true_r in F. discriminate.
Qed.

(* ---- no operation before the acknowledgement ---- *)
Definition Z (m : mon) : Prop := m_acked m = false /\ m_live m = [] /\ m_stopped m = [].

Lemma recv_Z pr q m c : Z m -> Z (recv pr q m c).
Proof.
  intros (A & L & S). unfold recv, Z. destruct (m_due m); [cbn; auto|].
  destruct c; cbn; rewrite ?A, ?L; cbn; auto. destruct (m_inits m); cbn; auto.
Qed.

Lemma fold_Z pr q cs : forall m, Z m -> Z (fold_left (recv pr q) cs m).
Proof. induction cs; intros m H; cbn [fold_left]; auto using recv_Z. Qed.

Lemma close_class_op pr q c k r : is_op (ObsPoll k r) = true -> close_class pr q c r = None.
Proof. destruct r as [| |o]; try discriminate. destruct o; try discriminate; intros _; destruct pr, c; reflexivity. Qed.

Lemma normal_Z pr m r m' k :
  normal pr m r = Some m' -> Z m -> is_op (ObsPoll k r) = false /\ (Z m' \/ r = RMsg OAck).
Proof.
  unfold normal. intros H (A & L & S). rewrite L, S in H. cbn in H.
  destruct r as [| |o]; [| |destruct o]; revert H; split_match; intro H; inversion H; subst; cbn;
    unfold Z; cbn; auto.
Qed.

Lemma step_Z pr ka q m a o m' :
  mon_step pr ka q m a o = Some m' -> Z m -> is_op o = false /\ (Z m' \/ is_ack o = true).
Proof.
  unfold mon_step. destruct a as [ev|c], o as [|k r|]; try discriminate; intros H HZ.
  - inversion H; subst. split; [reflexivity|]. left. destruct HZ as (A & L & S). unfold Z.
    destruct ev; cbn; auto. destruct (push_client (m_inbox m) (m_chans m) (m_next m) m0) as [[a b] c]. cbn. auto.
  - destruct (m_fin m); [discriminate|]. unfold mon_poll in H. destruct (m_closed m).
    + destruct k; [|discriminate]. destruct r; try discriminate. inversion H; subst; cbn.
      split; [reflexivity|]. left. exact HZ.
    + destruct (Nat.ltb (length (m_inbox m)) k); [discriminate|].
      assert (Z1 : Z (fold_left (recv pr q) (firstn k (m_inbox m)) (set_inbox m (skipn k (m_inbox m)))))
        by (apply fold_Z; exact HZ).
      destruct (m_overrun _); [discriminate|]. destruct (m_due _).
      * destruct (close_class pr q c0 r) eqn:Ec; [|discriminate]. inversion H; subst; cbn. split.
        -- destruct (is_op (ObsPoll k r)) eqn:Eo; [|exact Eo]. rewrite (close_class_op _ _ _ _ _ Eo) in Ec. discriminate.
        -- left. exact Z1.
      * destruct (normal_Z _ _ _ _ k H Z1) as [N1 [N2|N2]]; split; auto. subst r. right. reflexivity.
  - destruct (m_fin m); [|discriminate]. inversion H; subst. auto.
Qed.

Lemma ops_after_ack_gen pr ka q : forall acts os m m',
  mon_run pr ka q m acts os = Some m' -> Z m ->
  forall pre o post, os = pre ++ o :: post -> is_op o = true -> existsb is_ack pre = true.
Proof.
  induction acts as [|a acts IH]; intros os m m' H HZ pre o post E T; destruct os as [|o1 os]; cbn in H; try discriminate.
  - destruct pre; discriminate.
  - destruct (mon_step pr ka q m a o1) as [m1|] eqn:Es; [|discriminate].
    destruct (step_Z _ _ _ _ _ _ _ Es HZ) as [S1 S2].
    destruct pre as [|p pre]; cbn in E; inversion E; subst.
    + congruence.
    + cbn. destruct S2 as [S2|S2]; [|rewrite S2; reflexivity].
      rewrite (IH _ _ _ H S2 _ _ _ eq_refl T). apply Bool.orb_true_r.
Qed.

(* data, next and complete are only sent after connection_ack *)
Theorem ops_only_after_ack pr ka acts pre o post :
  run pr ka sys0 acts = pre ++ o :: post -> is_op o = true -> existsb is_ack pre = true.
Proof.
  intros E T. destruct (conforms_gen pr ka acts mon0 sys0 inv0) as (m' & H).
  eapply ops_after_ack_gen; eauto. unfold Z, mon0; cbn; auto.
Qed.

(* ---- data only for live operations; complete ends the operation ---- *)
Definition is_data (o : out) (id : name) (i n : N) : Prop := o = OData id i n \/ o = ONext id i n.

Lemma assoc_remove_key {A} id (l : list (name * A)) : assoc id (remove_key id l) = None.
Proof.
  induction l as [|[k v] l IH]; cbn; [reflexivity|].
  destruct (name_eqb id k) eqn:E; cbn; [exact IH|]. rewrite E. exact IH.
Qed.

Lemma drain_early_shape pr : forall inb s tf k s' tf' inb' k' o,
  drain pr s tf inb k = (s', tf', inb', k', Some (RMsg o)) ->
  match o with
  | OData _ _ _ | ONext _ _ _ | OAck | OPong => False
  | OComplete id => assoc id (streams s') = None
  | _ => closed s' = true
  end.
Proof.
  induction inb as [|c inb IH]; intros s tf k s' tf' inb' k' o H; cbn [drain] in H; [discriminate|].
  destruct c.
  - destruct (on_init s); [discriminate|]. inversion H; subst. destruct pr; reflexivity.
  - destruct (acked s); [eapply IH; eauto|]. inversion H; subst. reflexivity.
  - destruct (assoc id (streams s)); [|eapply IH; eauto]. inversion H; subst. cbn. apply assoc_remove_key.
  - discriminate.
  - discriminate.
  - eapply IH; eauto.
  - inversion H; subst. reflexivity.
  - discriminate.
Qed.

Lemma streams_data pr s e k c s' e' k' o :
  poll_streams pr s e k c = (s', e', k', RMsg o) ->
  match o with
  | OData id i n | ONext id i n =>
      assoc id (streams s') = Some i /\ (exists b en, assoc i (chans e) = Some (n :: b, en)) /\
      o = data_msg pr id i n
  | OComplete id => assoc id (streams s') = None
  | _ => False
  end.
Proof.
  unfold poll_streams. destruct (pick (chans e) (streams s) c) as [id|]; [|discriminate].
  destruct (assoc id (streams s)) as [i|] eqn:Ei; [|discriminate].
  destruct (assoc i (chans e)) as [[[|n b] en]|] eqn:Ec; [destruct en| |]; try discriminate; intro H; inversion H; subst.
  - cbn. apply assoc_remove_key.
  - unfold data_msg. destruct pr; (split; [exact Ei|]; split; [eauto|reflexivity]).
Qed.

Lemma futs_data pr s e k c s' e' k' o :
  poll_futs pr s e k c = (s', e', k', RMsg o) ->
  match o with
  | OData id i n | ONext id i n =>
      assoc id (streams s') = Some i /\ (exists b en, assoc i (chans e) = Some (n :: b, en)) /\
      o = data_msg pr id i n
  | OComplete id => assoc id (streams s') = None
  | _ => True
  end.
Proof.
  unfold poll_futs, fail_msg. destruct (init_fut s).
  - destruct (init_q e) as [|[|] qq]; intro H; inversion H; subst; destruct pr; exact I.
  - destruct (ping_fut s).
    + destruct (ping_q e) as [|[|] qq]; intro H; inversion H; subst; destruct pr; exact I.
    + intro H. pose proof (streams_data _ _ _ _ _ _ _ _ _ H) as D. destruct o; auto.
Qed.

(* every data / next message carries the oldest undelivered item of the
   source stream of an operation that is running under that id, in the
   message type of the negotiated protocol; after complete the id is free *)
Theorem data_only_for_live pr ka s e c s' e' k o :
  poll pr ka s e c = (s', e', k, RMsg o) ->
  match o with
  | OData id i n | ONext id i n =>
      assoc id (streams s') = Some i /\ (exists b en, assoc i (chans e) = Some (n :: b, en)) /\
      o = data_msg pr id i n
  | OComplete id => assoc id (streams s') = None
  | _ => True
  end.
Proof.
  unfold poll. destruct (closed s); [discriminate|].
  destruct (ka && timer_fired e); [intro H; inversion H; subst; destruct pr; exact I|].
  destruct (negb (init_fut s) && negb (ping_fut s)); [|apply futs_data].
  destruct (drain pr s (timer_fired e) (inbox e) 0) as [[[[s1 tf] inb] k1] [r|]] eqn:Ed.
  - intro H; inversion H; subst. pose proof (drain_early_shape _ _ _ _ _ _ _ _ _ _ Ed) as D.
    destruct o; auto; contradiction.
  - intro H. apply futs_data in H. cbn in H. exact H.
Qed.

(* a second connection_init closes the connection: 4429 / connection_error *)
Lemma second_init_closes pr ka s e c inb :
  closed s = false -> (ka && timer_fired e) = false -> init_fut s = false -> ping_fut s = false ->
  on_init s = false -> inbox e = CInit :: inb ->
  exists s' e', poll pr ka s e c =
                (s', e', 1%nat, RMsg match pr with Legacy => OConnErr 2 | Modern => OClose 4429 end) /\
                closed s' = true.
Proof.
  intros H H0 H1 H2 H3 H4. unfold poll. rewrite H, H0, H1, H2, H4. cbn. rewrite H3. cbn. eauto.
Qed.

(* ---- the subscriptions-transport-ws protocol is followed in every session ---- *)
Lemma recv_legacy_quirk q m c : m_quirk (recv Legacy q m c) = m_quirk m.
Proof. unfold recv. split_match; reflexivity. Qed.

Lemma fold_legacy_quirk q cs : forall m, m_quirk (fold_left (recv Legacy q) cs m) = m_quirk m.
Proof. induction cs as [|c cs IH]; intro m; cbn [fold_left]; [reflexivity|]. rewrite IH. apply recv_legacy_quirk. Qed.

Lemma close_class_legacy q c r d : close_class Legacy q c r = Some d -> d = 0.
Proof. unfold close_class. destruct c, r as [| |o]; try destruct o; cbn; congruence. Qed.

Lemma mon_run_legacy_quirk ka q : forall acts os m m',
  mon_run Legacy ka q m acts os = Some m' -> m_quirk m' = m_quirk m.
Proof.
  induction acts as [|a acts IH]; intros os m m' H; destruct os as [|o os]; cbn in H; try discriminate.
  - inversion H; reflexivity.
  - destruct (mon_step Legacy ka q m a o) as [m1|] eqn:E; [|discriminate].
    rewrite (IH _ _ _ H). clear H IH. unfold mon_step in E.
    destruct a as [ev|c], o as [|k r|]; try discriminate.
    + inversion E; subst. apply mon_env_quirk.
    + destruct (m_fin m); [discriminate|]. unfold mon_poll in E. destruct (m_closed m).
      * destruct k; [|discriminate]. destruct r; try discriminate. inversion E; reflexivity.
      * destruct (Nat.ltb (length (m_inbox m)) k); [discriminate|].
        pose proof (fold_legacy_quirk q (firstn k (m_inbox m)) (set_inbox m (skipn k (m_inbox m)))) as F.
        cbn in F. destruct (m_overrun _); [discriminate|]. destruct (m_due _).
        -- destruct (close_class Legacy q c0 r) eqn:Ec; [|discriminate]. inversion E; subst; cbn.
           rewrite (close_class_legacy _ _ _ _ Ec). cbn. exact F.
        -- rewrite (normal_quirk _ _ _ _ E). exact F.
    + destruct (m_fin m); [|discriminate]. inversion E; reflexivity.
Qed.

Theorem legacy_strict ka acts : accepts Legacy ka quirks_none acts (run Legacy ka sys0 acts) = true.
Proof.
  apply strict_outside_known. unfold known_class.
  destruct (mon_run Legacy ka Q mon0 acts (run Legacy ka sys0 acts)) as [m|] eqn:E; [|reflexivity].
  rewrite (mon_run_legacy_quirk _ _ _ _ _ _ E). reflexivity.
Qed.

(* ---- the known deviations, on the faithful model ---- *)
Definition w_dup : list action :=
  [AEnv (EClient CInit); APoll None; AEnv (EInitDone true); APoll None;
   AEnv (EClient (CStart 0 0)); APoll None; AEnv (EItem 0 7); APoll None;
   AEnv (EClient (CStart 0 0)); APoll None; AEnv (EItem 0 8); AEnv (EItem 1 9); APoll None; APoll None].
Definition w_unauth : list action := [AEnv (EClient (CStart 0 0)); APoll None; APoll None].
Definition w_bad : list action := [AEnv (EClient CBad); APoll None; APoll None].

Lemma dup_id_refuted :
  run Modern false sys0 w_dup =
    [ObsEnv; ObsPoll 1 RPending; ObsEnv; ObsPoll 0 (RMsg OAck); ObsEnv; ObsPoll 1 RPending;
     ObsEnv; ObsPoll 0 (RMsg (ONext 0 0 7)); ObsEnv; ObsPoll 1 RPending; ObsEnv; ObsEnv;
     ObsPoll 0 (RMsg (ONext 0 1 9)); ObsPoll 0 RPending] /\
  accepts Modern false quirks_none w_dup (run Modern false sys0 w_dup) = false /\
  known_class Modern false w_dup (run Modern false sys0 w_dup) = 1.
Proof. vm_compute. auto. Qed.

Lemma unauth_refuted :
  run Modern false sys0 w_unauth = [ObsEnv; ObsPoll 1 (RMsg (OClose 1011)); ObsPoll 0 REnd] /\
  accepts Modern false quirks_none w_unauth (run Modern false sys0 w_unauth) = false /\
  known_class Modern false w_unauth (run Modern false sys0 w_unauth) = 2.
Proof. vm_compute. auto. Qed.

Lemma bad_frame_refuted :
  run Modern false sys0 w_bad = [ObsEnv; ObsPoll 1 (RMsg (OClose 1002)); ObsPoll 0 REnd] /\
  accepts Modern false quirks_none w_bad (run Modern false sys0 w_bad) = false /\
  known_class Modern false w_bad (run Modern false sys0 w_bad) = 3.
Proof. vm_compute. auto. Qed.

(* non-vacuity: a complete life cycle, accepted by the strict monitor *)
Definition w_life : list action :=
  [AEnv (EClient CInit); APoll None; AEnv (EInitDone true); APoll None;
   AEnv (EClient (CStart 0 0)); AEnv (EClient (CStart 1 0)); APoll None;
   AEnv (EItem 0 5); AEnv (EItem 1 6); APoll (Some 1); APoll None;
   AEnv (EEnd 0); APoll None; AEnv (EClient (CStop 1)); APoll None;
   AEnv (EClient CPing); AEnv (EPingDone true); APoll None; AEnv (EClient CEof); APoll None; APoll None].

Lemma nonvacuous :
  run Modern true sys0 w_life =
    [ObsEnv; ObsPoll 1 RPending; ObsEnv; ObsPoll 0 (RMsg OAck); ObsEnv; ObsEnv; ObsPoll 2 RPending;
     ObsEnv; ObsEnv; ObsPoll 0 (RMsg (ONext 1 1 6)); ObsPoll 0 (RMsg (ONext 0 0 5));
     ObsEnv; ObsPoll 0 (RMsg (OComplete 0)); ObsEnv; ObsPoll 1 (RMsg (OComplete 1));
     ObsEnv; ObsEnv; ObsPoll 1 (RMsg OPong); ObsEnv; ObsPoll 0 REnd; ObsSkip] /\
  known_class Modern true w_life (run Modern true sys0 w_life) = 0 /\
  accepts Modern true quirks_none w_life (run Modern true sys0 w_life) = true.
Proof. vm_compute. auto. Qed.

(* SerdeRTProofs.v — lemmas about SerdeRT.v (no model definitions here). *)
From AG Require Import SerdeRT.
Require Import Sorted.
Open Scope Z_scope.

(* ------------------------------------------------------------ strings ---- *)
Lemma str_eqb_eq a b : str_eqb a b = true <-> a = b.
Proof.
  unfold str_eqb, list_eqb. revert b.
  induction a as [|x a IH]; intros [|y b]; cbn [forallb2]; try (split; [discriminate|discriminate]); [tauto|].
  rewrite andb_true_iff, IH, N.eqb_eq. split; [intros [-> ->]; reflexivity|intros H; inversion H; auto].
Qed.

Lemma str_eqb_refl a : str_eqb a a = true.
Proof. apply str_eqb_eq. reflexivity. Qed.

Lemma str_eqb_sym a b : str_eqb a b = str_eqb b a.
Proof.
  destruct (str_eqb a b) eqn:E.
  - apply str_eqb_eq in E. subst. symmetry. apply str_eqb_refl.
  - destruct (str_eqb b a) eqn:E'; [|reflexivity].
    apply str_eqb_eq in E'. subst. rewrite str_eqb_refl in E. discriminate.
Qed.

Lemma str_ltb_irrefl a : str_ltb a a = false.
Proof.
  induction a as [|x a IH]; cbn [str_ltb]; [reflexivity|].
  rewrite N.ltb_irrefl, N.eqb_refl. exact IH.
Qed.

Lemma str_ltb_trans a b c : str_ltb a b = true -> str_ltb b c = true -> str_ltb a c = true.
Proof.
  revert b c. induction a as [|x a IH]; intros [|y b] [|z c]; cbn [str_ltb]; try discriminate; try reflexivity.
  destruct (N.ltb_spec x y), (N.eqb_spec x y), (N.ltb_spec y z), (N.eqb_spec y z),
           (N.ltb_spec x z), (N.eqb_spec x z); try discriminate; try reflexivity; try lia.
  apply IH.
Qed.

Lemma str_ltb_neq a b : str_ltb a b = true -> str_eqb a b = false.
Proof.
  intros H. destruct (str_eqb a b) eqn:E; [|reflexivity].
  apply str_eqb_eq in E. subst. rewrite str_ltb_irrefl in H. discriminate.
Qed.

Lemma str_ltb_asym a b : str_ltb a b = true -> str_ltb b a = false.
Proof.
  intros H. destruct (str_ltb b a) eqn:E; [|reflexivity].
  pose proof (str_ltb_trans _ _ _ H E) as T. rewrite str_ltb_irrefl in T. discriminate.
Qed.

Definition slt (a b : str) : Prop := str_ltb a b = true.

Lemma keys_sorted_strong l : keys_sorted l = true -> StronglySorted slt l.
Proof.
  induction l as [|k l IH]; intros H; [constructor|].
  cbn [keys_sorted] in H. destruct l as [|k' l'].
  - constructor; constructor.
  - apply andb_true_iff in H as [H1 H2]. specialize (IH H2).
    constructor; [exact IH|].
    constructor; [exact H1|].
    apply StronglySorted_inv in IH as [_ F].
    eapply Forall_impl; [|exact F]. intros c Hc. eapply str_ltb_trans; [exact H1|exact Hc].
Qed.

Lemma strong_app_lt {A} (f : A -> str) l1 x l2 :
  StronglySorted slt (map f (l1 ++ x :: l2)) -> Forall (fun y => slt (f y) (f x)) l1.
Proof.
  induction l1 as [|a l1 IH]; cbn [app map]; intros H; [constructor|].
  apply StronglySorted_inv in H as [H1 H2].
  constructor; [|apply IH; exact H1].
  rewrite map_app in H2. apply Forall_app in H2 as [_ H2]. cbn [map] in H2.
  apply Forall_inv in H2. exact H2.
Qed.

Lemma bt_insert_last {A} k (v : A) m :
  Forall (fun kv => slt (fst kv) k) m -> bt_insert k v m = m ++ [(k, v)].
Proof.
  induction m as [|[k' v'] m IH]; intros H; cbn [bt_insert app]; [reflexivity|].
  apply Forall_cons_iff in H as [H1 H2]. cbn [fst] in H1. unfold slt in H1.
  rewrite str_eqb_sym, (str_ltb_neq _ _ H1), (str_ltb_asym _ _ H1), (IH H2). reflexivity.
Qed.

Lemma bt_fold_sorted {A} (l acc : list (str * A)) :
  StronglySorted slt (map fst (acc ++ l)) ->
  fold_left (fun m kv => bt_insert (fst kv) (snd kv) m) l acc = acc ++ l.
Proof.
  revert acc. induction l as [|[k v] l IH]; intros acc H; cbn [fold_left fst snd].
  - now rewrite app_nil_r.
  - rewrite bt_insert_last by (apply (strong_app_lt fst acc (k, v) l H)).
    rewrite IH; rewrite <- app_assoc; [reflexivity|exact H].
Qed.

Lemma bt_of_list_sorted {A} (l : list (str * A)) :
  keys_sorted (map fst l) = true -> bt_of_list l = l.
Proof.
  intros H. unfold bt_of_list. apply (bt_fold_sorted l []). cbn [app].
  apply keys_sorted_strong. exact H.
Qed.

(* ---- distinct keys ------------------------------------------------------ *)
Lemma smem_In k l : In k l -> smem k l = true.
Proof.
  induction l as [|x l IH]; cbn [In smem]; [tauto|].
  intros [->|H]; [now rewrite str_eqb_refl|]. rewrite (IH H). now destruct (str_eqb k x).
Qed.

Lemma smem_false_app k l1 l2 : smem k (l1 ++ l2) = false -> smem k l1 = false /\ smem k l2 = false.
Proof.
  induction l1 as [|x l1 IH]; cbn [app smem]; [tauto|].
  destruct (str_eqb k x); [discriminate|exact IH].
Qed.

Lemma snodup_mid l1 k l2 : snodup (l1 ++ k :: l2) = true -> smem k l1 = false.
Proof.
  induction l1 as [|x l1 IH]; cbn [app snodup smem]; [reflexivity|].
  intros H. apply andb_true_iff in H as [H1 H2]. apply negb_true_iff in H1.
  apply smem_false_app in H1 as [_ H1]. cbn [smem] in H1.
  rewrite str_eqb_sym. destruct (str_eqb x k); [discriminate|]. apply IH, H2.
Qed.

Lemma obj_insert_fresh {A} k (v : A) o :
  smem k (map fst o) = false -> obj_insert k v o = o ++ [(k, v)].
Proof.
  induction o as [|[k' v'] o IH]; cbn [map fst smem obj_insert app]; [reflexivity|].
  destruct (str_eqb k k'); [discriminate|]. intros H. now rewrite IH.
Qed.

Lemma obj_fold_nodup {A} (l acc : list (str * A)) :
  snodup (map fst (acc ++ l)) = true ->
  fold_left (fun o kv => obj_insert (fst kv) (snd kv) o) l acc = acc ++ l.
Proof.
  revert acc. induction l as [|[k v] l IH]; intros acc H; cbn [fold_left fst snd].
  - now rewrite app_nil_r.
  - rewrite obj_insert_fresh.
    + rewrite IH; rewrite <- app_assoc; [reflexivity|exact H].
    + rewrite map_app in H. cbn [map fst] in H. apply snodup_mid in H. exact H.
Qed.

Lemma obj_of_list_nodup {A} (l : list (str * A)) :
  snodup (map fst l) = true -> obj_of_list l = l.
Proof. intros H. unfold obj_of_list. apply (obj_fold_nodup l []). exact H. Qed.

Lemma strong_snodup l : StronglySorted slt l -> snodup l = true.
Proof.
  induction 1 as [|k l S IH F]; cbn [snodup]; [reflexivity|].
  rewrite IH, andb_true_r. apply negb_true_iff.
  clear S IH. induction l as [|x l IHl]; cbn [smem]; [reflexivity|].
  apply Forall_cons_iff in F as [F1 F2]. unfold slt in F1.
  rewrite (str_ltb_neq _ _ F1). apply IHl, F2.
Qed.

Lemma sassoc_nodup_in {A} (o : list (str * A)) k g :
  snodup (map fst o) = true -> In (k, g) o -> sassoc k o = Some g.
Proof.
  induction o as [|[k' g'] o IH]; cbn [map fst snodup In sassoc]; [tauto|].
  intros H [E|I].
  - inversion E; subst. now rewrite str_eqb_refl.
  - apply andb_true_iff in H as [H1 H2]. apply negb_true_iff in H1.
    destruct (str_eqb k k') eqn:E.
    + apply str_eqb_eq in E. subst k'.
      rewrite (smem_In k (map fst o)) in H1; [discriminate|].
      change k with (fst (k, g)). apply in_map, I.
    + apply IH; assumption.
Qed.

(* ------------------------------------------------ nested induction ------- *)
Section sty_ind'.
  Variable P : sty -> Prop.
  Hypothesis Hbool : P TBool.
  Hypothesis Hint : forall w, P (TInt w).
  Hypothesis Hf32 : P TF32.
  Hypothesis Hf64 : P TF64.
  Hypothesis Hchar : P TChar.
  Hypothesis Hstr : P TStr.
  Hypothesis Hbytes : P TBytes.
  Hypothesis Hunit : P TUnit.
  Hypothesis Hunits : P TUnitStruct.
  Hypothesis Hopt : forall t, P t -> P (TOption t).
  Hypothesis Hseq : forall t, P t -> P (TSeq t).
  Hypothesis Hmap : forall t, P t -> P (TMap t).
  Hypothesis Hnew : forall t, P t -> P (TNewtype t).
  Hypothesis Htuple : forall ts, Forall P ts -> P (TTuple ts).
  Hypothesis Hstruct : forall fs, Forall (fun p => P (snd p)) fs -> P (TStruct fs).
  Hypothesis Henum : forall vs, Forall (fun p => P (snd (snd p))) vs -> P (TEnum vs).

  Fixpoint sty_ind' (t : sty) : P t :=
    match t with
    | TBool => Hbool
    | TInt w => Hint w
    | TF32 => Hf32
    | TF64 => Hf64
    | TChar => Hchar
    | TStr => Hstr
    | TBytes => Hbytes
    | TUnit => Hunit
    | TUnitStruct => Hunits
    | TOption t' => Hopt t' (sty_ind' t')
    | TSeq t' => Hseq t' (sty_ind' t')
    | TMap t' => Hmap t' (sty_ind' t')
    | TNewtype t' => Hnew t' (sty_ind' t')
    | TTuple ts =>
        Htuple ts ((fix go (l : list sty) : Forall P l :=
                      match l with
                      | [] => Forall_nil _
                      | x :: l' => Forall_cons x (sty_ind' x) (go l')
                      end) ts)
    | TStruct fs =>
        Hstruct fs ((fix go (l : list (str * sty)) : Forall (fun p => P (snd p)) l :=
                       match l with
                       | [] => Forall_nil _
                       | (n, x) :: l' => Forall_cons (n, x) (sty_ind' x) (go l')
                       end) fs)
    | TEnum vs =>
        Henum vs ((fix go (l : list (str * (vkind * sty))) : Forall (fun p => P (snd (snd p))) l :=
                     match l with
                     | [] => Forall_nil _
                     | (n, (k, x)) :: l' => Forall_cons (n, (k, x)) (sty_ind' x) (go l')
                     end) vs)
    end.
End sty_ind'.

Section sval_ind'.
  Variable P : sval -> Prop.
  Hypothesis Hleaf : forall v,
      match v with
      | SSome _ | SSeq _ | SMap _ | SNewtype _ | STuple _ | SStruct _ | SVariant _ _ _ => False
      | _ => True
      end -> P v.
  Hypothesis Hsome : forall v, P v -> P (SSome v).
  Hypothesis Hnew : forall v, P v -> P (SNewtype v).
  Hypothesis Hvar : forall n k v, P v -> P (SVariant n k v).
  Hypothesis Hseq : forall l, Forall P l -> P (SSeq l).
  Hypothesis Htup : forall l, Forall P l -> P (STuple l).
  Hypothesis Hmap : forall l, Forall (fun kv => P (snd kv)) l -> P (SMap l).
  Hypothesis Hstruct : forall l, Forall (fun kv => P (snd kv)) l -> P (SStruct l).

  Fixpoint sval_ind' (v : sval) : P v :=
    let go := fix go (l : list sval) : Forall P l :=
                match l with
                | [] => Forall_nil _
                | x :: l' => Forall_cons x (sval_ind' x) (go l')
                end in
    let gop := fix gop (l : list (str * sval)) : Forall (fun kv => P (snd kv)) l :=
                 match l with
                 | [] => Forall_nil _
                 | (k, x) :: l' => Forall_cons (k, x) (sval_ind' x) (gop l')
                 end in
    match v with
    | SSome v' => Hsome v' (sval_ind' v')
    | SNewtype v' => Hnew v' (sval_ind' v')
    | SVariant n k v' => Hvar n k v' (sval_ind' v')
    | SSeq l => Hseq l (go l)
    | STuple l => Htup l (go l)
    | SMap l => Hmap l (gop l)
    | SStruct l => Hstruct l (gop l)
    | SBool b => Hleaf (SBool b) I
    | SInt w z => Hleaf (SInt w z) I
    | SF32 b => Hleaf (SF32 b) I
    | SF64 b => Hleaf (SF64 b) I
    | SChar c => Hleaf (SChar c) I
    | SStr s => Hleaf (SStr s) I
    | SBytes l => Hleaf (SBytes l) I
    | SUnit => Hleaf SUnit I
    | SNone => Hleaf SNone I
    end.
End sval_ind'.

(* ------------------------------------------------------- boolean glue ---- *)
Lemma existsb_false_Forall {A} (f : A -> bool) l :
  existsb f l = false -> Forall (fun x => f x = false) l.
Proof.
  induction l as [|x l IH]; cbn [existsb]; intros H; [constructor|].
  apply orb_false_iff in H as [H1 H2]. constructor; auto.
Qed.

Lemma forallb_Forall {A} (f : A -> bool) l :
  forallb f l = true -> Forall (fun x => f x = true) l.
Proof.
  induction l as [|x l IH]; cbn [forallb]; intros H; [constructor|].
  apply andb_true_iff in H as [H1 H2]. constructor; auto.
Qed.

(* ------------------------------------------------ the exclusion predicate -- *)
Definition is_char (v : sval) : bool := match v with SChar _ => true | _ => false end.
Definition excl (q : bool) (v : sval) : bool := bad q v || is_char v.
Definition clean (q : bool) (v : sval) : Prop := sub_exists (excl q) v = false.

Lemma sub_exists_unfold p v :
  sub_exists p v =
  p v ||
  match v with
  | SSome v' | SNewtype v' | SVariant _ _ v' => sub_exists p v'
  | SSeq l | STuple l => existsb (sub_exists p) l
  | SMap l | SStruct l => existsb (fun kv => sub_exists p (snd kv)) l
  | _ => false
  end.
Proof. destruct v; reflexivity. Qed.

Lemma existsb_orb {A} (f g h : A -> bool) l :
  Forall (fun x => f x = g x || h x) l -> existsb f l = existsb g l || existsb h l.
Proof.
  induction 1 as [|x l E F IH]; cbn [existsb]; [reflexivity|].
  rewrite E, IH. destruct (g x), (h x), (existsb g l), (existsb h l); reflexivity.
Qed.

Lemma sub_exists_orb p q v :
  sub_exists (fun x => p x || q x) v = sub_exists p v || sub_exists q v.
Proof.
  induction v using sval_ind';
    match goal with
    | |- sub_exists _ ?V = _ =>
        rewrite (sub_exists_unfold (fun x => p x || q x) V), (sub_exists_unfold p V), (sub_exists_unfold q V)
    end.
  - destruct v; try contradiction; cbn; now rewrite !orb_false_r.
  - rewrite IHv. destruct (p (SSome v)), (q (SSome v)), (sub_exists p v), (sub_exists q v); reflexivity.
  - rewrite IHv. destruct (p (SNewtype v)), (q (SNewtype v)), (sub_exists p v), (sub_exists q v); reflexivity.
  - rewrite IHv. destruct (p (SVariant n k v)), (q (SVariant n k v)), (sub_exists p v), (sub_exists q v); reflexivity.
  - rewrite (existsb_orb _ (sub_exists p) (sub_exists q) l H).
    destruct (p (SSeq l)), (q (SSeq l)), (existsb (sub_exists p) l), (existsb (sub_exists q) l); reflexivity.
  - rewrite (existsb_orb _ (sub_exists p) (sub_exists q) l H).
    destruct (p (STuple l)), (q (STuple l)), (existsb (sub_exists p) l), (existsb (sub_exists q) l); reflexivity.
  - rewrite (existsb_orb _ (fun kv => sub_exists p (snd kv)) (fun kv => sub_exists q (snd kv)) l H).
    destruct (p (SMap l)), (q (SMap l)), (existsb (fun kv => sub_exists p (snd kv)) l),
             (existsb (fun kv => sub_exists q (snd kv)) l); reflexivity.
  - rewrite (existsb_orb _ (fun kv => sub_exists p (snd kv)) (fun kv => sub_exists q (snd kv)) l H).
    destruct (p (SStruct l)), (q (SStruct l)), (existsb (fun kv => sub_exists p (snd kv)) l),
             (existsb (fun kv => sub_exists q (snd kv)) l); reflexivity.
Qed.

Lemma sub_exists_ext p q v : (forall x, p x = q x) -> sub_exists p v = sub_exists q v.
Proof.
  intros E. induction v using sval_ind';
    match goal with
    | |- sub_exists _ ?V = _ => rewrite (sub_exists_unfold p V), (sub_exists_unfold q V), E
    end.
  - destruct v; try contradiction; reflexivity.
  - now rewrite IHv.
  - now rewrite IHv.
  - now rewrite IHv.
  - f_equal. induction H as [|x l Hx F IH]; cbn [existsb]; [reflexivity|]. now rewrite Hx, IH.
  - f_equal. induction H as [|x l Hx F IH]; cbn [existsb]; [reflexivity|]. now rewrite Hx, IH.
  - f_equal. induction H as [|x l Hx F IH]; cbn [existsb]; [reflexivity|]. now rewrite Hx, IH.
  - f_equal. induction H as [|x l Hx F IH]; cbn [existsb]; [reflexivity|]. now rewrite Hx, IH.
Qed.

(* the theorem's hypothesis in terms of the check's functions *)
Lemma clean_iff q v : clean q v <-> (known_class q v = 0%N /\ has_char v = false).
Proof.
  unfold clean, known_class, has_char.
  rewrite (sub_exists_ext (excl q)
             (fun x => bad_some_null x || (bad_nonfinite x || ((q && bad_empty_tuple_variant x) || (bad_int128 x || is_char x)))) v).
  2:{ intros x. unfold excl, bad.
      destruct (bad_some_null x), (bad_nonfinite x), q, (bad_empty_tuple_variant x), (bad_int128 x), (is_char x); reflexivity. }
  rewrite !sub_exists_orb.
  fold is_char.
  assert (sub_exists (fun x => q && bad_empty_tuple_variant x) v = q && sub_exists bad_empty_tuple_variant v) as ->.
  { destruct q; cbn [andb]; [apply sub_exists_ext; reflexivity|].
    clear. induction v using sval_ind';
      match goal with |- sub_exists _ ?V = _ => rewrite (sub_exists_unfold _ V) end; cbn [orb].
    - destruct v; try contradiction; reflexivity.
    - exact IHv.
    - exact IHv.
    - exact IHv.
    - induction H as [|x l Hx F IH]; cbn [existsb]; [reflexivity|]. now rewrite Hx, IH.
    - induction H as [|x l Hx F IH]; cbn [existsb]; [reflexivity|]. now rewrite Hx, IH.
    - induction H as [|x l Hx F IH]; cbn [existsb]; [reflexivity|]. now rewrite Hx, IH.
    - induction H as [|x l Hx F IH]; cbn [existsb]; [reflexivity|]. now rewrite Hx, IH. }
  destruct q, (sub_exists bad_some_null v), (sub_exists bad_nonfinite v), (sub_exists bad_empty_tuple_variant v),
           (sub_exists bad_int128 v), (sub_exists is_char v); cbn; split; try discriminate; try tauto;
    intros [? ?]; discriminate.
Qed.

(* ------------------------------------------------- list-level lemmas ----- *)
Lemma mapo_length {A B} (f : A -> outcome B) l r : mapo f l = Ok r -> length r = length l.
Proof.
  revert r. induction l as [|x l IH]; cbn [mapo]; intros r H.
  - inversion H. reflexivity.
  - destruct (f x); cbn [bindo] in H; try discriminate.
    destruct (mapo f l); cbn [bindo] in H; try discriminate.
    inversion H. cbn [length]. f_equal. now apply IH.
Qed.

Lemma mapo_rt {A B} (f : A -> outcome B) (g : B -> outcome A) l :
  Forall (fun x => exists y, f x = Ok y /\ g y = Ok x) l ->
  exists r, mapo f l = Ok r /\ mapo g r = Ok l.
Proof.
  induction 1 as [|x l (y & Hf & Hg) F (r & Hr & Hr')].
  - exists []. split; reflexivity.
  - exists (y :: r). cbn [mapo]. rewrite Hf, Hr, Hg, Hr'. split; reflexivity.
Qed.

Lemma mapo_snd_rt {A B} (f : A -> outcome B) (g : B -> outcome A) l :
  Forall (fun kv => exists y, f (snd kv) = Ok y /\ g y = Ok (snd kv)) l ->
  exists r, mapo_snd f l = Ok r /\ mapo_snd g r = Ok l /\ map fst r = map fst l.
Proof.
  induction 1 as [|[k x] l (y & Hf & Hg) F (r & Hr & Hr' & Hk)].
  - exists []. repeat split; reflexivity.
  - exists ((k, y) :: r). cbn [mapo_snd snd] in *. rewrite Hf, Hr. cbn [bindo mapo_snd].
    rewrite Hg, Hr'. cbn [bindo map fst]. rewrite Hk. repeat split; reflexivity.
Qed.

(* ------------------------------------------------- unfolding equations --- *)
Lemma de_option q t g :
  de q (TOption t) g = match g with GNull => Ok SNone | _ => bindo (de q t g) (fun v => Ok (SSome v)) end.
Proof. reflexivity. Qed.
Lemma de_seq q t l : de q (TSeq t) (GList l) = bindo (mapo (de q t) l) (fun r => Ok (SSeq r)).
Proof. reflexivity. Qed.
Lemma de_map q t o : de q (TMap t) (GObj o) = bindo (mapo_snd (de q t) o) (fun r => Ok (SMap (bt_of_list r))).
Proof. reflexivity. Qed.
Lemma de_newtype q t g : de q (TNewtype t) g = bindo (de q t g) (fun v => Ok (SNewtype v)).
Proof. reflexivity. Qed.
Lemma de_tuple q ts l : de q (TTuple ts) (GList l) = bindo (map2o (de q) ts l) (fun r => Ok (STuple r)).
Proof. reflexivity. Qed.
Lemma de_struct q fs o : de q (TStruct fs) (GObj o) = bindo (de_fields (de q) fs o) (fun r => Ok (SStruct r)).
Proof. reflexivity. Qed.
Lemma de_enum_str q vs s : de q (TEnum vs) (GStr s) = de_variant q (de q) s None vs.
Proof. reflexivity. Qed.
Lemma de_enum_obj q vs k p : de q (TEnum vs) (GObj [(k, p)]) = de_variant q (de q) k (Some p) vs.
Proof. reflexivity. Qed.

Lemma ser_seq l : ser (SSeq l) = bindo (mapo ser l) (fun gl => Ok (GList gl)).
Proof. reflexivity. Qed.
Lemma ser_tuple l : ser (STuple l) = bindo (mapo ser l) (fun gl => Ok (GList gl)).
Proof. reflexivity. Qed.
Lemma ser_map l : ser (SMap l) = bindo (mapo_snd ser l) (fun o => Ok (GObj (obj_of_list o))).
Proof. reflexivity. Qed.
Lemma ser_struct l : ser (SStruct l) = bindo (mapo_snd ser l) (fun o => Ok (GObj (obj_of_list o))).
Proof. reflexivity. Qed.

Lemma ser_variant n k p :
  k <> KUnit -> ser (SVariant n k p) = bindo (ser p) (fun g => Ok (GObj [(n, g)])).
Proof. destruct k; [congruence| | |]; reflexivity. Qed.

Lemma has_type_tuple ts l : has_type (TTuple ts) (STuple l) = all2 has_type ts l.
Proof. reflexivity. Qed.
Lemma has_type_struct fs l : has_type (TStruct fs) (SStruct l) = fields_typed has_type fs l.
Proof. reflexivity. Qed.
Lemma has_type_enum vs n k p : has_type (TEnum vs) (SVariant n k p) = variant_typed has_type n k p vs.
Proof. reflexivity. Qed.
Lemma has_type_seq t l : has_type (TSeq t) (SSeq l) = forallb (has_type t) l.
Proof. reflexivity. Qed.
Lemma has_type_map t l :
  has_type (TMap t) (SMap l) = keys_sorted (map fst l) && forallb (fun p => has_type t (snd p)) l.
Proof. reflexivity. Qed.

Lemma wf_tuple ts : wf_ty (TTuple ts) = forallb wf_ty ts.
Proof. reflexivity. Qed.
Lemma wf_struct fs : wf_ty (TStruct fs) = snodup (map fst fs) && forallb (fun p => wf_ty (snd p)) fs.
Proof. reflexivity. Qed.
Lemma wf_enum vs :
  wf_ty (TEnum vs) = snodup (map fst vs) &&
                     forallb (fun p => payload_shape (fst (snd p)) (snd (snd p)) && wf_ty (snd (snd p))) vs.
Proof. reflexivity. Qed.

(* ------------------------------------------------------- the round trip -- *)
(* what is proved for one type *)
Definition RT (q : bool) (t : sty) : Prop :=
  forall v, wf_ty t = true -> has_type t v = true -> clean q v ->
            exists g, ser v = Ok g /\ de q t g = Ok v.

Lemma clean_inv q v :
  clean q v ->
  excl q v = false /\
  match v with
  | SSome v' | SNewtype v' | SVariant _ _ v' => clean q v'
  | SSeq l | STuple l => Forall (clean q) l
  | SMap l | SStruct l => Forall (fun kv => clean q (snd kv)) l
  | _ => True
  end.
Proof.
  unfold clean. rewrite sub_exists_unfold. intros H. apply orb_false_iff in H as [H1 H2].
  split; [exact H1|].
  destruct v; try exact I; try exact H2; apply existsb_false_Forall in H2; exact H2.
Qed.

Lemma tuple_rt q ts :
  Forall (RT q) ts ->
  forall l, forallb wf_ty ts = true -> all2 has_type ts l = true -> Forall (clean q) l ->
            exists gl, mapo ser l = Ok gl /\ map2o (de q) ts gl = Ok l.
Proof.
  induction 1 as [|t ts Ht F IH]; intros [|v l] W T C; cbn [all2] in T; try discriminate.
  - exists []. split; reflexivity.
  - cbn [forallb] in W. apply andb_true_iff in W as [W1 W2]. apply andb_true_iff in T as [T1 T2].
    apply Forall_cons_iff in C as [C1 C2].
    destruct (Ht v W1 T1 C1) as (g & Hs & Hd). destruct (IH l W2 T2 C2) as (gl & Hsl & Hdl).
    exists (g :: gl). cbn [mapo map2o]. rewrite Hs, Hsl, Hd, Hdl. split; reflexivity.
Qed.

Lemma fields_typed_keys fs l : fields_typed has_type fs l = true -> map fst l = map fst fs.
Proof.
  revert l. induction fs as [|[n t] fs IH]; intros [|[n' v] l]; cbn [fields_typed]; try discriminate; [reflexivity|].
  intros H. apply andb_true_iff in H as [H H2]. apply andb_true_iff in H as [H0 H1].
  apply str_eqb_eq in H0. subst. cbn [map fst]. f_equal. now apply IH.
Qed.

Lemma fields_rt q fs :
  Forall (fun p => RT q (snd p)) fs ->
  forall l ofull, forallb (fun p => wf_ty (snd p)) fs = true -> fields_typed has_type fs l = true ->
                  Forall (fun kv => clean q (snd kv)) l ->
                  exists o, mapo_snd ser l = Ok o /\ map fst o = map fst l /\
                            ((forall k g, In (k, g) o -> sassoc k ofull = Some g) -> de_fields (de q) fs ofull = Ok l).
Proof.
  induction 1 as [|[n t] fs Ht F IH]; intros [|[n' v] l] ofull W T C; cbn [fields_typed] in T; try discriminate.
  - exists []. repeat split; reflexivity.
  - cbn [forallb snd] in W. apply andb_true_iff in W as [W1 W2].
    apply andb_true_iff in T as [T T2]. apply andb_true_iff in T as [T0 T1].
    apply str_eqb_eq in T0. subst n'.
    apply Forall_cons_iff in C as [C1 C2]. cbn [snd] in *.
    destruct (Ht v W1 T1 C1) as (g & Hs & Hd). destruct (IH l ofull W2 T2 C2) as (o & Hso & Hk & Hdo).
    exists ((n, g) :: o). cbn [mapo_snd]. rewrite Hs, Hso. cbn [bindo map fst]. rewrite Hk.
    repeat split; try reflexivity.
    intros L. cbn [de_fields]. rewrite (L n g (or_introl eq_refl)), Hd. cbn [bindo].
    rewrite Hdo; [reflexivity|]. intros k g' I. apply L. right. exact I.
Qed.

Lemma ser_glist_nonempty l gl : l <> [] -> mapo ser l = Ok gl -> gl <> [].
Proof.
  intros N H E. subst gl. apply mapo_length in H. destruct l; [congruence|discriminate].
Qed.

Lemma variant_rt q vs :
  Forall (fun p => RT q (snd (snd p))) vs ->
  forall n k p,
    forallb (fun p => payload_shape (fst (snd p)) (snd (snd p)) && wf_ty (snd (snd p))) vs = true ->
    variant_typed has_type n k p vs = true -> clean q (SVariant n k p) ->
    exists g, ser (SVariant n k p) = Ok g /\ de q (TEnum vs) g = Ok (SVariant n k p).
Proof.
  induction 1 as [|[n' [k' t]] vs Ht F IH]; intros n k p W T C; cbn [variant_typed] in T; [discriminate|].
  cbn [forallb fst snd] in W. apply andb_true_iff in W as [W0 W2]. apply andb_true_iff in W0 as [Wp W1].
  cbn [snd] in Ht.
  destruct (str_eqb n n') eqn:E.
  2:{ destruct (IH n k p W2 T C) as (g & Hs & Hd). exists g. split; [exact Hs|].
      destruct k.
      - cbn [ser] in Hs. inversion Hs; subst g. rewrite de_enum_str in *. cbn [de_variant]. now rewrite E.
      - rewrite ser_variant in Hs by discriminate. destruct (ser p); cbn [bindo] in Hs; try discriminate.
        inversion Hs; subst g. rewrite de_enum_obj in *. cbn [de_variant]. now rewrite E.
      - rewrite ser_variant in Hs by discriminate. destruct (ser p); cbn [bindo] in Hs; try discriminate.
        inversion Hs; subst g. rewrite de_enum_obj in *. cbn [de_variant]. now rewrite E.
      - rewrite ser_variant in Hs by discriminate. destruct (ser p); cbn [bindo] in Hs; try discriminate.
        inversion Hs; subst g. rewrite de_enum_obj in *. cbn [de_variant]. now rewrite E. }
  apply str_eqb_eq in E. subst n'.
  apply clean_inv in C as [Cx Cp].
  destruct k, k'; try discriminate.
  - (* unit *)
    destruct p; try discriminate.
    exists (GStr n). split; [reflexivity|]. rewrite de_enum_str. cbn [de_variant]. now rewrite str_eqb_refl.
  - (* newtype *)
    destruct (Ht p W1 T Cp) as (g & Hs & Hd).
    exists (GObj [(n, g)]). rewrite ser_variant, Hs by discriminate. split; [reflexivity|].
    rewrite de_enum_obj. cbn [de_variant]. rewrite str_eqb_refl, Hd. reflexivity.
  - (* tuple *)
    destruct t; try discriminate. destruct p; try discriminate.
    destruct (Ht (STuple l) W1 T Cp) as (g & Hs & Hd).
    rewrite ser_tuple in Hs. destruct (mapo ser l) as [gl| | |] eqn:Hm; cbn [bindo] in Hs; try discriminate.
    inversion Hs; subst g.
    exists (GObj [(n, GList gl)]). rewrite ser_variant, ser_tuple, Hm by discriminate. split; [reflexivity|].
    rewrite de_enum_obj. cbn [de_variant]. rewrite str_eqb_refl.
    destruct gl as [|g0 gl]; [|rewrite Hd; reflexivity].
    destruct q; [|rewrite Hd; reflexivity].
    exfalso. apply mapo_length in Hm. destruct l; [|discriminate].
    unfold excl, bad in Cx. cbn in Cx. discriminate.
  - (* struct *)
    destruct t; try discriminate. destruct p; try discriminate.
    destruct (Ht (SStruct l) W1 T Cp) as (g & Hs & Hd).
    rewrite ser_struct in Hs. destruct (mapo_snd ser l) as [o| | |] eqn:Hm; cbn [bindo] in Hs; try discriminate.
    inversion Hs; subst g.
    exists (GObj [(n, GObj (obj_of_list o))]). rewrite ser_variant, ser_struct, Hm by discriminate. split; [reflexivity|].
    rewrite de_enum_obj. cbn [de_variant]. rewrite str_eqb_refl, Hd. reflexivity.
Qed.

Lemma ity_same w w' z :
  match w, w' with
  | I8, I8 | I16, I16 | I32, I32 | I64, I64 | I128, I128
  | U8, U8 | U16, U16 | U32, U32 | U64, U64 | U128, U128 => in_range w z
  | _, _ => false
  end = true -> w = w' /\ in_range w z = true.
Proof. destruct w, w'; intros H; try discriminate; split; auto. Qed.

Theorem roundtrip_all : forall q t, RT q t.
Proof.
  intros q. induction t using sty_ind'; intros v W T C; apply clean_inv in C as [Cx Cc].
  - destruct v; try discriminate. eexists; split; reflexivity.
  - destruct v; try discriminate. cbn [has_type] in T. apply ity_same in T as [<- R].
    unfold excl, bad in Cx; cbn in Cx; rewrite ?andb_false_r in Cx; cbn [orb] in Cx; rewrite ?orb_false_r in Cx.
    exists (GInt z). cbn [ser de]. rewrite Cx, R. split; reflexivity.
  - destruct v; try discriminate. cbn [has_type] in T.
    unfold excl, bad in Cx; cbn in Cx; rewrite ?andb_false_r in Cx; cbn [orb] in Cx; rewrite ?orb_false_r in Cx. apply negb_false_iff in Cx.
    rewrite Cx in T. cbn in T. apply andb_true_iff in T as [_ T]. apply N.eqb_eq in T.
    exists (GFloat bits). cbn [ser de]. rewrite Cx, T. split; reflexivity.
  - destruct v; try discriminate.
    unfold excl, bad in Cx; cbn in Cx; rewrite ?andb_false_r in Cx; cbn [orb] in Cx; rewrite ?orb_false_r in Cx. apply negb_false_iff in Cx.
    exists (GFloat bits). cbn [ser de]. rewrite Cx. split; reflexivity.
  - destruct v; try discriminate. unfold excl in Cx. cbn [is_char] in Cx. rewrite orb_true_r in Cx. discriminate.
  - destruct v; try discriminate. eexists; split; reflexivity.
  - destruct v; try discriminate. eexists; split; reflexivity.
  - destruct v; try discriminate. eexists; split; reflexivity.
  - destruct v; try discriminate. eexists; split; reflexivity.
  - (* option *)
    destruct v; try discriminate.
    + exists GNull. split; reflexivity.
    + cbn [has_type wf_ty] in T, W. destruct (IHt v W T Cc) as (g & Hs & Hd).
      exists g. cbn [ser]. split; [exact Hs|]. rewrite de_option, Hd.
      unfold excl, bad in Cx; cbn in Cx; rewrite ?andb_false_r in Cx; cbn [orb] in Cx; rewrite ?orb_false_r in Cx. unfold ser_is_null in Cx. rewrite Hs in Cx.
      destruct g; try reflexivity. discriminate.
  - (* seq *)
    destruct v; try discriminate. rewrite has_type_seq in T. cbn [wf_ty] in W.
    apply forallb_Forall in T.
    assert (Forall (fun x => exists y, ser x = Ok y /\ de q t y = Ok x) l) as F.
    { clear Cx. induction l as [|x l IHl]; [constructor|].
      apply Forall_cons_iff in T as [T1 T2]. apply Forall_cons_iff in Cc as [C1 C2].
      constructor; [apply IHt; assumption|apply IHl; assumption]. }
    destruct (mapo_rt ser (de q t) l F) as (gl & Hs & Hd).
    exists (GList gl). rewrite ser_seq, Hs, de_seq, Hd. split; reflexivity.
  - (* map *)
    destruct v; try discriminate. rewrite has_type_map in T. cbn [wf_ty] in W.
    apply andb_true_iff in T as [K T]. apply forallb_Forall in T.
    assert (Forall (fun kv => exists y, ser (snd kv) = Ok y /\ de q t y = Ok (snd kv)) l) as F.
    { clear Cx K. induction l as [|x l IHl]; [constructor|].
      apply Forall_cons_iff in T as [T1 T2]. apply Forall_cons_iff in Cc as [C1 C2].
      constructor; [apply IHt; assumption|apply IHl; assumption]. }
    destruct (mapo_snd_rt ser (de q t) l F) as (o & Hs & Hd & Hk).
    exists (GObj o). rewrite ser_map, Hs. cbn [bindo].
    rewrite obj_of_list_nodup by (rewrite Hk; apply strong_snodup, keys_sorted_strong, K).
    split; [reflexivity|]. rewrite de_map, Hd. cbn [bindo]. now rewrite (bt_of_list_sorted l K).
  - (* newtype struct *)
    destruct v; try discriminate. cbn [has_type wf_ty] in T, W.
    destruct (IHt v W T Cc) as (g & Hs & Hd). exists g. cbn [ser]. split; [exact Hs|].
    rewrite de_newtype, Hd. reflexivity.
  - (* tuple / tuple struct *)
    destruct v; try discriminate. rewrite has_type_tuple in T. rewrite wf_tuple in W.
    destruct (tuple_rt q ts H l W T Cc) as (gl & Hs & Hd).
    exists (GList gl). rewrite ser_tuple, Hs, de_tuple, Hd. split; reflexivity.
  - (* struct *)
    destruct v; try discriminate. rewrite has_type_struct in T. rewrite wf_struct in W.
    apply andb_true_iff in W as [ND W].
    destruct (fields_rt q fs H l (obj_of_list (match mapo_snd ser l with Ok o => o | _ => [] end)) W T Cc)
      as (o & Hs & Hk & Hd).
    rewrite Hs in Hd.
    assert (snodup (map fst o) = true) as NDo by (rewrite Hk, (fields_typed_keys fs l T); exact ND).
    rewrite (obj_of_list_nodup o NDo) in Hd.
    exists (GObj o). rewrite ser_struct, Hs. cbn [bindo]. rewrite (obj_of_list_nodup o NDo).
    split; [reflexivity|]. rewrite de_struct, Hd; [reflexivity|].
    intros k g I. apply sassoc_nodup_in; assumption.
  - (* enum *)
    destruct v; try discriminate. rewrite has_type_enum in T. rewrite wf_enum in W.
    apply andb_true_iff in W as [_ W].
    apply (variant_rt q vs H n k v W T).
    unfold clean. rewrite sub_exists_unfold. rewrite Cx. exact Cc.
Qed.

(* the statement in terms of the functions the check evaluates *)
Theorem roundtrip_known_class q t v :
  wf_ty t = true -> has_type t v = true -> known_class q v = 0%N -> has_char v = false ->
  roundtrip q t v = Ok v.
Proof.
  intros W T K Hc. destruct (roundtrip_all q t v W T) as (g & Hs & Hd).
  - apply clean_iff. split; assumption.
  - unfold roundtrip. rewrite Hs. exact Hd.
Qed.

(* once the field-less tuple variant is repaired (flag off) class 3 is empty *)
Lemma known_class_off v : known_class false v <> 3%N.
Proof.
  unfold known_class. cbn [andb].
  destruct (sub_exists bad_some_null v), (sub_exists bad_nonfinite v), (sub_exists bad_int128 v); discriminate.
Qed.

(* ---- refutations: one witness per excluded class ------------------------ *)
Definition NAN64 : N := 9221120237041090560%N.   (* 0x7FF8000000000000 *)

Lemma some_none_refuted q :
  let t := TOption (TOption (TInt I32)) in let v := SSome SNone in
  wf_ty t = true /\ has_type t v = true /\ known_class q v = 1%N /\ roundtrip q t v = Ok SNone.
Proof. destruct q; vm_compute; repeat split; reflexivity. Qed.

Lemma some_unit_refuted q :
  let t := TOption TUnit in let v := SSome SUnit in
  wf_ty t = true /\ has_type t v = true /\ known_class q v = 1%N /\ roundtrip q t v = Ok SNone.
Proof. destruct q; vm_compute; repeat split; reflexivity. Qed.

Lemma some_nan_refuted q :
  let t := TOption TF64 in let v := SSome (SF64 NAN64) in
  wf_ty t = true /\ has_type t v = true /\ known_class q v = 1%N /\ roundtrip q t v = Ok SNone.
Proof. destruct q; vm_compute; repeat split; reflexivity. Qed.

Lemma nonfinite_refuted q :
  let t := TF64 in let v := SF64 NAN64 in
  wf_ty t = true /\ has_type t v = true /\ known_class q v = 2%N /\ roundtrip q t v = Err E_DE.
Proof. destruct q; vm_compute; repeat split; reflexivity. Qed.

Lemma empty_tuple_variant_refuted :
  let t := TEnum [([90%N], (KTuple, TTuple []))] in let v := SVariant [90%N] KTuple (STuple []) in
  wf_ty t = true /\ has_type t v = true /\ known_class true v = 3%N /\
  ser v = Ok (GObj [([90%N], GList [])]) /\ roundtrip true t v = Err E_DE /\ roundtrip false t v = Ok v.
Proof. vm_compute. repeat split; reflexivity. Qed.

Lemma int128_refuted q :
  let t := TInt I128 in let v := SInt I128 1 in
  wf_ty t = true /\ has_type t v = true /\ known_class q v = 4%N /\ ser v = Err E_SER.
Proof. destruct q; vm_compute; repeat split; reflexivity. Qed.

(* ---- non-vacuity: a nested type and a value of it meeting the hypotheses -- *)
Definition ex_ty : sty :=
  TStruct [([97%N], TOption (TSeq (TMap (TEnum [([85%N], (KUnit, TUnit));
                                                 ([78%N], (KNewtype, TOption (TInt I32)));
                                                 ([84%N], (KTuple, TTuple [TInt U8; TStr]));
                                                 ([83%N], (KStruct, TStruct [([120%N], TF64); ([121%N], TOption TBool)]))]))));
           ([98%N], TTuple [TNewtype (TOption TUnit); TBytes; TF32])].

Definition ex_val : sval :=
  SStruct [([97%N], SSome (SSeq [SMap [([107%N], SVariant [85%N] KUnit SUnit);
                                       ([107%N; 49%N], SVariant [78%N] KNewtype SNone);
                                       ([108%N], SVariant [84%N] KTuple (STuple [SInt U8 255; SStr [104%N; 105%N]]));
                                       ([109%N], SVariant [83%N] KStruct
                                                          (SStruct [([120%N], SF64 4609434218613702656%N);
                                                                    ([121%N], SSome (SBool true))]))];
                                 SMap []]));
           ([98%N], STuple [SNewtype SNone; SBytes [0%N; 255%N]; SF32 4609434218613702656%N])].

Lemma nonvacuous :
  wf_ty ex_ty = true /\ has_type ex_ty ex_val = true /\ known_class true ex_val = 0%N /\ has_char ex_val = false /\
  roundtrip true ex_ty ex_val = Ok ex_val.
Proof. vm_compute. repeat split; reflexivity. Qed.
(* ---- every root instance of a class fails (not only the witnesses) ------ *)
Lemma class1_all_fail q t v :
  ser_is_null v = true -> roundtrip q (TOption t) (SSome v) = Ok SNone.
Proof.
  unfold ser_is_null, roundtrip. cbn [ser]. destruct (ser v) as [g| | |]; try discriminate.
  destruct g; try discriminate. reflexivity.
Qed.

Lemma class2_all_fail q b :
  f64_finite b = false ->
  roundtrip q TF64 (SF64 b) = Err E_DE /\ roundtrip q TF32 (SF32 b) = Err E_DE.
Proof. intros H. unfold roundtrip. cbn [ser]. rewrite H. split; reflexivity. Qed.

Lemma class3_all_fail vs n :
  variant_typed has_type n KTuple (STuple []) vs = true ->
  roundtrip true (TEnum vs) (SVariant n KTuple (STuple [])) = Err E_DE.
Proof.
  unfold roundtrip. cbn [ser mapo bindo]. rewrite de_enum_obj.
  induction vs as [|[n' [k t]] vs IH]; cbn [variant_typed de_variant]; [discriminate|].
  destruct (str_eqb n n'); [|exact IH].
  destruct k; try discriminate. reflexivity.
Qed.

Lemma class4_all_fail q t w z : is128 w = true -> roundtrip q t (SInt w z) = Err E_SER.
Proof. intros H. unfold roundtrip. cbn [ser]. rewrite H. reflexivity. Qed.

(* SrcPosProofs.v — lemmas and proofs for C14 (no model definitions). *)
From AG Require Import SrcPos.
Open Scope N_scope.

(* The translated arms of PositionCalculator::step, as the three-way case
   split every proof below relies on.  If an arm of the source changes, this
   lemma (or what depends on it) stops checking. *)
Lemma step_char_eq ch l c :
  step_char_gen ch (l, c) =
  if ch =? CR then (l, 1) else if ch =? LF then (l + 1, 1) else (l, c + 1).
Proof. reflexivity. Qed.

Lemma pos_init_eq : pos_init_gen = (1, 1).
Proof. reflexivity. Qed.

Lemma step_fold_cons st ch t : step_fold st (ch :: t) = step_fold (step_char_gen ch st) t.
Proof. reflexivity. Qed.

Lemma step_fold_app st a b : step_fold st (a ++ b) = step_fold (step_fold st a) b.
Proof. unfold step_fold. apply fold_left_app. Qed.

Lemma at_lf_S ch t i : at_lf (ch :: t) (S i) = at_lf t i.
Proof. reflexivity. Qed.

Lemma linecol_from_nil i l c : linecol_from [] i l c = (l, c).
Proof. destruct i; reflexivity. Qed.

Lemma count_lone_nil i : count_lone_cr [] i = 0.
Proof. destruct i; reflexivity. Qed.

Lemma lf_not_cr : (LF =? CR) = false.
Proof. reflexivity. Qed.

(* ------------------------------------------------------------------------ *)
(* Model against specification, from arbitrary counters: the column is the
   specified column, the line lags by the number of lone CRs consumed.      *)
Lemma model_vs_spec : forall s i lm ls c,
  at_lf s i = false ->
  snd (step_fold (lm, c) (firstn i s)) = snd (linecol_from s i ls c) /\
  fst (step_fold (lm, c) (firstn i s)) + count_lone_cr s i + ls = fst (linecol_from s i ls c) + lm.
Proof.
  induction s as [|ch t IH]; intros i lm ls c H.
  - rewrite firstn_nil, linecol_from_nil, count_lone_nil. cbn. split; [reflexivity|lia].
  - destruct i as [|i'].
    + cbn. split; [reflexivity|lia].
    + rewrite at_lf_S in H.
      cbn [firstn]. rewrite step_fold_cons, step_char_eq.
      cbn [linecol_from count_lone_cr].
      destruct (ch =? LF) eqn:ELF.
      * apply N.eqb_eq in ELF. subst ch. rewrite lf_not_cr. cbn [andb].
        destruct (IH i' (lm + 1) (ls + 1) 1 H) as [A B]. split; [exact A|lia].
      * destruct (ch =? CR) eqn:ECR.
        -- destruct (next_is_lf t) eqn:ENL; cbn [andb negb].
           ++ destruct t as [|ch2 t2]; [discriminate|].
              cbn [next_is_lf] in ENL. apply N.eqb_eq in ENL. subst ch2.
              destruct i' as [|i''].
              ** unfold at_lf in H. cbn in H. discriminate.
              ** destruct (IH (S i'') lm ls 1 H) as [A B].
                 cbn [linecol_from] in *. change (LF =? LF) with true in *. cbn iota in *.
                 split; [exact A|lia].
           ++ destruct (IH i' lm (ls + 1) 1 H) as [A B]. split; [exact A|lia].
        -- cbn [andb]. destruct (IH i' lm ls (c + 1) H) as [A B]. split; [exact A|lia].
Qed.

Lemma pos_column_exact s i :
  at_lf s i = false -> snd (pos_model s i) = snd (linecol s i).
Proof.
  intro H. unfold pos_model, linecol. rewrite pos_init_eq.
  exact (proj1 (model_vs_spec s i 1 1 1 H)).
Qed.

Lemma pos_line_lag s i :
  at_lf s i = false -> fst (pos_model s i) + count_lone_cr s i = fst (linecol s i).
Proof.
  intro H. unfold pos_model, linecol. rewrite pos_init_eq.
  pose proof (proj2 (model_vs_spec s i 1 1 1 H)). lia.
Qed.

Lemma lone_cr_before_false s i : lone_cr_before s i = false <-> count_lone_cr s i = 0.
Proof.
  unfold lone_cr_before. rewrite negb_false_iff. apply N.eqb_eq.
Qed.

(* exact characterisation: the position is right iff no lone CR precedes it *)
Lemma pos_exact_iff s i :
  at_lf s i = false ->
  (pos_model s i = linecol s i <-> lone_cr_before s i = false).
Proof.
  intro H. pose proof (pos_column_exact s i H) as C. pose proof (pos_line_lag s i H) as L.
  rewrite lone_cr_before_false. split.
  - intro E. rewrite E in L. lia.
  - intro Z. rewrite Z in L.
    destruct (pos_model s i) as [a b], (linecol s i) as [a' b']. cbn in *. f_equal; lia.
Qed.

Lemma pos_exact s i :
  lone_cr_before s i = false -> at_lf s i = false -> pos_model s i = linecol s i.
Proof. intros K H. apply pos_exact_iff; assumption. Qed.

Lemma pos_refuted :
  exists s i, at_lf s i = false /\ pos_model s i = (1, 1) /\ linecol s i = (2, 1).
Proof. exists [123; 13; 97; 125], 2%nat. vm_compute. repeat split. Qed.

(* ------------------------------------------------------------------------ *)
(* pest::Position::line_col (syntax errors)                                  *)
Lemma pest_vs_spec : forall s i l c,
  count_lone_cr s i = 0 -> pest_from (firstn i s) l c = linecol_from s i l c.
Proof.
  induction s as [|ch t IH]; intros i l c H.
  - rewrite firstn_nil, linecol_from_nil. reflexivity.
  - destruct i as [|i']; [reflexivity|].
    cbn [firstn]. cbn [count_lone_cr] in H. cbn [linecol_from].
    destruct (ch =? LF) eqn:ELF.
    + apply N.eqb_eq in ELF. subst ch. cbn [pest_from]. rewrite lf_not_cr.
      change (LF =? LF) with true. cbn iota.
      apply IH. rewrite lf_not_cr in H. cbn [andb] in H. lia.
    + destruct (ch =? CR) eqn:ECR.
      * destruct (next_is_lf t) eqn:ENL; cbn [andb negb] in H.
        -- destruct t as [|ch2 t2]; [discriminate|].
           cbn [next_is_lf] in ENL. apply N.eqb_eq in ENL. subst ch2.
           destruct i' as [|i''].
           ++ cbn [firstn pest_from]. rewrite ECR. reflexivity.
           ++ assert (H' : count_lone_cr (LF :: t2) (S i'') = 0) by lia.
              rewrite <- (IH (S i'') l (c + 1) H').
              cbn [firstn pest_from]. rewrite ECR, lf_not_cr.
              change (LF =? LF) with true. cbn iota. reflexivity.
        -- lia.
      * cbn [andb] in H. cbn [pest_from]. rewrite ECR, ELF.
        apply IH. lia.
Qed.

Lemma pest_exact s i : lone_cr_before s i = false -> pest_model s i = linecol s i.
Proof.
  intro K. apply lone_cr_before_false in K. unfold pest_model, linecol.
  apply pest_vs_spec. exact K.
Qed.

Lemma pest_refuted :
  exists s i, pest_model s i = (1, 3) /\ linecol s i = (2, 1).
Proof. exists [123; 13; 37], 2%nat. vm_compute. split; reflexivity. Qed.

(* ------------------------------------------------------------------------ *)
(* The incremental calculator = the fold over the prefix                     *)
Lemma firstn_split : forall (a p : nat) (s : str),
  (a <= p)%nat -> firstn p s = firstn a s ++ firstn (p - a) (skipn a s).
Proof.
  induction a as [|a IH]; intros p s H.
  - cbn. rewrite Nat.sub_0_r. reflexivity.
  - destruct p as [|p]; [lia|]. destruct s as [|x s].
    + cbn. rewrite firstn_nil. reflexivity.
    + cbn [firstn skipn app Nat.sub]. f_equal. apply IH. lia.
Qed.

Lemma skipn_add : forall (a n : nat) (s : str), skipn n (skipn a s) = skipn (a + n) s.
Proof.
  induction a as [|a IH]; intros n s.
  - reflexivity.
  - destruct s as [|x s].
    + cbn. rewrite skipn_nil. reflexivity.
    + cbn [skipn Nat.add]. apply IH.
Qed.

Definition pc_inv (s : str) (st : pcalc) : Prop :=
  pc_rest st = skipn (pc_pos st) s /\ pc_lc st = pos_model s (pc_pos st).

Lemma pc_inv_new s : pc_inv s (pc_new s).
Proof. split; reflexivity. Qed.

Lemma pc_step_ok s st p :
  pc_inv s st -> (pc_pos st <= p)%nat ->
  exists st', pc_step st p = Ok (st', pos_model s p) /\ pc_inv s st' /\ pc_pos st' = p.
Proof.
  intros [R L] H. unfold pc_step.
  destruct (Nat.ltb_spec p (pc_pos st)) as [Hlt|_]; [lia|].
  assert (E : step_fold (pc_lc st) (firstn (p - pc_pos st) (pc_rest st)) = pos_model s p).
  { rewrite R, L. unfold pos_model. rewrite <- step_fold_app, <- firstn_split by exact H. reflexivity. }
  rewrite E. eexists. split; [reflexivity|]. split; [|reflexivity].
  split; cbn.
  - rewrite R, skipn_add. f_equal. lia.
  - reflexivity.
Qed.

Lemma pc_step_panic st p : (p < pc_pos st)%nat -> pc_step st p = Panic.
Proof.
  intro H. unfold pc_step. destruct (Nat.ltb_spec p (pc_pos st)); [reflexivity|lia].
Qed.

Lemma pc_run_ok s : forall ps st,
  pc_inv s st -> nondecr (pc_pos st) ps -> pc_run st ps = Ok (map (pos_model s) ps).
Proof.
  induction ps as [|p l IH]; intros st I N; [reflexivity|].
  destruct N as [N1 N2].
  destruct (pc_step_ok s st p I N1) as [st' [E [I' P]]].
  cbn [pc_run map]. rewrite E. cbn [bindo fst snd].
  rewrite (IH st' I'); [reflexivity|]. rewrite P. exact N2.
Qed.

Lemma pc_run_new s ps : nondecr 0 ps -> pc_run (pc_new s) ps = Ok (map (pos_model s) ps).
Proof. intro N. apply pc_run_ok; [apply pc_inv_new|exact N]. Qed.

(* ------------------------------------------------------------------------ *)
(* the verdict computed per reported position                               *)
Lemma lc_eqb_eq a b : lc_eqb a b = true <-> a = b.
Proof.
  destruct a as [a1 a2], b as [b1 b2]. unfold lc_eqb. cbn.
  rewrite andb_true_iff, !N.eqb_eq. split; [intros [-> ->]; reflexivity|intro E; inversion E; auto].
Qed.

Lemma lc_eqb_refl a : lc_eqb a a = true.
Proof. apply lc_eqb_eq. reflexivity. Qed.

Lemma check_one_sound s i :
  at_lf s i = false ->
  check_one pos_model s (N.of_nat i, pos_model s i) =
  if lone_cr_before s i then 101 else 0.
Proof.
  intro H. unfold check_one. cbn [fst snd]. rewrite Nat2N.id, lc_eqb_refl.
  unfold known_of. destruct (lone_cr_before s i) eqn:K.
  - destruct (lc_eqb (pos_model s i) (linecol s i)) eqn:E.
    + apply lc_eqb_eq in E. apply (pos_exact_iff s i H) in E. congruence.
    + reflexivity.
  - rewrite (pos_exact s i K H), lc_eqb_refl. reflexivity.
Qed.

Lemma check_one_syntax_sound s i :
  lone_cr_before s i = false ->
  check_one pest_model s (N.of_nat i, pest_model s i) = 0.
Proof.
  intro K. unfold check_one. cbn [fst snd]. rewrite Nat2N.id, lc_eqb_refl.
  rewrite (pest_exact s i K), lc_eqb_refl. reflexivity.
Qed.

(* non-vacuity: "#é\r\n\t{\u{feff}a}" — CR LF, tab, BOM and non-ASCII before the token *)
Lemma pos_nonvacuous :
  let s := [35; 233; 13; 10; 9; 123; 65279; 97; 125] in
  lone_cr_before s 7 = false /\ at_lf s 7 = false /\ pos_model s 7 = (2, 4) /\
  nondecr 0 [0; 5; 7; 7]%nat.
Proof. vm_compute. repeat split; lia. Qed.

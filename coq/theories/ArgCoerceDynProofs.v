(* ArgCoerceDynProofs.v — C06, dynamic flavour: proofs about ArgCoerceDyn.v. *)
From AG Require Import Base ArgCoerce ArgCoerceProofs ArgCoerceDyn.
Open Scope Z_scope.

Lemma route_dyn env d lit : dyn_arg env d lit = option_map snd (route env d lit).
Proof.
  unfold dyn_arg, route. destruct lit as [l|]; [|destruct d as [[dc dt]|]; reflexivity].
  destruct (subst env l); cbn [erase is_absent option_map snd]; try reflexivity.
  destruct d as [[dc dt]|]; reflexivity.
Qed.

Lemma route_spec vds env t d lit :
  match lit with Some l => vars_defined vds l | None => true end = true ->
  spec_arg vds env t d lit = routed_spec t (route env d lit).
Proof.
  unfold spec_arg, route, routed_spec. destruct lit as [l|]; intro H.
  - rewrite H. cbn [negb]. destruct (is_absent (subst env l)); [|reflexivity].
    destruct d as [[dc dt]|]; reflexivity.
  - destruct d as [[dc dt]|]; reflexivity.
Qed.

Lemma spec_arg_ok_defined vds env t d l a :
  spec_arg vds env t d (Some l) = Ok a -> vars_defined vds l = true.
Proof. unfold spec_arg. destruct (vars_defined vds l); [reflexivity|discriminate]. Qed.

(* one argument: presence, default and value are the specified ones *)
Lemma dyn_arg_exact vds env t d lit a :
  spec_arg vds env t d lit = Ok a ->
  shape_dev t (route env d lit) = 0%N ->
  raw_eqv (dyn_arg env d lit) (raw_of a) = true.
Proof.
  intros Hs Hd.
  assert (Hdef : match lit with Some l => vars_defined vds l | None => true end = true).
  { destruct lit as [l|]; [exact (spec_arg_ok_defined _ _ _ _ _ _ Hs)|reflexivity]. }
  rewrite (route_spec vds env t d lit Hdef) in Hs. rewrite route_dyn.
  unfold shape_dev in Hd. rewrite Hs in Hd.
  destruct (raw_eqv (option_map snd (route env d lit)) (raw_of a)); [reflexivity|discriminate].
Qed.

Lemma dyn_args_exact vds env args : forall sig l,
  args_with (spec_arg vds env) sig args = Ok l ->
  shape_devs env sig args = 0%N ->
  rawlist_eqv (dyn_args env sig args) (map (fun kv => (fst kv, raw_of (snd kv))) l) = true.
Proof.
  induction sig as [|n t d rest IH]; cbn [args_with shape_devs dyn_args]; intros l H Hd.
  - injection H as <-. reflexivity.
  - destruct (spec_arg vds env t d (assoc n args)) as [a| | |] eqn:Ea; cbn [bindo] in H; try discriminate.
    destruct (args_with (spec_arg vds env) rest args) as [r| | |] eqn:Er; cbn [bindo] in H; try discriminate.
    injection H as <-. apply first_nz_0 in Hd. destruct Hd as [Hd1 Hd2].
    cbn [map rawlist_eqv fst snd]. rewrite name_eqb_refl, (dyn_arg_exact vds env t d _ a Ea Hd1), (IH r eq_refl Hd2).
    reflexivity.
Qed.

(* every written argument of a statically valid request whose coercion succeeds has defined variables *)
Lemma args_with_hits f sig args r :
  args_with f sig args = Ok r ->
  forall k, fmem k sig = true -> exists t d a, f t d (assoc k args) = Ok a.
Proof.
  revert r. induction sig as [|n t d rest IH]; cbn [args_with fmem]; intros r H k Hk; [discriminate|].
  destruct (f t d (assoc n args)) as [a| | |] eqn:Ea; cbn [bindo] in H; try discriminate.
  destruct (args_with f rest args) as [r'| | |] eqn:Er; cbn [bindo] in H; try discriminate.
  destruct (name_eqb k n) eqn:E.
  - apply name_eqb_eq in E. subst k. eauto.
  - exact (IH r' eq_refl k Hk).
Qed.

Lemma flookup_fmem k sig : (exists p, flookup k sig = Some p) -> fmem k sig = true.
Proof.
  induction sig as [|n t d rest IH]; cbn [flookup fmem]; intros [p H]; [discriminate|].
  destruct (name_eqb k n); [reflexivity|]. apply IH. eauto.
Qed.

Lemma assoc_nodup_in (args : list (name * ival)) :
  nodup_names (map fst args) = true ->
  forall k l, In (k, l) args -> assoc k args = Some l.
Proof.
  induction args as [|[k' l'] r IH]; cbn [map fst nodup_names assoc]; intros H k l Hin; [destruct Hin|].
  apply andb_prop in H. destruct H as [Hk Hr]. apply negb_true_iff in Hk.
  destruct Hin as [E|Hin].
  - injection E as -> ->. rewrite name_eqb_refl. reflexivity.
  - destruct (name_eqb k k') eqn:E; [|exact (IH Hr k l Hin)].
    apply name_eqb_eq in E. subst k'. exfalso.
    assert (mem k (map fst r) = true).
    { apply mem_In. apply in_map_iff. exists (k, l). split; [reflexivity|exact Hin]. }
    congruence.
Qed.

(* whole request, fast mode: outside the two dynamic classes the resolver's
   ctx.args are exactly the specified argument values (presence, defaults, values) *)
Theorem dyn_exact sig args vds vars :
  nodup_args args = true ->
  static_ok sig args vds = true ->
  dyn_known sig args vds vars = 0%N ->
  dres_eqv (dyn_request sig args vds vars false) (spec_raw sig args vds vars) = true.
Proof.
  intros Hnd Hst Hk. unfold dyn_known in Hk. unfold spec_raw.
  destruct (spec_request sig args vds vars) as [l| | |] eqn:Es; try discriminate.
  unfold spec_request in Es. rewrite Hst in Es. cbn [negb] in Es.
  destruct (forallb (var_ok vars) vds); cbn [negb] in Es; [|discriminate].
  unfold dyn_request. cbn [andb].
  assert (Hdef : forallb (fun kv : name * ival => vars_defined vds (snd kv)) args = true).
  { apply forallb_forall. intros [k lit] Hin. cbn [snd].
    unfold static_ok in Hst. rewrite forallb_forall in Hst. specialize (Hst (k, lit) Hin). cbn [fst snd] in Hst.
    assert (Hm : fmem k sig = true).
    { apply flookup_fmem. destruct (flookup k sig); [eauto|discriminate]. }
    destruct (args_with_hits _ _ _ _ Es k Hm) as [t [d [a Ha]]].
    rewrite (assoc_nodup_in args Hnd k lit Hin) in Ha.
    exact (spec_arg_ok_defined _ _ _ _ _ _ Ha). }
  rewrite Hdef. cbn [negb dres_eqv].
  apply (dyn_args_exact vds); assumption.
Qed.

Theorem dyn_sound sig args vds vars strict r :
  nodup_args args = true ->
  static_ok sig args vds = true ->
  dyn_known sig args vds vars = 0%N ->
  dyn_request sig args vds vars strict = Ok r ->
  exists l, spec_request sig args vds vars = Ok l /\
            rawlist_eqv r (map (fun kv => (fst kv, raw_of (snd kv))) l) = true.
Proof.
  intros Hnd Hst Hk H. pose proof (dyn_exact sig args vds vars Hnd Hst Hk) as E.
  unfold dyn_request in *. destruct (strict && negb (strict_ok sig args vds vars)); [discriminate|].
  cbn [andb] in E.
  destruct (negb (forallb (fun kv : name * ival => vars_defined vds (snd kv)) args)); [discriminate|].
  injection H as <-. unfold spec_raw in E.
  destruct (spec_request sig args vds vars) as [l| | |]; cbn [dres_eqv] in E; try discriminate.
  exists l. split; [reflexivity|exact E].
Qed.

(* ------------------------------------------------------------- witnesses *)
Local Open Scope N_scope.
(* add(a: Int = 7, b: Int = 9);  query($x: Int) { add(a: $x, b: 1) }  no variables *)
Definition dw_add := FCons 10 (RMaybe RInt) (Some (XInt 7, TInt 7)) (FCons 12 (RMaybe RInt) (Some (XInt 9, TInt 9)) FNil).
Definition dw_add_args := [(10, IVar 11); (12, IInt 1)].
Definition dw_vds : list vdef := [(11, RMaybe RInt, None)].

Lemma dyn_nonvacuous :
  wf_case dw_add dw_add_args dw_vds [] = true /\ nodup_args dw_add_args = true /\
  static_ok dw_add dw_add_args dw_vds = true /\ dyn_known dw_add dw_add_args dw_vds [] = 0 /\
  dyn_request dw_add dw_add_args dw_vds [] true = Ok [(10, Some (XInt 7)); (12, Some (XInt 1))].
Proof. vm_compute. repeat split; reflexivity. Qed.

(* { li(a: 1) }  li(a: [Int]) : the resolver holds 1, the specification says [1];
   { obj(a: {x: 1}) } with  input Inp { x: Int!  y: Int = 7 } : no y *)
Definition dw_li := FCons 10 (RMaybe (RVec (RMaybe RInt))) None FNil.
Definition dw_obj := FCons 10 (RMaybe (RObj 30 (FCons 31 RInt None (FCons 32 (RMaybe RInt) (Some (XInt 7, TInt 7)) FNil)))) None FNil.

Lemma dyn_refuted_shape :
  (wf_case dw_li [(10, IInt 1)] [] [] = true /\ static_ok dw_li [(10, IInt 1)] [] = true /\
   dyn_known dw_li [(10, IInt 1)] [] [] = DK_SHAPE /\
   dyn_request dw_li [(10, IInt 1)] [] [] true = Ok [(10, Some (XInt 1))] /\
   spec_raw dw_li [(10, IInt 1)] [] [] = Ok [(10, Some (XList [XInt 1]))]) /\
  (wf_case dw_obj [(10, IObj [(31, IInt 1)])] [] [] = true /\ static_ok dw_obj [(10, IObj [(31, IInt 1)])] [] = true /\
   dyn_known dw_obj [(10, IObj [(31, IInt 1)])] [] [] = DK_SHAPE /\
   dyn_request dw_obj [(10, IObj [(31, IInt 1)])] [] [] true = Ok [(10, Some (XObj [(31, XInt 1)]))] /\
   spec_raw dw_obj [(10, IObj [(31, IInt 1)])] [] [] = Ok [(10, Some (XObj [(31, XInt 1); (32, XInt 7)]))]).
Proof. vm_compute. repeat split; reflexivity. Qed.

(* { i(a: 2147483648) } ;  query($u: Int) { obj(a: {x: "s", y: $u}) }  — strict mode *)
Definition dw_i := FCons 10 (RMaybe RInt) None FNil.
Definition dw_bad_args := [(10, IObj [(31, IStr 77); (32, IVar 11)])].

Lemma dyn_refuted_invalid :
  (wf_case dw_i [(10, IInt 2147483648)] [] [] = true /\ static_ok dw_i [(10, IInt 2147483648)] [] = true /\
   dyn_known dw_i [(10, IInt 2147483648)] [] [] = DK_INVALID /\
   dyn_request dw_i [(10, IInt 2147483648)] [] [] true = Ok [(10, Some (XInt 2147483648))] /\
   spec_raw dw_i [(10, IInt 2147483648)] [] [] = Err 0) /\
  (wf_case dw_obj dw_bad_args dw_vds [] = true /\ static_ok dw_obj dw_bad_args dw_vds = true /\
   dyn_known dw_obj dw_bad_args dw_vds [] = DK_INVALID /\
   dyn_request dw_obj dw_bad_args dw_vds [] true = Ok [(10, Some (XObj [(31, XStr false 77)]))] /\
   spec_raw dw_obj dw_bad_args dw_vds [] = Err 0).
Proof. vm_compute. repeat split; reflexivity. Qed.
